#!/bin/bash
# Run every property's thorough check once (seed from VERIF_SEED, default 1) and summarise.
cd "$(dirname "$0")"
for i in $(seq -w 1 17); do
  s=$(date +%s)
  out=$(./check C$i thorough 2>&1); rc=$?
  e=$(date +%s)
  echo "C$i rc=$rc $((e-s))s $(echo "$out" | grep -c '^VIOLATION') violation lines; $(echo "$out" | grep '^VIOLATION' | head -1)"
  echo "$out" | grep -E '^  ' | head -3
done
echo ALL-DONE
