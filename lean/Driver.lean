import Tau.Rule
import Tau.Trace
import Tau.Safe
/-
  Driver — line protocol between the Rust harness and the executable model.
  One request per line, one reply per line. Strings travel as `s:<hex of UTF-8>`.
  Imports only `Tau.*` model files (no Mathlib), so it links as a `lean_exe`.
-/
open Tau

/-! ### S-expressions -/

inductive Sx where
  | atom (s : String)
  | list (xs : List Sx)
  deriving Repr, Inhabited

partial def parseSxList (toks : List String) (acc : List Sx) : Option (List Sx × List String) :=
  match toks with
  | [] => some (acc.reverse, [])
  | ")" :: rest => some (acc.reverse, ")" :: rest)
  | "(" :: rest =>
    match parseSxList rest [] with
    | some (xs, ")" :: rest') => parseSxList rest' (.list xs :: acc)
    | _ => none
  | t :: rest => parseSxList rest (.atom t :: acc)

def parseSx (line : String) : Option (List Sx) :=
  let spaced := (line.replace "(" " ( ").replace ")" " ) "
  let toks := (spaced.splitOn " ").filter (· ≠ "")
  match parseSxList toks [] with
  | some (xs, []) => some xs
  | _ => none

/-! ### hex -/

def hexVal (c : Char) : Option Nat :=
  if '0' ≤ c ∧ c ≤ '9' then some (c.toNat - '0'.toNat)
  else if 'a' ≤ c ∧ c ≤ 'f' then some (c.toNat - 'a'.toNat + 10)
  else none

partial def hexBytes (cs : List Char) (acc : ByteArray) : Option ByteArray :=
  match cs with
  | [] => some acc
  | a :: b :: rest =>
    match hexVal a, hexVal b with
    | some x, some y => hexBytes rest (acc.push (UInt8.ofNat (x * 16 + y)))
    | _, _ => none
  | _ => none

def decodeStr (atom : String) : Option Str :=
  if atom.startsWith "s:" then
    match hexBytes (atom.drop 2).toString.toList ByteArray.empty with
    | some bytes => (String.fromUTF8? bytes).map String.toList
    | none => none
  else none

def hexDigit (n : Nat) : Char := if n < 10 then Char.ofNat (48 + n) else Char.ofNat (87 + n)

def encodeStr (s : Str) : String :=
  let bytes := (String.ofList s).toUTF8
  "s:" ++ String.ofList (bytes.toList.flatMap (fun b => [hexDigit (b.toNat / 16), hexDigit (b.toNat % 16)]))

/-! ### decoding requests -/

def decBool : Sx → Option Bool
  | .atom "true" => some true
  | .atom "false" => some false
  | _ => none

def decNat : Sx → Option Nat
  | .atom s => s.toNat?
  | _ => none

def decInt : Sx → Option Int
  | .atom s => s.toInt?
  | _ => none

def decStr : Sx → Option Str
  | .atom s => decodeStr s
  | _ => none

partial def decYaml : Sx → Option Yaml
  | .atom "null" => some .null
  | .atom "true" => some (.bool true)
  | .atom "false" => some (.bool false)
  | .atom "tagged" => some (.tagged .null)
  | .atom s => (decodeStr s).map .str
  | .list [.atom "tagged", y] => (decYaml y).map .tagged
  | .list [.atom "i", n] => (decInt n).map (fun i => .num (.int i))
  | .list [.atom "big", n, b, s] => do
    let n ← decNat n; let b ← decNat b; let s ← decStr s
    pure (.num (.big n b s))
  | .list [.atom "f", b, s] => do
    let b ← decNat b; let s ← decStr s
    pure (.num (.flt b s))
  | .list (.atom "seq" :: xs) => (xs.mapM decYaml).map .seq
  | .list (.atom "map" :: kvs) =>
    (kvs.mapM (fun (kv : Sx) => match kv with
      | Sx.list [.atom "kv", k, v] => do
        let k ← decYaml k; let v ← decYaml v
        pure (k, v)
      | _ => none)).map .map
  | _ => none

partial def decValue : Sx → Option Value
  | .atom "null" => some .null
  | .atom "true" => some (.bool true)
  | .atom "false" => some (.bool false)
  | .atom s => (decodeStr s).map .str
  | .list [.atom "i", n] => (decInt n).map .int
  | .list [.atom "u", n] => (decNat n).map .uint
  | .list [.atom "f", b, s] => do
    let b ← decNat b; let s ← decStr s
    pure (.flt b s)
  | .list (.atom "arr" :: xs) => (xs.mapM decValue).map .arr
  | .list (.atom "obj" :: kvs) =>
    (kvs.mapM (fun (kv : Sx) => match kv with
      | Sx.list [.atom "kv", k, v] => do
        let k ← decStr k; let v ← decValue v
        pure (k, v)
      | _ => none)).map .obj
  | _ => none

/-- Regex oracle table: `(re s:pat ci compiles (h s:hay bool)...)`. -/
structure ReEntry where
  pat : Str
  ci : Bool
  compiles : Bool
  hays : List (Str × Bool)

def decOracle : Sx → Option (List ReEntry)
  | .list (.atom "regex" :: es) =>
    es.mapM (fun e => match e with
      | .list (.atom "re" :: p :: ci :: c :: hs) => do
        let p ← decStr p; let ci ← decBool ci; let c ← decBool c
        let hs ← hs.mapM (fun h => match h with
          | .list [.atom "h", s, b] => do
            let s ← decStr s; let b ← decBool b
            pure (s, b)
          | _ => none)
        pure { pat := p, ci := ci, compiles := c, hays := hs }
      | _ => none)
  | _ => none

def oracleEngine (tbl : List ReEntry) : RegexEngine :=
  { compiles := fun p ci =>
      match tbl.find? (fun e => e.pat == p && e.ci == ci) with
      | some e => e.compiles
      | none => false
    isMatch := fun p ci h =>
      match tbl.find? (fun e => e.pat == p && e.ci == ci) with
      | some e => (match e.hays.find? (fun x => x.1 == h) with | some x => x.2 | none => false)
      | none => false }

/-! ### canonical printing -/

def opName : BoolSym → String
  | .and => "and" | .eq => "eq" | .gt => "gt" | .ge => "ge" | .lt => "lt" | .le => "le" | .or => "or"

def modName : ModSym → String
  | .flt => "flt" | .int => "int" | .not => "not" | .str => "str"

def mtSx : MatchType → String
  | .contains s => s!"(c {encodeStr s})"
  | .endsWith s => s!"(e {encodeStr s})"
  | .exact s => s!"(x {encodeStr s})"
  | .startsWith s => s!"(s {encodeStr s})"

def searchSx : Search → String
  | .ac ctx ci => s!"(ac {ci} {" ".intercalate (ctx.map mtSx)})"
  | .any => "any"
  | .contains s => s!"(contains {encodeStr s})"
  | .endsWith s => s!"(ends {encodeStr s})"
  | .exact s => s!"(exact {encodeStr s})"
  | .regex p ci => s!"(regex {ci} {encodeStr p})"
  | .regexSet ps ci => s!"(rset {ci} {" ".intercalate (ps.map encodeStr)})"
  | .startsWith s => s!"(starts {encodeStr s})"

partial def exprSx : Expr → String
  | .group op es => s!"(g {opName op} {" ".intercalate (es.map exprSx)})"
  | .bin l op r => s!"(b {opName op} {exprSx l} {exprSx r})"
  | .bool b => s!"(bool {b})"
  | .cast f m => s!"(cast {encodeStr f} {modName m})"
  | .field f => s!"(field {encodeStr f})"
  | .float b => s!"(float {b})"
  | .ident n => s!"(id {encodeStr n})"
  | .int i => s!"(int {i})"
  | .match .all e => s!"(all {exprSx e})"
  | .match (.of n) e => s!"(of {n} {exprSx e})"
  | .matrix cols rows =>
    let rowSx (r : List (Option Expr)) : String :=
      "(row " ++ " ".intercalate (r.map (fun c => match c with | some e => exprSx e | none => "_")) ++ ")"
    s!"(matrix (cols {" ".intercalate (cols.map encodeStr)}) {" ".intercalate (rows.map rowSx)})"
  | .negate e => s!"(not {exprSx e})"
  | .nested f e => s!"(nested {encodeStr f} {exprSx e})"
  | .null => "null"
  | .search s f c => s!"(search {searchSx s} {encodeStr f} {c})"

def tokSx : Token → String
  | .comma => "comma" | .lparen => "lparen" | .rparen => "rparen"
  | .float b => s!"(float {b})"
  | .ident s => s!"(id {encodeStr s})"
  | .int i => s!"(int {i})"
  | .op o => s!"(op {opName o})"
  | .modifier m => s!"(mod {modName m})"
  | .miscNot => "not"
  | .matchAll => "all"
  | .matchOf => "of"

def errName : Err → String
  | .tokInvalidChar => "TokInvalidChar"
  | .tokInvalidNum => "TokInvalidNum"
  | .parseInvalidIdent => "ParseInvalidIdent"
  | .parseInvalidExpr => "ParseInvalidExpr"
  | .parseInvalidToken => "ParseInvalidToken"
  | .parseLedFollowing => "ParseLedFollowing"
  | .parseLedPreceding => "ParseLedPreceding"
  | .rule why => s!"Rule:{why}"
  | .panic site => s!"PANIC:{site}"
  | .unsupported why => s!"unsupported:{why}"

def triName : Tri → String
  | .t => "T" | .f => "F" | .m => "M"

def strCmpLt (a b : Str) : Bool := strCmp a b == .lt

def sortIds (ids : Ids) : Ids := stableSort (fun a b => strLe a.1 b.1) ids

def idsSx (ids : Ids) : String :=
  "(" ++ " ".intercalate ((sortIds ids).map (fun (k, e) => s!"({encodeStr k} {exprSx e})")) ++ ")"

/-! ### support checks (characters outside the class table, DESIGN §4.3) -/

partial def yamlStrings : Yaml → List Str
  | .str s => [s]
  | .seq xs => xs.flatMap yamlStrings
  | .map kvs => kvs.flatMap (fun (k, v) => yamlStrings k ++ yamlStrings v)
  | _ => []

/-! ### request handlers -/

def handleTok (s : Str) : String :=
  if !supportedStr s then "unsupported" else
  match tokenise s with
  | .ok ts => "ok " ++ " ".intercalate (ts.map tokSx)
  | .error e => "err " ++ errName e

def handleCond (s : Str) : String :=
  if !supportedStr s then "unsupported" else
  match tokenise s with
  | .error e => "err " ++ errName e
  | .ok ts =>
    match parse ts with
    | .ok e => "ok " ++ exprSx e
    | .error e => "err " ++ errName e

def patSx (i : Ident) : String :=
  let p := match i.pat with
    | .any => "any"
    | .contains s => s!"(contains {encodeStr s})"
    | .endsWith s => s!"(ends {encodeStr s})"
    | .exact s => s!"(exact {encodeStr s})"
    | .startsWith s => s!"(starts {encodeStr s})"
    | .regex p => s!"(regex {encodeStr p})"
    | .cmpI op n => s!"(cmpi {opName op} {n})"
    | .cmpF op b => s!"(cmpf {opName op} {b})"
  s!"{i.ci} {p}"

def handlePat (ic : Bool) (s : Str) (E : RegexEngine) : String :=
  match intoIdentifier E ic s with
  | .ok i => "ok " ++ patSx i
  | .error e => "err " ++ errName e

def handleIdent (ic : Bool) (y : Yaml) (E : RegexEngine) : String :=
  if !(yamlStrings y).all supportedStr then "unsupported" else
  match parseIdentifier E ic y with
  | .ok e => "ok " ++ exprSx e
  | .error e => "err " ++ errName e

partial def valueSx : Value → String
  | .null => "null"
  | .bool b => s!"{b}"
  | .flt b _ => s!"(f {b})"
  | .int i => s!"(i {i})"
  | .uint n => s!"(u {n})"
  | .str s => encodeStr s
  | .arr xs => "(arr " ++ " ".intercalate (xs.map valueSx) ++ ")"
  | .obj kvs => "(obj " ++ " ".intercalate (kvs.map (fun (k, v) => s!"(kv {encodeStr k} {valueSx v})")) ++ ")"

def optSx (v : Option Value) : String :=
  match v with
  | none => "none"
  | some v => valueSx v

def handleFind (doc : Value) (key : Str) : String :=
  match doc with
  | .obj kvs => optSx (objFind kvs key)
  | _ => "none"

/-- The full pipeline for one rule and a list of documents. -/
def handleCase (ic : Bool) (src : RuleSrc) (docs : List Value) (masks : List Nat) (E : RegexEngine) : String :=
  let strs := src.det.flatMap (fun (k, v) => k :: yamlStrings v)
  if !strs.all supportedStr then "unsupported" else
  match loadRule E ic src with
  | .error e => "load=err " ++ errName e
  | .ok r =>
    -- a reachable panic site of the solver (unreachable!(), undefined identifier, cache index)
    let anyHit := masks.any (fun m =>
      let o := if m == 0 then r else r.optimise E (Switches.ofMask m)
      docs.any (fun dv => match dv with
        | .obj kvs => hitsTop E o.det.ids (.obj kvs) o.det.expr
        | _ => false))
    if anyHit then "PANIC model: evaluation reaches a panic site of the solver" else
    let head := s!"load=ok ; expr={exprSx r.det.expr} ; ids={idsSx r.det.ids}"
    let perMask := masks.map (fun m =>
      let o := if m == 0 then r else r.optimise E (Switches.ofMask m)
      let tree := s!"opt{m}={exprSx o.det.expr} {idsSx o.det.ids}"
      let perDoc := docs.map (fun dv =>
        match dv with
        | .obj kvs =>
          let d := Doc.obj kvs
          let res := o.solve E d
          let tr := traceTop E o.det.ids d o.det.expr
          s!"{triName res}[{",".intercalate (tr.map encodeStr)}]"
        | _ => "baddoc")
      let (ftp, ftn) := o.validateFailures E
      tree ++ s!" ; res{m}=" ++ " ".intercalate perDoc ++ s!" ; val{m}=tp{ftp}tn{ftn}")
    head ++ " ; " ++ " ; ".intercalate perMask

def decRuleSrc : Sx → Option RuleSrc
  | .list [.atom "rule", opt, .list (.atom "det" :: kvs), .list (.atom "tp" :: tps), .list (.atom "tn" :: tns)] => do
    let opt ← decBool opt
    let det ← kvs.mapM (fun kv => match kv with
      | .list [.atom "kv", k, v] => do
        let k ← decStr k; let v ← decYaml v
        pure (k, v)
      | _ => none)
    let tps ← tps.mapM decYaml
    let tns ← tns.mapM decYaml
    pure { optimised := opt, det := det, tps := tps, tns := tns }
  | _ => none

def handle (line : String) : String :=
  match parseSx line with
  | none => "bad-request"
  | some sx =>
    match sx with
    | [.atom "tok", s] => (match decStr s with | some s => handleTok s | none => "bad-request")
    | [.atom "cond", s] => (match decStr s with | some s => handleCond s | none => "bad-request")
    | [.atom "pat", ic, s, o] =>
      (match decBool ic, decStr s, decOracle o with
       | some ic, some s, some o => handlePat ic s (oracleEngine o)
       | _, _, _ => "bad-request")
    | [.atom "ident", ic, y, o] =>
      (match decBool ic, decYaml y, decOracle o with
       | some ic, some y, some o => handleIdent ic y (oracleEngine o)
       | _, _, _ => "bad-request")
    | [.atom "find", d, k] =>
      (match decValue d, decStr k with
       | some d, some k => handleFind d k
       | _, _ => "bad-request")
    | [.atom "case", ic, r, .list (.atom "docs" :: ds), .list (.atom "masks" :: ms), o] =>
      (match decBool ic, decRuleSrc r, ds.mapM decValue, ms.mapM decNat, decOracle o with
       | some ic, some r, some ds, some ms, some o => handleCase ic r ds ms (oracleEngine o)
       | _, _, _, _, _ => "bad-request")
    | _ => "bad-request"

partial def loop (hin hout : IO.FS.Stream) : IO Unit := do
  let line ← hin.getLine
  if line.isEmpty then return ()
  let reply := handle line.trimAscii.toString
  hout.putStrLn reply
  hout.flush
  loop hin hout

def main : IO Unit := do
  loop (← IO.getStdin) (← IO.getStdout)
