#!/usr/bin/env python3
"""Regenerate obligations.json: every `theorem` declared in Tau/Properties/Cnn.lean (namespace Tau.Cnn)."""
import json, os, re
root = os.path.dirname(os.path.abspath(__file__))
out = {}
for i in range(1, 18):
    p = "C%02d" % i
    path = os.path.join(root, "Tau", "Properties", p + ".lean")
    names = []
    if os.path.exists(path):
        src = open(path).read()
        src = re.sub(r"/-.*?-/", "", src, flags=re.S)
        for m in re.finditer(r"^theorem\s+([A-Za-z0-9_'.?!]+)", src, flags=re.M):
            names.append("Tau.%s.%s" % (p, m.group(1)))
    out[p] = names
json.dump(out, open(os.path.join(root, "obligations.json"), "w"), indent=1)
print({k: len(v) for k, v in out.items()})
