import Tau.Mapping
import Tau.Solver
import Tau.Optimiser
/-
  Tau.Rule — model of rule.rs: the `Detection` visitor (load), `Rule::optimise`, `matches`,
  `validate`, and what `Serialize` emits.
-/
namespace Tau

/-- `rule::Detection`. -/
structure Detection where
  expr : Expr
  ids : Ids
  condRaw : Str
  idsRaw : List (Str × Yaml)
  deriving Repr, Inhabited

/-- `rule::Rule`. -/
structure Rule where
  optimised : Bool
  det : Detection
  tps : List Yaml
  tns : List Yaml
  deriving Repr, Inhabited

/-- The identifier-existence scan (rule.rs:104-125): an identifier token two places after a
    modifier token is a field and is skipped. -/
def identsPresent (ids : Ids) (tokens : List Token) : Bool :=
  (List.range tokens.length).all (fun i =>
    let skipped := i > 1 && (match tokens[i - 2]? with | some (.modifier _) => true | _ => false)
    skipped ||
      (match tokens[i]? with
       | some (.ident id) => (lookupId ids id).isSome
       | _ => true))

/-- The reserved key of the detection block. -/
def condKey : Str := "condition".toList

/-- Accumulator of the visitor loop. -/
structure LoadSt where
  ids : Ids := []
  idsRaw : List (Str × Yaml) := []
  cond : Option Str := none

/-- The text of a YAML scalar as the `Scalar` helper of rule.rs reads it (condition and identifier
    names: any scalar is taken by its text, so that text and `Value` routes agree). -/
def scalarYamlText : Yaml → Option Str
  | .str s => some s
  | .bool b => some (if b then "true".toList else "false".toList)
  | .null => some "null".toList
  | .num (.int i) => some (intToStr i)
  | .num (.big n _ _) => some (natToStr n)
  | .num (.flt _ shown) => some shown
  | _ => none

/-- The `while let Some(key) = map.next_key()` loop (rule.rs:60-88), entries in document order. -/
def loadEntries (E : RegexEngine) (ic : Bool) : List (Str × Yaml) → LoadSt → Except Err LoadSt
  | [], st => .ok st
  | (key, v) :: rest, st =>
    if key == condKey then
      if st.cond.isSome then .error (.rule "duplicate") else
      match scalarYamlText v with
      | some s => loadEntries E ic rest { st with cond := some s }
      | none => .error (.rule "condition-type")
    else
      if (lookupId st.ids key).isSome then .error (.rule "duplicate") else
      match parseIdentifier E ic v with
      | .error _ => .error (.rule "identifier")
      | .ok e => loadEntries E ic rest { st with ids := st.ids ++ [(key, e)], idsRaw := st.idsRaw ++ [(key, v)] }

/-- `Detection::deserialize` (rule.rs:42-153). -/
def loadDetection (E : RegexEngine) (ic : Bool) (entries : List (Str × Yaml)) : Except Err Detection :=
  match loadEntries E ic entries {} with
  | .error e => .error e
  | .ok st =>
    match st.cond with
    | none => .error (.rule "missing-condition")
    | some raw =>
      match tokenise raw with
      | .error _ => .error (.rule "tokenise")
      | .ok tokens =>
        if !identsPresent st.ids tokens then .error (.rule "identifier-not-found") else
        match parse tokens with
        | .error _ => .error (.rule "parse")
        | .ok e =>
          if !e.isSolvable then .error (.rule "not-solvable")
          else .ok { expr := e, ids := st.ids, condRaw := raw, idsRaw := st.idsRaw }

/-- Source form of a rule as the loader receives it. -/
structure RuleSrc where
  optimised : Bool := false
  det : List (Str × Yaml)
  tps : List Yaml
  tns : List Yaml
  deriving Repr, Inhabited

/-- `Rule::from_value` / `from_str` after serde_yaml has produced the value. -/
def loadRule (E : RegexEngine) (ic : Bool) (src : RuleSrc) : Except Err Rule :=
  match loadDetection E ic src.det with
  | .error e => .error e
  | .ok d => .ok { optimised := src.optimised, det := d, tps := src.tps, tns := src.tns }

/-- `Rule::optimise` (rule.rs:487). -/
def Rule.optimise (E : RegexEngine) (sw : Switches) (r : Rule) : Rule :=
  if r.optimised then r else
  let (e, ids) := optimiseTree E sw r.det.ids r.det.expr
  { r with optimised := true, det := { r.det with expr := e, ids := ids } }

/-- `Rule::matches` on a document. -/
def Rule.solve (E : RegexEngine) (r : Rule) (d : Doc) : Tri := solveTop E r.det.ids d r.det.expr
def Rule.matches (E : RegexEngine) (r : Rule) (d : Doc) : Bool := (r.solve E d).isT

/-! ### YAML documents (yaml.rs) -/

mutual
/-- `impl AsValue for Yaml` (yaml.rs:9). Non-string mapping keys are unreachable through `get`. -/
def yamlToValue : Yaml → Value
  | .null => .null
  | .bool b => .bool b
  | .num (.int i) => if i ≥ 0 then .uint i.toNat else .int i
  | .num (.big n _ _) => .uint n
  | .num (.flt b s) => .flt b s
  | .str s => .str s
  | .seq xs => .arr (yamlListToValues xs)
  | .map kvs => .obj (yamlMapToFields kvs)
  | .tagged y => yamlToValue y
def yamlListToValues : List Yaml → List Value
  | [] => []
  | x :: xs => yamlToValue x :: yamlListToValues xs
def yamlMapToFields : List (Yaml × Yaml) → List (Str × Value)
  | [] => []
  | p :: rest =>
    match yamlPairToField p with
    | some kv => kv :: yamlMapToFields rest
    | none => yamlMapToFields rest
def yamlPairToField : Yaml × Yaml → Option (Str × Value)
  | (k, v) =>
    match k with
    | .str s => some (s, yamlToValue v)
    | _ => none
end

/-- `test.as_mapping()` as a document. -/
def yamlDoc? : Yaml → Option Doc
  | .map kvs => some (.obj (yamlMapToFields kvs))
  | .tagged y => yamlDoc? y          -- `Value::as_mapping` looks through tags (`untag_ref`)
  | _ => none

/-! ### validate (rule.rs:534, after the non-mapping repair) -/

/-- Indices of the failing true positives and true negatives. -/
def Rule.validateFailures (E : RegexEngine) (r : Rule) : List Nat × List Nat :=
  let tp := (List.range r.tps.length).filter (fun i =>
    match r.tps[i]? with
    | some y => (match yamlDoc? y with | some d => !r.matches E d | none => true)
    | none => false)
  let tn := (List.range r.tns.length).filter (fun i =>
    match r.tns[i]? with
    | some y => (match yamlDoc? y with | some d => r.matches E d | none => true)
    | none => false)
  (tp, tn)

/-- `validate()` returns `Ok(true)` iff nothing failed. -/
def Rule.validateOk (E : RegexEngine) (r : Rule) : Bool :=
  let (a, b) := r.validateFailures E
  a.isEmpty && b.isEmpty

/-! ### Serialisation (rule.rs:18-31, 456-464) -/

/-- What `Serialize` emits for a rule: the raw condition and raw identifiers, verbatim, in some
    order `ord` of the identifiers (the raw map is a `HashMap`). -/
def Rule.serialise (r : Rule) (ord : List (Str × Yaml)) : RuleSrc :=
  { optimised := r.optimised
    det := (condKey, .str r.det.condRaw) :: ord
    tps := r.tps, tns := r.tns }

end Tau
