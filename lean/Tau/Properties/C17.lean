import Tau.Properties.C06
import Tau.Properties.C07
import Tau.Proofs.Batch
/-
  C17 — Order of operands never decides whether and/or is true.
-/
namespace Tau.C17
open Tau

/-- Reordering the operands of a grouped `or` (a sequence of mappings, a list of members that
    stayed separate) does not change its three-valued result at all. -/
theorem or_group_perm (E : RegexEngine) (K : IdentK) (d : Doc) {es es' : List Expr} (h : es.Perm es') :
    solveG E K d (.group .or es) = solveG E K d (.group .or es') := by
  rw [C06.solve_group_or, C06.solve_group_or]
  exact Tri.or_perm (h.map _)

/-- Reordering the operands of a grouped `and` (the entries of a mapping) never changes whether it
    is true. (Which of false/missing it is when not true may change: that is why the property
    excludes positions under a negation.) -/
theorem and_group_perm_truth (E : RegexEngine) (K : IdentK) (d : Doc) {es es' : List Expr} (h : es.Perm es') :
    (solveG E K d (.group .and es) = .t) ↔ (solveG E K d (.group .and es') = .t) := by
  rw [C06.solve_group_and, C06.solve_group_and]
  exact Tri.and_t_perm (h.map _)

/-- Two-operand `or` commutes exactly. -/
theorem or_bin_comm (E : RegexEngine) (K : IdentK) (d : Doc) (l r : Expr) :
    solveG E K d (.bin l .or r) = solveG E K d (.bin r .or l) := by
  rw [C06.solve_bin_or, C06.solve_bin_or]
  exact Tri.or_perm (List.Perm.swap _ _ _)

/-- Two-operand `and` commutes as far as truth is concerned. -/
theorem and_bin_comm_truth (E : RegexEngine) (K : IdentK) (d : Doc) (l r : Expr) :
    (solveG E K d (.bin l .and r) = .t) ↔ (solveG E K d (.bin r .and l) = .t) := by
  rw [C06.solve_bin_and, C06.solve_bin_and]
  exact Tri.and_t_perm (List.Perm.swap _ _ _)

/-- `all(..)` over a reordered list: same truth. -/
theorem all_group_perm_truth (E : RegexEngine) (K : IdentK) (d : Doc) (op : BoolSym) {es es' : List Expr}
    (h : es.Perm es') :
    (solveG E K d (.match .all (.group op es)) = .t) ↔ (solveG E K d (.match .all (.group op es')) = .t) := by
  rw [C06.solve_all_group, C06.solve_all_group]
  exact Tri.and_t_perm (h.map _)

/-- `of(.., n)` over a reordered list: the same three-valued result. -/
theorem of_group_perm (E : RegexEngine) (K : IdentK) (d : Doc) (n : Nat) (op : BoolSym) {es es' : List Expr}
    (h : es.Perm es') :
    solveG E K d (.match (.of n) (.group op es)) = solveG E K d (.match (.of n) (.group op es')) := by
  rw [C06.solve_of_group, C06.solve_of_group]
  exact Tri.ofN_perm n (h.map _)

/-- Truth is monotone through `or`/`and` contexts: replacing an operand by one that is true exactly
    when the original is keeps the truth of the enclosing connective. This is what lifts the
    operand-level statements to any position that is not underneath a negation or a none-of. -/
theorem or_group_congr_truth (xs ys : List Tri) (h : List.Forall₂' xs ys) :
    (Tri.or xs = .t) ↔ (Tri.or ys = .t) := by
  induction h with
  | nil => simp
  | cons hxy _ ih =>
    rw [Tri.or_eq_t_iff, Tri.or_eq_t_iff] at *
    simp only [List.mem_cons]
    constructor
    · rintro (h | h)
      · exact Or.inl (hxy.mp h.symm).symm
      · exact Or.inr (ih.mp h)
    · rintro (h | h)
      · exact Or.inl (hxy.mpr h.symm).symm
      · exact Or.inr (ih.mpr h)

theorem and_group_congr_truth (xs ys : List Tri) (h : List.Forall₂' xs ys) :
    (Tri.and xs = .t) ↔ (Tri.and ys = .t) := by
  induction h with
  | nil => simp
  | cons hxy _ ih =>
    rw [Tri.and_eq_t_iff, Tri.and_eq_t_iff] at *
    simp only [List.mem_cons, forall_eq_or_imp]
    exact ⟨fun ⟨a, b⟩ => ⟨hxy.mp a, ih.mp b⟩, fun ⟨a, b⟩ => ⟨hxy.mpr a, ih.mpr b⟩⟩

/-- Non-vacuity: the exactness of `or` is strict (a false/missing pair really is order-sensitive for
    `and`, which is why only truth is claimed there). -/
example : Tri.and [.f, .m] = .f ∧ Tri.and [.m, .f] = .m ∧ Tri.or [.f, .m] = Tri.or [.m, .f] := by decide

end Tau.C17

namespace Tau.C17
open Tau

/-- **The order of the members of a list never matters** (exactly, as a three-valued result):
    two lists under the same plain key that are permutations of each other evaluate alike on every
    document — whatever automata / regex sets the parser batches each of them into. -/
theorem list_members_perm (E : RegexEngine) (ic : Bool) (f : Str) (s s' : List Yaml) (x x' : Expr)
    (hp : s.Perm s')
    (h : parseVal E ic (.field f) f none (.seq s) = .ok x)
    (h' : parseVal E ic (.field f) f none (.seq s') = .ok x') (K : IdentK) (d : Doc) :
    solveG E K d x = solveG E K d x' := by
  rw [C07.list_is_or_of_members E ic f s x h, C07.list_is_or_of_members E ic f s' x' h']
  exact Tri.or_perm (hp.map _)

def pairOpt (E : RegexEngine) (ic : Bool) (p : Yaml × Yaml) : Option Expr :=
  match parsePair E ic p with
  | .ok e => some e
  | .error _ => none

theorem parseEntries_filterMap (E : RegexEngine) (ic : Bool) :
    ∀ (kvs : List (Yaml × Yaml)) (es : List Expr), parseEntries E ic kvs = .ok es →
      es = kvs.filterMap (pairOpt E ic) ∧ es.length = kvs.length
  | [], es, h => by simp [parseEntries] at h; subst h; exact ⟨rfl, rfl⟩
  | p :: rest, es, h => by
    simp only [parseEntries] at h
    split at h
    · cases h
    · rename_i x hx
      split at h
      · cases h
      · rename_i xs hxs
        cases h
        obtain ⟨h1, h2⟩ := parseEntries_filterMap E ic rest xs hxs
        refine ⟨?_, by simp [h2]⟩
        rw [List.filterMap_cons]
        simp only [pairOpt, hx]
        rw [← h1]

/-- **The order of the entries of a mapping never decides whether it is true.** -/
theorem mapping_entries_perm_truth (E : RegexEngine) (ic : Bool) (kvs kvs' : List (Yaml × Yaml)) (x x' : Expr)
    (hp : kvs.Perm kvs')
    (h : parseMapping E ic kvs = .ok x) (h' : parseMapping E ic kvs' = .ok x') (K : IdentK) (d : Doc) :
    (solveG E K d x = .t) ↔ (solveG E K d x' = .t) := by
  unfold parseMapping at h h'
  cases he : parseEntries E ic kvs with
  | error e => rw [he] at h; simp [finishMapping] at h
  | ok es =>
    cases he' : parseEntries E ic kvs' with
    | error e => rw [he'] at h'; simp [finishMapping] at h'
    | ok es' =>
      rw [he] at h; rw [he'] at h'
      obtain ⟨e1, l1⟩ := parseEntries_filterMap E ic kvs es he
      obtain ⟨e2, l2⟩ := parseEntries_filterMap E ic kvs' es' he'
      have hperm : es.Perm es' := by rw [e1, e2]; exact hp.filterMap _
      have hval : ∀ (l : List Expr) (y : Expr), finishMapping (.ok l) = .ok y →
          ((solveG E K d y = .t) ↔ (Tri.and (l.map (solveG E K d)) = .t)) := by
        intro l y hy
        match l, hy with
        | [a], hy => simp [finishMapping] at hy; subst hy; simp [Tri.and_eq_t_iff]
        | a :: b :: r, hy =>
          simp [finishMapping] at hy; subst hy
          rw [C06.solve_group_and]
      rw [hval es x h, hval es' x' h']
      exact Tri.and_t_perm (hperm.map _)

end Tau.C17

namespace Tau.C17
open Tau

def mapOpt (E : RegexEngine) (ic : Bool) (y : Yaml) : Option Expr :=
  match y with
  | .map m => (match parseMapping E ic m with | .ok e => some e | .error _ => none)
  | _ => none

theorem go_filterMap (E : RegexEngine) (ic : Bool) :
    ∀ (ys : List Yaml) (es : List Expr), parseIdentifier.go E ic ys = .ok es →
      es = ys.filterMap (mapOpt E ic)
  | [], es, h => by simp [parseIdentifier.go] at h; subst h; rfl
  | y :: rest, es, h => by
    cases y with
    | map m =>
      simp only [parseIdentifier.go] at h
      split at h
      · cases h
      · rename_i x hx
        split at h
        · cases h
        · rename_i xs hxs
          cases h
          rw [List.filterMap_cons]
          simp only [mapOpt, parseMapping, hx]
          rw [← go_filterMap E ic rest xs hxs]
    | _ => simp [parseIdentifier.go] at h

/-- **The order of the mappings of a sequence identifier never matters** (exactly). -/
theorem identifier_sequence_perm (E : RegexEngine) (ic : Bool) (ys ys' : List Yaml) (x x' : Expr)
    (hp : ys.Perm ys')
    (h : parseIdentifier E ic (.seq ys) = .ok x) (h' : parseIdentifier E ic (.seq ys') = .ok x')
    (K : IdentK) (d : Doc) : solveG E K d x = solveG E K d x' := by
  have key : ∀ (zs : List Yaml) (z : Expr), parseIdentifier E ic (.seq zs) = .ok z →
      ∃ es, z = .group .or es ∧ es = zs.filterMap (mapOpt E ic) := by
    intro zs z hz
    cases zs with
    | nil => simp [parseIdentifier] at hz
    | cons a r =>
      simp only [parseIdentifier] at hz
      split at hz
      · cases hz
      · rename_i es hes
        cases hz
        exact ⟨es, rfl, go_filterMap E ic _ es hes⟩
  obtain ⟨es, rfl, e1⟩ := key ys x h
  obtain ⟨es', rfl, e2⟩ := key ys' x' h'
  exact or_group_perm E K d (by rw [e1, e2]; exact hp.filterMap _)

end Tau.C17
