import Tau.Properties.C06
import Tau.Properties.C02
import Tau.Properties.C07
import Tau.Proofs.Batch
/-
  C17 — Order of operands never decides whether and/or is true.
-/
namespace Tau.C17
open Tau

/-- Reordering the operands of a grouped `or` (a sequence of mappings, a list of members that
    stayed separate) does not change its three-valued result at all. -/
theorem or_group_perm (E : RegexEngine) (K : IdentK) (d : Doc) {es es' : List Expr} (h : es.Perm es') :
    solveG E K d (.group .or es) = solveG E K d (.group .or es') := by
  rw [C06.solve_group_or, C06.solve_group_or]
  exact Tri.or_perm (h.map _)

/-- Reordering the operands of a grouped `and` (the entries of a mapping) never changes whether it
    is true. (Which of false/missing it is when not true may change: that is why the property
    excludes positions under a negation.) -/
theorem and_group_perm_truth (E : RegexEngine) (K : IdentK) (d : Doc) {es es' : List Expr} (h : es.Perm es') :
    (solveG E K d (.group .and es) = .t) ↔ (solveG E K d (.group .and es') = .t) := by
  rw [C06.solve_group_and, C06.solve_group_and]
  exact Tri.and_t_perm (h.map _)

/-- Two-operand `or` commutes exactly. -/
theorem or_bin_comm (E : RegexEngine) (K : IdentK) (d : Doc) (l r : Expr) :
    solveG E K d (.bin l .or r) = solveG E K d (.bin r .or l) := by
  rw [C06.solve_bin_or, C06.solve_bin_or]
  exact Tri.or_perm (List.Perm.swap _ _ _)

/-- Two-operand `and` commutes as far as truth is concerned. -/
theorem and_bin_comm_truth (E : RegexEngine) (K : IdentK) (d : Doc) (l r : Expr) :
    (solveG E K d (.bin l .and r) = .t) ↔ (solveG E K d (.bin r .and l) = .t) := by
  rw [C06.solve_bin_and, C06.solve_bin_and]
  exact Tri.and_t_perm (List.Perm.swap _ _ _)

/-- `all(..)` over a reordered list: same truth. -/
theorem all_group_perm_truth (E : RegexEngine) (K : IdentK) (d : Doc) (op : BoolSym) {es es' : List Expr}
    (h : es.Perm es') :
    (solveG E K d (.match .all (.group op es)) = .t) ↔ (solveG E K d (.match .all (.group op es')) = .t) := by
  rw [C06.solve_all_group, C06.solve_all_group]
  exact Tri.and_t_perm (h.map _)

/-- `of(.., n)` over a reordered list: the same three-valued result. -/
theorem of_group_perm (E : RegexEngine) (K : IdentK) (d : Doc) (n : Nat) (op : BoolSym) {es es' : List Expr}
    (h : es.Perm es') :
    solveG E K d (.match (.of n) (.group op es)) = solveG E K d (.match (.of n) (.group op es')) := by
  rw [C06.solve_of_group, C06.solve_of_group]
  exact Tri.ofN_perm n (h.map _)

/-- Truth is monotone through `or`/`and` contexts: replacing an operand by one that is true exactly
    when the original is keeps the truth of the enclosing connective. This is what lifts the
    operand-level statements to any position that is not underneath a negation or a none-of. -/
theorem or_group_congr_truth (xs ys : List Tri) (h : List.Forall₂' xs ys) :
    (Tri.or xs = .t) ↔ (Tri.or ys = .t) := by
  induction h with
  | nil => simp
  | cons hxy _ ih =>
    rw [Tri.or_eq_t_iff, Tri.or_eq_t_iff] at *
    simp only [List.mem_cons]
    constructor
    · rintro (h | h)
      · exact Or.inl (hxy.mp h.symm).symm
      · exact Or.inr (ih.mp h)
    · rintro (h | h)
      · exact Or.inl (hxy.mpr h.symm).symm
      · exact Or.inr (ih.mpr h)

theorem and_group_congr_truth (xs ys : List Tri) (h : List.Forall₂' xs ys) :
    (Tri.and xs = .t) ↔ (Tri.and ys = .t) := by
  induction h with
  | nil => simp
  | cons hxy _ ih =>
    rw [Tri.and_eq_t_iff, Tri.and_eq_t_iff] at *
    simp only [List.mem_cons, forall_eq_or_imp]
    exact ⟨fun ⟨a, b⟩ => ⟨hxy.mp a, ih.mp b⟩, fun ⟨a, b⟩ => ⟨hxy.mpr a, ih.mpr b⟩⟩

/-- Non-vacuity: the exactness of `or` is strict (a false/missing pair really is order-sensitive for
    `and`, which is why only truth is claimed there). -/
example : Tri.and [.f, .m] = .f ∧ Tri.and [.m, .f] = .m ∧ Tri.or [.f, .m] = Tri.or [.m, .f] := by decide

end Tau.C17

namespace Tau.C17
open Tau

/-- **The order of the members of a list never matters** (exactly, as a three-valued result):
    two lists under the same plain key that are permutations of each other evaluate alike on every
    document — whatever automata / regex sets the parser batches each of them into. -/
theorem list_members_perm (E : RegexEngine) (ic : Bool) (f : Str) (s s' : List Yaml) (x x' : Expr)
    (hp : s.Perm s')
    (h : parseVal E ic (.field f) f none (.seq s) = .ok x)
    (h' : parseVal E ic (.field f) f none (.seq s') = .ok x') (K : IdentK) (d : Doc) :
    solveG E K d x = solveG E K d x' := by
  rw [C07.list_is_or_of_members E ic f s x h, C07.list_is_or_of_members E ic f s' x' h']
  exact Tri.or_perm (hp.map _)

def pairOpt (E : RegexEngine) (ic : Bool) (p : Yaml × Yaml) : Option Expr :=
  match parsePair E ic p with
  | .ok e => some e
  | .error _ => none

theorem parseEntries_filterMap (E : RegexEngine) (ic : Bool) :
    ∀ (kvs : List (Yaml × Yaml)) (es : List Expr), parseEntries E ic kvs = .ok es →
      es = kvs.filterMap (pairOpt E ic) ∧ es.length = kvs.length
  | [], es, h => by simp [parseEntries] at h; subst h; exact ⟨rfl, rfl⟩
  | p :: rest, es, h => by
    simp only [parseEntries] at h
    split at h
    · cases h
    · rename_i x hx
      split at h
      · cases h
      · rename_i xs hxs
        cases h
        obtain ⟨h1, h2⟩ := parseEntries_filterMap E ic rest xs hxs
        refine ⟨?_, by simp [h2]⟩
        rw [List.filterMap_cons]
        simp only [pairOpt, hx]
        rw [← h1]

/-- **The order of the entries of a mapping never decides whether it is true.** -/
theorem mapping_entries_perm_truth (E : RegexEngine) (ic : Bool) (kvs kvs' : List (Yaml × Yaml)) (x x' : Expr)
    (hp : kvs.Perm kvs')
    (h : parseMapping E ic kvs = .ok x) (h' : parseMapping E ic kvs' = .ok x') (K : IdentK) (d : Doc) :
    (solveG E K d x = .t) ↔ (solveG E K d x' = .t) := by
  unfold parseMapping at h h'
  cases he : parseEntries E ic kvs with
  | error e => rw [he] at h; simp [finishMapping] at h
  | ok es =>
    cases he' : parseEntries E ic kvs' with
    | error e => rw [he'] at h'; simp [finishMapping] at h'
    | ok es' =>
      rw [he] at h; rw [he'] at h'
      obtain ⟨e1, l1⟩ := parseEntries_filterMap E ic kvs es he
      obtain ⟨e2, l2⟩ := parseEntries_filterMap E ic kvs' es' he'
      have hperm : es.Perm es' := by rw [e1, e2]; exact hp.filterMap _
      have hval : ∀ (l : List Expr) (y : Expr), finishMapping (.ok l) = .ok y →
          ((solveG E K d y = .t) ↔ (Tri.and (l.map (solveG E K d)) = .t)) := by
        intro l y hy
        match l, hy with
        | [a], hy => simp [finishMapping] at hy; subst hy; simp [Tri.and_eq_t_iff]
        | a :: b :: r, hy =>
          simp [finishMapping] at hy; subst hy
          rw [C06.solve_group_and]
      rw [hval es x h, hval es' x' h']
      exact Tri.and_t_perm (hperm.map _)

end Tau.C17

namespace Tau.C17
open Tau

def mapOpt (E : RegexEngine) (ic : Bool) (y : Yaml) : Option Expr :=
  match y with
  | .map m => (match parseMapping E ic m with | .ok e => some e | .error _ => none)
  | _ => none

theorem go_filterMap (E : RegexEngine) (ic : Bool) :
    ∀ (ys : List Yaml) (es : List Expr), parseIdentifier.go E ic ys = .ok es →
      es = ys.filterMap (mapOpt E ic)
  | [], es, h => by simp [parseIdentifier.go] at h; subst h; rfl
  | y :: rest, es, h => by
    cases y with
    | map m =>
      simp only [parseIdentifier.go] at h
      split at h
      · cases h
      · rename_i x hx
        split at h
        · cases h
        · rename_i xs hxs
          cases h
          rw [List.filterMap_cons]
          simp only [mapOpt, parseMapping, hx]
          rw [← go_filterMap E ic rest xs hxs]
    | _ => simp [parseIdentifier.go] at h

/-- **The order of the mappings of a sequence identifier never matters** (exactly). -/
theorem identifier_sequence_perm (E : RegexEngine) (ic : Bool) (ys ys' : List Yaml) (x x' : Expr)
    (hp : ys.Perm ys')
    (h : parseIdentifier E ic (.seq ys) = .ok x) (h' : parseIdentifier E ic (.seq ys') = .ok x')
    (K : IdentK) (d : Doc) : solveG E K d x = solveG E K d x' := by
  have key : ∀ (zs : List Yaml) (z : Expr), parseIdentifier E ic (.seq zs) = .ok z →
      ∃ es, z = .group .or es ∧ es = zs.filterMap (mapOpt E ic) := by
    intro zs z hz
    cases zs with
    | nil => simp [parseIdentifier] at hz
    | cons a r =>
      simp only [parseIdentifier] at hz
      split at hz
      · cases hz
      · rename_i es hes
        cases hz
        exact ⟨es, rfl, go_filterMap E ic _ es hes⟩
  obtain ⟨es, rfl, e1⟩ := key ys x h
  obtain ⟨es', rfl, e2⟩ := key ys' x' h'
  exact or_group_perm E K d (by rw [e1, e2]; exact hp.filterMap _)

end Tau.C17

/-! ### The general statement: reordering at any depth outside negations -/

set_option linter.unusedSimpArgs false
namespace Tau.C17
open Tau

/-- `a` and `b` are true on exactly the same documents (under every identifier environment). -/
def TEqv (E : RegexEngine) (a b : Expr) : Prop :=
  ∀ (K : IdentK) (d : Doc), (solveG E K d a = .t) ↔ (solveG E K d b = .t)

theorem TEqv.refl (E : RegexEngine) (a : Expr) : TEqv E a a := fun _ _ => Iff.rfl
theorem TEqv.symm {E : RegexEngine} {a b : Expr} (h : TEqv E a b) : TEqv E b a := fun K d => (h K d).symm
theorem TEqv.trans {E : RegexEngine} {a b c : Expr} (h1 : TEqv E a b) (h2 : TEqv E b c) : TEqv E a c :=
  fun K d => (h1 K d).trans (h2 K d)

/-- Pointwise truth-equivalent operand lists give `Forall₂'` result lists. -/
theorem forall2_of_pointwise (E : RegexEngine) (K : IdentK) (d : Doc) : ∀ (es es' : List Expr),
    es.length = es'.length → (∀ i (h1 : i < es.length) (h2 : i < es'.length), TEqv E es[i] es'[i]) →
    List.Forall₂' (es.map (solveG E K d)) (es'.map (solveG E K d))
  | [], [], _, _ => .nil
  | [], _ :: _, h, _ => by simp at h
  | _ :: _, [], h, _ => by simp at h
  | a :: as, b :: bs, hl, hp => by
    simp only [List.map_cons]
    refine .cons ?_ ?_
    · exact hp 0 (by simp) (by simp) K d
    · refine forall2_of_pointwise E K d as bs (by simpa using hl) (fun i h1 h2 => ?_)
      have := hp (i + 1) (by simp; omega) (by simp; omega)
      simpa using this

theorem count_congr (xs ys : List Tri) (h : List.Forall₂' xs ys) : Tri.count xs = Tri.count ys := by
  induction h with
  | nil => rfl
  | @cons x y xs ys hxy _ ih =>
    simp only [Tri.count, List.countP_cons] at ih ⊢
    rw [ih]
    cases x <;> cases y <;> simp at hxy ⊢

theorem ofN_pos_congr_truth (n : Nat) (hn : n ≠ 0) (xs ys : List Tri) (h : List.Forall₂' xs ys) :
    (Tri.ofN n xs = .t) ↔ (Tri.ofN n ys = .t) := by
  have hc := count_congr xs ys h
  unfold Tri.ofN
  simp only [hn, if_false, hc]
  constructor <;> intro h' <;> (split at h' <;> first | (split <;> first | rfl | (rename_i h1 h2; exact absurd h1 h2)) | (split at h' <;> cases h'))

/-- What a reordering may do, closed under the connectives truth passes through: permute the
    operands of a grouped and / or, swap those of a two-operand and / or, permute what an
    `all(..)` or an `of(.., n ≥ 1)` counts — at any depth that is not underneath a negation or a
    none-of quantifier (there is no rule for `not` or `of(.., 0)`), also inside nested blocks. -/
inductive Reorder : Expr → Expr → Prop where
  | refl (a : Expr) : Reorder a a
  | trans {a b c : Expr} : Reorder a b → Reorder b c → Reorder a c
  | perm (op : BoolSym) (hop : op = .and ∨ op = .or) {es es' : List Expr} : es.Perm es' →
      Reorder (.group op es) (.group op es')
  | inside (op : BoolSym) (hop : op = .and ∨ op = .or) {es es' : List Expr} (hl : es.length = es'.length) :
      (∀ i (h1 : i < es.length) (h2 : i < es'.length), Reorder es[i] es'[i]) →
      Reorder (.group op es) (.group op es')
  | comm (op : BoolSym) (hop : op = .and ∨ op = .or) (l r : Expr) : Reorder (.bin l op r) (.bin r op l)
  | bin (op : BoolSym) (hop : op = .and ∨ op = .or) {l l' r r' : Expr} : Reorder l l' → Reorder r r' →
      Reorder (.bin l op r) (.bin l' op r')
  | allPerm (op : BoolSym) {es es' : List Expr} : es.Perm es' →
      Reorder (.match .all (.group op es)) (.match .all (.group op es'))
  | allInside (op : BoolSym) {es es' : List Expr} (hl : es.length = es'.length) :
      (∀ i (h1 : i < es.length) (h2 : i < es'.length), Reorder es[i] es'[i]) →
      Reorder (.match .all (.group op es)) (.match .all (.group op es'))
  | ofPerm (n : Nat) (op : BoolSym) {es es' : List Expr} : es.Perm es' →
      Reorder (.match (.of n) (.group op es)) (.match (.of n) (.group op es'))
  | ofInside (n : Nat) (hn : n ≠ 0) (op : BoolSym) {es es' : List Expr} (hl : es.length = es'.length) :
      (∀ i (h1 : i < es.length) (h2 : i < es'.length), Reorder es[i] es'[i]) →
      Reorder (.match (.of n) (.group op es)) (.match (.of n) (.group op es'))
  | nested (f : Str) {x x' : Expr} (hx : C02.isMatchE x = false) (hx' : C02.isMatchE x' = false) :
      Reorder x x' → Reorder (.nested f x) (.nested f x')

theorem nested_congr (E : RegexEngine) (f : Str) (x x' : Expr) (hx : C02.isMatchE x = false)
    (hx' : C02.isMatchE x' = false) (h : TEqv E x x') : TEqv E (.nested f x) (.nested f x') := by
  intro K d
  rw [C02.nested_value E K d f x hx, C02.nested_value E K d f x' hx']
  unfold C02.nestedSem
  cases d.find f with
  | none => exact Iff.rfl
  | some v =>
    cases v with
    | obj kvs => exact h K (.obj kvs)
    | arr a =>
      simp only []
      have : ((elemObjs a).any fun kvs => solveG E K (.obj kvs) x == .t) =
             ((elemObjs a).any fun kvs => solveG E K (.obj kvs) x' == .t) := by
        congr 1
        funext kvs
        have := h K (.obj kvs)
        cases h1 : solveG E K (.obj kvs) x <;> cases h2 : solveG E K (.obj kvs) x' <;> simp_all <;> rfl
      rw [this]
    | _ => exact Iff.rfl

/-- **Reordering never decides truth — at any depth.** Whatever chain of reorderings (`Reorder`)
    leads from `a` to `b`, the two are true on exactly the same documents: the verdict of a rule is
    invariant under reordering the operands of `or` / `and`, the members of lists, the entries of
    mappings and sequences, wherever the reordered part is not underneath a negation or a none-of
    quantifier. -/
theorem reorder_truth (E : RegexEngine) {a b : Expr} (h : Reorder a b) : TEqv E a b := by
  induction h with
  | refl a => exact TEqv.refl E a
  | trans _ _ ih1 ih2 => exact ih1.trans ih2
  | perm op hop hp =>
    intro K d
    rcases hop with rfl | rfl
    · exact and_group_perm_truth E K d hp
    · rw [or_group_perm E K d hp]
  | inside op hop hl _ ih =>
    intro K d
    have hf := forall2_of_pointwise E K d _ _ hl ih
    rcases hop with rfl | rfl
    · rw [C06.solve_group_and, C06.solve_group_and]; exact and_group_congr_truth _ _ hf
    · rw [C06.solve_group_or, C06.solve_group_or]; exact or_group_congr_truth _ _ hf
  | comm op hop l r =>
    intro K d
    rcases hop with rfl | rfl
    · exact and_bin_comm_truth E K d l r
    · rw [or_bin_comm E K d l r]
  | bin op hop _ _ ihl ihr =>
    intro K d
    have hf : List.Forall₂' [solveG E K d _, solveG E K d _] [solveG E K d _, solveG E K d _] :=
      .cons (ihl K d) (.cons (ihr K d) .nil)
    rcases hop with rfl | rfl
    · rw [C06.solve_bin_and, C06.solve_bin_and]; exact and_group_congr_truth _ _ hf
    · rw [C06.solve_bin_or, C06.solve_bin_or]; exact or_group_congr_truth _ _ hf
  | allPerm op hp => intro K d; exact all_group_perm_truth E K d op hp
  | allInside op hl _ ih =>
    intro K d
    rw [C06.solve_all_group, C06.solve_all_group]
    exact and_group_congr_truth _ _ (forall2_of_pointwise E K d _ _ hl ih)
  | ofPerm n op hp => intro K d; rw [of_group_perm E K d n op hp]
  | ofInside n hn op hl _ ih =>
    intro K d
    rw [C06.solve_of_group, C06.solve_of_group]
    exact ofN_pos_congr_truth n hn _ _ (forall2_of_pointwise E K d _ _ hl ih)
  | nested f hx hx' _ ih => exact nested_congr E f _ _ hx hx' ih

/-- At rule level: a condition reordered this way gives the same verdict on every document. -/
theorem reorder_verdict (E : RegexEngine) (ids : Ids) {a b : Expr} (h : Reorder a b) (d : Doc) :
    matchesTop E ids d a = matchesTop E ids d b := by
  have := reorder_truth E h (topK E ids) d
  unfold matchesTop solveTop
  cases h1 : solveG E (topK E ids) d a <;> cases h2 : solveG E (topK E ids) d b <;> simp_all [Tri.isT]

/-- Non-vacuity: a reordering three levels deep — the operands of an `and` swapped, inside it the
    members of an or-group permuted, inside a nested block the entries of a mapping permuted. -/
example (s1 s2 s3 : Search) :
    Reorder
      (.bin (.group .or [.search s1 ['f'] false, .search s2 ['g'] false, .nested ['o'] (.group .and [.search s1 ['a'] false, .search s3 ['b'] false])]) .and (.search s3 ['h'] false))
      (.bin (.search s3 ['h'] false) .and (.group .or [.nested ['o'] (.group .and [.search s3 ['b'] false, .search s1 ['a'] false]), .search s1 ['f'] false, .search s2 ['g'] false])) := by
  refine .trans (.comm .and (Or.inl rfl) _ _) (.bin .and (Or.inl rfl) (.refl _) ?_)
  refine .trans (.perm .or (Or.inr rfl) (es' := [.nested ['o'] (.group .and [.search s1 ['a'] false, .search s3 ['b'] false]), .search s1 ['f'] false, .search s2 ['g'] false]) ?_) ?_
  · exact (List.perm_append_comm (l₁ := [_, _]) (l₂ := [_]))
  · refine .inside .or (Or.inr rfl) rfl (fun i h1 h2 => ?_)
    match i, h1 with
    | 0, _ => exact .nested _ rfl rfl (.perm .and (Or.inl rfl) (List.Perm.swap _ _ _))
    | 1, _ => exact .refl _
    | 2, _ => exact .refl _

end Tau.C17

namespace Tau.C17
open Tau

/-! ### The per-needle counter behind all()/of() over one automaton

`slow_aho` decides `all(k)` / `of(k, n)` over a list the parser batched into one automaton, and over
what shake merges into one. It counts MEMBERS (needles with a satisfying occurrence), so it does not
depend on where in the list a member stands, it is additive over any split of the list, and it never
exceeds the number of members — whatever the size of the list (the implementation switches from a
64-bit bitmap to a set at 64 members; four independent seeded changes of round 14 broke exactly
these three facts in that function). -/

/-- The count does not depend on the order of the members. -/
theorem slowAho_perm (ci : Bool) (a b : List MatchType) (h : Str) (hp : a.Perm b) :
    slowAho ci a h = slowAho ci b h := by
  unfold slowAho
  exact hp.countP_eq _

/-- Additive over a split of the list (no member is lost or counted twice at a block boundary). -/
theorem slowAho_append (ci : Bool) (a b : List MatchType) (h : Str) :
    slowAho ci (a ++ b) h = slowAho ci a h + slowAho ci b h := by
  unfold slowAho
  exact List.countP_append

/-- Never more than the number of members; equal exactly when every member matches. -/
theorem slowAho_le (ci : Bool) (a : List MatchType) (h : Str) : slowAho ci a h ≤ a.length := by
  unfold slowAho
  exact List.countP_le_length

theorem slowAho_eq_length_iff (ci : Bool) (a : List MatchType) (h : Str) :
    slowAho ci a h = a.length ↔ ∀ m ∈ a, relMT ci m h = true := by
  unfold slowAho
  exact List.countP_eq_length

/-- `all(k)` / `of(k, n)` over one automaton: the three-valued result is the same for every order of
    the members, on every document. -/
theorem all_automaton_perm (E : RegexEngine) (K : IdentK) (d : Doc) (a b : List MatchType) (ci : Bool)
    (f : Str) (c : Bool) (hp : a.Perm b) :
    solveG E K d (.match .all (.search (.ac a ci) f c)) = solveG E K d (.match .all (.search (.ac b ci) f c)) := by
  simp only [solveG, allAc]
  have hl : a.length = b.length := hp.length_eq
  have hc : ∀ x, slowAho ci a x = slowAho ci b x := fun x => slowAho_perm ci a b x hp
  simp only [hc, hl]

theorem of_automaton_perm (E : RegexEngine) (K : IdentK) (d : Doc) (n : Nat) (a b : List MatchType) (ci : Bool)
    (f : Str) (c : Bool) (hp : a.Perm b) (hn : n ≠ 0) :
    solveG E K d (.match (.of n) (.search (.ac a ci) f c)) = solveG E K d (.match (.of n) (.search (.ac b ci) f c)) := by
  simp only [solveG, ofAc, hn, if_false]
  have hc : ∀ x, slowAho ci a x = slowAho ci b x := fun x => slowAho_perm ci a b x hp
  simp only [hc]

end Tau.C17
