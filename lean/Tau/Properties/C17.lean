import Tau.Properties.C06
/-
  C17 — Order of operands never decides whether and/or is true.
-/
namespace Tau.C17
open Tau

/-- Reordering the operands of a grouped `or` (a sequence of mappings, a list of members that
    stayed separate) does not change its three-valued result at all. -/
theorem or_group_perm (E : RegexEngine) (K : IdentK) (d : Doc) {es es' : List Expr} (h : es.Perm es') :
    solveG E K d (.group .or es) = solveG E K d (.group .or es') := by
  rw [C06.solve_group_or, C06.solve_group_or]
  exact Tri.or_perm (h.map _)

/-- Reordering the operands of a grouped `and` (the entries of a mapping) never changes whether it
    is true. (Which of false/missing it is when not true may change: that is why the property
    excludes positions under a negation.) -/
theorem and_group_perm_truth (E : RegexEngine) (K : IdentK) (d : Doc) {es es' : List Expr} (h : es.Perm es') :
    (solveG E K d (.group .and es) = .t) ↔ (solveG E K d (.group .and es') = .t) := by
  rw [C06.solve_group_and, C06.solve_group_and]
  exact Tri.and_t_perm (h.map _)

/-- Two-operand `or` commutes exactly. -/
theorem or_bin_comm (E : RegexEngine) (K : IdentK) (d : Doc) (l r : Expr) :
    solveG E K d (.bin l .or r) = solveG E K d (.bin r .or l) := by
  rw [C06.solve_bin_or, C06.solve_bin_or]
  exact Tri.or_perm (List.Perm.swap _ _ _)

/-- Two-operand `and` commutes as far as truth is concerned. -/
theorem and_bin_comm_truth (E : RegexEngine) (K : IdentK) (d : Doc) (l r : Expr) :
    (solveG E K d (.bin l .and r) = .t) ↔ (solveG E K d (.bin r .and l) = .t) := by
  rw [C06.solve_bin_and, C06.solve_bin_and]
  exact Tri.and_t_perm (List.Perm.swap _ _ _)

/-- `all(..)` over a reordered list: same truth. -/
theorem all_group_perm_truth (E : RegexEngine) (K : IdentK) (d : Doc) (op : BoolSym) {es es' : List Expr}
    (h : es.Perm es') :
    (solveG E K d (.match .all (.group op es)) = .t) ↔ (solveG E K d (.match .all (.group op es')) = .t) := by
  rw [C06.solve_all_group, C06.solve_all_group]
  exact Tri.and_t_perm (h.map _)

/-- `of(.., n)` over a reordered list: the same three-valued result. -/
theorem of_group_perm (E : RegexEngine) (K : IdentK) (d : Doc) (n : Nat) (op : BoolSym) {es es' : List Expr}
    (h : es.Perm es') :
    solveG E K d (.match (.of n) (.group op es)) = solveG E K d (.match (.of n) (.group op es')) := by
  rw [C06.solve_of_group, C06.solve_of_group]
  exact Tri.ofN_perm n (h.map _)

/-- Truth is monotone through `or`/`and` contexts: replacing an operand by one that is true exactly
    when the original is keeps the truth of the enclosing connective. This is what lifts the
    operand-level statements to any position that is not underneath a negation or a none-of. -/
theorem or_group_congr_truth (xs ys : List Tri) (h : List.Forall₂' xs ys) :
    (Tri.or xs = .t) ↔ (Tri.or ys = .t) := by
  induction h with
  | nil => simp
  | cons hxy _ ih =>
    rw [Tri.or_eq_t_iff, Tri.or_eq_t_iff] at *
    simp only [List.mem_cons]
    constructor
    · rintro (h | h)
      · exact Or.inl (hxy.mp h.symm).symm
      · exact Or.inr (ih.mp h)
    · rintro (h | h)
      · exact Or.inl (hxy.mpr h.symm).symm
      · exact Or.inr (ih.mpr h)

theorem and_group_congr_truth (xs ys : List Tri) (h : List.Forall₂' xs ys) :
    (Tri.and xs = .t) ↔ (Tri.and ys = .t) := by
  induction h with
  | nil => simp
  | cons hxy _ ih =>
    rw [Tri.and_eq_t_iff, Tri.and_eq_t_iff] at *
    simp only [List.mem_cons, forall_eq_or_imp]
    exact ⟨fun ⟨a, b⟩ => ⟨hxy.mp a, ih.mp b⟩, fun ⟨a, b⟩ => ⟨hxy.mpr a, ih.mpr b⟩⟩

/-- Non-vacuity: the exactness of `or` is strict (a false/missing pair really is order-sensitive for
    `and`, which is why only truth is claimed there). -/
example : Tri.and [.f, .m] = .f ∧ Tri.and [.m, .f] = .m ∧ Tri.or [.f, .m] = Tri.or [.m, .f] := by decide

end Tau.C17
