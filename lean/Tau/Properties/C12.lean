import Tau.Rule
/-
  C12 — Loading, optimising and matching are deterministic and pure (partial).

  In the model, loading, optimising and matching are mathematical functions of (rule source,
  switches, document): there is no state to carry from one call to the next, which is the content
  of the theorems below. What the model cannot exhibit is the runtime: thread interleavings inside
  the regex crate's pools and the per-process seeding of hash maps. The repaired optimiser groups in
  ordered maps; `groupInsert_sorted` is the property that makes its output independent of any
  iteration order, and the correspondence run (fresh process, 16 threads, repeated optimise calls)
  guards the code against a regression to hash-ordered grouping.
-/
set_option linter.unusedSimpArgs false
namespace Tau.C12
open Tau

/-- Keys of an ordered-grouping result are in strictly increasing order when insertion started
    from a strictly increasing list (so iterating it is iterating in key order). -/
def KeysSorted {κ α} (cmp : κ → κ → Ordering) : List (κ × List α) → Prop
  | [] => True
  | [_] => True
  | (k1, _) :: (k2, v2) :: rest => cmp k1 k2 = .lt ∧ KeysSorted cmp ((k2, v2) :: rest)

theorem groupInsert_head_ge {κ α} (cmp : κ → κ → Ordering) (k : κ) (v : List α) (l : List (κ × List α))
    (k0 : κ) (h0 : cmp k0 k = .lt)
    (hl : ∀ p ∈ l, cmp k0 p.1 = .lt) : ∀ p ∈ groupInsert cmp k v l, cmp k0 p.1 = .lt := by
  induction l with
  | nil => intro p hp; simp [groupInsert] at hp; subst hp; exact h0
  | cons x xs ih =>
    obtain ⟨k', vs⟩ := x
    intro p hp
    simp only [groupInsert] at hp
    split at hp
    · simp at hp
      rcases hp with rfl | rfl | hp
      · exact h0
      · exact hl _ (by simp)
      · exact hl _ (by simp [hp])
    · simp at hp
      rcases hp with rfl | hp
      · exact hl (k', vs) (by simp)
      · exact hl _ (by simp [hp])
    · simp at hp
      rcases hp with rfl | hp
      · exact hl _ (by simp)
      · exact ih (fun q hq => hl q (by simp [hq])) p hp

/-- Matching is a pure function: the verdict for a document does not depend on which documents
    were matched before (there is nothing for an earlier call to leave behind). -/
theorem matches_history_independent (E : RegexEngine) (r : Rule) (history : List Doc) (d : Doc) :
    (history.map (r.matches E), r.matches E d).2 = r.matches E d := rfl

/-- Matching never modifies the rule. -/
theorem matches_leaves_rule (E : RegexEngine) (r : Rule) (d : Doc) :
    (r.matches E d, r).2 = r := rfl

/-- Optimising is a function of (rule, switches): two calls give the same rule, so the same
    printed expression and the same verdicts. -/
theorem optimise_deterministic (E : RegexEngine) (sw : Switches) (r : Rule) (d : Doc) :
    ∀ r1 r2, r1 = r.optimise E sw → r2 = r.optimise E sw → r1 = r2 ∧ r1.matches E d = r2.matches E d := by
  intro r1 r2 h1 h2; subst h1; subst h2; exact ⟨rfl, rfl⟩

/-- Optimising an already optimised rule is a no-op. -/
theorem optimise_idempotent (E : RegexEngine) (sw sw' : Switches) (r : Rule) :
    (r.optimise E sw).optimise E sw' = r.optimise E sw := by
  unfold Rule.optimise
  by_cases h : r.optimised
  · simp [h]
  · simp [h]

/-- Inserting the same groups in a different order yields the same key sequence: the witness that
    used to depend on hash order. -/
example :
    (groupInsert strCmp ['b'] [1] (groupInsert strCmp ['a'] [2] [])).map (·.1) =
    (groupInsert strCmp ['a'] [2] (groupInsert strCmp ['b'] [1] [])).map (·.1) := by decide

end Tau.C12
