import Tau.Rule
/-
  C03 — An accepted rule can always be evaluated (no panic after load).
-/
set_option linter.unusedSimpArgs false
namespace Tau.C03
open Tau

/-- Every operand of `and` / `or` accepted by the parser is itself a predicate. -/
theorem led_bool_operands (op : BoolSym) (hop : op = .and ∨ op = .or) (l r : Expr)
    (h : ledCheck op l r = .ok ()) : l.isSolvable = true ∧ r.isSolvable = true := by
  rcases hop with rfl | rfl <;>
  · simp only [ledCheck, ledCheckBool] at h
    cases hl : l.isSolvable <;> cases hr : r.isSolvable <;> simp [hl, hr] at h ⊢

/-- The operand of `not` accepted by the parser is a predicate. -/
theorem negatable_solvable (e : Expr) (h : negatable e = true) : e.isSolvable = true ∨ (∃ b, e = .bool b) := by
  cases e <;> simp [negatable] at h <;> simp [Expr.isSolvable]

/-- Comparison operands accepted by the parser are casts or literals (never predicates), so the
    solver's operand extraction never reaches its "invalid operand" arm with a predicate. -/
theorem led_cmp_operands (op : BoolSym) (hop : op ≠ .and ∧ op ≠ .or) (l r : Expr)
    (h : ledCheck op l r = .ok ()) : l.isSolvable = false ∧ r.isSolvable = false := by
  cases op <;> simp at hop
  all_goals
    simp only [ledCheck, ledCheckEq, ledCheckCmp] at h
    cases l <;> cases r <;> simp [Expr.isSolvable] at h ⊢

/-- A rule that loads has a solvable condition: a condition that is a bare literal, cast or field
    is rejected at load time. -/
theorem load_solvable (E : RegexEngine) (ic : Bool) (entries : List (Str × Yaml)) (d : Detection)
    (h : loadDetection E ic entries = .ok d) : d.expr.isSolvable = true := by
  unfold loadDetection at h
  split at h
  · cases h
  · split at h
    · cases h
    · split at h
      · cases h
      · split at h
        · cases h
        · split at h
          · cases h
          · rename_i e he
            split at h
            · cases h
            · rename_i hs
              cases h
              simpa using hs

/-- A rule that loads mentions only identifiers that exist (the scan of rule.rs:104-125). -/
theorem load_idents_present (E : RegexEngine) (ic : Bool) (entries : List (Str × Yaml)) (d : Detection)
    (h : loadDetection E ic entries = .ok d) :
    ∃ tokens, tokenise d.condRaw = .ok tokens ∧ identsPresent d.ids tokens = true := by
  unfold loadDetection at h
  split at h
  · cases h
  · rename_i st hst
    split at h
    · cases h
    · rename_i raw hraw
      split at h
      · cases h
      · rename_i tokens htok
        split at h
        · cases h
        · rename_i hpres
          split at h
          · cases h
          · split at h
            · cases h
            · cases h
              exact ⟨tokens, htok, by simpa using hpres⟩

def condResult (s : String) : Except Err Expr :=
  match tokenise s.toList with
  | .ok ts => parse ts
  | .error e => .error e

def rejectedWith (r : Except Err Expr) (e : Err) : Bool :=
  match r with
  | .error e' => e' == e
  | .ok _ => false

/-- The conditions the unrepaired source accepted and then panicked on are load errors now. -/
example :
    rejectedWith (condResult "A and 1") .parseLedFollowing = true ∧
    rejectedWith (condResult "A or int(foo)") .parseLedFollowing = true ∧
    rejectedWith (condResult "A and not(B)") .parseLedFollowing = true ∧
    rejectedWith (condResult "A and B") .parseLedFollowing = false := by
  decide +kernel

end Tau.C03
