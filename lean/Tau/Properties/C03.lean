import Tau.Rule
import Tau.Proofs.Pratt
import Tau.Proofs.Safe
import Tau.Proofs.MappingSafe
import Tau.Proofs.SafeOpt
import Tau.Proofs.Shake1Safe
import Tau.Proofs.MatrixSafe
import Tau.Proofs.IdentScan
/-
  C03 — An accepted rule can always be evaluated (no panic after load).
-/
set_option linter.unusedSimpArgs false
namespace Tau.C03
open Tau

/-- Every operand of `and` / `or` accepted by the parser is itself a predicate. -/
theorem led_bool_operands (op : BoolSym) (hop : op = .and ∨ op = .or) (l r : Expr)
    (h : ledCheck op l r = .ok ()) : l.isSolvable = true ∧ r.isSolvable = true := by
  rcases hop with rfl | rfl <;>
  · simp only [ledCheck, ledCheckBool] at h
    cases hl : l.isSolvable <;> cases hr : r.isSolvable <;> simp [hl, hr] at h ⊢

/-- The operand of `not` accepted by the parser is a predicate. -/
theorem negatable_solvable (e : Expr) (h : negatable e = true) : e.isSolvable = true ∨ (∃ b, e = .bool b) := by
  cases e <;> simp [negatable] at h <;> simp [Expr.isSolvable]

/-- Comparison operands accepted by the parser are casts or literals (never predicates), so the
    solver's operand extraction never reaches its "invalid operand" arm with a predicate. -/
theorem led_cmp_operands (op : BoolSym) (hop : op ≠ .and ∧ op ≠ .or) (l r : Expr)
    (h : ledCheck op l r = .ok ()) : l.isSolvable = false ∧ r.isSolvable = false := by
  cases op <;> simp at hop
  all_goals
    simp only [ledCheck, ledCheckEq, ledCheckCmp] at h
    cases l <;> cases r <;> simp [Expr.isSolvable] at h ⊢

/-- A rule that loads has a solvable condition: a condition that is a bare literal, cast or field
    is rejected at load time. -/
theorem load_solvable (E : RegexEngine) (ic : Bool) (entries : List (Str × Yaml)) (d : Detection)
    (h : loadDetection E ic entries = .ok d) : d.expr.isSolvable = true := by
  unfold loadDetection at h
  split at h
  · cases h
  · split at h
    · cases h
    · split at h
      · cases h
      · split at h
        · cases h
        · split at h
          · cases h
          · rename_i e he
            split at h
            · cases h
            · rename_i hs
              cases h
              simpa using hs

/-- A rule that loads mentions only identifiers that exist (the scan of rule.rs:104-125). -/
theorem load_idents_present (E : RegexEngine) (ic : Bool) (entries : List (Str × Yaml)) (d : Detection)
    (h : loadDetection E ic entries = .ok d) :
    ∃ tokens, tokenise d.condRaw = .ok tokens ∧ identsPresent d.ids tokens = true := by
  unfold loadDetection at h
  split at h
  · cases h
  · rename_i st hst
    split at h
    · cases h
    · rename_i raw hraw
      split at h
      · cases h
      · rename_i tokens htok
        split at h
        · cases h
        · rename_i hpres
          split at h
          · cases h
          · split at h
            · cases h
            · cases h
              exact ⟨tokens, htok, by simpa using hpres⟩

def condResult (s : String) : Except Err Expr :=
  match tokenise s.toList with
  | .ok ts => parse ts
  | .error e => .error e

def rejectedWith (r : Except Err Expr) (e : Err) : Bool :=
  match r with
  | .error e' => e' == e
  | .ok _ => false

/-- Everything the condition parser returns is built from identifiers, all()/of() over
    identifiers, casts and literals by `not`, `and`, `or` and comparisons; the operands of
    `and`/`or`/`not` are predicates and the operands of comparisons are casts/literals. -/
theorem parsed_condition_shape (ts : List Token) (e : Expr) (h : parse ts = .ok e) : PShape e :=
  parse_shape ts e h

/-- A loaded rule's condition has that shape and is solvable. -/
theorem loaded_condition_shape (E : RegexEngine) (ic : Bool) (entries : List (Str × Yaml)) (d : Detection)
    (h : loadDetection E ic entries = .ok d) : PShape d.expr ∧ d.expr.isSolvable = true := by
  refine ⟨?_, load_solvable E ic entries d h⟩
  unfold loadDetection at h
  split at h
  · cases h
  · split at h
    · cases h
    · split at h
      · cases h
      · split at h
        · cases h
        · split at h
          · cases h
          · rename_i tokens _ _ e he
            split at h
            · cases h
            · cases h
              exact parse_shape _ _ he

/-- The conditions the unrepaired source accepted and then panicked on are load errors now. -/
example :
    rejectedWith (condResult "A and 1") .parseLedFollowing = true ∧
    rejectedWith (condResult "A or int(foo)") .parseLedFollowing = true ∧
    rejectedWith (condResult "A and not(B)") .parseLedFollowing = true ∧
    rejectedWith (condResult "A and B") .parseLedFollowing = false := by
  decide +kernel

/-- **Matching never panics on a safe rule**, whatever value kinds the document returns: `d` is a
    mapping or an ARBITRARY user document (`Doc.user g`, any function). `hitsTop` is true exactly
    when evaluation reaches `unreachable!()`, an undefined identifier or an out-of-range access of
    the matrix cache (Tau/Safe.lean). -/
theorem safe_rule_never_panics (E : RegexEngine) (ids : Ids) (g : Str → Option Value) (e : Expr)
    (hbodies : ∀ i b, lookupId ids i = some b → safe (fun _ => false) b = true)
    (he : safe (fun i => (lookupId ids i).isSome) e = true) :
    hitsTop E ids (.user g) e = false :=
  top_no_hits E ids (.user g) (noFP_user g) e hbodies he

theorem safe_rule_never_panics_mapping (E : RegexEngine) (ids : Ids) (kvs : List (Str × Value)) (e : Expr)
    (hbodies : ∀ i b, lookupId ids i = some b → safe (fun _ => false) b = true)
    (he : safe (fun i => (lookupId ids i).isSome) e = true) :
    hitsTop E ids (.obj kvs) e = false :=
  top_no_hits E ids (.obj kvs) (noFP_obj kvs) e hbodies he

/-- The condition of a loaded rule is safe as soon as the identifiers it mentions are defined
    (the loader's scan, rule.rs:104-125, is what establishes that; see `load_idents_present`). -/
theorem loaded_condition_safe (E : RegexEngine) (ic : Bool) (entries : List (Str × Yaml)) (d : Detection)
    (h : loadDetection E ic entries = .ok d)
    (hdef : ∀ i ∈ condIdents d.expr, (lookupId d.ids i).isSome = true) :
    safe (fun i => (lookupId d.ids i).isSome) d.expr = true := by
  obtain ⟨hshape, hsolv⟩ := loaded_condition_shape E ic entries d h
  exact pshape_safe _ d.expr hshape hsolv hdef

/-- A well-formed matrix (what `matrix()` builds: rows no wider than the columns, cell `i` keyed by
    the synthetic key of column `i`, fewer than 0xD800 columns) is safe to evaluate. -/
example : safe (fun _ => false)
    (.matrix [['a'], ['b']] [[some (.search (.exact ['x']) (colKey 0) false), none],
                             [none, some (.bin (.field (colKey 1)) .eq (.int 1))]]) = true := by decide

/-- …and a cell keyed by a real field name (what the unrepaired matrix built for a comparison of
    two casts) is not. -/
example : safe (fun _ => false)
    (.matrix [['a']] [[some (.bin (.cast (colKey 0) .int) .eq (.cast ['b'] .int))]]) = false := by decide

end Tau.C03

namespace Tau.C03
open Tau

theorem lookup_mem (ids : Ids) (i : Str) (b : Expr) (h : lookupId ids i = some b) : (i, b) ∈ ids := by
  induction ids with
  | nil => simp [lookupId] at h
  | cons x xs ih =>
    obtain ⟨k, e⟩ := x
    simp only [lookupId] at h
    split at h
    · rename_i hk; cases h; simp at hk; subst hk; simp
    · exact List.mem_cons_of_mem _ (ih h)

/-- The visitor loop only ever stores safe identifier bodies. -/
theorem loadEntries_bodies_safe (E : RegexEngine) (ic : Bool) (entries : List (Str × Yaml)) (st st' : LoadSt)
    (hst : ∀ p ∈ st.ids, safe nod p.2 = true) (h : loadEntries E ic entries st = .ok st') :
    ∀ p ∈ st'.ids, safe nod p.2 = true := by
  induction entries generalizing st with
  | nil => simp [loadEntries] at h; cases h; exact hst
  | cons x xs ih =>
    obtain ⟨key, v⟩ := x
    simp only [loadEntries] at h
    split at h
    · split at h
      · cases h
      · split at h
        · exact ih _ (by exact hst) h
        · cases h
    · split at h
      · cases h
      · split at h
        · cases h
        · rename_i e hp
          refine ih _ ?_ h
          intro p hp'
          simp only [List.mem_append, List.mem_singleton] at hp'
          rcases hp' with hp' | rfl
          · exact hst p hp'
          · exact parseIdentifier_safe E ic v e hp

/-- Every identifier of a loaded rule is a safe closed tree. -/
theorem loaded_bodies_safe (E : RegexEngine) (ic : Bool) (entries : List (Str × Yaml)) (d : Detection)
    (h : loadDetection E ic entries = .ok d) :
    ∀ i b, lookupId d.ids i = some b → safe nod b = true := by
  unfold loadDetection at h
  split at h
  · cases h
  · rename_i st hst
    have hall := loadEntries_bodies_safe E ic entries {} st (by intro p hp; cases hp) hst
    split at h
    · cases h
    · split at h
      · cases h
      · split at h
        · cases h
        · split at h
          · cases h
          · split at h
            · cases h
            · cases h
              intro i b hl
              exact hall (i, b) (lookup_mem _ i b hl)

/-- **If loading succeeds, matching never panics** — for the unoptimised rule, against any mapping
    or any user document (any value kinds), provided the identifiers the condition mentions exist
    (which is what the loader's scan establishes; `load_idents_present`). No `unreachable!()`, no
    undefined identifier, no out-of-range cache access is reachable. -/
theorem loaded_rule_never_panics (E : RegexEngine) (ic : Bool) (entries : List (Str × Yaml)) (d : Detection)
    (h : loadDetection E ic entries = .ok d)
    (hdef : ∀ i ∈ condIdents d.expr, (lookupId d.ids i).isSome = true) (g : Str → Option Value) :
    hitsTop E d.ids (.user g) d.expr = false :=
  safe_rule_never_panics E d.ids g d.expr (loaded_bodies_safe E ic entries d h)
    (loaded_condition_safe E ic entries d h hdef)

end Tau.C03

namespace Tau.C03
open Tau

/-! ### Optimised rules: the passes proved so far keep the tree safe -/

theorem nod_eq : (fun i => (lookupId ([] : Ids) i).isSome) = nod := by
  funext i; rfl

/-- A closed safe tree evaluated with no identifier environment (what `optimise` leaves after
    `coalesce`) reaches no panic site. -/
theorem closed_safe_never_panics (E : RegexEngine) (e : Expr) (h : safe nod e = true) (g : Str → Option Value) :
    hitsTop E [] (.user g) e = false :=
  top_no_hits E [] (.user g) (noFP_user g) e (fun i b hl => by simp [lookupId] at hl) (by rw [nod_eq]; exact h)

/-- The coalesced tree of a loaded rule is safe, and stays safe under `shake_0` and `rewrite`. -/
theorem loaded_coalesced_safe (E : RegexEngine) (ic : Bool) (entries : List (Str × Yaml)) (d : Detection)
    (h : loadDetection E ic entries = .ok d)
    (hdef : ∀ i ∈ condIdents d.expr, (lookupId d.ids i).isSome = true) :
    safe nod (coalesce d.ids d.expr) = true := by
  obtain ⟨hshape, hsolv⟩ := loaded_condition_shape E ic entries d h
  exact coalesce_safe d.ids d.expr hshape hsolv hdef (loaded_bodies_safe E ic entries d h)

/-- **Optimised with coalesce (and optionally rewrite): matching never panics.** -/
theorem optimised_coalesce_rewrite_never_panics (E : RegexEngine) (ic : Bool) (entries : List (Str × Yaml))
    (d : Detection) (h : loadDetection E ic entries = .ok d)
    (hdef : ∀ i ∈ condIdents d.expr, (lookupId d.ids i).isSome = true) (rw : Bool) (g : Str → Option Value) :
    let o := optimiseTree E ⟨true, false, rw, false⟩ d.ids d.expr
    hitsTop E o.2 (.user g) o.1 = false := by
  have hs := loaded_coalesced_safe E ic entries d h hdef
  cases rw with
  | false =>
    simp only [optimiseTree, if_true, Bool.false_eq_true, if_false]
    exact closed_safe_never_panics E _ hs g
  | true =>
    simp only [optimiseTree, if_true, Bool.false_eq_true, if_false, List.map_nil]
    exact closed_safe_never_panics E _ (rewrite_safe E nod _ hs) g

/-- `shake_0` on top of that keeps it so (any fuel). -/
theorem coalesce_shake0_never_panics (E : RegexEngine) (ic : Bool) (entries : List (Str × Yaml))
    (d : Detection) (h : loadDetection E ic entries = .ok d)
    (hdef : ∀ i ∈ condIdents d.expr, (lookupId d.ids i).isSome = true) (fuel : Nat) (g : Str → Option Value) :
    hitsTop E [] (.user g) (rewrite E (shake0 fuel (coalesce d.ids d.expr))) = false :=
  closed_safe_never_panics E _
    (rewrite_safe E nod _ (shake0_safe nod fuel _ (loaded_coalesced_safe E ic entries d h hdef))) g

end Tau.C03

namespace Tau.C03
open Tau

/-- A rule state the solver cannot panic on: safe closed bodies, condition safe w.r.t. them. -/
def Good (p : Expr × Ids) : Prop :=
  (∀ i b, lookupId p.2 i = some b → safe nod b = true) ∧
  safe (fun i => (lookupId p.2 i).isSome) p.1 = true

theorem lookup_map' (ids : Ids) (g : Expr → Expr) (i : Str) :
    lookupId (ids.map (fun (k, v) => (k, g v))) i = (lookupId ids i).map g := by
  induction ids with
  | nil => rfl
  | cons x xs ih =>
    obtain ⟨k, v⟩ := x
    simp only [List.map_cons, lookupId]
    split
    · rfl
    · exact ih

/-- A pass that keeps `safe` (for every set of defined identifiers), applied to the condition and
    to every identifier body, keeps the rule state good. -/
theorem good_pass (g : Expr → Expr) (hg : ∀ defd e, safe defd e = true → safe defd (g e) = true)
    (e : Expr) (ids : Ids) (h : Good (e, ids)) : Good (g e, ids.map (fun (k, v) => (k, g v))) := by
  constructor
  · intro i b hl
    simp only at hl
    rw [lookup_map'] at hl
    cases hl' : lookupId ids i with
    | none => rw [hl'] at hl; cases hl
    | some b0 =>
      rw [hl'] at hl
      simp only [Option.map_some, Option.some.injEq] at hl
      subst hl
      exact hg nod b0 (h.1 i b0 hl')
  · simp only
    have : (fun i => (lookupId (ids.map (fun (k, v) => (k, g v))) i).isSome) = (fun i => (lookupId ids i).isSome) := by
      funext i; rw [lookup_map']; cases lookupId ids i <;> rfl
    rw [this]
    exact hg _ e h.2

theorem good_never_panics (E : RegexEngine) (p : Expr × Ids) (h : Good p) (g : Str → Option Value) :
    hitsTop E p.2 (.user g) p.1 = false :=
  top_no_hits E p.2 (.user g) (noFP_user g) p.1 h.1 h.2

/-- **Optimised rules never panic either — for every one of the 16 switch combinations.**
    coalesce, shake (both halves), rewrite and matrix keep the rule inside `safe` (the matrix node
    is well-formed: fewer than 0xD800 columns — the repaired guard —, rows as wide as the columns,
    every cell keyed by its column's synthetic key); so after a successful load, `matches` on the
    optimised rule reaches no `unreachable!()`, no undefined identifier and no out-of-range cache
    access, on any document. -/
theorem optimised_never_panics (E : RegexEngine) (ic : Bool) (entries : List (Str × Yaml))
    (d : Detection) (h : loadDetection E ic entries = .ok d)
    (hdef : ∀ i ∈ condIdents d.expr, (lookupId d.ids i).isSome = true)
    (sw : Switches) (g : Str → Option Value) :
    let o := optimiseTree E sw d.ids d.expr
    hitsTop E o.2 (.user g) o.1 = false := by
  have hbodies := loaded_bodies_safe E ic entries d h
  have hcond := loaded_condition_safe E ic entries d h hdef
  have g0 : Good (d.expr, d.ids) := ⟨hbodies, hcond⟩
  have gc : Good (coalesce d.ids d.expr, ([] : Ids)) := by
    refine ⟨fun i b hl => by simp [lookupId] at hl, ?_⟩
    simp only
    rw [nod_eq]
    exact loaded_coalesced_safe E ic entries d h hdef
  have hshake : ∀ defd e, safe defd e = true → safe defd (shake e) = true := shake_safe
  have hrw : ∀ defd e, safe defd e = true → safe defd (rewrite E e) = true := fun defd e => rewrite_safe E defd e
  have hmx : ∀ defd e, safe defd e = true → safe defd (matrixPass e) = true :=
    fun defd e he => matrix_safe defd _ e he
  obtain ⟨c, s, r, m⟩ := sw
  cases c <;> cases s <;> cases r <;> cases m <;>
    simp only [optimiseTree, if_true, Bool.false_eq_true, if_false]
  · exact good_never_panics E _ g0 g
  · exact good_never_panics E _ (good_pass _ hmx _ _ g0) g
  · exact good_never_panics E _ (good_pass _ hrw _ _ g0) g
  · exact good_never_panics E _ (good_pass _ hmx _ _ (good_pass _ hrw _ _ g0)) g
  · exact good_never_panics E _ (good_pass _ hshake _ _ g0) g
  · exact good_never_panics E _ (good_pass _ hmx _ _ (good_pass _ hshake _ _ g0)) g
  · exact good_never_panics E _ (good_pass _ hrw _ _ (good_pass _ hshake _ _ g0)) g
  · exact good_never_panics E _ (good_pass _ hmx _ _ (good_pass _ hrw _ _ (good_pass _ hshake _ _ g0))) g
  · exact good_never_panics E _ gc g
  · exact good_never_panics E _ (good_pass _ hmx _ _ gc) g
  · exact good_never_panics E _ (good_pass _ hrw _ _ gc) g
  · exact good_never_panics E _ (good_pass _ hmx _ _ (good_pass _ hrw _ _ gc)) g
  · exact good_never_panics E _ (good_pass _ hshake _ _ gc) g
  · exact good_never_panics E _ (good_pass _ hmx _ _ (good_pass _ hshake _ _ gc)) g
  · exact good_never_panics E _ (good_pass _ hrw _ _ (good_pass _ hshake _ _ gc)) g
  · exact good_never_panics E _ (good_pass _ hmx _ _ (good_pass _ hrw _ _ (good_pass _ hshake _ _ gc))) g

end Tau.C03

namespace Tau.C03
open Tau

/-! ### The loader's scan and the parsed tree: no hypothesis left

`loaded_rule_never_panics` and `optimised_never_panics` assume that the identifiers the parsed
condition mentions are defined. The loader establishes that with a scan over TOKEN positions
(rule.rs:104-125: every identifier token, except one two places behind a modifier). That the scan
covers every identifier of the TREE is `parse_idents_scanned` (Tau/Proofs/IdentScan.lean, an
induction over the four parser functions with a two-token look-back). -/

/-- **Every identifier the condition of a loaded rule mentions exists** — the property's own clause,
    with no side condition: whatever tree the Pratt parser built from the condition text, each
    identifier in it (bare, under `not`, under `and`/`or`, under `all(..)` / `of(.., n)`) has a
    body in the detection block. -/
theorem loaded_idents_defined (E : RegexEngine) (ic : Bool) (entries : List (Str × Yaml)) (d : Detection)
    (h : loadDetection E ic entries = .ok d) :
    ∀ i ∈ condIdents d.expr, (lookupId d.ids i).isSome = true := by
  unfold loadDetection at h
  split at h
  · cases h
  · rename_i st hst
    split at h
    · cases h
    · rename_i raw hraw
      split at h
      · cases h
      · rename_i tokens htok
        split at h
        · cases h
        · rename_i hpres
          split at h
          · cases h
          · rename_i e he
            split at h
            · cases h
            · cases h
              intro i hi
              have hp : identsPresent st.ids tokens = true := by
                cases hq : identsPresent st.ids tokens
                · simp [hq] at hpres
                · rfl
              exact identsPresent_scan st.ids tokens hp i (parse_idents_scanned tokens e he i hi)

/-- **If loading succeeds, matching never panics** — no side condition. -/
theorem load_then_match_never_panics (E : RegexEngine) (ic : Bool) (entries : List (Str × Yaml)) (d : Detection)
    (h : loadDetection E ic entries = .ok d) (g : Str → Option Value) :
    hitsTop E d.ids (.user g) d.expr = false :=
  loaded_rule_never_panics E ic entries d h (loaded_idents_defined E ic entries d h) g

/-- **If loading succeeds, matching the rule optimised with ANY of the 16 switch combinations never
    panics** — no side condition. -/
theorem load_optimise_match_never_panics (E : RegexEngine) (ic : Bool) (entries : List (Str × Yaml))
    (d : Detection) (h : loadDetection E ic entries = .ok d) (sw : Switches) (g : Str → Option Value) :
    let o := optimiseTree E sw d.ids d.expr
    hitsTop E o.2 (.user g) o.1 = false :=
  optimised_never_panics E ic entries d h (loaded_idents_defined E ic entries d h) sw g

/-- The skipped position matters: `int(A) > 1` with no identifier `A` loads (A is a field there)… -/
example : identsPresent [] [.modifier .int, .lparen, .ident ['A'], .rparen, .op .gt, .int 1] = true := by decide
/-- …while `A` on its own, or under `all(..)`, is refused when undefined. -/
example : identsPresent [] [.ident ['A']] = false := by decide
example : identsPresent [] [.matchAll, .lparen, .ident ['A'], .rparen] = false := by decide

end Tau.C03
