import Tau.Proofs.Solver
/-
  C06 — Three-valued connectives obey their truth tables.

  The tables are the declarative definitions `Tri.or`, `Tri.and`, `Tri.not`, `Tri.ofN` in
  Tau/Base.lean (stated with `any`, `find?`, `countP`, i.e. not by recursion over the operands).
  Each theorem holds for EVERY arity, every identifier continuation `K` (so for conditions and for
  identifier bodies alike), every regex engine and every document.
-/
namespace Tau.C06
open Tau

/-- Grouped `or`: true if any operand is true, else false if any is false, else missing. -/
theorem solve_group_or (E : RegexEngine) (K : IdentK) (d : Doc) (es : List Expr) :
    solveG E K d (.group .or es) = Tri.or (es.map (solveG E K d)) := by
  simp [solveG, orG_eq, listG_eq_map]

/-- Grouped `and`: the first non-true operand result. -/
theorem solve_group_and (E : RegexEngine) (K : IdentK) (d : Doc) (es : List Expr) :
    solveG E K d (.group .and es) = Tri.and (es.map (solveG E K d)) := by
  simp [solveG, andG_eq, listG_eq_map]

/-- Two-operand `and` is the grouped table at arity 2. -/
theorem solve_bin_and (E : RegexEngine) (K : IdentK) (d : Doc) (l r : Expr) :
    solveG E K d (.bin l .and r) = Tri.and [solveG E K d l, solveG E K d r] := by
  simp [solveG, binAnd_eq]

/-- Two-operand `or` is the grouped table at arity 2. -/
theorem solve_bin_or (E : RegexEngine) (K : IdentK) (d : Doc) (l r : Expr) :
    solveG E K d (.bin l .or r) = Tri.or [solveG E K d l, solveG E K d r] := by
  simp [solveG, binOr_eq]

/-- `not` swaps true and false and turns missing into false. -/
theorem solve_negate (E : RegexEngine) (K : IdentK) (d : Doc) (e : Expr) :
    solveG E K d (.negate e) = (solveG E K d e).not := by
  simp [solveG]

theorem not_table : Tri.not .t = .f ∧ Tri.not .f = .t ∧ Tri.not .m = .f := ⟨rfl, rfl, rfl⟩

/-- `all(..)` over a key list (a group under the `Match` node): every operand true. -/
theorem solve_all_group (E : RegexEngine) (K : IdentK) (d : Doc) (op : BoolSym) (es : List Expr) :
    solveG E K d (.match .all (.group op es)) = Tri.and (es.map (solveG E K d)) := by
  simp [solveG, andG_eq, listG_eq_map]

/-- `of(.., n)` over a key list: at least `n` true operands; `n = 0`: none true. -/
theorem solve_of_group (E : RegexEngine) (K : IdentK) (d : Doc) (n : Nat) (op : BoolSym) (es : List Expr) :
    solveG E K d (.match (.of n) (.group op es)) = Tri.ofN n (es.map (solveG E K d)) := by
  simp [solveG, listG_eq_map]

/-- `all(X)` in the condition, `X` an identifier whose body is a list of entries. -/
theorem solve_all_ident (E : RegexEngine) (ids : Ids) (d : Doc) (i : Str) (op : BoolSym) (es : List Expr)
    (h : lookupId ids i = some (.group op es)) :
    solveTop E ids d (.match .all (.ident i)) = Tri.and (es.map (solveClosed E d)) := by
  simp [solveTop, solveG, topK, h, solveClosed, andG_eq, listG_eq_map]
  rfl

/-- `of(X, n)` in the condition, `X` an identifier whose body is a list of entries. -/
theorem solve_of_ident (E : RegexEngine) (ids : Ids) (d : Doc) (i : Str) (n : Nat) (op : BoolSym)
    (es : List Expr) (h : lookupId ids i = some (.group op es)) :
    solveTop E ids d (.match (.of n) (.ident i)) = Tri.ofN n (es.map (solveClosed E d)) := by
  simp [solveTop, solveG, topK, h, solveClosed, listG_eq_map]
  rfl

/-- An identifier in the condition has the value of its body. -/
theorem solve_ident (E : RegexEngine) (ids : Ids) (d : Doc) (i : Str) (b : Expr)
    (h : lookupId ids i = some b) :
    solveTop E ids d (.ident i) = solveClosed E d b := by
  simp [solveTop, solveG, topK, h]

/-- A rule matches only when the whole condition is true: false and missing both mean no match. -/
theorem verdict_iff (E : RegexEngine) (ids : Ids) (d : Doc) (e : Expr) :
    matchesTop E ids d e = true ↔ solveTop E ids d e = .t := by
  unfold matchesTop
  cases solveTop E ids d e <;> simp [Tri.isT]

/-! The tables themselves, in the words of the property. -/

theorem or_table (xs : List Tri) :
    Tri.or xs = (if .t ∈ xs then .t else if .f ∈ xs then .f else .m) := by
  simp [Tri.or, List.any_eq_true]

theorem and_table_first_non_true (pre : List Tri) (x : Tri) (post : List Tri)
    (hpre : ∀ y ∈ pre, y = .t) (hx : x ≠ .t) : Tri.and (pre ++ x :: post) = x := by
  induction pre with
  | nil => rw [List.nil_append, Tri.and_cons]; cases x <;> simp_all
  | cons p ps ih =>
    have hp : p = .t := hpre p (by simp)
    subst hp
    rw [List.cons_append, Tri.and_cons]
    exact ih (fun y hy => hpre y (by simp [hy]))

theorem and_table_all_true (xs : List Tri) (h : ∀ y ∈ xs, y = .t) : Tri.and xs = .t :=
  (Tri.and_eq_t_iff xs).mpr h

theorem of_table_pos (n : Nat) (hn : 0 < n) (xs : List Tri) :
    (Tri.ofN n xs = .t ↔ n ≤ xs.countP (· == .t)) := by
  unfold Tri.ofN Tri.count
  have : n ≠ 0 := by omega
  simp only [this, if_false]
  by_cases h : n ≤ xs.countP (· == .t)
  · simp [h]
  · simp [h]; split <;> simp

theorem of_table_zero (xs : List Tri) :
    (Tri.ofN 0 xs = .t ↔ (.t ∉ xs ∧ .f ∈ xs)) := by
  unfold Tri.ofN
  simp only [if_true]
  by_cases h1 : Tri.t ∈ xs <;> by_cases h2 : Tri.f ∈ xs <;> simp [h1, h2, List.any_eq_true]

/-- Non-vacuity: a concrete three-operand group with one operand of each result. -/
example : Tri.or [.m, .f, .t] = .t ∧ Tri.and [.t, .m, .f] = .m ∧ Tri.ofN 2 [.t, .m, .t] = .t
    ∧ Tri.ofN 0 [.m, .f] = .t ∧ Tri.ofN 3 [.t, .t] = .m := by decide

end Tau.C06
