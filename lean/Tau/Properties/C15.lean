import Tau.Mapping
/-
  C15 — the ignore_case build equals the default build with every pattern i-prefixed.
-/
namespace Tau.C15
open Tau

/-- Pattern level: in a build with feature `ignore_case` a string pattern parses exactly as the
    same pattern with an `i` prepended parses in the default build (same case flag, same folded
    needle, same regex flag) — and no `i` prefix is interpreted in that build. -/
theorem ic_feature (E : RegexEngine) (s : Str) :
    intoIdentifier E true s = intoIdentifier E false ('i' :: s) := by
  simp [intoIdentifier, stripCase]

/-- In the `ignore_case` build every pattern is case-insensitive. -/
theorem ic_always_insensitive (E : RegexEngine) (s : Str) (i : Ident)
    (h : intoIdentifier E true s = .ok i) : i.ci = true := by
  unfold intoIdentifier at h
  split at h
  · cases h; simp [stripCase]
  · cases h

/-- In the `ignore_case` build a leading `i` is part of the pattern text, not a flag. -/
example (E : RegexEngine) :
    intoIdentifier E true "iab".toList = .ok ⟨true, .exact "iab".toList⟩ ∧
    intoIdentifier E false "iab".toList = .ok ⟨true, .exact "ab".toList⟩ := by
  constructor <;> rfl

/-- `i` prepended to every string pattern of a YAML value (keys, numbers, booleans untouched). -/
def iPrefix : Yaml → Yaml
  | .str s => .str ('i' :: s)
  | .seq xs => .seq (iPrefixL xs)
  | .map kvs => .map (iPrefixM kvs)
  | y => y
where
  iPrefixL : List Yaml → List Yaml
    | [] => []
    | x :: xs => iPrefix x :: iPrefixL xs
  iPrefixM : List (Yaml × Yaml) → List (Yaml × Yaml)
    | [] => []
    | p :: rest => iPrefixP p :: iPrefixM rest
  iPrefixP : Yaml × Yaml → Yaml × Yaml
    | (k, v) => (k, iPrefix v)

end Tau.C15

namespace Tau.C15
open Tau

theorem isSeq_iPrefix (v : Yaml) : (iPrefix v).isSeq = v.isSeq := by
  cases v <;> simp [iPrefix, Yaml.isSeq]

mutual
theorem entries_ic (E : RegexEngine) : ∀ (kvs : List (Yaml × Yaml)),
    parseEntries E true kvs = parseEntries E false (iPrefix.iPrefixM kvs)
  | [] => by simp [parseEntries, iPrefix.iPrefixM]
  | p :: rest => by
    simp only [parseEntries, iPrefix.iPrefixM]
    rw [pair_ic E p, entries_ic E rest]

theorem pair_ic (E : RegexEngine) : ∀ (p : Yaml × Yaml),
    parsePair E true p = parsePair E false (iPrefix.iPrefixP p)
  | (k, v) => by
    simp only [parsePair, iPrefix.iPrefixP, isSeq_iPrefix]
    cases parseKey k v.isSeq with
    | error e => rfl
    | ok r =>
      obtain ⟨e, f, misc⟩ := r
      exact val_ic E e f misc v

theorem val_ic (E : RegexEngine) (e : Expr) (f : Str) (misc : Option ModSym) : ∀ (v : Yaml),
    parseVal E true e f misc v = parseVal E false e f misc (iPrefix v)
  | .null => by simp [parseVal, iPrefix]
  | .bool b => by simp [parseVal, iPrefix]
  | .num n => by cases n <;> simp [parseVal, iPrefix]
  | .tagged _ => by simp [parseVal, iPrefix]
  | .str s => by simp only [parseVal, iPrefix, ic_feature]
  | .map m => by
    simp only [parseVal, iPrefix]
    rw [entries_ic E m]
  | .seq s => by
    simp only [parseVal, iPrefix]
    rw [members_ic E f misc _ s]

theorem members_ic (E : RegexEngine) (f : Str) (misc : Option ModSym) (lhs : Expr) :
    ∀ (vs : List Yaml) (st : SeqSt),
    parseMembers E true f misc lhs vs st = parseMembers E false f misc lhs (iPrefix.iPrefixL vs) st
  | [], st => by simp [parseMembers, iPrefix.iPrefixL]
  | v :: vs, st => by
    cases v with
    | null => simp only [parseMembers, iPrefix.iPrefixL, iPrefix]; exact members_ic E f misc lhs vs _
    | bool b =>
      simp only [parseMembers, iPrefix.iPrefixL, iPrefix]
      split
      · exact members_ic E f misc lhs vs _
      · split
        · exact members_ic E f misc lhs vs _
        · exact members_ic E f misc lhs vs _
    | num n =>
      cases n with
      | int i =>
        simp only [parseMembers, iPrefix.iPrefixL, iPrefix]
        split
        · exact members_ic E f misc lhs vs _
        · exact members_ic E f misc lhs vs _
      | big a b c =>
        simp only [parseMembers, iPrefix.iPrefixL, iPrefix]
        split
        · rfl
        · split
          · exact members_ic E f misc lhs vs _
          · exact members_ic E f misc lhs vs _
      | flt b c =>
        simp only [parseMembers, iPrefix.iPrefixL, iPrefix]
        split
        · rfl
        · split
          · exact members_ic E f misc lhs vs _
          · exact members_ic E f misc lhs vs _
    | tagged => simp [parseMembers, iPrefix.iPrefixL, iPrefix]
    | seq xs => simp [parseMembers, iPrefix.iPrefixL, iPrefix]
    | str s =>
      simp only [parseMembers, iPrefix.iPrefixL, iPrefix, ic_feature]
      cases intoIdentifier E false ('i' :: s) with
      | error e => rfl
      | ok ident =>
        simp only []
        cases castCheck misc ident.pat with
        | error e => rfl
        | ok u =>
          simp only []
          cases ident.pat <;> simp only [] <;> exact members_ic E f misc lhs vs _
    | map m =>
      simp only [parseMembers, iPrefix.iPrefixL, iPrefix]
      split
      · rfl
      · rw [entries_ic E m]
        cases finishMapping (parseEntries E false (iPrefix.iPrefixM m)) with
        | error e => rfl
        | ok x => exact members_ic E f misc lhs vs _
end

/-- Identifier level: the `ignore_case` build loads an identifier exactly as the default build
    loads the same identifier with `i` prepended to every string pattern. -/
theorem parse_identifier_ic (E : RegexEngine) (kvs : List (Yaml × Yaml)) :
    parseMapping E true kvs = parseMapping E false (iPrefix.iPrefixM kvs) := by
  simp [parseMapping, entries_ic]

end Tau.C15
