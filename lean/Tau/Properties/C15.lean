import Tau.Mapping
import Tau.Rule
/-
  C15 — the ignore_case build equals the default build with every pattern i-prefixed.
-/
namespace Tau.C15
open Tau

/-- Pattern level: in a build with feature `ignore_case` a string pattern parses exactly as the
    same pattern with an `i` prepended parses in the default build (same case flag, same folded
    needle, same regex flag) — and no `i` prefix is interpreted in that build. -/
theorem ic_feature (E : RegexEngine) (s : Str) :
    intoIdentifier E true s = intoIdentifier E false ('i' :: s) := by
  simp [intoIdentifier, stripCase]

/-- In the `ignore_case` build every pattern is case-insensitive. -/
theorem ic_always_insensitive (E : RegexEngine) (s : Str) (i : Ident)
    (h : intoIdentifier E true s = .ok i) : i.ci = true := by
  unfold intoIdentifier at h
  split at h
  · cases h; simp [stripCase]
  · cases h

/-- In the `ignore_case` build a leading `i` is part of the pattern text, not a flag. -/
example (E : RegexEngine) :
    intoIdentifier E true "iab".toList = .ok ⟨true, .exact "iab".toList⟩ ∧
    intoIdentifier E false "iab".toList = .ok ⟨true, .exact "ab".toList⟩ := by
  constructor <;> rfl

/-- `i` prepended to every string pattern of a YAML value (keys, numbers, booleans untouched). -/
def iPrefix : Yaml → Yaml
  | .str s => .str ('i' :: s)
  | .seq xs => .seq (iPrefixL xs)
  | .map kvs => .map (iPrefixM kvs)
  | y => y
where
  iPrefixL : List Yaml → List Yaml
    | [] => []
    | x :: xs => iPrefix x :: iPrefixL xs
  iPrefixM : List (Yaml × Yaml) → List (Yaml × Yaml)
    | [] => []
    | p :: rest => iPrefixP p :: iPrefixM rest
  iPrefixP : Yaml × Yaml → Yaml × Yaml
    | (k, v) => (k, iPrefix v)

end Tau.C15

namespace Tau.C15
open Tau

theorem isSeq_iPrefix (v : Yaml) : (iPrefix v).isSeq = v.isSeq := by
  cases v <;> simp [iPrefix, Yaml.isSeq]

mutual
theorem entries_ic (E : RegexEngine) : ∀ (kvs : List (Yaml × Yaml)),
    parseEntries E true kvs = parseEntries E false (iPrefix.iPrefixM kvs)
  | [] => by simp [parseEntries, iPrefix.iPrefixM]
  | p :: rest => by
    simp only [parseEntries, iPrefix.iPrefixM]
    rw [pair_ic E p, entries_ic E rest]

theorem pair_ic (E : RegexEngine) : ∀ (p : Yaml × Yaml),
    parsePair E true p = parsePair E false (iPrefix.iPrefixP p)
  | (k, v) => by
    simp only [parsePair, iPrefix.iPrefixP, isSeq_iPrefix]
    cases parseKey k v.isSeq with
    | error e => rfl
    | ok r =>
      obtain ⟨e, f, misc⟩ := r
      exact val_ic E e f misc v

theorem val_ic (E : RegexEngine) (e : Expr) (f : Str) (misc : Option ModSym) : ∀ (v : Yaml),
    parseVal E true e f misc v = parseVal E false e f misc (iPrefix v)
  | .null => by simp [parseVal, iPrefix]
  | .bool b => by simp [parseVal, iPrefix]
  | .num n => by cases n <;> simp [parseVal, iPrefix]
  | .tagged _ => by simp [parseVal, iPrefix]
  | .str s => by simp only [parseVal, iPrefix, ic_feature]
  | .map m => by
    simp only [parseVal, iPrefix]
    rw [entries_ic E m]
  | .seq s => by
    simp only [parseVal, iPrefix]
    rw [members_ic E f misc _ s]

theorem members_ic (E : RegexEngine) (f : Str) (misc : Option ModSym) (lhs : Expr) :
    ∀ (vs : List Yaml) (st : SeqSt),
    parseMembers E true f misc lhs vs st = parseMembers E false f misc lhs (iPrefix.iPrefixL vs) st
  | [], st => by simp [parseMembers, iPrefix.iPrefixL]
  | v :: vs, st => by
    cases v with
    | null => simp only [parseMembers, iPrefix.iPrefixL, iPrefix]; exact members_ic E f misc lhs vs _
    | bool b =>
      simp only [parseMembers, iPrefix.iPrefixL, iPrefix]
      split
      · exact members_ic E f misc lhs vs _
      · split
        · exact members_ic E f misc lhs vs _
        · exact members_ic E f misc lhs vs _
    | num n =>
      cases n with
      | int i =>
        simp only [parseMembers, iPrefix.iPrefixL, iPrefix]
        split
        · exact members_ic E f misc lhs vs _
        · exact members_ic E f misc lhs vs _
      | big a b c =>
        simp only [parseMembers, iPrefix.iPrefixL, iPrefix]
        split
        · rfl
        · split
          · exact members_ic E f misc lhs vs _
          · exact members_ic E f misc lhs vs _
      | flt b c =>
        simp only [parseMembers, iPrefix.iPrefixL, iPrefix]
        split
        · rfl
        · split
          · exact members_ic E f misc lhs vs _
          · exact members_ic E f misc lhs vs _
    | tagged => simp [parseMembers, iPrefix.iPrefixL, iPrefix]
    | seq xs => simp [parseMembers, iPrefix.iPrefixL, iPrefix]
    | str s =>
      simp only [parseMembers, iPrefix.iPrefixL, iPrefix, ic_feature]
      cases intoIdentifier E false ('i' :: s) with
      | error e => rfl
      | ok ident =>
        simp only []
        cases castCheck misc ident.pat with
        | error e => rfl
        | ok u =>
          simp only []
          cases ident.pat <;> simp only [] <;> exact members_ic E f misc lhs vs _
    | map m =>
      simp only [parseMembers, iPrefix.iPrefixL, iPrefix]
      split
      · rfl
      · rw [entries_ic E m]
        cases finishMapping (parseEntries E false (iPrefix.iPrefixM m)) with
        | error e => rfl
        | ok x => exact members_ic E f misc lhs vs _
end

/-- Identifier level: the `ignore_case` build loads an identifier exactly as the default build
    loads the same identifier with `i` prepended to every string pattern. -/
theorem parse_identifier_ic (E : RegexEngine) (kvs : List (Yaml × Yaml)) :
    parseMapping E true kvs = parseMapping E false (iPrefix.iPrefixM kvs) := by
  simp [parseMapping, entries_ic]

end Tau.C15

/-! ### Every YAML shape, and the rule as a whole -/

namespace Tau.C15
open Tau

theorem go_ic (E : RegexEngine) : ∀ (ys : List Yaml),
    parseIdentifier.go E true ys = parseIdentifier.go E false (iPrefix.iPrefixL ys)
  | [] => by simp [parseIdentifier.go, iPrefix.iPrefixL]
  | y :: rest => by
    cases y with
    | map m =>
      simp only [parseIdentifier.go, iPrefix.iPrefixL, iPrefix]
      rw [entries_ic E m, go_ic E rest]
    | _ => simp [parseIdentifier.go, iPrefix.iPrefixL, iPrefix]

/-- **Identifier level, every YAML shape**: a mapping, a sequence of mappings, anything else. -/
theorem parseIdentifier_ic (E : RegexEngine) (y : Yaml) :
    parseIdentifier E true y = parseIdentifier E false (iPrefix y) := by
  cases y with
  | map m => simp only [parseIdentifier, iPrefix]; exact parse_identifier_ic E m
  | seq ys =>
    cases ys with
    | nil => simp [parseIdentifier, iPrefix, iPrefix.iPrefixL]
    | cons a r =>
      simp only [parseIdentifier, iPrefix, iPrefix.iPrefixL]
      have := go_ic E (a :: r)
      simp only [iPrefix.iPrefixL] at this
      rw [this]
  | _ => simp [parseIdentifier, iPrefix]

/-- The detection block with `i` prepended to every string pattern of every identifier (the
    condition is left alone). -/
def iPrefixDet : List (Str × Yaml) → List (Str × Yaml)
  | [] => []
  | (k, v) :: rest => (if k == condKey then (k, v) else (k, iPrefix v)) :: iPrefixDet rest

def stMap (st : LoadSt) : LoadSt :=
  { st with idsRaw := st.idsRaw.map (fun p => (p.1, iPrefix p.2)) }

theorem loadEntries_ic (E : RegexEngine) : ∀ (es : List (Str × Yaml)) (st : LoadSt),
    (loadEntries E true es st).map stMap = loadEntries E false (iPrefixDet es) (stMap st)
  | [], st => by simp [loadEntries, iPrefixDet, Except.map]
  | (key, v) :: rest, st => by
    by_cases hk : (key == condKey) = true
    · simp only [loadEntries, iPrefixDet, hk, if_true]
      by_cases hc : st.cond.isSome = true
      · simp [hc, stMap, Except.map]
      · have hc' : (stMap st).cond.isSome = false := by simpa [stMap] using hc
        simp only [hc, hc', Bool.false_eq_true, if_false]
        cases scalarYamlText v with
        | none => simp [Except.map]
        | some s => exact loadEntries_ic E rest _
    · simp only [loadEntries, iPrefixDet, hk, Bool.false_eq_true, if_false]
      have hids : (stMap st).ids = st.ids := rfl
      rw [hids]
      by_cases hl : (lookupId st.ids key).isSome = true
      · simp [hl, Except.map]
      · simp only [hl, Bool.false_eq_true, if_false]
        rw [← parseIdentifier_ic E v]
        cases parseIdentifier E true v with
        | error e => simp [Except.map]
        | ok e =>
          simp only []
          have := loadEntries_ic E rest { st with ids := st.ids ++ [(key, e)], idsRaw := st.idsRaw ++ [(key, v)] }
          simpa [stMap, List.map_append] using this

/-- **Rule level.** The `ignore_case` build loads a detection block exactly when the default build
    loads the block with `i` prepended to every string pattern, and then with the same condition
    tree and the same identifier trees. -/
theorem loadDetection_ic (E : RegexEngine) (entries : List (Str × Yaml)) :
    (loadDetection E true entries).map (fun d => (d.expr, d.ids, d.condRaw)) =
    (loadDetection E false (iPrefixDet entries)).map (fun d => (d.expr, d.ids, d.condRaw)) := by
  unfold loadDetection
  have h := loadEntries_ic E entries {}
  have h0 : stMap {} = ({} : LoadSt) := rfl
  rw [h0] at h
  rw [← h]
  cases loadEntries E true entries {} with
  | error e => simp [Except.map]
  | ok st =>
    simp only [Except.map]
    have hc : (stMap st).cond = st.cond := rfl
    have hi : (stMap st).ids = st.ids := rfl
    rw [hc, hi]
    cases st.cond with
    | none => rfl
    | some raw =>
      simp only []
      cases tokenise raw with
      | error e => rfl
      | ok tokens =>
        simp only []
        by_cases hp : (!identsPresent st.ids tokens) = true
        · simp only [hp, if_true]
        · simp only [hp, Bool.false_eq_true, if_false]
          cases parse tokens with
          | error e => rfl
          | ok e =>
            simp only []
            by_cases hs : (!e.isSolvable) = true
            · simp only [hs, if_true]
            · simp only [hs, Bool.false_eq_true, if_false]

/-- **The verdicts.** A rule in the `ignore_case` build gives, on every document, the three-valued
    result (hence the verdict) the default build gives for the same rule with `i` prepended to every
    string pattern. -/
theorem rule_ic_verdict (E : RegexEngine) (entries : List (Str × Yaml)) (d1 d2 : Detection)
    (h1 : loadDetection E true entries = .ok d1) (h2 : loadDetection E false (iPrefixDet entries) = .ok d2)
    (doc : Doc) : solveTop E d1.ids doc d1.expr = solveTop E d2.ids doc d2.expr := by
  have h := loadDetection_ic E entries
  rw [h1, h2] at h
  simp only [Except.map, Except.ok.injEq, Prod.mk.injEq] at h
  rw [h.1, h.2.1]

/-- Either build rejects what the other rejects. -/
theorem rule_ic_loads (E : RegexEngine) (entries : List (Str × Yaml)) :
    (loadDetection E true entries).isOk = (loadDetection E false (iPrefixDet entries)).isOk := by
  have h := loadDetection_ic E entries
  cases h1 : loadDetection E true entries <;> cases h2 : loadDetection E false (iPrefixDet entries) <;>
    simp [h1, h2, Except.map, Except.isOk, Except.toBool] at h ⊢

end Tau.C15
