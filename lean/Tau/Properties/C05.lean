import Tau.Proofs.Tokeniser
import Tau.Pratt
/-
  C05 — Condition grammar: fixed precedence, associativity and parentheses.
-/
set_option linter.unusedSimpArgs false
namespace Tau.C05
open Tau

/-- The binding powers: `not` 95 > comparisons 90 > `or` 80 > `and` 70. -/
theorem binding_powers :
    Token.miscNot.bp = 95 ∧ (Token.op .eq).bp = 90 ∧ (Token.op .gt).bp = 90 ∧ (Token.op .ge).bp = 90 ∧
    (Token.op .lt).bp = 90 ∧ (Token.op .le).bp = 90 ∧ (Token.op .or).bp = 80 ∧ (Token.op .and).bp = 70 := by
  decide

/-- Every keyword of the tokeniser ends in a delimiter (a space or an opening parenthesis) … -/
theorem keyword_ends_in_delimiter :
    ∀ k ∈ keywords, k.1.getLast? = some ' ' ∨ k.1.getLast? = some '(' := by
  decide

theorem keyword_length : ∀ k ∈ keywords, k.1.length ≤ 7 := by decide

theorem mem_take_prefix (c : Char) (kw rest : Str) (hm : c ∈ kw) (hlen : kw.length ≤ 7) :
    c ∈ (kw ++ rest).take 7 := by
  rw [List.take_append, List.take_of_length_le hlen]
  exact List.mem_append_left _ hm

/-- … and is at most 7 characters long, so a word is only ever read as a keyword when a space or
    `(` occurs among its first 7 characters: `android`, `order`, `nothing`, `allow`, `offline` are
    ordinary identifiers however they continue. -/
theorem keyword_needs_delimiter (s : Str) (t : Token) (n : Nat) (h : findKeyword s = some (t, n)) :
    ∃ c ∈ s.take 7, c = ' ' ∨ c = '(' := by
  unfold findKeyword at h
  split at h
  · rename_i kw tk n' hf
    have hmem := List.mem_of_find?_eq_some hf
    have hpre : matchAhead s kw = true := by
      have := List.find?_some hf
      simpa using this
    have hlast := keyword_ends_in_delimiter _ hmem
    have hlen : kw.length ≤ 7 := keyword_length _ hmem
    obtain ⟨rest, hrest⟩ := List.isPrefixOf_iff_prefix.mp hpre
    have hne : kw ≠ [] := by
      intro hnil; subst hnil; simp at hlast
    rcases hlast with hl | hl
    · refine ⟨' ', ?_, Or.inl rfl⟩
      have hm : ' ' ∈ kw := List.mem_of_getLast? hl
      rw [← hrest]
      exact mem_take_prefix _ _ _ hm hlen
    · refine ⟨'(', ?_, Or.inr rfl⟩
      have hm : '(' ∈ kw := List.mem_of_getLast? hl
      rw [← hrest]
      exact mem_take_prefix _ _ _ hm hlen
  · cases h

/-- Words that merely begin with keyword letters tokenise as ordinary identifiers. -/
example :
    tokenise "android".toList = .ok [.ident "android".toList] ∧
    tokenise "order and nothing".toList = .ok [.ident "order".toList, .op .and, .ident "nothing".toList] ∧
    tokenise "allow or offline".toList = .ok [.ident "allow".toList, .op .or, .ident "offline".toList] ∧
    tokenise "not notable".toList = .ok [.miscNot, .ident "notable".toList] := by
  refine ⟨by rfl, by rfl, by rfl, by rfl⟩

end Tau.C05
