import Tau.Proofs.Tokeniser
import Tau.Pratt
import Tau.Proofs.PrattPP
import Tau.Proofs.TokRT
import Tau.Proofs.TokGaps
/-
  C05 — Condition grammar: fixed precedence, associativity and parentheses.
-/
set_option linter.unusedSimpArgs false
namespace Tau.C05
open Tau

/-- The binding powers: `not` 95 > comparisons 90 > `or` 80 > `and` 70. -/
theorem binding_powers :
    Token.miscNot.bp = 95 ∧ (Token.op .eq).bp = 90 ∧ (Token.op .gt).bp = 90 ∧ (Token.op .ge).bp = 90 ∧
    (Token.op .lt).bp = 90 ∧ (Token.op .le).bp = 90 ∧ (Token.op .or).bp = 80 ∧ (Token.op .and).bp = 70 := by
  decide

/-- Every keyword of the tokeniser ends in a delimiter (a space or an opening parenthesis) … -/
theorem keyword_ends_in_delimiter :
    ∀ k ∈ keywords, k.1.getLast? = some ' ' ∨ k.1.getLast? = some '(' := by
  decide

theorem keyword_length : ∀ k ∈ keywords, k.1.length ≤ 7 := by decide

theorem mem_take_prefix (c : Char) (kw rest : Str) (hm : c ∈ kw) (hlen : kw.length ≤ 7) :
    c ∈ (kw ++ rest).take 7 := by
  rw [List.take_append, List.take_of_length_le hlen]
  exact List.mem_append_left _ hm

/-- … and is at most 7 characters long, so a word is only ever read as a keyword when a space or
    `(` occurs among its first 7 characters: `android`, `order`, `nothing`, `allow`, `offline` are
    ordinary identifiers however they continue. -/
theorem keyword_needs_delimiter (s : Str) (t : Token) (n : Nat) (h : findKeyword s = some (t, n)) :
    ∃ c ∈ s.take 7, c = ' ' ∨ c = '(' := by
  unfold findKeyword at h
  split at h
  · rename_i kw tk n' hf
    have hmem := List.mem_of_find?_eq_some hf
    have hpre : matchAhead s kw = true := by
      have := List.find?_some hf
      simpa using this
    have hlast := keyword_ends_in_delimiter _ hmem
    have hlen : kw.length ≤ 7 := keyword_length _ hmem
    obtain ⟨rest, hrest⟩ := List.isPrefixOf_iff_prefix.mp hpre
    have hne : kw ≠ [] := by
      intro hnil; subst hnil; simp at hlast
    rcases hlast with hl | hl
    · refine ⟨' ', ?_, Or.inl rfl⟩
      have hm : ' ' ∈ kw := List.mem_of_getLast? hl
      rw [← hrest]
      exact mem_take_prefix _ _ _ hm hlen
    · refine ⟨'(', ?_, Or.inr rfl⟩
      have hm : '(' ∈ kw := List.mem_of_getLast? hl
      rw [← hrest]
      exact mem_take_prefix _ _ _ hm hlen
  · cases h

/-- Words that merely begin with keyword letters tokenise as ordinary identifiers. -/
example :
    tokenise "android".toList = .ok [.ident "android".toList] ∧
    tokenise "order and nothing".toList = .ok [.ident "order".toList, .op .and, .ident "nothing".toList] ∧
    tokenise "allow or offline".toList = .ok [.ident "allow".toList, .op .or, .ident "offline".toList] ∧
    tokenise "not notable".toList = .ok [.miscNot, .ident "notable".toList] := by
  refine ⟨by rfl, by rfl, by rfl, by rfl⟩

end Tau.C05

namespace Tau.C05
open Tau

/-- **The grammar, as a round trip.** For every condition AST over identifiers, `all()`, `of()`,
    `not`, `and`, `or` — printed with exactly the parentheses the binding powers require and with
    any number of redundant parentheses the author added (`Cond.par`) — the parser returns exactly
    the AST's tree. This pins: `not` applies to the single operand that follows; `or` binds tighter
    than `and`; equal operators associate to the left; parentheses override; redundant parentheses
    change nothing. -/
theorem parse_print (c : Cond) : parse c.pp = .ok c.toExpr := parse_pp c

/-- Redundant parentheses around any sub-expression never change the parsed tree. -/
theorem redundant_parens (c : Cond) : parse (Cond.par c).pp = parse c.pp := by
  rw [parse_pp, parse_pp]; rfl

/-- The printed forms of the four grammar facts (what the round trip is about). -/
example :
    -- `not A or B` is `(not A) or B`
    (Cond.or (.not (.id ['A'])) (.id ['B'])).pp = [.miscNot, .ident ['A'], .op .or, .ident ['B']] ∧
    -- `A and B or C` is `A and (B or C)`: `or` binds tighter than `and`
    (Cond.and (.id ['A']) (.or (.id ['B']) (.id ['C']))).pp
      = [.ident ['A'], .op .and, .ident ['B'], .op .or, .ident ['C']] ∧
    -- `(A and B) or C` needs its parentheses
    (Cond.or (.and (.id ['A']) (.id ['B'])) (.id ['C'])).pp
      = [.lparen, .ident ['A'], .op .and, .ident ['B'], .rparen, .op .or, .ident ['C']] ∧
    -- `A and B and C` is `(A and B) and C`: left associative, and the other grouping needs parentheses
    (Cond.and (.and (.id ['A']) (.id ['B'])) (.id ['C'])).pp
      = [.ident ['A'], .op .and, .ident ['B'], .op .and, .ident ['C']] ∧
    (Cond.and (.id ['A']) (.and (.id ['B']) (.id ['C']))).pp
      = [.ident ['A'], .op .and, .lparen, .ident ['B'], .op .and, .ident ['C'], .rparen] := by
  refine ⟨rfl, rfl, rfl, rfl, rfl⟩

/-- Fuel never decides a successful parse: more fuel gives the same tree. -/
theorem parse_fuel_irrelevant {f f' : Nat} (h : f ≤ f') {ts : List Token} {e : Expr}
    (hp : parseAll f ts = .ok e) : parseAll f' ts = .ok e := parseAll_mono h hp

/-- The round trip covers comparison atoms too: `A and int(n) > 3 or B` — a comparison binds
    tighter than `or`, `or` tighter than `and`; under `not` a comparison needs its parentheses. -/
example :
    let cmp : Cond := .cmp (.cast ['n'] .int) .gt (.int 3) ⟨rfl, by decide, by decide⟩
    parse (Cond.and (.id ['A']) (.or cmp (.id ['B']))).pp
      = .ok (.bin (.ident ['A']) .and (.bin (.bin (.cast ['n'] .int) .gt (.int 3)) .or (.ident ['B']))) ∧
    (Cond.not cmp).pp = [.miscNot, .lparen, .modifier .int, .lparen, .ident ['n'], .rparen, .op .gt, .int 3, .rparen] :=
  ⟨parse_print _, rfl⟩

/-- **Text ↦ tokens.** The text of a renderable token list (one blank after every token, none
    between `all`/`of`/`int`/… and its parenthesis; identifier names that start with a letter, use
    identifier characters and are not exactly `and`/`or`/`not`; integer literals by any decimal
    text `parseI64` reads back) tokenises back to that list. -/
theorem text_tokens (num : Int → Str) (ts : List Token) (h : Renderable num ts) :
    tokenise (render num ts) = .ok ts := tokenise_render num ts h

/-- **Text of a condition ↦ its tree** (tokeniser and Pratt parser composed). -/
theorem text_round_trip (num : Int → Str) (c : Cond) (h : c.good num) :
    (match tokenise (render num c.pp) with
     | .ok ts => parse ts
     | .error e => .error e) = .ok c.toExpr := cond_text_round_trip num c h

/-- Non-vacuity: `A and int( n ) > 3 or B` is such a text. -/
example :
    let num : Int → Str := fun i => (toString i).toList
    let cmp : Cond := .cmp (.cast ['n'] .int) .gt (.int 3) ⟨rfl, by decide, by decide⟩
    let c : Cond := .and (.id ['A']) (.or cmp (.id ['B']))
    c.good num ∧ String.ofList (render num c.pp) = "A and int( n ) > 3 or B " := by
  refine ⟨⟨?_, ⟨?_, ?_⟩, ?_⟩, by decide⟩
  · exact ⟨⟨'A', [], rfl, by decide⟩, by decide, by decide, by decide, by decide⟩
  · exact ⟨⟨'n', [], rfl, by decide⟩, by decide, by decide, by decide, by decide⟩
  · exact ⟨⟨'3', [], by decide, by decide⟩, by decide, by decide⟩
  · exact ⟨⟨'B', [], rfl, by decide⟩, by decide, by decide, by decide, by decide⟩

/-- **Extra blanks never change the tokens**: any number of blanks in front of the text, and after
    every token any number beyond the one that ends it (`gs`, token by token; keywords such as
    `all`, `of`, `int` still touch their parenthesis) — the tokeniser returns the same token list. -/
theorem extra_blanks_tokens (num : Int → Str) (ts : List Token) (h : Renderable num ts) (k : Nat)
    (gs : List Nat) : tokenise (sp k ++ renderG num ts gs) = .ok ts :=
  tokenise_renderG num ts h k gs

/-- **Extra blanks never change what a condition means**: text with arbitrary extra blanks
    tokenises and parses to the tree of the condition (so to the same verdicts on every document). -/
theorem extra_blanks_tree (num : Int → Str) (c : Cond) (h : c.good num) (k : Nat) (gs : List Nat) :
    (match tokenise (sp k ++ renderG num c.pp gs) with
     | .ok ts => parse ts
     | .error e => .error e) = .ok c.toExpr := by
  rw [tokenise_renderG num c.pp (Cond.pp_renderable num c h) k gs]
  exact parse_pp c

/-- With no extra blanks this is the plain rendering. -/
theorem no_extra_blanks (num : Int → Str) (ts : List Token) : renderG num ts [] = render num ts :=
  renderG_nogaps num ts

/-- Non-vacuity: three blanks in front, then gaps of 1 + (2, 0, 5, 0, 1, …) blanks. -/
example :
    let num : Int → Str := fun i => (toString i).toList
    String.ofList (sp 3 ++ renderG num [.ident ['A'], .op .and, .modifier .int, .lparen, .ident ['n'], .rparen, .op .gt, .int 3] [2, 0, 5, 0, 1])
      = "   A   and int(      n )  > 3 " := by decide

end Tau.C05
