import Tau.Rule
/-
  C14 — Rule serialisation round-trips (partial: serde_yaml's emit/parse of the raw values is an
  external crate, assumed `parse (emit v) = v` and exercised by the correspondence run on
  quoting-sensitive strings).
-/
set_option linter.unusedSimpArgs false
namespace Tau.C14
open Tau

/-- `raw` re-parses to `ids`, key by key, in order; no key is `condition`; every key is new with
    respect to the identifiers before it (`pre` = those already loaded). -/
def Cons (E : RegexEngine) (ic : Bool) : Ids → Ids → List (Str × Yaml) → Prop
  | _, [], [] => True
  | pre, (k, e) :: ids, (k', v) :: raw =>
    k = k' ∧ parseIdentifier E ic v = .ok e ∧ (k == condKey) = false ∧ lookupId pre k = none ∧
      Cons E ic (pre ++ [(k, e)]) ids raw
  | _, _, _ => False

theorem cons_snoc (E : RegexEngine) (ic : Bool) (pre ids : Ids) (raw : List (Str × Yaml)) (k : Str)
    (e : Expr) (v : Yaml) (h : Cons E ic pre ids raw) (hp : parseIdentifier E ic v = .ok e)
    (hk : (k == condKey) = false) (hl : lookupId (pre ++ ids) k = none) :
    Cons E ic pre (ids ++ [(k, e)]) (raw ++ [(k, v)]) := by
  induction ids generalizing pre raw with
  | nil =>
    cases raw with
    | nil => exact ⟨rfl, hp, hk, by simpa using hl, trivial⟩
    | cons r rs => cases r; exact h.elim
  | cons x xs ih =>
    obtain ⟨k1, e1⟩ := x
    cases raw with
    | nil => exact h.elim
    | cons r rs =>
      obtain ⟨k2, v2⟩ := r
      obtain ⟨h1, h2, h3, h4, h5⟩ := h
      refine ⟨h1, h2, h3, h4, ih _ rs h5 ?_⟩
      simpa using hl

/-- The visitor loop keeps the raw and parsed identifier lists consistent. -/
theorem loadEntries_cons (E : RegexEngine) (ic : Bool) (entries : List (Str × Yaml)) (st st' : LoadSt)
    (hst : Cons E ic [] st.ids st.idsRaw) (h : loadEntries E ic entries st = .ok st') :
    Cons E ic [] st'.ids st'.idsRaw := by
  induction entries generalizing st with
  | nil => simp [loadEntries] at h; cases h; exact hst
  | cons x xs ih =>
    obtain ⟨key, v⟩ := x
    simp only [loadEntries] at h
    split at h
    · split at h
      · cases h
      · split at h
        · exact ih _ (by exact hst) h
        · cases h
    · rename_i hkey
      split at h
      · cases h
      · rename_i hl
        split at h
        · cases h
        · rename_i e hp
          refine ih _ ?_ h
          have hk : (key == condKey) = false := by simpa using hkey
          have hl' : lookupId st.ids key = none := by
            cases hh : lookupId st.ids key with
            | none => rfl
            | some _ => simp [hh] at hl
          exact cons_snoc E ic [] st.ids st.idsRaw key e v hst hp hk (by simpa using hl')

/-- Re-loading the raw identifiers on top of a state holding `pre` reproduces the parsed ones. -/
theorem reload_entries (E : RegexEngine) (ic : Bool) (ids : Ids) (raw : List (Str × Yaml)) (pre : Ids)
    (praw : List (Str × Yaml)) (c : Option Str) (hc : Cons E ic pre ids raw) :
    loadEntries E ic raw { ids := pre, idsRaw := praw, cond := c } =
      .ok { ids := pre ++ ids, idsRaw := praw ++ raw, cond := c } := by
  induction ids generalizing raw pre praw with
  | nil =>
    cases raw with
    | nil => simp [loadEntries]
    | cons r rs => cases r; exact hc.elim
  | cons x xs ih =>
    obtain ⟨k, e⟩ := x
    cases raw with
    | nil => exact hc.elim
    | cons r rs =>
      obtain ⟨k', v⟩ := r
      obtain ⟨h1, h2, h3, h4, h5⟩ := hc
      subst h1
      simp only [loadEntries, h3, h4, h2]
      simp only [Bool.false_eq_true, if_false, Option.isSome_none]
      rw [ih rs (pre ++ [(k, e)]) (praw ++ [(k, v)]) h5]
      simp

/-- **Round trip.** If a detection block loads, then what `Serialize` emits for it (the raw
    condition followed by the raw identifiers in their stored order) loads again, to the same
    condition tree, the same identifiers and the same raw data — hence the same verdict on every
    document. Examples and the `optimised` flag are carried verbatim by `Rule.serialise`. -/
theorem load_serialise (E : RegexEngine) (ic : Bool) (entries : List (Str × Yaml)) (d : Detection)
    (h : loadDetection E ic entries = .ok d) :
    loadDetection E ic ((condKey, .str d.condRaw) :: d.idsRaw) = .ok d := by
  unfold loadDetection at h
  split at h
  · cases h
  · rename_i st hst
    have hcons := loadEntries_cons E ic entries {} st trivial hst
    split at h
    · cases h
    · rename_i raw hraw
      split at h
      · cases h
      · rename_i tokens htok
        split at h
        · cases h
        · rename_i hpres
          split at h
          · cases h
          · rename_i e he
            split at h
            · cases h
            · rename_i hsolv
              cases h
              simp only at hcons ⊢
              unfold loadDetection
              have hreload : loadEntries E ic ((condKey, Yaml.str raw) :: st.idsRaw) {} =
                  .ok { ids := st.ids, idsRaw := st.idsRaw, cond := some raw } := by
                simp only [loadEntries, beq_self_eq_true, if_true, scalarYamlText]
                have := reload_entries E ic st.ids st.idsRaw [] [] (some raw) hcons
                simpa using this
              simp only [hreload, htok, he]
              simp [hpres, hsolv]

/-- Serialising carries the examples and the optimised flag verbatim. -/
theorem serialise_carries (r : Rule) (ord : List (Str × Yaml)) :
    (r.serialise ord).tps = r.tps ∧ (r.serialise ord).tns = r.tns ∧ (r.serialise ord).optimised = r.optimised :=
  ⟨rfl, rfl, rfl⟩

/-- What is serialised never depends on the optimised tree: an optimised rule serialises the same
    detection source as the rule it was optimised from. -/
theorem optimised_serialises_same_source (E : RegexEngine) (sw : Switches) (r : Rule) (ord : List (Str × Yaml)) :
    ((r.optimise E sw).serialise ord).det = (r.serialise ord).det := by
  unfold Rule.optimise Rule.serialise
  by_cases h : r.optimised <;> simp [h]

end Tau.C14
