import Tau.Rule
/-
  C14 — Rule serialisation round-trips (partial: serde_yaml's emit/parse of the raw values is an
  external crate, assumed `parse (emit v) = v` and exercised by the correspondence run on
  quoting-sensitive strings).
-/
set_option linter.unusedSimpArgs false
namespace Tau.C14
open Tau

/-- `raw` re-parses to `ids`, key by key, in order; no key is `condition`; every key is new with
    respect to the identifiers before it (`pre` = those already loaded). -/
def Cons (E : RegexEngine) (ic : Bool) : Ids → Ids → List (Str × Yaml) → Prop
  | _, [], [] => True
  | pre, (k, e) :: ids, (k', v) :: raw =>
    k = k' ∧ parseIdentifier E ic v = .ok e ∧ (k == condKey) = false ∧ lookupId pre k = none ∧
      Cons E ic (pre ++ [(k, e)]) ids raw
  | _, _, _ => False

theorem cons_snoc (E : RegexEngine) (ic : Bool) (pre ids : Ids) (raw : List (Str × Yaml)) (k : Str)
    (e : Expr) (v : Yaml) (h : Cons E ic pre ids raw) (hp : parseIdentifier E ic v = .ok e)
    (hk : (k == condKey) = false) (hl : lookupId (pre ++ ids) k = none) :
    Cons E ic pre (ids ++ [(k, e)]) (raw ++ [(k, v)]) := by
  induction ids generalizing pre raw with
  | nil =>
    cases raw with
    | nil => exact ⟨rfl, hp, hk, by simpa using hl, trivial⟩
    | cons r rs => cases r; exact h.elim
  | cons x xs ih =>
    obtain ⟨k1, e1⟩ := x
    cases raw with
    | nil => exact h.elim
    | cons r rs =>
      obtain ⟨k2, v2⟩ := r
      obtain ⟨h1, h2, h3, h4, h5⟩ := h
      refine ⟨h1, h2, h3, h4, ih _ rs h5 ?_⟩
      simpa using hl

/-- The visitor loop keeps the raw and parsed identifier lists consistent. -/
theorem loadEntries_cons (E : RegexEngine) (ic : Bool) (entries : List (Str × Yaml)) (st st' : LoadSt)
    (hst : Cons E ic [] st.ids st.idsRaw) (h : loadEntries E ic entries st = .ok st') :
    Cons E ic [] st'.ids st'.idsRaw := by
  induction entries generalizing st with
  | nil => simp [loadEntries] at h; cases h; exact hst
  | cons x xs ih =>
    obtain ⟨key, v⟩ := x
    simp only [loadEntries] at h
    split at h
    · split at h
      · cases h
      · split at h
        · exact ih _ (by exact hst) h
        · cases h
    · rename_i hkey
      split at h
      · cases h
      · rename_i hl
        split at h
        · cases h
        · rename_i e hp
          refine ih _ ?_ h
          have hk : (key == condKey) = false := by simpa using hkey
          have hl' : lookupId st.ids key = none := by
            cases hh : lookupId st.ids key with
            | none => rfl
            | some _ => simp [hh] at hl
          exact cons_snoc E ic [] st.ids st.idsRaw key e v hst hp hk (by simpa using hl')

/-- Re-loading the raw identifiers on top of a state holding `pre` reproduces the parsed ones. -/
theorem reload_entries (E : RegexEngine) (ic : Bool) (ids : Ids) (raw : List (Str × Yaml)) (pre : Ids)
    (praw : List (Str × Yaml)) (c : Option Str) (hc : Cons E ic pre ids raw) :
    loadEntries E ic raw { ids := pre, idsRaw := praw, cond := c } =
      .ok { ids := pre ++ ids, idsRaw := praw ++ raw, cond := c } := by
  induction ids generalizing raw pre praw with
  | nil =>
    cases raw with
    | nil => simp [loadEntries]
    | cons r rs => cases r; exact hc.elim
  | cons x xs ih =>
    obtain ⟨k, e⟩ := x
    cases raw with
    | nil => exact hc.elim
    | cons r rs =>
      obtain ⟨k', v⟩ := r
      obtain ⟨h1, h2, h3, h4, h5⟩ := hc
      subst h1
      simp only [loadEntries, h3, h4, h2]
      simp only [Bool.false_eq_true, if_false, Option.isSome_none]
      rw [ih rs (pre ++ [(k, e)]) (praw ++ [(k, v)]) h5]
      simp

/-- **Round trip.** If a detection block loads, then what `Serialize` emits for it (the raw
    condition followed by the raw identifiers in their stored order) loads again, to the same
    condition tree, the same identifiers and the same raw data — hence the same verdict on every
    document. Examples and the `optimised` flag are carried verbatim by `Rule.serialise`. -/
theorem load_serialise (E : RegexEngine) (ic : Bool) (entries : List (Str × Yaml)) (d : Detection)
    (h : loadDetection E ic entries = .ok d) :
    loadDetection E ic ((condKey, .str d.condRaw) :: d.idsRaw) = .ok d := by
  unfold loadDetection at h
  split at h
  · cases h
  · rename_i st hst
    have hcons := loadEntries_cons E ic entries {} st trivial hst
    split at h
    · cases h
    · rename_i raw hraw
      split at h
      · cases h
      · rename_i tokens htok
        split at h
        · cases h
        · rename_i hpres
          split at h
          · cases h
          · rename_i e he
            split at h
            · cases h
            · rename_i hsolv
              cases h
              simp only at hcons ⊢
              unfold loadDetection
              have hreload : loadEntries E ic ((condKey, Yaml.str raw) :: st.idsRaw) {} =
                  .ok { ids := st.ids, idsRaw := st.idsRaw, cond := some raw } := by
                simp only [loadEntries, beq_self_eq_true, if_true, scalarYamlText]
                have := reload_entries E ic st.ids st.idsRaw [] [] (some raw) hcons
                simpa using this
              simp only [hreload, htok, he]
              simp [hpres, hsolv]

/-- Serialising carries the examples and the optimised flag verbatim. -/
theorem serialise_carries (r : Rule) (ord : List (Str × Yaml)) :
    (r.serialise ord).tps = r.tps ∧ (r.serialise ord).tns = r.tns ∧ (r.serialise ord).optimised = r.optimised :=
  ⟨rfl, rfl, rfl⟩

/-- What is serialised never depends on the optimised tree: an optimised rule serialises the same
    detection source as the rule it was optimised from. -/
theorem optimised_serialises_same_source (E : RegexEngine) (sw : Switches) (r : Rule) (ord : List (Str × Yaml)) :
    ((r.optimise E sw).serialise ord).det = (r.serialise ord).det := by
  unfold Rule.optimise Rule.serialise
  by_cases h : r.optimised <;> simp [h]

end Tau.C14

namespace Tau.C14
open Tau

/-- Two loader states the rest of the loader cannot tell apart. -/
def StEq (a b : LoadSt) : Prop := (∀ i, lookupId a.ids i = lookupId b.ids i) ∧ a.cond = b.cond

theorem StEq.refl (a : LoadSt) : StEq a a := ⟨fun _ => rfl, rfl⟩
theorem StEq.symm {a b : LoadSt} (h : StEq a b) : StEq b a := ⟨fun i => (h.1 i).symm, h.2.symm⟩
theorem StEq.trans {a b c : LoadSt} (h : StEq a b) (h' : StEq b c) : StEq a c :=
  ⟨fun i => (h.1 i).trans (h'.1 i), h.2.trans h'.2⟩

/-- Both fail, or both succeed with indistinguishable states. -/
def Rel (a b : Except Err LoadSt) : Prop :=
  match a, b with
  | .ok s, .ok s' => StEq s s'
  | .error _, .error _ => True
  | _, _ => False

theorem Rel.refl (a : Except Err LoadSt) : Rel a a := by
  cases a <;> simp [Rel, StEq.refl]

theorem Rel.trans {a b c : Except Err LoadSt} (h : Rel a b) (h' : Rel b c) : Rel a c := by
  cases a <;> cases b <;> cases c <;> simp_all [Rel]
  exact StEq.trans h h'

theorem Rel.symm {a b : Except Err LoadSt} (h : Rel a b) : Rel b a := by
  cases a <;> cases b <;> simp_all [Rel]
  exact StEq.symm h

theorem lookup_append (ids : Ids) (k : Str) (e : Expr) (i : Str) :
    lookupId (ids ++ [(k, e)]) i =
      match lookupId ids i with
      | some b => some b
      | none => if k == i then some e else none := by
  induction ids with
  | nil => simp [lookupId]
  | cons x xs ih =>
    obtain ⟨k', e'⟩ := x
    simp only [List.cons_append, lookupId]
    split
    · rfl
    · exact ih

/-- One iteration of the visitor loop. -/
def loadStep (E : RegexEngine) (ic : Bool) (x : Str × Yaml) (st : LoadSt) : Except Err LoadSt :=
  if x.1 == condKey then
    if st.cond.isSome then .error (.rule "duplicate") else
    match scalarYamlText x.2 with
    | some s => .ok { st with cond := some s }
    | none => .error (.rule "condition-type")
  else
    if (lookupId st.ids x.1).isSome then .error (.rule "duplicate") else
    match parseIdentifier E ic x.2 with
    | .error _ => .error (.rule "identifier")
    | .ok e => .ok { st with ids := st.ids ++ [(x.1, e)], idsRaw := st.idsRaw ++ [(x.1, x.2)] }

theorem loadEntries_cons' (E : RegexEngine) (ic : Bool) (x : Str × Yaml) (l : List (Str × Yaml)) (st : LoadSt) :
    loadEntries E ic (x :: l) st =
      match loadStep E ic x st with
      | .error e => .error e
      | .ok st1 => loadEntries E ic l st1 := by
  obtain ⟨k, v⟩ := x
  simp only [loadEntries, loadStep]
  by_cases hk : (k == condKey) = true
  · simp only [hk, if_true]
    by_cases hc : st.cond.isSome = true
    · simp [hc]
    · simp only [hc, Bool.false_eq_true, if_false]
      cases scalarYamlText v <;> rfl
  · simp only [hk, Bool.false_eq_true, if_false]
    by_cases hl : (lookupId st.ids k).isSome = true
    · simp [hl]
    · simp only [hl, Bool.false_eq_true, if_false]
      cases parseIdentifier E ic v <;> rfl

theorem loadStep_congr (E : RegexEngine) (ic : Bool) (x : Str × Yaml) {st st' : LoadSt} (h : StEq st st') :
    Rel (loadStep E ic x st) (loadStep E ic x st') := by
  unfold loadStep
  rw [h.2, h.1 x.1]
  split
  · split
    · trivial
    · split
      · exact ⟨h.1, rfl⟩
      · trivial
  · split
    · trivial
    · split
      · trivial
      · refine ⟨fun i => ?_, rfl⟩
        simp only [lookup_append, h.1 i]

theorem loadEntries_congr (E : RegexEngine) (ic : Bool) (l : List (Str × Yaml)) :
    ∀ {st st' : LoadSt}, StEq st st' → Rel (loadEntries E ic l st) (loadEntries E ic l st') := by
  induction l with
  | nil => intro st st' h; simpa [loadEntries, Rel] using h
  | cons x xs ih =>
    intro st st' h
    rw [loadEntries_cons', loadEntries_cons']
    have := loadStep_congr E ic x h
    cases h1 : loadStep E ic x st <;> cases h2 : loadStep E ic x st' <;> simp_all [Rel]


def step2 (E : RegexEngine) (ic : Bool) (a b : Str × Yaml) (st : LoadSt) : Except Err LoadSt :=
  match loadStep E ic a st with
  | .error e => .error e
  | .ok s => loadStep E ic b s

theorem isSome_lookup_append (ids : Ids) (k : Str) (e : Expr) (i : Str) :
    (lookupId (ids ++ [(k, e)]) i).isSome = ((lookupId ids i).isSome || (k == i)) := by
  rw [lookup_append]
  cases lookupId ids i <;> simp
  split <;> simp_all

/-- Two adjacent entries can be swapped. -/
theorem step2_swap (E : RegexEngine) (ic : Bool) (x y : Str × Yaml) (st : LoadSt) :
    Rel (step2 E ic x y st) (step2 E ic y x st) := by
  obtain ⟨kx, vx⟩ := x
  obtain ⟨ky, vy⟩ := y
  unfold step2 loadStep
  simp only
  by_cases hx : (kx == condKey) = true <;> by_cases hy : (ky == condKey) = true <;>
    simp only [hx, hy, if_true, if_false, Bool.false_eq_true]
  · -- both are the condition
    by_cases hc : st.cond.isSome = true
    · simp [hc, Rel]
    · simp only [hc, Bool.false_eq_true, if_false]
      cases scalarYamlText vx <;> cases scalarYamlText vy <;> simp [Rel]
  · -- x condition, y identifier
    by_cases hc : st.cond.isSome = true
    · simp only [hc, if_true]
      by_cases hl : (lookupId st.ids ky).isSome = true
      · simp [hl, Rel]
      · simp only [hl, Bool.false_eq_true, if_false]
        cases parseIdentifier E ic vy <;> simp [Rel, hc]
    · simp only [hc, Bool.false_eq_true, if_false]
      cases hs : scalarYamlText vx with
      | none =>
        simp only []
        by_cases hl : (lookupId st.ids ky).isSome = true
        · simp [hl, Rel]
        · simp only [hl, Bool.false_eq_true, if_false]
          cases parseIdentifier E ic vy <;> simp [Rel, hc, hs]
      | some s =>
        simp only []
        by_cases hl : (lookupId st.ids ky).isSome = true
        · simp [hl, Rel]
        · simp only [hl, Bool.false_eq_true, if_false]
          cases parseIdentifier E ic vy <;> simp [Rel, hc, hs, StEq]
  · -- x identifier, y condition
    by_cases hc : st.cond.isSome = true
    · simp only [hc, if_true]
      by_cases hl : (lookupId st.ids kx).isSome = true
      · simp [hl, Rel]
      · simp only [hl, Bool.false_eq_true, if_false]
        cases parseIdentifier E ic vx <;> simp [Rel, hc]
    · simp only [hc, Bool.false_eq_true, if_false]
      cases hs : scalarYamlText vy with
      | none =>
        simp only []
        by_cases hl : (lookupId st.ids kx).isSome = true
        · simp [hl, Rel]
        · simp only [hl, Bool.false_eq_true, if_false]
          cases parseIdentifier E ic vx <;> simp [Rel, hc, hs]
      | some s =>
        simp only []
        by_cases hl : (lookupId st.ids kx).isSome = true
        · simp [hl, Rel]
        · simp only [hl, Bool.false_eq_true, if_false]
          cases parseIdentifier E ic vx <;> simp [Rel, hc, hs, StEq]
  · -- both identifiers
    by_cases hlx : (lookupId st.ids kx).isSome = true <;> by_cases hly : (lookupId st.ids ky).isSome = true <;>
      simp only [hlx, hly, if_true, if_false, Bool.false_eq_true]
    · simp [Rel]
    · cases parseIdentifier E ic vy <;> simp [Rel, isSome_lookup_append, hlx]
    · cases parseIdentifier E ic vx <;> simp [Rel, isSome_lookup_append, hly]
    · cases hpx : parseIdentifier E ic vx <;> cases hpy : parseIdentifier E ic vy <;>
        simp only [isSome_lookup_append, hlx, hly, Bool.false_or]
      · simp [Rel]
      · by_cases hk : (ky == kx) = true <;> simp [Rel, hk, hpx]
      · by_cases hk : (kx == ky) = true <;> simp [Rel, hk, hpy]
      · by_cases hk : (kx == ky) = true
        · have e : kx = ky := by simpa using hk
          subst e
          simp [Rel]
        · have hne : kx ≠ ky := by simpa using hk
          have hk' : (ky == kx) = false := beq_eq_false_iff_ne.mpr (Ne.symm hne)
          simp only [hk, hk', Bool.false_eq_true, if_false, hpx, hpy, Rel]
          refine ⟨fun i => ?_, rfl⟩
          simp only [lookup_append]
          cases lookupId st.ids i with
          | some b => rfl
          | none =>
            simp only []
            by_cases h1 : (kx == i) = true <;> by_cases h2 : (ky == i) = true <;> simp [h1, h2]
            have e1 : kx = i := by simpa using h1
            have e2 : ky = i := by simpa using h2
            exact absurd (e1.trans e2.symm) hne


theorem loadEntries_two (E : RegexEngine) (ic : Bool) (x y : Str × Yaml) (l : List (Str × Yaml)) (st : LoadSt) :
    loadEntries E ic (x :: y :: l) st =
      match step2 E ic x y st with
      | .error e => .error e
      | .ok s => loadEntries E ic l s := by
  rw [loadEntries_cons']
  unfold step2
  cases loadStep E ic x st with
  | error e => rfl
  | ok s => simp only []; rw [loadEntries_cons']

/-- **The order of the entries of a detection block is irrelevant**: loading a permutation fails
    exactly when the original fails and otherwise ends in a state no later step can tell apart
    (same identifier lookup, same condition). -/
theorem loadEntries_perm (E : RegexEngine) (ic : Bool) {l l' : List (Str × Yaml)} (hp : l.Perm l') :
    ∀ {st st' : LoadSt}, StEq st st' → Rel (loadEntries E ic l st) (loadEntries E ic l' st') := by
  induction hp with
  | nil => intro st st' h; simpa [loadEntries, Rel] using h
  | cons x _ ih =>
    intro st st' h
    rw [loadEntries_cons', loadEntries_cons']
    have := loadStep_congr E ic x h
    cases h1 : loadStep E ic x st <;> cases h2 : loadStep E ic x st' <;> simp_all [Rel]
  | swap x y l =>
    intro st st' h
    refine Rel.trans (loadEntries_congr E ic _ h) ?_
    rw [loadEntries_two, loadEntries_two]
    have := step2_swap E ic y x st'
    cases h1 : step2 E ic y x st' <;> cases h2 : step2 E ic x y st' <;> simp_all [Rel]
    exact loadEntries_congr E ic l this
  | trans _ _ ih1 ih2 =>
    intro st st' h
    exact Rel.trans (ih1 h) (ih2 (StEq.refl st'))

theorem identsPresent_congr (ids ids' : Ids) (h : ∀ i, lookupId ids i = lookupId ids' i) (ts : List Token) :
    identsPresent ids ts = identsPresent ids' ts := by
  unfold identsPresent
  simp only [h]

theorem topK_congr (E : RegexEngine) (ids ids' : Ids) (h : ∀ i, lookupId ids i = lookupId ids' i) :
    topK E ids = topK E ids' := by
  unfold topK
  simp only [h]

/-- **Load does not depend on the order in which the detection entries arrive** (which is what
    `Serialize` cannot promise: the identifiers live in a `HashMap`). If a detection block loads,
    every permutation of its entries loads, to the same condition tree and to identifiers with the
    same lookup — hence to the same three-valued result on every document. -/
theorem load_order_irrelevant (E : RegexEngine) (ic : Bool) (entries entries' : List (Str × Yaml))
    (hp : entries.Perm entries') (d : Detection) (h : loadDetection E ic entries = .ok d) :
    ∃ d', loadDetection E ic entries' = .ok d' ∧ d'.expr = d.expr ∧ d'.condRaw = d.condRaw ∧
      (∀ i, lookupId d'.ids i = lookupId d.ids i) ∧
      (∀ doc, solveTop E d'.ids doc d'.expr = solveTop E d.ids doc d.expr) := by
  have hrel := loadEntries_perm E ic hp (StEq.refl ({} : LoadSt))
  unfold loadDetection at h ⊢
  cases h1 : loadEntries E ic entries {} with
  | error e => rw [h1] at h; cases h
  | ok st =>
    cases h2 : loadEntries E ic entries' {} with
    | error e => rw [h1, h2] at hrel; exact hrel.elim
    | ok st' =>
      rw [h1, h2] at hrel
      obtain ⟨hl, hc⟩ := hrel
      rw [h1] at h
      simp only at h ⊢
      rw [← hc]
      cases hcond : st.cond with
      | none => rw [hcond] at h; cases h
      | some raw =>
        rw [hcond] at h
        simp only at h ⊢
        cases htok : tokenise raw with
        | error e => rw [htok] at h; cases h
        | ok tokens =>
          rw [htok] at h
          simp only at h ⊢
          rw [← identsPresent_congr st.ids st'.ids hl tokens]
          split at h
          · cases h
          · rename_i hpres
            simp only [hpres, Bool.false_eq_true, if_false]
            cases hparse : parse tokens with
            | error e => rw [hparse] at h; cases h
            | ok e =>
              rw [hparse] at h
              simp only at h ⊢
              split at h
              · cases h
              · rename_i hsolv
                cases h
                simp only [hsolv, Bool.false_eq_true, if_false]
                refine ⟨_, rfl, rfl, rfl, fun i => (hl i).symm, fun doc => ?_⟩
                simp only [solveTop]
                rw [topK_congr E st'.ids st.ids (fun i => (hl i).symm)]


/-- **Round trip in any emission order.** Whatever order the serialiser emits the condition and
    the identifiers in, the emitted detection block loads again, to the same condition tree and the
    same identifier bodies, hence with the same three-valued result on every document. -/
theorem load_serialise_any_order (E : RegexEngine) (ic : Bool) (entries : List (Str × Yaml)) (d : Detection)
    (h : loadDetection E ic entries = .ok d) (emitted : List (Str × Yaml))
    (hp : ((condKey, Yaml.str d.condRaw) :: d.idsRaw).Perm emitted) :
    ∃ d', loadDetection E ic emitted = .ok d' ∧ d'.expr = d.expr ∧
      (∀ i, lookupId d'.ids i = lookupId d.ids i) ∧
      (∀ doc, solveTop E d'.ids doc d'.expr = solveTop E d.ids doc d.expr) := by
  obtain ⟨d', h1, h2, _, h4, h5⟩ :=
    load_order_irrelevant E ic _ emitted hp d (load_serialise E ic entries d h)
  exact ⟨d', h1, h2, h4, h5⟩

end Tau.C14
