import Tau.Proofs.Tokeniser
import Tau.Pattern
import Tau.Proofs.LoadTotal
/-
  C04 — Loading arbitrary text returns a rule or an error, never a panic.

  Every function of the model is total (Lean's termination checker: structural recursion, or
  recursion on fuel). A source-level panic / abort / endless loop is the distinguished value
  `Err.panic site`; the theorems show it is never produced, for ALL strings.
-/
namespace Tau.C04
open Tau

/-- Condition / mapping-key tokenising never panics and never runs out of fuel: for every string
    the result is a token list or one of the two tokeniser errors. -/
theorem tokenise_no_panic (s : Str) : ∀ site, tokenise s ≠ .error (.panic site) :=
  tokLoop_no_panic (s.length + 1) s [] (by omega)

theorem tokenise_result (s : Str) :
    (∃ ts, tokenise s = .ok ts) ∨ tokenise s = .error .tokInvalidChar ∨ tokenise s = .error .tokInvalidNum
      ∨ (∃ e, tokenise s = .error e ∧ e ≠ .tokInvalidChar ∧ e ≠ .tokInvalidNum) := by
  cases h : tokenise s with
  | ok ts => exact Or.inl ⟨ts, rfl⟩
  | error e =>
    by_cases h1 : e = .tokInvalidChar
    · subst h1; exact Or.inr (Or.inl rfl)
    · by_cases h2 : e = .tokInvalidNum
      · subst h2; exact Or.inr (Or.inr (Or.inl rfl))
      · exact Or.inr (Or.inr (Or.inr ⟨e, rfl, h1, h2⟩))

/-- Numeric pattern parsing: a pattern or `InvalidIdentifier`. -/
theorem parseNumPat_err (op : BoolSym) (s : Str) (e : Err) (h : parseNumPat op s = .error e) :
    e = .parseInvalidIdent := by
  unfold parseNumPat at h
  split at h <;> split at h <;> cases h <;> rfl

/-- Identifier-pattern parsing of ANY string, in either build, with any regex engine: the only
    error is `InvalidIdentifier` — in particular never a panic (the lone-quote slice `[1..0]` of the
    unrepaired source is gone: the quote branch requires two characters). -/
theorem patternOf_err (E : RegexEngine) (ci : Bool) (s : Str) (e : Err)
    (h : patternOf E ci s = .error e) : e = .parseInvalidIdent := by
  unfold patternOf at h
  split at h
  · split at h <;> cases h; rfl
  all_goals first
    | exact parseNumPat_err _ _ _ h
    | cases h

theorem intoIdentifier_err (E : RegexEngine) (ic : Bool) (s : Str) (e : Err)
    (h : intoIdentifier E ic s = .error e) : e = .parseInvalidIdent := by
  unfold intoIdentifier at h
  split at h
  · cases h
  · rename_i e' hp
    cases h
    exact patternOf_err _ _ _ _ hp

theorem intoIdentifier_no_panic (E : RegexEngine) (ic : Bool) (s : Str) :
    ∀ site, intoIdentifier E ic s ≠ .error (.panic site) := by
  intro site h
  have := intoIdentifier_err E ic s _ h
  cases this

/-- **The Pratt parser terminates on every token list.** The model's `parse` recurses on fuel
    (`parseFuel ts = 10·|ts| + 10`) and returns the panic value when it runs out; this theorem shows it
    never does: a successful `parse_expr` / `parse_nud` consumes at least one token
    (`parse_consumes_aux`), so fuel `3·|ts| + 3` already bounds the depth of the mutual recursion
    of parse / parse_expr / parse_led / parse_nud (`parse_total_aux`) — for ALL token lists,
    well-formed or not (unbalanced parentheses, dangling operators, `not not not …`). -/
theorem parse_no_panic (ts : List Token) : ∀ site, parse ts ≠ .error (.panic site) :=
  Tau.parse_no_panic ts

/-- Condition text → tree: tokenise, then parse; neither layer panics. -/
theorem condition_no_panic (s : Str) : ∀ site,
    (match tokenise s with | .error e => (Except.error e : Except Err Expr) | .ok ts => parse ts)
      ≠ .error (.panic site) := by
  intro site h
  split at h
  · rename_i e he; cases h; exact tokenise_no_panic s site he
  · exact Tau.parse_no_panic _ site h

/-- Mapping keys (`all(k)`, `of(k, n)`, `int(k)`, `not(k)`, plain, with blanks, garbage): every YAML
    key, whether the value under it is a sequence or not. -/
theorem parseKey_no_panic (k : Yaml) (vIsSeq : Bool) : ∀ site, parseKey k vIsSeq ≠ .error (.panic site) :=
  Tau.parseKey_np k vIsSeq

/-- **`parse_identifier` of EVERY YAML shape** (scalars, mappings, sequences, nested to any depth,
    tagged values, any key and any string pattern, either build, any regex engine): a tree or an
    error value. The model's one explicit panic value inside `parse_mapping` (a string pattern that
    is neither a search nor a numeric comparison) is shown unreachable (`search_or_num`). -/
theorem parseIdentifier_no_panic (E : RegexEngine) (ic : Bool) (y : Yaml) :
    ∀ site, parseIdentifier E ic y ≠ .error (.panic site) :=
  Tau.parseIdentifier_np E ic y

/-- The detection block as a whole, any list of (name, YAML) entries. -/
theorem loadDetection_no_panic (E : RegexEngine) (ic : Bool) (entries : List (Str × Yaml)) :
    ∀ site, loadDetection E ic entries ≠ .error (.panic site) :=
  Tau.loadDetection_np E ic entries

/-- Non-vacuity: malformed token lists are parse ERRORS (values), at the fuel `parse` hands out. -/
example :
    parse [.lparen, .lparen, .ident ['A']] = .ok (.ident ['A']) ∧
    parse [.miscNot, .miscNot, .miscNot] = .error .parseInvalidToken ∧
    parse [.ident ['A'], .op .and] = .error .parseInvalidToken ∧
    parse [.rparen] = .error .parseInvalidToken ∧
    parse [] = .error .parseInvalidToken := by
  refine ⟨by rfl, by rfl, by rfl, by rfl, by rfl⟩

/-- The strings on which the unrepaired source panicked are now ordinary exact patterns. -/
example (E : RegexEngine) :
    intoIdentifier E false ['"'] = .ok ⟨false, .exact ['"']⟩ ∧
    intoIdentifier E false ['i', '\''] = .ok ⟨true, .exact ['\'']⟩ ∧
    intoIdentifier E false ['"', '"'] = .ok ⟨false, .exact []⟩ := by
  refine ⟨rfl, rfl, rfl⟩

/-- Non-vacuity: strings with awkward endings tokenise to values, not panics. -/
example : tokenise "A and".toList = .ok [.ident ['A'], .ident ['a', 'n', 'd']] ∧
    tokenise "-".toList = .error .tokInvalidNum ∧ tokenise "=".toList = .error .tokInvalidChar := by
  refine ⟨by rfl, by rfl, by rfl⟩

end Tau.C04
