import Tau.Rule
import Tau.Properties.C16
import Tau.Proofs.Signed
/-
  C11 — Verdict is independent of how the document is represented (partial: the adapters are Rust
  glue; their tie to the model is the correspondence run over four representations).
-/
set_option linter.unusedSimpArgs false
namespace Tau.C11
open Tau

/-- YAML adapter: a non-negative integer is unsigned, a negative one signed, a float stays a float
    with its bit pattern; strings, booleans and null map to themselves. -/
theorem yaml_number_kinds (i : Int) :
    yamlToValue (.num (.int i)) = (if i ≥ 0 then .uint i.toNat else .int i) := by
  simp [yamlToValue]

theorem yaml_unsigned_value (i : Int) (h : i ≥ 0) : ∃ n : Nat, yamlToValue (.num (.int i)) = .uint n ∧ (n : Int) = i := by
  refine ⟨i.toNat, by simp [yamlToValue, h], Int.toNat_of_nonneg h⟩

theorem yaml_big_unsigned (n b : Nat) (s : Str) : yamlToValue (.num (.big n b s)) = .uint n := by
  simp [yamlToValue]

theorem yaml_scalars (s : Str) (b : Bool) (bits : Nat) (shown : Str) :
    yamlToValue (.str s) = .str s ∧ yamlToValue (.bool b) = .bool b ∧ yamlToValue .null = .null ∧
    yamlToValue (.num (.flt bits shown)) = .flt bits shown := by
  simp [yamlToValue]

/-- A string predicate over an array ("some element") does not depend on the order of the
    elements — a `Vec` and a `HashSet` holding the same elements give the same result. -/
theorem search_array_perm (E : RegexEngine) (s : Search) (c : Bool) (a a' : List Value) (h : a.Perm a') :
    onFieldValue c (searchStr E s) (.arr a) = onFieldValue c (searchStr E s) (.arr a') := by
  simp only [onFieldValue]
  rw [h.any_eq]

/-- The same for the per-needle counting paths of `all()` / `of()`. -/
theorem count_array_perm (c : Bool) (p : Str → Bool) (a a' : List Value) (h : a.Perm a') :
    onFieldValue c p (.arr a) = onFieldValue c p (.arr a') := by
  simp only [onFieldValue]
  rw [h.any_eq]

/-- A nested block over an array of objects does not depend on the order of the elements. -/
theorem elemObjs_perm (a a' : List Value) (h : a.Perm a') : (elemObjs a).Perm (elemObjs a') := by
  unfold elemObjs
  exact h.filterMap _

theorem nested_array_perm (E : RegexEngine) (K : IdentK) (d d' : Doc) (f : Str) (a a' : List Value)
    (s : Search) (k : Str) (c : Bool) (h : a.Perm a')
    (hd : d.find f = some (.arr a)) (hd' : d'.find f = some (.arr a')) :
    solveG E K d (.nested f (.search s k c)) = solveG E K d' (.nested f (.search s k c)) := by
  simp only [solveG, hd, hd']
  rw [(elemObjs_perm a a' h).any_eq]

/-- The solver sees a document only through `find`: two documents of ANY representation whose
    `find` functions agree are the same document to the model (leaf level: a search and a
    comparison depend on nothing but the values `find` returns). -/
theorem search_congr (E : RegexEngine) (d d' : Doc) (s : Search) (f : Str) (c : Bool)
    (h : d.find f = d'.find f) : solveSearch E d s f c = solveSearch E d' s f c := by
  simp [solveSearch, h]

theorem user_doc_is_its_find (g : Str → Option Value) (k : Str) : (Doc.user g).find k = g k := rfl

/-- Non-vacuity. -/
example : yamlToValue (.num (.int 9223372036854775807)) = .uint 9223372036854775807 ∧
    yamlToValue (.num (.int (-1))) = .int (-1) := by
  constructor <;> rfl

end Tau.C11

/-! ### Rule level: the solver sees a document only through `find` -/

namespace Tau.C11
open Tau

/-- **The verdict depends on the document only through `find`.** Two documents of ANY
    representation (an `Object` with the default path walk, a user `Document`, …) whose `find`
    answers agree give the same three-valued result — hence the same verdict — for every rule:
    every condition tree, every set of identifier bodies, plain or optimised. -/
theorem representation_independent (E : RegexEngine) (ids : Ids) (d d' : Doc) (e : Expr)
    (h : ∀ k, d.find k = d'.find k) : solveTop E ids d e = solveTop E ids d' e :=
  C16.frame_rule E ids d d' e (fun k _ => h k)

theorem representation_independent_verdict (E : RegexEngine) (ids : Ids) (d d' : Doc) (e : Expr)
    (h : ∀ k, d.find k = d'.find k) : matchesTop E ids d e = matchesTop E ids d' e := by
  unfold matchesTop; rw [representation_independent E ids d d' e h]

/-- An `Object`-backed document and a hand-written `Document` that answers every key as the default
    path walk over the same fields would: indistinguishable. -/
theorem object_vs_document (E : RegexEngine) (ids : Ids) (kvs : List (Str × Value)) (e : Expr) :
    solveTop E ids (.obj kvs) e = solveTop E ids (.user (objFind kvs)) e :=
  representation_independent E ids _ _ e (fun _ => rfl)

/-- The same rule-level statement for the optimised rule (any switches): optimisation is a function
    of the rule alone, so it cannot tell representations apart either. -/
theorem representation_independent_optimised (E : RegexEngine) (sw : Switches) (r : Rule) (d d' : Doc)
    (h : ∀ k, d.find k = d'.find k) : (r.optimise E sw).matches E d = (r.optimise E sw).matches E d' := by
  unfold Rule.matches Rule.solve
  rw [representation_independent E _ d d' _ h]

end Tau.C11

namespace Tau.C11
open Tau

/-! ### Signedness of integers: which Rust type held the number does not matter

The adapters hand a non-negative integer over as `Value::UInt` when it came from YAML, JSON or an
unsigned Rust type, and as `Value::Int` when it came from `i8 … i64` / `isize` (value.rs:286-329).
`normDoc` rewrites every `UInt n` with `n ≤ i64::MAX` into `Int n` at every depth of whatever the
document answers. No rule can tell a document from its normal form (Tau/Proofs/Signed.lean,
`norm_invariant`: an induction over every solver arm — searches through casts, the comparison
table and the three casts, `str(a) == str(b)`, nested blocks over objects and arrays, all()/of(),
the matrix cache, pass-through documents). -/

/-- **A document and its signedness-normal form get the same three-valued result from every rule.** -/
theorem signedness_independent (E : RegexEngine) (ids : Ids) (d : Doc) (e : Expr) :
    solveTop E ids (normDoc d) e = solveTop E ids d e :=
  top_norm E ids d e

/-- **Two documents of any representation that answer every key alike up to the signedness of the
    integers they hold get the same verdict from every rule** — a `HashMap<String, i64>` against the
    YAML mapping of the same numbers, a hand-written object holding `isize` against JSON. -/
theorem same_numbers_same_verdict (E : RegexEngine) (ids : Ids) (d d' : Doc) (e : Expr)
    (h : ∀ k, (normDoc d).find k = (normDoc d').find k) :
    matchesTop E ids d e = matchesTop E ids d' e := by
  unfold matchesTop
  rw [← signedness_independent E ids d e, ← signedness_independent E ids d' e]
  rw [representation_independent E ids (normDoc d) (normDoc d') e h]

/-- The same for an optimised rule, any switches. -/
theorem same_numbers_same_verdict_optimised (E : RegexEngine) (sw : Switches) (r : Rule) (d d' : Doc)
    (h : ∀ k, (normDoc d).find k = (normDoc d').find k) :
    (r.optimise E sw).matches E d = (r.optimise E sw).matches E d' := by
  unfold Rule.matches Rule.solve
  rw [← signedness_independent E _ d _, ← signedness_independent E _ d' _]
  rw [representation_independent E _ (normDoc d) (normDoc d') _ h]

/-- Non-vacuity: `{n: 5, xs: [1, {m: 2}]}` held signed and held unsigned have one normal form… -/
example :
    normDoc (.obj [(['n'], .int 5), (['x'], .arr [.int 1, .obj [(['m'], .int 2)]])]) =
    normDoc (.obj [(['n'], .uint 5), (['x'], .arr [.uint 1, .obj [(['m'], .uint 2)]])]) := by
  simp [normDoc, normKvs, normV, normVs, i64Max]
/-- …an unsigned value above i64::MAX has no signed twin and stays what it is… -/
example : normV (.uint 9223372036854775808) = .uint 9223372036854775808 := by simp [normV, i64Max]
/-- …and a negative number is never confused with anything. -/
example : normV (.int (-1)) = .int (-1) := by simp [normV]

end Tau.C11
