import Tau.Solver
import Tau.Proofs.FloatOrder
/-
  C09 — Numeric comparisons and casts are order-correct and overflow-safe.

  Integers are mathematical integers in the model (`Int`), so "no wrap-around" is what the
  theorems below say: the engine's answer IS the mathematical relation. The model's comparison
  table is tied to the code by the correspondence run (boundary sets + random 64-bit values).
-/
namespace Tau.C09
open Tau

/-- The mathematical relation named by a comparison operator. -/
def rel (op : BoolSym) (a b : Int) : Prop :=
  match op with
  | .eq => a = b | .gt => a > b | .ge => a ≥ b | .lt => a < b | .le => a ≤ b
  | _ => False

/-- Value of an integer operand (signed or unsigned) as a mathematical integer. -/
def ival : Operand → Option Int := Operand.toInt?

/-- Integer comparisons (signed/signed, unsigned/unsigned and mixed) decide exactly the stated
    mathematical relation over the whole 64-bit range — no guard, no wrap-around. -/
theorem cmp_int_exact (x y : Operand) (a b : Int) (op : BoolSym)
    (hx : ival x = some a) (hy : ival y = some b) :
    compareOp x op y = true ↔ rel op a b := by
  cases x <;> cases y <;> simp [ival, Operand.toInt?] at hx hy <;>
    subst hx <;> subst hy <;> cases op <;> simp [compareOp, Operand.toInt?, rel]

/-- Exactly one of `<`, `=`, `>` holds between two integer operands. -/
theorem int_trichotomy (x y : Operand) (a b : Int) (hx : ival x = some a) (hy : ival y = some b) :
    (compareOp x .lt y = true ∧ compareOp x .eq y = false ∧ compareOp x .gt y = false) ∨
    (compareOp x .lt y = false ∧ compareOp x .eq y = true ∧ compareOp x .gt y = false) ∨
    (compareOp x .lt y = false ∧ compareOp x .eq y = false ∧ compareOp x .gt y = true) := by
  have hlt := cmp_int_exact x y a b .lt hx hy
  have heq := cmp_int_exact x y a b .eq hx hy
  have hgt := cmp_int_exact x y a b .gt hx hy
  simp only [rel] at hlt heq hgt
  rcases Int.lt_trichotomy a b with h | h | h
  · left
    refine ⟨hlt.mpr h, ?_, ?_⟩
    · cases hc : compareOp x .eq y with | false => rfl | true => have := heq.mp hc; omega
    · cases hc : compareOp x .gt y with | false => rfl | true => have := hgt.mp hc; omega
  · right; left
    refine ⟨?_, heq.mpr h, ?_⟩
    · cases hc : compareOp x .lt y with | false => rfl | true => have := hlt.mp hc; omega
    · cases hc : compareOp x .gt y with | false => rfl | true => have := hgt.mp hc; omega
  · right; right
    refine ⟨?_, ?_, hgt.mpr h⟩
    · cases hc : compareOp x .lt y with | false => rfl | true => have := hlt.mp hc; omega
    · cases hc : compareOp x .eq y with | false => rfl | true => have := heq.mp hc; omega

/-- `>=` and `<=` are the unions of `>`/`<` with `=` (integers). -/
theorem int_ge_union (x y : Operand) (a b : Int) (hx : ival x = some a) (hy : ival y = some b) :
    compareOp x .ge y = (compareOp x .gt y || compareOp x .eq y) := by
  have h1 := cmp_int_exact x y a b .ge hx hy
  have h2 := cmp_int_exact x y a b .gt hx hy
  have h3 := cmp_int_exact x y a b .eq hx hy
  simp only [rel] at h1 h2 h3
  cases hg : compareOp x .ge y <;> cases hgt : compareOp x .gt y <;> cases he : compareOp x .eq y <;>
    simp_all <;> omega

theorem int_le_union (x y : Operand) (a b : Int) (hx : ival x = some a) (hy : ival y = some b) :
    compareOp x .le y = (compareOp x .lt y || compareOp x .eq y) := by
  have h1 := cmp_int_exact x y a b .le hx hy
  have h2 := cmp_int_exact x y a b .lt hx hy
  have h3 := cmp_int_exact x y a b .eq hx hy
  simp only [rel] at h1 h2 h3
  cases hg : compareOp x .le y <;> cases hgt : compareOp x .lt y <;> cases he : compareOp x .eq y <;>
    simp_all <;> omega

/-! ### Doubles -/

/-- For non-NaN doubles exactly one of `<`, `=`, `>` holds (IEEE: the two zeros are equal). -/
theorem float_trichotomy (a b : Nat) (ha : F64.isNaN a = false) (hb : F64.isNaN b = false) :
    (F64.lt a b = true ∧ F64.eq a b = false ∧ F64.lt b a = false) ∨
    (F64.lt a b = false ∧ F64.eq a b = true ∧ F64.lt b a = false) ∨
    (F64.lt a b = false ∧ F64.eq a b = false ∧ F64.lt b a = true) := by
  simp only [F64.lt, F64.eq, ha, hb, Bool.not_false, Bool.true_and]
  rcases Int.lt_trichotomy (F64.key a) (F64.key b) with h | h | h
  · left; simp [h]; omega
  · right; left; simp [h]
  · right; right; simp [h]; omega

theorem float_le_union (a b : Nat) : F64.le a b = (F64.lt a b || F64.eq a b) := by
  simp only [F64.le, F64.lt, F64.eq]
  cases F64.isNaN a <;> cases F64.isNaN b <;> simp
  by_cases h : F64.key a < F64.key b
  · simp [h]; omega
  · simp [h]
    by_cases h2 : F64.key a = F64.key b
    · simp [h2]
    · have : ¬ (F64.key a ≤ F64.key b) := by omega
      simp [h2, this]

/-- **The comparison on doubles IS the mathematical relation on their real values.** `F64.scaled b`
    is the real value of the pattern `b` times 2^1074 (an exact integer: ±mant·2^(e-1) with the
    implicit bit, both zeros 0, infinity beyond every finite value); `<`, `=`, `<=` on the engine's
    order key hold exactly when they hold between those values (Tau/Proofs/FloatOrder.lean:
    `mag_lt_iff` — the bit pattern orders like (exponent, mantissa), which orders like the value). -/
theorem float_lt_real (a b : Nat) :
    F64.lt a b = true ↔ F64.isNaN a = false ∧ F64.isNaN b = false ∧ F64.scaled a < F64.scaled b := by
  simp only [F64.lt, Bool.and_eq_true, Bool.not_eq_true', decide_eq_true_eq, F64.key_lt_iff, and_assoc]

theorem float_eq_real (a b : Nat) :
    F64.eq a b = true ↔ F64.isNaN a = false ∧ F64.isNaN b = false ∧ F64.scaled a = F64.scaled b := by
  simp only [F64.eq, Bool.and_eq_true, Bool.not_eq_true', beq_iff_eq, F64.key_eq_iff, and_assoc]

theorem float_le_real (a b : Nat) :
    F64.le a b = true ↔ F64.isNaN a = false ∧ F64.isNaN b = false ∧ F64.scaled a ≤ F64.scaled b := by
  simp only [F64.le, Bool.and_eq_true, Bool.not_eq_true', decide_eq_true_eq, F64.key_le_iff, and_assoc]

/-- Sanity of `scaled` (tests, not theorems about all inputs): 1.0, -2.5, the smallest subnormal,
    the two zeros, and +inf above the largest finite double. -/
example : F64.scaled 0x3FF0000000000000 = 2 ^ 1074 := by decide +kernel
example : F64.scaled 0xC004000000000000 * 2 = -5 * 2 ^ 1074 := by decide +kernel
example : F64.scaled 1 = 1 ∧ F64.scaled 0 = 0 ∧ F64.scaled 0x8000000000000000 = 0 := by decide
example : F64.scaled 0x7FEFFFFFFFFFFFFF < F64.scaled 0x7FF0000000000000 := by decide +kernel

/-- A NaN operand makes every comparison false. -/
theorem float_nan_false (a b : Nat) (h : F64.isNaN a = true ∨ F64.isNaN b = true) :
    F64.lt a b = false ∧ F64.eq a b = false ∧ F64.le a b = false ∧ F64.lt b a = false := by
  rcases h with h | h <;> simp [F64.lt, F64.eq, F64.le, h]

/-- The engine's `>` on doubles is `<` with the operands swapped, `>=` likewise. -/
theorem float_cmp (a b : Nat) :
    compareOp (.f a) .gt (.f b) = F64.lt b a ∧ compareOp (.f a) .ge (.f b) = F64.le b a ∧
    compareOp (.f a) .lt (.f b) = F64.lt a b ∧ compareOp (.f a) .le (.f b) = F64.le a b ∧
    compareOp (.f a) .eq (.f b) = F64.eq a b := by
  simp [compareOp]

/-- Operands of different numeric kinds (integer against double) never compare true: the
    engine answers false rather than converting with loss. -/
theorem mixed_kind_false (a : Int) (b : Nat) (op : BoolSym) :
    compareOp (.i a) op (.f b) = false ∧ compareOp (.f b) op (.i a) = false := by
  cases op <;> simp [compareOp, Operand.toInt?]

/-! ### Casts -/

/-- `int()` of a boolean is 0/1, of an integer itself, of a numeric string its `i64` value; a
    string that is not an `i64`, a float that does not fit, null, arrays and objects are not
    convertible: the comparison is false (never a panic, never a wrapped value). -/
theorem int_cast_bool (kvs : List (Str × Value)) (f : Str) (b : Bool)
    (h : (Doc.obj kvs).find f = some (.bool b)) :
    operand (.obj kvs) (.cast f .int) = .ok (.i (if b then 1 else 0)) := by
  simp [operand, h]

theorem int_cast_string (d : Doc) (f s : Str) (h : d.find f = some (.str s)) :
    operand d (.cast f .int) = (match parseI64 s with | some i => .ok (.i i) | none => .error .f) := by
  simp only [operand, h]
  cases parseI64 s <;> rfl

theorem int_cast_unsigned_too_big (d : Doc) (f : Str) (u : Nat) (h : d.find f = some (.uint u))
    (hu : (u : Int) > i64Max) : operand d (.cast f .int) = .error .f := by
  simp [operand, h]; omega

theorem int_cast_nan_or_inf (d : Doc) (f : Str) (b : Nat) (s : Str) (h : d.find f = some (.flt b s))
    (hb : F64.isNaN b = true ∨ F64.expo b = 2047) : operand d (.cast f .int) = .error .f := by
  simp only [operand, h]
  rcases hb with hb | hb <;> simp [hb]

theorem cast_not_convertible (d : Doc) (f : Str) (m : ModSym) (hm : m = .int ∨ m = .flt)
    (h : d.find f = some .null ∨ (∃ xs, d.find f = some (.arr xs)) ∨ (∃ kvs, d.find f = some (.obj kvs))) :
    operand d (.cast f m) = .error .f := by
  rcases hm with rfl | rfl <;> rcases h with h | ⟨xs, h⟩ | ⟨kvs, h⟩ <;> simp [operand, h]

/-- A comparison over a missing field is missing, never true. -/
theorem missing_field (d : Doc) (f : Str) (op : BoolSym) (r : Expr) (hop : op ≠ .and ∧ op ≠ .or)
    (h : d.find f = none) (hr : r = .int 0 ∨ r = .float 0) :
    solveCmp d (.field f) op r = .m := by
  rcases hr with rfl | rfl <;> cases op <;> simp_all [solveCmp, operand]

/-- `str()` compares the canonical decimal text. -/
theorem str_cast_text (E : RegexEngine) (d : Doc) (f t : Str) (v : Value) (txt : Str)
    (h : d.find f = some v) (hv : scalarText v = some txt) :
    solveSearch E d (.exact t) f true = Tri.ofBool (t == txt) := by
  cases v <;> simp [scalarText] at hv <;> simp [solveSearch, h, onFieldValue, scalarText, searchStr, triOfOpt, Tri.ofBool, hv] <;>
    (first | (subst hv; split <;> simp_all) | skip)

/-- Non-vacuity: the 2^63 boundary that the unrepaired source got wrong. -/
example : compareOp (.u 9223372036854775808) .gt (.i 5) = true ∧
    compareOp (.u 9223372036854775808) .lt (.i 5) = false ∧
    compareOp (.i (-1)) .lt (.u 18446744073709551615) = true := by decide

end Tau.C09
