import Tau.Proofs.Frame
import Tau.Proofs.TraceKeys
import Tau.Rule
/-
  C16 — Matching reads only the fields the rule names.
-/
set_option linter.unusedSimpArgs false
namespace Tau.C16
open Tau

/-- All keys a rule names at the top level: those of the condition and of every identifier body. -/
def ruleKeys (ids : Ids) (e : Expr) : List Str := keysOf e ++ ids.flatMap (fun p => keysOf p.2)

/-- Closed trees (identifier bodies, coalesced rules): the result is unchanged by any change to
    the document outside the keys the tree names. -/
theorem frame_closed (E : RegexEngine) (d d' : Doc) (e : Expr) (h : Agree d d' (keysOf e)) :
    solveClosed E d e = solveClosed E d' e :=
  frame E closedK d d' (fun _ => rfl) (fun _ _ => rfl) e.size e (Nat.le_refl _) h

theorem lookup_keys (ids : Ids) (i : Str) (b : Expr) (h : lookupId ids i = some b) :
    ∀ k ∈ keysOf b, k ∈ ids.flatMap (fun p => keysOf p.2) := by
  induction ids with
  | nil => simp [lookupId] at h
  | cons x xs ih =>
    obtain ⟨k0, e0⟩ := x
    simp only [lookupId] at h
    intro k hk
    simp only [List.flatMap_cons, List.mem_append]
    split at h
    · cases h; exact Or.inl hk
    · exact Or.inr (ih h k hk)

/-- **Frame theorem for rules**: adding, removing or altering any document field that no predicate
    of the rule addresses leaves the three-valued result — hence the verdict — unchanged. The
    document is anything with a `find` (a mapping, or an arbitrary user `Document`). -/
theorem frame_rule (E : RegexEngine) (ids : Ids) (d d' : Doc) (e : Expr)
    (h : Agree d d' (ruleKeys ids e)) : solveTop E ids d e = solveTop E ids d' e := by
  have hids : Agree d d' (ids.flatMap (fun p => keysOf p.2)) := h.mono (fun k hk => by simp only [ruleKeys, List.mem_append]; exact Or.inr hk)
  have hbody : ∀ i b, lookupId ids i = some b → Agree d d' (keysOf b) :=
    fun i b hb => hids.mono (lookup_keys ids i b hb)
  refine frame E (topK E ids) d d' ?_ ?_ e.size e (Nat.le_refl _) (h.mono (fun k hk => by simp only [ruleKeys, List.mem_append]; exact Or.inl hk))
  · intro i
    simp only [topK]
    cases hl : lookupId ids i with
    | none => rfl
    | some b => exact frame_closed E d d' b (hbody i b hl)
  · intro k i
    simp only [topK]
    cases hl : lookupId ids i with
    | none => rfl
    | some b => exact frame_closed E d d' (.match k b) (by simpa [keysOf] using hbody i b hl)

theorem verdict_frame (E : RegexEngine) (ids : Ids) (d d' : Doc) (e : Expr)
    (h : Agree d d' (ruleKeys ids e)) : matchesTop E ids d e = matchesTop E ids d' e := by
  unfold matchesTop; rw [frame_rule E ids d d' e h]

/-- For user documents: two `find` functions that agree on the named keys are indistinguishable. -/
theorem frame_user (E : RegexEngine) (ids : Ids) (g g' : Str → Option Value) (e : Expr)
    (h : ∀ k ∈ ruleKeys ids e, g k = g' k) : solveTop E ids (.user g) e = solveTop E ids (.user g') e :=
  frame_rule E ids (.user g) (.user g') e (fun k hk => h k hk)

/-- The synthetic keys of a matrix are asked of the private cache only: the keys a matrix names
    to the document are its real column names. -/
theorem matrix_keys (cols : List Str) (rows : List (List (Option Expr))) :
    keysOf (.matrix cols rows) = cols := by simp [keysOf]

/-- A nested block names only its own key to the outer document. -/
theorem nested_keys (f : Str) (e : Expr) : keysOf (.nested f e) = [f] := by simp [keysOf]

/-- Non-vacuity: a document with and without an unaddressed field. -/
example :
    let e : Expr := .group .and [.search (.exact ['x']) ['a'] false, .nested ['o'] (.search .any ['k'] false)]
    Agree (.obj [(['a'], .str ['x'])]) (.obj [(['a'], .str ['x']), (['z'], .uint 1)]) (keysOf e) := by
  intro e k hk
  simp [e, keysOf, keysOfL] at hk
  rcases hk with rfl | rfl <;> rfl

end Tau.C16

namespace Tau.C16
open Tau

/-- Identifier bodies and coalesced rules: every key asked of the document is named by the tree. -/
theorem trace_closed_subset (E : RegexEngine) (d : Doc) (e : Expr) :
    ∀ k ∈ traceClosed E d e, k ∈ keysOf e := by
  intro k hk
  have := trace_sub E closedK closedT d [] (fun _ _ h => by simp [closedT] at h)
    (fun _ _ _ h => by simp [closedT] at h) e.size e (Nat.le_refl _) k hk
  simpa using this

/-- **While matching, the engine asks the document only for keys written in the rule**: every key
    in the trace of a rule evaluation is a key the condition or one of the identifier bodies names
    at its own level (a nested block names only its own key; a matrix names its real column names —
    the synthetic one-character keys never reach the document). The trace of the model is compared
    with the recording `Document` of the harness on every generated case. -/
theorem trace_subset (E : RegexEngine) (ids : Ids) (d : Doc) (e : Expr) :
    ∀ k ∈ traceTop E ids d e, k ∈ ruleKeys ids e := by
  intro k hk
  have hbody : ∀ i b, lookupId ids i = some b → ∀ k ∈ keysOf b, k ∈ ids.flatMap (fun p => keysOf p.2) :=
    fun i b h => lookup_keys ids i b h
  have := trace_sub E (topK E ids) (topT E ids) d (ids.flatMap (fun p => keysOf p.2))
    (fun i k hk => by
      simp only [topT] at hk
      cases hl : lookupId ids i with
      | none => simp [hl] at hk
      | some b =>
        rw [hl] at hk
        exact hbody i b hl k (trace_closed_subset E d b k hk))
    (fun m i k hk => by
      simp only [topT] at hk
      cases hl : lookupId ids i with
      | none => simp [hl] at hk
      | some b =>
        rw [hl] at hk
        have := trace_closed_subset E d (.match m b) k hk
        exact hbody i b hl k (by simpa [keysOf] using this))
    e.size e (Nat.le_refl _) k hk
  simpa [ruleKeys, traceTop] using this

end Tau.C16
