import Tau.Rule
import Tau.Properties.C06
import Tau.Properties.C03
/-
  C13 — validate() agrees with matches() on the rule's own examples.
-/
namespace Tau.C13
open Tau

/-- An example passes as a true positive iff it is a mapping that matches. -/
def tpOk (E : RegexEngine) (r : Rule) (y : Yaml) : Prop :=
  ∃ d, yamlDoc? y = some d ∧ r.matches E d = true

/-- An example passes as a true negative iff it is a mapping that does not match. -/
def tnOk (E : RegexEngine) (r : Rule) (y : Yaml) : Prop :=
  ∃ d, yamlDoc? y = some d ∧ r.matches E d = false

theorem mem_range_filter {n : Nat} {p : Nat → Bool} {i : Nat} :
    i ∈ (List.range n).filter p ↔ i < n ∧ p i = true := by
  simp [List.mem_filter, List.mem_range]

/-- The true-positive indices `validate()` names are exactly the examples that are not a matching
    mapping — for optimised and unoptimised rules alike (`r` is any rule value). -/
theorem tp_failure_iff (E : RegexEngine) (r : Rule) (i : Nat) :
    i ∈ (r.validateFailures E).1 ↔ ∃ y, r.tps[i]? = some y ∧ ¬ tpOk E r y := by
  unfold Rule.validateFailures tpOk
  simp only [mem_range_filter]
  constructor
  · rintro ⟨hi, h⟩
    have : r.tps[i]? = some r.tps[i] := List.getElem?_eq_getElem hi
    refine ⟨r.tps[i], this, ?_⟩
    rw [this] at h
    rintro ⟨d, hd, hm⟩
    simp [hd, hm] at h
  · rintro ⟨y, hy, hn⟩
    have hi : i < r.tps.length := by
      rcases Nat.lt_or_ge i r.tps.length with h | h
      · exact h
      · rw [List.getElem?_eq_none h] at hy; cases hy
    refine ⟨hi, ?_⟩
    rw [hy]
    cases hd : yamlDoc? y with
    | none => simp [hd]
    | some d =>
      cases hm : r.matches E d with
      | false => simp [hd, hm]
      | true => exact absurd ⟨d, hd, hm⟩ hn

theorem tn_failure_iff (E : RegexEngine) (r : Rule) (i : Nat) :
    i ∈ (r.validateFailures E).2 ↔ ∃ y, r.tns[i]? = some y ∧ ¬ tnOk E r y := by
  unfold Rule.validateFailures tnOk
  simp only [mem_range_filter]
  constructor
  · rintro ⟨hi, h⟩
    have : r.tns[i]? = some r.tns[i] := List.getElem?_eq_getElem hi
    refine ⟨r.tns[i], this, ?_⟩
    rw [this] at h
    rintro ⟨d, hd, hm⟩
    simp [hd, hm] at h
  · rintro ⟨y, hy, hn⟩
    have hi : i < r.tns.length := by
      rcases Nat.lt_or_ge i r.tns.length with h | h
      · exact h
      · rw [List.getElem?_eq_none h] at hy; cases hy
    refine ⟨hi, ?_⟩
    rw [hy]
    cases hd : yamlDoc? y with
    | none => simp [hd]
    | some d =>
      cases hm : r.matches E d with
      | true => simp [hd, hm]
      | false => exact absurd ⟨d, hd, hm⟩ hn

/-- `validate()` succeeds exactly when every true positive is a mapping that matches and every
    true negative is a mapping that does not match, with the verdicts `matches()` gives. -/
theorem validate_ok_iff (E : RegexEngine) (r : Rule) :
    r.validateOk E = true ↔ (∀ y ∈ r.tps, tpOk E r y) ∧ (∀ y ∈ r.tns, tnOk E r y) := by
  have h1 := tp_failure_iff E r
  have h2 := tn_failure_iff E r
  unfold Rule.validateOk
  cases hv : r.validateFailures E with
  | mk a b =>
    rw [hv] at h1 h2
    simp only [Bool.and_eq_true, List.isEmpty_iff]
    constructor
    · rintro ⟨ha, hb⟩
      subst ha; subst hb
      constructor
      · intro y hy
        obtain ⟨i, hi, rfl⟩ := List.mem_iff_getElem.mp hy
        apply Classical.byContradiction; intro hn
        exact (List.not_mem_nil) ((h1 i).mpr ⟨_, List.getElem?_eq_getElem hi, hn⟩)
      · intro y hy
        obtain ⟨i, hi, rfl⟩ := List.mem_iff_getElem.mp hy
        apply Classical.byContradiction; intro hn
        exact (List.not_mem_nil) ((h2 i).mpr ⟨_, List.getElem?_eq_getElem hi, hn⟩)
    · rintro ⟨hp, hn⟩
      constructor
      · apply List.eq_nil_iff_forall_not_mem.mpr
        intro i hi
        obtain ⟨y, hy, hbad⟩ := (h1 i).mp hi
        exact hbad (hp y (List.mem_of_getElem? hy))
      · apply List.eq_nil_iff_forall_not_mem.mpr
        intro i hi
        obtain ⟨y, hy, hbad⟩ := (h2 i).mp hi
        exact hbad (hn y (List.mem_of_getElem? hy))

/-- A malformed example (not a mapping) is always reported. -/
theorem non_mapping_tp_reported (E : RegexEngine) (r : Rule) (i : Nat) (y : Yaml)
    (hy : r.tps[i]? = some y) (hm : yamlDoc? y = none) : i ∈ (r.validateFailures E).1 :=
  (tp_failure_iff E r i).mpr ⟨y, hy, by rintro ⟨d, hd, _⟩; rw [hm] at hd; cases hd⟩

theorem non_mapping_tn_reported (E : RegexEngine) (r : Rule) (i : Nat) (y : Yaml)
    (hy : r.tns[i]? = some y) (hm : yamlDoc? y = none) : i ∈ (r.validateFailures E).2 :=
  (tn_failure_iff E r i).mpr ⟨y, hy, by rintro ⟨d, hd, _⟩; rw [hm] at hd; cases hd⟩

/-- The verdict `validate()` uses is the one `matches()` gives: true only for a true condition. -/
theorem matches_iff (E : RegexEngine) (r : Rule) (d : Doc) :
    r.matches E d = true ↔ r.solve E d = .t := by
  unfold Rule.matches; cases r.solve E d <;> simp [Tri.isT]

/-- Non-vacuity: a scalar example is not a document. -/
example : yamlDoc? (.num (.int 5)) = none ∧ (yamlDoc? (.map [])).isSome = true := by
  constructor <;> rfl

end Tau.C13

namespace Tau.C13
open Tau

/-! ### "…all of this holds equally for optimised rules", and validate() never panics -/

/-- `optimise` leaves the example lists alone. -/
theorem optimise_examples (E : RegexEngine) (sw : Switches) (r : Rule) :
    (r.optimise E sw).tps = r.tps ∧ (r.optimise E sw).tns = r.tns := by
  unfold Rule.optimise
  split <;> simp

/-- **validate() of an optimised rule** (any of the 16 switch combinations) succeeds exactly when
    every true positive of the rule is a mapping that the OPTIMISED rule matches and every true
    negative is a mapping it does not match — the same verdicts `matches()` gives on that rule. -/
theorem validate_optimised_ok_iff (E : RegexEngine) (sw : Switches) (r : Rule) :
    (r.optimise E sw).validateOk E = true ↔
      (∀ y ∈ r.tps, tpOk E (r.optimise E sw) y) ∧ (∀ y ∈ r.tns, tnOk E (r.optimise E sw) y) := by
  have h := validate_ok_iff E (r.optimise E sw)
  rw [(optimise_examples E sw r).1, (optimise_examples E sw r).2] at h
  exact h

/-- Wherever optimisation keeps the verdicts (C01's theorems say when), validate() reports exactly
    the same failing examples before and after. -/
theorem validate_optimise_agree (E : RegexEngine) (sw : Switches) (r : Rule)
    (h : ∀ d, (r.optimise E sw).matches E d = r.matches E d) :
    (r.optimise E sw).validateFailures E = r.validateFailures E := by
  unfold Rule.validateFailures
  simp only [(optimise_examples E sw r).1, (optimise_examples E sw r).2, h]

/-- A YAML example is an `Object` with the default path walk. -/
theorem yamlDoc_obj : ∀ (y : Yaml) (d : Doc), yamlDoc? y = some d → ∃ kvs, d = .obj kvs
  | .map kvs, d, h => by simp only [yamlDoc?] at h; cases h; exact ⟨_, rfl⟩
  | .tagged y, d, h => by simp only [yamlDoc?] at h; exact yamlDoc_obj y d h
  | .null, _, h => by simp [yamlDoc?] at h
  | .bool _, _, h => by simp [yamlDoc?] at h
  | .num _, _, h => by simp [yamlDoc?] at h
  | .str _, _, h => by simp [yamlDoc?] at h
  | .seq _, _, h => by simp [yamlDoc?] at h

/-- **validate() never reaches a panic site**: for a rule that loaded, evaluating any example that is
    a mapping (whatever it holds) hits no `unreachable!()`, no undefined identifier, no cache index
    out of range; an example that is not a mapping is not evaluated at all (`non_mapping_*_reported`,
    the repaired `unwrap`). -/
theorem validate_never_panics (E : RegexEngine) (ic : Bool) (src : RuleSrc) (r : Rule)
    (h : loadRule E ic src = .ok r) (y : Yaml) (d : Doc) (hd : yamlDoc? y = some d) :
    hitsTop E r.det.ids d r.det.expr = false := by
  unfold loadRule at h
  split at h
  · cases h
  · rename_i det hdet
    cases h
    simp only
    -- a YAML example is an `Object` with the default path walk
    obtain ⟨kvs, rfl⟩ := yamlDoc_obj y d hd
    exact C03.safe_rule_never_panics_mapping E det.ids kvs det.expr
      (C03.loaded_bodies_safe E ic src.det det hdet)
      (C03.loaded_condition_safe E ic src.det det hdet (C03.loaded_idents_defined E ic src.det det hdet))

end Tau.C13
