import Tau.Rule
import Tau.Properties.C06
/-
  C13 — validate() agrees with matches() on the rule's own examples.
-/
namespace Tau.C13
open Tau

/-- An example passes as a true positive iff it is a mapping that matches. -/
def tpOk (E : RegexEngine) (r : Rule) (y : Yaml) : Prop :=
  ∃ d, yamlDoc? y = some d ∧ r.matches E d = true

/-- An example passes as a true negative iff it is a mapping that does not match. -/
def tnOk (E : RegexEngine) (r : Rule) (y : Yaml) : Prop :=
  ∃ d, yamlDoc? y = some d ∧ r.matches E d = false

theorem mem_range_filter {n : Nat} {p : Nat → Bool} {i : Nat} :
    i ∈ (List.range n).filter p ↔ i < n ∧ p i = true := by
  simp [List.mem_filter, List.mem_range]

/-- The true-positive indices `validate()` names are exactly the examples that are not a matching
    mapping — for optimised and unoptimised rules alike (`r` is any rule value). -/
theorem tp_failure_iff (E : RegexEngine) (r : Rule) (i : Nat) :
    i ∈ (r.validateFailures E).1 ↔ ∃ y, r.tps[i]? = some y ∧ ¬ tpOk E r y := by
  unfold Rule.validateFailures tpOk
  simp only [mem_range_filter]
  constructor
  · rintro ⟨hi, h⟩
    have : r.tps[i]? = some r.tps[i] := List.getElem?_eq_getElem hi
    refine ⟨r.tps[i], this, ?_⟩
    rw [this] at h
    rintro ⟨d, hd, hm⟩
    simp [hd, hm] at h
  · rintro ⟨y, hy, hn⟩
    have hi : i < r.tps.length := by
      rcases Nat.lt_or_ge i r.tps.length with h | h
      · exact h
      · rw [List.getElem?_eq_none h] at hy; cases hy
    refine ⟨hi, ?_⟩
    rw [hy]
    cases hd : yamlDoc? y with
    | none => simp [hd]
    | some d =>
      cases hm : r.matches E d with
      | false => simp [hd, hm]
      | true => exact absurd ⟨d, hd, hm⟩ hn

theorem tn_failure_iff (E : RegexEngine) (r : Rule) (i : Nat) :
    i ∈ (r.validateFailures E).2 ↔ ∃ y, r.tns[i]? = some y ∧ ¬ tnOk E r y := by
  unfold Rule.validateFailures tnOk
  simp only [mem_range_filter]
  constructor
  · rintro ⟨hi, h⟩
    have : r.tns[i]? = some r.tns[i] := List.getElem?_eq_getElem hi
    refine ⟨r.tns[i], this, ?_⟩
    rw [this] at h
    rintro ⟨d, hd, hm⟩
    simp [hd, hm] at h
  · rintro ⟨y, hy, hn⟩
    have hi : i < r.tns.length := by
      rcases Nat.lt_or_ge i r.tns.length with h | h
      · exact h
      · rw [List.getElem?_eq_none h] at hy; cases hy
    refine ⟨hi, ?_⟩
    rw [hy]
    cases hd : yamlDoc? y with
    | none => simp [hd]
    | some d =>
      cases hm : r.matches E d with
      | true => simp [hd, hm]
      | false => exact absurd ⟨d, hd, hm⟩ hn

/-- `validate()` succeeds exactly when every true positive is a mapping that matches and every
    true negative is a mapping that does not match, with the verdicts `matches()` gives. -/
theorem validate_ok_iff (E : RegexEngine) (r : Rule) :
    r.validateOk E = true ↔ (∀ y ∈ r.tps, tpOk E r y) ∧ (∀ y ∈ r.tns, tnOk E r y) := by
  have h1 := tp_failure_iff E r
  have h2 := tn_failure_iff E r
  unfold Rule.validateOk
  cases hv : r.validateFailures E with
  | mk a b =>
    rw [hv] at h1 h2
    simp only [Bool.and_eq_true, List.isEmpty_iff]
    constructor
    · rintro ⟨ha, hb⟩
      subst ha; subst hb
      constructor
      · intro y hy
        obtain ⟨i, hi, rfl⟩ := List.mem_iff_getElem.mp hy
        apply Classical.byContradiction; intro hn
        exact (List.not_mem_nil) ((h1 i).mpr ⟨_, List.getElem?_eq_getElem hi, hn⟩)
      · intro y hy
        obtain ⟨i, hi, rfl⟩ := List.mem_iff_getElem.mp hy
        apply Classical.byContradiction; intro hn
        exact (List.not_mem_nil) ((h2 i).mpr ⟨_, List.getElem?_eq_getElem hi, hn⟩)
    · rintro ⟨hp, hn⟩
      constructor
      · apply List.eq_nil_iff_forall_not_mem.mpr
        intro i hi
        obtain ⟨y, hy, hbad⟩ := (h1 i).mp hi
        exact hbad (hp y (List.mem_of_getElem? hy))
      · apply List.eq_nil_iff_forall_not_mem.mpr
        intro i hi
        obtain ⟨y, hy, hbad⟩ := (h2 i).mp hi
        exact hbad (hn y (List.mem_of_getElem? hy))

/-- A malformed example (not a mapping) is always reported. -/
theorem non_mapping_tp_reported (E : RegexEngine) (r : Rule) (i : Nat) (y : Yaml)
    (hy : r.tps[i]? = some y) (hm : yamlDoc? y = none) : i ∈ (r.validateFailures E).1 :=
  (tp_failure_iff E r i).mpr ⟨y, hy, by rintro ⟨d, hd, _⟩; rw [hm] at hd; cases hd⟩

theorem non_mapping_tn_reported (E : RegexEngine) (r : Rule) (i : Nat) (y : Yaml)
    (hy : r.tns[i]? = some y) (hm : yamlDoc? y = none) : i ∈ (r.validateFailures E).2 :=
  (tn_failure_iff E r i).mpr ⟨y, hy, by rintro ⟨d, hd, _⟩; rw [hm] at hd; cases hd⟩

/-- The verdict `validate()` uses is the one `matches()` gives: true only for a true condition. -/
theorem matches_iff (E : RegexEngine) (r : Rule) (d : Doc) :
    r.matches E d = true ↔ r.solve E d = .t := by
  unfold Rule.matches; cases r.solve E d <;> simp [Tri.isT]

/-- Non-vacuity: a scalar example is not a document. -/
example : yamlDoc? (.num (.int 5)) = none ∧ (yamlDoc? (.map [])).isSome = true := by
  constructor <;> rfl

end Tau.C13
