import Tau.Optimiser
import Tau.Proofs.Solver
import Tau.Proofs.Rewrite
import Tau.Proofs.Pratt
import Tau.Rule
import Tau.Properties.C06
import Tau.Proofs.Batch
import Tau.Proofs.Shake0
import Tau.Proofs.MatrixTruth
import Tau.Proofs.Shake1Truth
import Tau.Proofs.MappingShake
import Tau.Properties.C03
/-
  C01 — Optimisation never changes a verdict.

  Full statement (kept visible):  for every loaded rule `r`, mask `sw` and document `d`
      (r.optimise E sw).matches E d = r.matches E d.
  On the current code this is FALSE (known findings KF-C01-*, witnesses proved below), so what is
  proved is one soundness theorem per pass where the pass is sound, the negation by witness where
  it is not, and the algebra that says which merges are exact.
-/
namespace Tau.C01
open Tau

theorem coalesce_leaf (ids : Ids) (e : Expr) (h : e.isSolvable = false) : coalesce ids e = e := by
  cases e <;> simp [Expr.isSolvable] at h <;> simp [coalesce]

/-- **coalesce is exact**: evaluating the coalesced tree with no identifier environment gives the
    three-valued result of the original condition under the environment, for every document and
    every tree of the shape the condition parser builds (`PShape`, see `parse_shape`). -/
theorem coalesce_sound (E : RegexEngine) (ids : Ids) (d : Doc) (e : Expr) (h : PShape e) :
    solveClosed E d (coalesce ids e) = solveTop E ids d e := by
  induction h with
  | ident i =>
    cases hl : lookupId ids i with
    | none => simp [coalesce, hl, solveClosed, solveTop, solveG, topK, closedK]
    | some b => simp [coalesce, hl, solveTop, solveG, topK]
  | matchIdent k i =>
    cases hl : lookupId ids i with
    | none => cases k <;> simp [coalesce, hl, solveClosed, solveTop, solveG, topK, closedK]
    | some b => cases k <;> simp [coalesce, hl, solveTop, solveG, topK]
  | litFloat b => simp [coalesce, solveClosed, solveTop, solveG]
  | litInt i => simp [coalesce, solveClosed, solveTop, solveG]
  | litCast f m => simp [coalesce, solveClosed, solveTop, solveG]
  | negate _ _ ih =>
    simp only [coalesce, solveClosed, solveTop, solveG] at *
    rw [ih]
  | binBool op hop _ _ _ _ ihl ihr =>
    rcases hop with rfl | rfl <;>
    · simp only [coalesce, solveClosed, solveTop, solveG] at *
      rw [ihl, ihr]
  | cmp l op r h1 h2 hl hr =>
    rw [coalesce, coalesce_leaf ids l hl, coalesce_leaf ids r hr]
    cases op <;> simp_all [solveClosed, solveTop, solveG]

/-- For every token list the parser accepts: coalescing the parsed condition is exact. -/
theorem coalesce_sound_parsed (E : RegexEngine) (ids : Ids) (d : Doc) (ts : List Token) (e : Expr)
    (h : parse ts = .ok e) : solveClosed E d (coalesce ids e) = solveTop E ids d e :=
  coalesce_sound E ids d e (parse_shape ts e h)

/-- Rule level: optimising with the coalesce switch alone never changes the three-valued result,
    hence never the verdict, of a rule whose condition came out of the parser. -/
theorem optimise_coalesce_only (E : RegexEngine) (r : Rule) (d : Doc) (h : PShape r.det.expr)
    (hopt : r.optimised = false) :
    (r.optimise E ⟨true, false, false, false⟩).solve E d = r.solve E d := by
  unfold Rule.optimise Rule.solve
  simp only [hopt, Bool.false_eq_true, if_false, optimiseTree, if_true]
  have := coalesce_sound E r.det.ids d r.det.expr h
  simp only [solveClosed, solveTop] at this ⊢
  -- with no identifiers left the top-level continuation is the closed one
  have hk : topK E [] = closedK := by
    simp only [topK, closedK, lookupId]
  rw [hk]; exact this

end Tau.C01

namespace Tau.C01
open Tau

/-- A regex engine for closed witnesses (no regex is involved in them). -/
def E0 : RegexEngine := { compiles := fun _ _ => false, isMatch := fun _ _ _ => false }

/-! ### The full statement is false on the current code: witnesses (known findings) -/

/-- KF-C01-double-negation: `not not A` over a missing field is true; after `shake` it is missing. -/
theorem shake_double_negation_unsound :
    let a : Expr := .search (.exact ['x']) ['f'] false
    let e : Expr := .negate (.negate a)
    let d : Doc := .obj []
    solveClosed E0 d e = .t ∧ solveClosed E0 d (shake e) = .m := by
  decide

/-- KF-C01-and-reorder: shake moves the nested conjunct behind `c`; false and missing swap, and the
    negation turns that into a different verdict. -/
theorem shake_and_reorder_unsound :
    let a : Expr := .group .and
      [ .nested ['a'] (.bin (.field ['x']) .eq (.int 1)), .bin (.field ['c']) .eq (.int 1) ]
    let e : Expr := .negate a
    let d : Doc := .obj [(['c'], .uint 2)]
    solveClosed E0 d e = .f ∧ solveClosed E0 d (shake e) = .t := by
  decide

/-- KF-C01-match-reshape: `all(X)` counts the members of X's group; shake unwraps the one-member
    group around the automaton, and the count changes. -/
theorem shake_match_reshape_unsound :
    let x : Expr := .group .or [ .search (.ac [.startsWith ['a'], .endsWith ['b']] false) ['f'] false ]
    let ids : Ids := [(['X'], x)]
    let ids' : Ids := [(['X'], shake x)]
    let e : Expr := .match .all (.ident ['X'])
    let d : Doc := .obj [(['f'], .str ['a', 'x'])]
    solveTop E0 ids d e = .t ∧ solveTop E0 ids' d e = .f := by
  decide

/-! ### Algebra behind the passes: which merges are exact -/

/-- Merging or-operands in any order / grouping is exact. -/
theorem or_append (xs ys : List Tri) : Tri.or (xs ++ ys) = Tri.or [Tri.or xs, Tri.or ys] := by
  induction xs with
  | nil => cases h : Tri.or ys <;> simp [Tri.or_cons, h]
  | cons x xs ih =>
    rw [List.cons_append, Tri.or_cons, Tri.or_cons (x) xs, ih]
    cases x <;> cases Tri.or xs <;> cases Tri.or ys <;> rfl

/-- Flattening nested and-groups is exact (the and table is associative)… -/
theorem and_append (xs ys : List Tri) : Tri.and (xs ++ ys) = Tri.and [Tri.and xs, Tri.and ys] := by
  induction xs with
  | nil => cases h : Tri.and ys <;> simp [Tri.and_cons, h]
  | cons x xs ih =>
    rw [List.cons_append, Tri.and_cons, Tri.and_cons x xs]
    cases x <;> simp [ih, Tri.and_cons]

/-- …but it is not commutative between false and missing, and double negation is not the identity:
    exactly the two algebraic facts the failing passes rely on. -/
theorem and_not_commutative : Tri.and [.f, .m] ≠ Tri.and [.m, .f] := by decide
theorem not_not_missing : Tri.not (Tri.not .m) ≠ .m := by decide

/-- A one-member group is its member, for both connectives (shake_0's unwrapping is exact for
    evaluation; it is unsound only for what `all()/of()` count). -/
theorem single_group (E : RegexEngine) (K : IdentK) (d : Doc) (op : BoolSym) (e : Expr)
    (h : op = .and ∨ op = .or) :
    solveG E K d (.group op [e]) = solveG E K d e := by
  rcases h with rfl | rfl
  · simp [solveG, andG]; cases solveG E K d e <;> rfl
  · simp [solveG, orG]; cases solveG E K d e <;> rfl

/-- Flattening `(a and b) and c` into a group is exact. -/
theorem flatten_and (E : RegexEngine) (K : IdentK) (d : Doc) (x y z : Expr) :
    solveG E K d (.bin (.bin x .and y) .and z) = solveG E K d (.group .and [x, y, z]) := by
  simp [solveG, andG]
  cases solveG E K d x <;> cases solveG E K d y <;> cases solveG E K d z <;> rfl

theorem flatten_or (E : RegexEngine) (K : IdentK) (d : Doc) (x y z : Expr) :
    solveG E K d (.bin (.bin x .or y) .or z) = solveG E K d (.group .or [x, y, z]) := by
  simp [solveG, orG]
  cases solveG E K d x <;> cases solveG E K d y <;> cases solveG E K d z <;> rfl

end Tau.C01

namespace Tau.C01
open Tau

/-- **rewrite is exact** for every tree, every identifier continuation and every document, under
    the one assumption the engine itself makes about the regex crate (`StripLaw`: a stripped pattern
    that still compiles matches the same strings in an unanchored search). When the stripped
    pattern does not compile the repaired code keeps the original, which the model mirrors. -/
theorem rewrite_sound (E : RegexEngine) (hL : StripLaw E) (K : IdentK) (d : Doc) (e : Expr) :
    solveG E K d (rewrite E e) = solveG E K d e :=
  rewrite_sound_aux E hL K e.size e (Nat.le_refl _) d

/-- Verdict form, for rules optimised with the rewrite switch only (identifiers are rewritten one
    by one, the condition itself holds no search). -/
theorem rewrite_sound_closed (E : RegexEngine) (hL : StripLaw E) (d : Doc) (e : Expr) :
    solveClosed E d (rewrite E e) = solveClosed E d e := rewrite_sound E hL closedK d e

end Tau.C01

namespace Tau.C01
open Tau

/-! ### shake_0 (the first half of `shake`) is exact wherever it removes no double negation

  `shake0F` is the model of `shake_0` that also reports whether it eliminated a double negation
  (the step `shake_double_negation_unsound` shows to be wrong).  `shakeOK` is the class of trees
  `parse_identifier` and the condition parser build, minus exactly the shape of
  `shake_match_reshape_unsound` (an all()/of() directly on a one-member group or an and/or chain). -/

/-- **shake_0 is exact** — same three-valued result on every document, for every identifier
    continuation — on every `shakeOK` tree on which it eliminates no double negation. -/
theorem shake0_exact (E : RegexEngine) (K : IdentK) (fuel : Nat) (e : Expr) (hok : shakeOK e = true)
    (hfl : (shake0F fuel e).2 = false) (d : Doc) :
    solveG E K d (shake0 fuel e) = solveG E K d e :=
  shake0_sound E K fuel e hok hfl d

/-- … and its output is again such a tree (so the statement composes over repeated calls). -/
theorem shake0_closed (fuel : Nat) (e : Expr) (hok : shakeOK e = true)
    (hfl : (shake0F fuel e).2 = false) : shakeOK (shake0 fuel e) = true :=
  shake0_shakeOK fuel e hok hfl

/-- Every identifier body the loader builds is in the class. -/
theorem identifier_bodies_shakeOK (E : RegexEngine) (ic : Bool) (y : Yaml) (e : Expr)
    (h : parseIdentifier E ic y = .ok e) : shakeOK e = true :=
  parseIdentifier_shakeOK E ic y e h

/-- The identifiers a condition puts under all()/of(). -/
def matchIds : Expr → List Str
  | .match _ (.ident i) => [i]
  | .negate e => matchIds e
  | .bin l _ r => matchIds l ++ matchIds r
  | _ => []

theorem isLeafE_of_not_solvable (e : Expr) (h : e.isSolvable = false) : isLeafE e = true := by
  cases e <;> simp [Expr.isSolvable] at h <;> rfl

/-- Coalescing a parsed condition over bodies in the class stays in the class, provided the
    bodies put under all()/of() are not the reshaped kind. -/
theorem coalesce_shakeOK (ids : Ids) (c : Expr) (h : PShape c)
    (hb : ∀ i b, lookupId ids i = some b → shakeOK b = true)
    (hm : ∀ i ∈ matchIds c, ∀ b, lookupId ids i = some b → matchChildOK b = true) :
    shakeOK (coalesce ids c) = true := by
  induction h with
  | ident i =>
    cases hl : lookupId ids i with
    | none => simp [coalesce, hl, shakeOK]
    | some b => simpa [coalesce, hl] using hb i b hl
  | matchIdent k i =>
    cases hl : lookupId ids i with
    | none => simp [coalesce, hl, shakeOK, matchChildOK]
    | some b =>
      simp only [coalesce, hl, shakeOK, Bool.and_eq_true]
      exact ⟨hm i (by simp [matchIds]) b hl, hb i b hl⟩
  | litFloat b => simp [coalesce, shakeOK]
  | litInt i => simp [coalesce, shakeOK]
  | litCast f m => simp [coalesce, shakeOK]
  | negate _ _ ih =>
    simp only [coalesce, shakeOK]
    exact ih (fun i hi => hm i (by simpa [matchIds] using hi))
  | binBool op hop _ _ _ _ ihl ihr =>
    have h1 := ihl (fun i hi => hm i (by simp [matchIds, hi]))
    have h2 := ihr (fun i hi => hm i (by simp [matchIds, hi]))
    rcases hop with rfl | rfl <;> simp [coalesce, shakeOK, h1, h2]
  | cmp l op r h1 h2 hl hr =>
    rw [coalesce, coalesce_leaf ids l hl, coalesce_leaf ids r hr]
    have := isLeafE_of_not_solvable l hl
    have := isLeafE_of_not_solvable r hr
    cases op <;> simp_all [shakeOK]

/-- The visitor loop stores only what `parse_identifier` returned. -/
theorem loadEntries_bodies (P : Expr → Prop) (E : RegexEngine) (ic : Bool)
    (hP : ∀ v e, parseIdentifier E ic v = .ok e → P e)
    (entries : List (Str × Yaml)) (st st' : LoadSt)
    (hst : ∀ p ∈ st.ids, P p.2) (h : loadEntries E ic entries st = .ok st') :
    ∀ p ∈ st'.ids, P p.2 := by
  induction entries generalizing st with
  | nil => simp [loadEntries] at h; cases h; exact hst
  | cons x xs ih =>
    obtain ⟨key, v⟩ := x
    simp only [loadEntries] at h
    split at h
    · split at h
      · cases h
      · split at h
        · exact ih _ (by exact hst) h
        · cases h
    · split at h
      · cases h
      · split at h
        · cases h
        · rename_i e hp
          refine ih _ ?_ h
          intro p hp'
          simp only [List.mem_append, List.mem_singleton] at hp'
          rcases hp' with hp' | rfl
          · exact hst p hp'
          · exact hP v e hp

theorem loaded_bodies_shakeOK (E : RegexEngine) (ic : Bool) (entries : List (Str × Yaml)) (d : Detection)
    (h : loadDetection E ic entries = .ok d) :
    ∀ i b, lookupId d.ids i = some b → shakeOK b = true := by
  unfold loadDetection at h
  split at h
  · cases h
  · rename_i st hst
    have hall := loadEntries_bodies (fun e => shakeOK e = true) E ic
      (fun v e hv => parseIdentifier_shakeOK E ic v e hv) entries {} st (by intro p hp; cases hp) hst
    split at h
    · cases h
    · split at h
      · cases h
      · split at h
        · cases h
        · split at h
          · cases h
          · split at h
            · cases h
            · cases h
              intro i b hl
              exact hall (i, b) (C03.lookup_mem _ i b hl)

/-- **Rule level.** For a loaded rule: coalesce followed by shake_0 gives, on every document, the
    three-valued result of the unoptimised rule — unless shake_0 eliminated a double negation, or
    the condition applies all()/of() to an identifier whose body is a one-member group (the two
    recorded findings). -/
theorem coalesce_shake0_exact (E : RegexEngine) (ic : Bool) (entries : List (Str × Yaml)) (det : Detection)
    (h : loadDetection E ic entries = .ok det) (fuel : Nat)
    (hm : ∀ i ∈ matchIds det.expr, ∀ b, lookupId det.ids i = some b → matchChildOK b = true)
    (hfl : (shake0F fuel (coalesce det.ids det.expr)).2 = false) (d : Doc) :
    solveClosed E d (shake0 fuel (coalesce det.ids det.expr)) = solveTop E det.ids d det.expr := by
  have hshape := (C03.loaded_condition_shape E ic entries det h).1
  have hb : ∀ i b, lookupId det.ids i = some b → shakeOK b = true := by
    intro i b hl
    exact loaded_bodies_shakeOK E ic entries det h i b hl
  rw [← coalesce_sound E det.ids d det.expr hshape]
  exact shake0_exact E closedK fuel _ (coalesce_shakeOK det.ids det.expr hshape hb hm) hfl d

/-- The hypotheses are satisfiable and the theorem is not about the identity: a condition
    `A and B and C` is regrouped by shake_0, no double negation, every side condition holds. -/
example :
    let a : Expr := .search (.exact ['x']) ['f'] false
    let e : Expr := .bin (.bin a .and a) .and (.match .all (.group .or [a, a]))
    shakeOK e = true ∧ (shake0F 10 e).2 = false ∧
      (match shake0 10 e with | .group .and xs => xs.length | _ => 0) = 3 := by decide

end Tau.C01

namespace Tau.C01
open Tau

/-! ### Algebra behind shake_1's merges (each merge step on its own is exact) -/

/-- Or-arm, nested members on one field: `f: {x1}` or `f: {x2}` … is `f: {x1 or x2 …}` — exactly,
    on every document (missing field, object, array of objects, anything else). -/
theorem nested_or_merge (E : RegexEngine) (K : IdentK) (d : Doc) (f : Str) (xs : List Expr) (hne : xs ≠ [])
    (hns : ∀ x ∈ xs, nestedSpecial x = false) :
    solveG E K d (.nested f (.group .or xs)) = Tri.or (xs.map (fun x => solveG E K d (.nested f x))) :=
  Tau.nested_or_merge E K d f xs hne hns

theorem nestedAllOrG_eq (E : RegexEngine) (K : IdentK) (objs : List (List (Str × Value))) (xs : List Expr) :
    nestedAllOrG E K objs xs =
      Tri.and (xs.map (fun x => Tri.ofBool (objs.any (fun kvs => solveG E K (.obj kvs) x == .t)))) :=
  Tau.nestedAllOrG_eq E K objs xs

/-- And-arm, nested members on one field: `f: {x1}` and `f: {x2}` … is the merged
    `f: {all of [x1, x2 …]}` the pass builds — exactly, on every document. (What is NOT exact in
    that arm is moving the merged block behind the other conjuncts: `shake_and_reorder_unsound`.) -/
theorem nested_and_merge (E : RegexEngine) (K : IdentK) (d : Doc) (f : Str) (xs : List Expr) (hne : xs ≠ [])
    (hns : ∀ x ∈ xs, nestedSpecial x = false) :
    solveG E K d (.nested f (.match .all (.group .or xs))) =
      Tri.and (xs.map (fun x => solveG E K d (.nested f x))) :=
  Tau.nested_and_merge E K d f xs hne hns

/-! ### shake_1, both halves of shake, matrix: the passes after coalesce -/

/-- **shake_1 is exact** — same three-valued result on every document, for every identifier
    continuation and every depth budget — on every `e1OK` tree: and-groups hold no nested mapping
    (those are moved behind the other conjuncts: `shake_and_reorder_unsound`), a nested mapping is
    not directly an all()-list (the recorded nested-all finding), automatons and regex sets are
    non-empty, all()/of() do not sit on a reshaped operand.  This covers all of the or-arm:
    grouping needles by (field, cast, case flag) into automatons, regexes into sets, nested
    mappings on one field into one block, the sorting, and the repeated pass. -/
theorem shake1_exact (E : RegexEngine) (K : IdentK) (fuel : Nat) (e : Expr) (h : e1OK e = true) (d : Doc) :
    solveG E K d (shake1 fuel e) = solveG E K d e :=
  (shake1_good E K fuel e h).2.1 d

/-- … and its output is again such a tree. -/
theorem shake1_closed (fuel : Nat) (e : Expr) (h : e1OK e = true) : e1OK (shake1 fuel e) = true :=
  (shake1_good E0 closedK fuel e h).1

/-- **Both halves of `shake`**, with purely syntactic side conditions on the input tree. -/
theorem shake_exact (E : RegexEngine) (K : IdentK) (e : Expr) (hok : shakeOK e = true)
    (hx : xOK e = true) (hfl : (shake0F (shakeFuel e) e).2 = false) (d : Doc) :
    solveG E K d (shake e) = solveG E K d e := by
  unfold shake
  have h1 : e1OK (shake0 (shakeFuel e) e) = true :=
    e1OK_of _ (shake0_closed _ e hok hfl) (shake0_xOK _ e hok hfl hx)
  rw [shake1_exact E K _ _ h1 d]
  exact shake0_exact E K _ e hok hfl d

theorem topK_nil (E : RegexEngine) : topK E [] = closedK := by
  simp only [topK, closedK, lookupId]

/-- **Rule level, switches coalesce + shake** (and, below, + rewrite). -/
theorem optimise_coalesce_shake (E : RegexEngine) (ic : Bool) (src : RuleSrc) (r : Rule)
    (h : loadRule E ic src = .ok r) (hopt : r.optimised = false)
    (hm : ∀ i ∈ matchIds r.det.expr, ∀ b, lookupId r.det.ids i = some b → matchChildOK b = true)
    (hx : xOK (coalesce r.det.ids r.det.expr) = true)
    (hfl : (shake0F (shakeFuel (coalesce r.det.ids r.det.expr)) (coalesce r.det.ids r.det.expr)).2 = false)
    (d : Doc) :
    (r.optimise E ⟨true, true, false, false⟩).solve E d = r.solve E d := by
  have hdet : loadDetection E ic src.det = .ok r.det := by
    unfold loadRule at h
    split at h
    · cases h
    · cases h; assumption
  have hshape := (C03.loaded_condition_shape E ic src.det r.det hdet).1
  have hb : ∀ i b, lookupId r.det.ids i = some b → shakeOK b = true :=
    fun i b hl => loaded_bodies_shakeOK E ic src.det r.det hdet i b hl
  unfold Rule.optimise Rule.solve
  simp only [hopt, Bool.false_eq_true, if_false, optimiseTree, if_true, List.map_nil]
  rw [solveTop, topK_nil]
  rw [shake_exact E closedK _ (coalesce_shakeOK r.det.ids r.det.expr hshape hb hm) hx hfl d]
  exact coalesce_sound E r.det.ids d r.det.expr hshape

theorem optimise_coalesce_shake_rewrite (E : RegexEngine) (hL : StripLaw E) (ic : Bool) (src : RuleSrc) (r : Rule)
    (h : loadRule E ic src = .ok r) (hopt : r.optimised = false)
    (hm : ∀ i ∈ matchIds r.det.expr, ∀ b, lookupId r.det.ids i = some b → matchChildOK b = true)
    (hx : xOK (coalesce r.det.ids r.det.expr) = true)
    (hfl : (shake0F (shakeFuel (coalesce r.det.ids r.det.expr)) (coalesce r.det.ids r.det.expr)).2 = false)
    (d : Doc) :
    (r.optimise E ⟨true, true, true, false⟩).solve E d = r.solve E d := by
  have h2 := optimise_coalesce_shake E ic src r h hopt hm hx hfl d
  unfold Rule.optimise Rule.solve at h2 ⊢
  simp only [hopt, Bool.false_eq_true, if_false, optimiseTree, if_true, List.map_nil] at h2 ⊢
  rw [← h2]
  rw [solveTop, topK_nil]
  exact rewrite_sound E hL closedK d _

/-- Not about the identity: three needles on one field and two nested mappings on one field are
    batched into one automaton and one nested block; every side condition holds. -/
example :
    let s (k : Str) (v : Str) : Expr := .search (.contains v) k false
    let e : Expr := .group .or [s ['f'] ['a'], .nested ['g'] (s ['k'] ['x']), s ['f'] ['b'],
      .nested ['g'] (s ['k'] ['y']), s ['f'] ['c']]
    shakeOK e = true ∧ (shake0F (shakeFuel e) e).2 = false ∧ xOK e = true ∧ e1OK (shake0 (shakeFuel e) e) = true ∧
      (match shake e with
       | .group .or [.search (.ac ctx _) _ _, .nested _ (.search (.ac c2 _) _ _)] => (ctx.length, c2.length)
       | _ => (0, 0)) = (3, 2) := by
  decide

theorem isT_congr (a b : Tri) (h : a = .t ↔ b = .t) : a.isT = b.isT := by
  cases a <;> cases b <;> simp_all [Tri.isT]

/-- **matrix keeps every verdict** on `mOK` trees: for every document the rebuilt tree is true
    exactly when the original is (rows report false/missing in column order, so the three-valued
    result may differ — `matrix_order_unsound` — but never whether it is a match). -/
theorem matrix_verdict (E : RegexEngine) (K : IdentK) (e : Expr) (h : mOK e = true) (d : Doc) :
    (solveG E K d (matrixPass e)).isT = (solveG E K d e).isT :=
  isT_congr _ _ ((matrix_good E K _ e h).1 d)

/-- **Rule level, every switch combination that includes coalesce.**  The side conditions are on
    the coalesced condition (for shake) and on the tree handed to the matrix pass. -/
theorem optimise_verdict (E : RegexEngine) (hL : StripLaw E) (ic : Bool) (src : RuleSrc) (r : Rule)
    (h : loadRule E ic src = .ok r) (hopt : r.optimised = false)
    (shake' rewrite' matrix' : Bool)
    (hs : shake' = true →
      (∀ i ∈ matchIds r.det.expr, ∀ b, lookupId r.det.ids i = some b → matchChildOK b = true) ∧
      xOK (coalesce r.det.ids r.det.expr) = true ∧
      (shake0F (shakeFuel (coalesce r.det.ids r.det.expr)) (coalesce r.det.ids r.det.expr)).2 = false)
    (hm : matrix' = true →
      mOK ((if rewrite' then rewrite E else id)
        ((if shake' then shake else id) (coalesce r.det.ids r.det.expr))) = true)
    (d : Doc) :
    (r.optimise E ⟨true, shake', rewrite', matrix'⟩).matches E d = r.matches E d := by
  have hdet : loadDetection E ic src.det = .ok r.det := by
    unfold loadRule at h
    split at h
    · cases h
    · cases h; assumption
  have hshape := (C03.loaded_condition_shape E ic src.det r.det hdet).1
  have hb : ∀ i b, lookupId r.det.ids i = some b → shakeOK b = true :=
    fun i b hl => loaded_bodies_shakeOK E ic src.det r.det hdet i b hl
  have h0 : solveG E closedK d (coalesce r.det.ids r.det.expr) = solveTop E r.det.ids d r.det.expr :=
    coalesce_sound E r.det.ids d r.det.expr hshape
  have h1 : solveG E closedK d ((if shake' then shake else id) (coalesce r.det.ids r.det.expr)) =
      solveTop E r.det.ids d r.det.expr := by
    cases shake' with
    | false => exact h0
    | true =>
      obtain ⟨a, b, c⟩ := hs rfl
      simp only [if_true]
      rw [shake_exact E closedK _ (coalesce_shakeOK r.det.ids r.det.expr hshape hb a) b c d]
      exact h0
  have h2 : solveG E closedK d ((if rewrite' then rewrite E else id)
      ((if shake' then shake else id) (coalesce r.det.ids r.det.expr))) =
      solveTop E r.det.ids d r.det.expr := by
    cases rewrite' with
    | false => exact h1
    | true => simp only [if_true]; rw [rewrite_sound E hL closedK d]; exact h1
  unfold Rule.matches Rule.optimise Rule.solve
  simp only [hopt, Bool.false_eq_true, if_false, optimiseTree, if_true, List.map_nil]
  rw [← h2]
  cases matrix' with
  | false =>
    cases shake' <;> cases rewrite' <;> simp [solveTop, topK_nil]
  | true =>
    have := matrix_verdict E closedK _ (hm rfl) d
    cases shake' <;> cases rewrite' <;> simpa [solveTop, topK_nil] using this

/-- The matrix theorem is not about the identity: a sequence of two mappings becomes a 2x2 matrix,
    and the tree is in the class. -/
example :
    let s (k : Str) (v : Str) : Expr := .search (.exact v) k false
    let e : Expr := .group .or [.group .and [s ['f'] ['a'], s ['g'] ['b']], .group .and [s ['g'] ['c'], s ['f'] ['d']]]
    mOK e = true ∧
      (match matrixPass e with
       | .matrix cols rows => (cols.length, rows.length)
       | _ => (0, 0)) = (2, 2) := by
  decide

/-! ### Optimisation without coalesce: the condition and every identifier body one by one -/

theorem pshape_shakeOK (c : Expr) (h : PShape c) : shakeOK c = true := by
  induction h with
  | ident i => rfl
  | matchIdent k i => rfl
  | litFloat b => rfl
  | litInt i => rfl
  | litCast f m => rfl
  | negate _ _ ih => simpa [shakeOK] using ih
  | binBool op hop _ _ _ _ ihl ihr => rcases hop with rfl | rfl <;> simp [shakeOK, ihl, ihr]
  | cmp l op r h1 h2 hl hr =>
    have := isLeafE_of_not_solvable l hl
    have := isLeafE_of_not_solvable r hr
    cases op <;> simp_all [shakeOK]

theorem pshape_xOK (c : Expr) (h : PShape c) : xOK c = true ∧ topN c = false := by
  induction h with
  | ident i => exact ⟨rfl, rfl⟩
  | matchIdent k i => exact ⟨rfl, rfl⟩
  | litFloat b => exact ⟨rfl, rfl⟩
  | litInt i => exact ⟨rfl, rfl⟩
  | litCast f m => exact ⟨rfl, rfl⟩
  | negate _ _ ih => exact ⟨by simpa [xOK] using ih.1, rfl⟩
  | binBool op hop _ _ _ _ ihl ihr =>
    rcases hop with rfl | rfl <;> simp [xOK, topN, ihl.1, ihl.2, ihr.1, ihr.2]
  | cmp l op r h1 h2 hl hr =>
    have a := isLeafE_of_not_solvable l hl
    have b := isLeafE_of_not_solvable r hr
    have xl : xOK l = true := by cases l <;> simp [isLeafE] at a <;> rfl
    have xr : xOK r = true := by cases r <;> simp [isLeafE] at b <;> rfl
    cases op <;> simp_all [xOK, topN]

/-- A parsed condition without all(X)/of(X) sees the identifiers only through their results. -/
theorem pshape_congrK (E : RegexEngine) (K K' : IdentK) (d : Doc) (c : Expr) (h : PShape c)
    (hm : matchIds c = []) (hi : ∀ i, K'.ident i d = K.ident i d) :
    solveG E K' d c = solveG E K d c := by
  induction h with
  | ident i => simp only [solveG, hi]
  | matchIdent k i => simp [matchIds] at hm
  | litFloat b => simp only [solveG]
  | litInt i => simp only [solveG]
  | litCast f m => simp only [solveG]
  | negate _ _ ih => simp only [solveG]; rw [ih (by simpa [matchIds] using hm)]
  | @binBool l r op hop _ _ _ _ ihl ihr =>
    have hm' : matchIds l = [] ∧ matchIds r = [] := by simpa [matchIds] using hm
    rcases hop with rfl | rfl <;> simp only [solveG, ihl hm'.1, ihr hm'.2]
  | cmp l op r h1 h2 hl hr =>
    cases op <;> first | exact absurd rfl h1 | exact absurd rfl h2 | simp only [solveG]

def noNeg : Expr → Bool
  | .negate _ => false
  | .bin l _ r => noNeg l && noNeg r
  | _ => true

theorem binAnd_t (x y : Tri) : binAnd x y = .t ↔ x = .t ∧ y = .t := by cases x <;> cases y <;> simp [binAnd]
theorem binOr_t (x y : Tri) : binOr x y = .t ↔ x = .t ∨ y = .t := by cases x <;> cases y <;> simp [binOr]

/-- … and, when it holds no negation, only through whether they are true. -/
theorem pshape_congrK_truth (E : RegexEngine) (K K' : IdentK) (d : Doc) (c : Expr) (h : PShape c)
    (hm : matchIds c = []) (hn : noNeg c = true) (hi : ∀ i, K'.ident i d = .t ↔ K.ident i d = .t) :
    solveG E K' d c = .t ↔ solveG E K d c = .t := by
  induction h with
  | ident i => simp only [solveG, hi]
  | matchIdent k i => simp [matchIds] at hm
  | litFloat b => simp only [solveG]
  | litInt i => simp only [solveG]
  | litCast f m => simp only [solveG]
  | negate _ _ ih => simp [noNeg] at hn
  | @binBool l r op hop _ _ _ _ ihl ihr =>
    have hm' : matchIds l = [] ∧ matchIds r = [] := by simpa [matchIds] using hm
    have hn' : noNeg l = true ∧ noNeg r = true := by simpa [noNeg] using hn
    rcases hop with rfl | rfl
    · simp only [solveG, binAnd_t, ihl hm'.1 hn'.1, ihr hm'.2 hn'.2]
    · simp only [solveG, binOr_t, ihl hm'.1 hn'.1, ihr hm'.2 hn'.2]
  | cmp l op r h1 h2 hl hr =>
    cases op <;> first | exact absurd rfl h1 | exact absurd rfl h2 | simp only [solveG]

/-- What `optimise` without coalesce does to the condition and to every identifier body. -/
def optBody (E : RegexEngine) (s rw m : Bool) (b : Expr) : Expr :=
  (if m then matrixPass else id) ((if rw then rewrite E else id) ((if s then shake else id) b))

theorem optimiseTree_uncoalesced (E : RegexEngine) (s rw m : Bool) (ids : Ids) (e : Expr) :
    optimiseTree E ⟨false, s, rw, m⟩ ids e =
      (optBody E s rw m e, ids.map (fun (p : Str × Expr) => (p.1, optBody E s rw m p.2))) := by
  have pair : ∀ (g : Expr → Expr), (fun (x : Str × Expr) => match x with | (k, v) => (k, g v)) =
      (fun (p : Str × Expr) => (p.1, g p.2)) := by
    intro g; funext p; cases p; rfl
  cases s <;> cases rw <;> cases m <;>
    simp [optimiseTree, optBody, pair, List.map_map, Function.comp]

theorem ids_uncoalesced (E : RegexEngine) (s rw m : Bool) (ids : Ids) (i : Str) :
    lookupId (ids.map (fun (p : Str × Expr) => (p.1, optBody E s rw m p.2))) i =
      (lookupId ids i).map (optBody E s rw m) :=
  lookup_map ids (optBody E s rw m) i

/-- **Rule level, the switch combinations WITHOUT coalesce** (the condition and every identifier
    body are optimised one by one): the verdict is kept, for conditions that do not apply
    all()/of() to an identifier (those count the members of a body, which shake reshapes: the
    recorded match-reshape finding). -/
theorem optimise_verdict_uncoalesced (E : RegexEngine) (hL : StripLaw E) (ic : Bool) (src : RuleSrc) (r : Rule)
    (h : loadRule E ic src = .ok r) (hopt : r.optimised = false)
    (s rw m : Bool)
    (hm : matchIds r.det.expr = [])
    (hs : s = true →
      (shake0F (shakeFuel r.det.expr) r.det.expr).2 = false ∧
      ∀ i b, lookupId r.det.ids i = some b → xOK b = true ∧ (shake0F (shakeFuel b) b).2 = false)
    (hmx : m = true →
      noNeg r.det.expr = true ∧
      mOK ((if rw then rewrite E else id) ((if s then shake else id) r.det.expr)) = true ∧
      ∀ i b, lookupId r.det.ids i = some b →
        mOK ((if rw then rewrite E else id) ((if s then shake else id) b)) = true)
    (d : Doc) :
    (r.optimise E ⟨false, s, rw, m⟩).matches E d = r.matches E d := by
  have hdet : loadDetection E ic src.det = .ok r.det := by
    unfold loadRule at h
    split at h
    · cases h
    · cases h; assumption
  have hshape := (C03.loaded_condition_shape E ic src.det r.det hdet).1
  have hb : ∀ i b, lookupId r.det.ids i = some b → shakeOK b = true :=
    fun i b hl => loaded_bodies_shakeOK E ic src.det r.det hdet i b hl
  -- the exact part (shake, rewrite) of the pipeline, on any tree, under any continuation
  have exact : ∀ (K : IdentK) (x : Expr), shakeOK x = true →
      (s = true → xOK x = true ∧ (shake0F (shakeFuel x) x).2 = false) → ∀ d,
      solveG E K d ((if rw then rewrite E else id) ((if s then shake else id) x)) = solveG E K d x := by
    intro K x hok hx d
    have h1 : solveG E K d ((if s then shake else id) x) = solveG E K d x := by
      cases s with
      | false => rfl
      | true => obtain ⟨a, b⟩ := hx rfl; exact shake_exact E K x hok a b d
    cases rw with
    | false => exact h1
    | true => simp only [if_true]; rw [rewrite_sound E hL K d]; exact h1
  -- verdict of one pipeline run
  have verdict : ∀ (K : IdentK) (x : Expr), shakeOK x = true →
      (s = true → xOK x = true ∧ (shake0F (shakeFuel x) x).2 = false) →
      (m = true → mOK ((if rw then rewrite E else id) ((if s then shake else id) x)) = true) → ∀ d,
      (solveG E K d (optBody E s rw m x) = .t ↔ solveG E K d x = .t) := by
    intro K x hok hx hmo d
    rw [← exact K x hok hx d]
    unfold optBody
    cases m with
    | false => exact Iff.rfl
    | true => exact (matrix_good E K _ _ (hmo rfl)).1 d
  unfold Rule.matches Rule.optimise Rule.solve
  simp only [hopt, Bool.false_eq_true, if_false, optimiseTree_uncoalesced]
  apply isT_congr
  simp only [solveTop]
  -- identifier results: equal in truth
  have hid : ∀ i, (topK E (r.det.ids.map (fun (p : Str × Expr) => (p.1, optBody E s rw m p.2)))).ident i d = .t ↔
      (topK E r.det.ids).ident i d = .t := by
    intro i
    simp only [topK, ids_uncoalesced]
    cases hl : lookupId r.det.ids i with
    | none => simp
    | some b =>
      simp only [Option.map_some, solveClosed]
      exact verdict closedK b (hb i b hl) (fun hs' => (hs hs').2 i b hl) (fun hm' => (hmx hm').2.2 i b hl) d
  have hcond := verdict (topK E (r.det.ids.map (fun (p : Str × Expr) => (p.1, optBody E s rw m p.2))))
    r.det.expr (pshape_shakeOK _ hshape)
    (fun hs' => ⟨(pshape_xOK _ hshape).1, (hs hs').1⟩) (fun hm' => (hmx hm').2.1) d
  rw [hcond]
  cases m with
  | true =>
    exact pshape_congrK_truth E _ _ d _ hshape hm (hmx rfl).1 hid
  | false =>
    -- without matrix the identifier results are equal as three-valued results
    have hid' : ∀ i, (topK E (r.det.ids.map (fun (p : Str × Expr) => (p.1, optBody E s rw false p.2)))).ident i d =
        (topK E r.det.ids).ident i d := by
      intro i
      simp only [topK, ids_uncoalesced]
      cases hl : lookupId r.det.ids i with
      | none => simp
      | some b =>
        simp only [Option.map_some, solveClosed, optBody, Bool.false_eq_true, if_false, id]
        exact exact closedK b (hb i b hl) (fun hs' => (hs hs').2 i b hl) d
    rw [pshape_congrK E _ _ d _ hshape hm hid']

/-! ### Negation-free rules: nested mappings inside conjunctions too -/

/-- **shake_1 keeps every verdict** on the negation-free class `e2OK`, which — unlike `e1OK` — lets
    and-groups hold nested mappings: the pass merges those per field into one all()-block and moves
    it behind the other conjuncts, which can swap false and missing (`shake_and_reorder_unsound`)
    but never changes whether the conjunction is true. (Needs the repaired merge: a block that
    already is an all()-list contributes its members.) -/
theorem shake1_verdict (E : RegexEngine) (K : IdentK) (fuel : Nat) (e : Expr) (h : e2OK e = true) (d : Doc) :
    (solveG E K d (shake1 fuel e)).isT = (solveG E K d e).isT :=
  isT_congr _ _ ((shake1_goodT E K fuel e h).2.1 d)

theorem shake1_verdict_closed (fuel : Nat) (e : Expr) (h : e2OK e = true) : e2OK (shake1 fuel e) = true :=
  (shake1_goodT E0 closedK fuel e h).1

/-- Both halves of `shake`, verdict level. -/
theorem shake_verdict (E : RegexEngine) (K : IdentK) (e : Expr) (hok : shakeOK e = true)
    (hfl : (shake0F (shakeFuel e) e).2 = false) (h2 : e2OK (shake0 (shakeFuel e) e) = true) (d : Doc) :
    (solveG E K d (shake e)).isT = (solveG E K d e).isT := by
  unfold shake
  rw [shake1_verdict E K _ _ h2 d, shake0_exact E K _ e hok hfl d]

/-- **Rule level, every switch combination with coalesce, negation-free rules**: as
    `optimise_verdict`, with the shake side condition `xOK` (no nested mapping among the operands of
    an `and`) replaced by `e2OK` of the tree `shake_0` hands to `shake_1` — a mapping may mix nested
    mappings and plain keys. -/
theorem optimise_verdict_positive (E : RegexEngine) (hL : StripLaw E) (ic : Bool) (src : RuleSrc) (r : Rule)
    (h : loadRule E ic src = .ok r) (hopt : r.optimised = false)
    (shake' rewrite' matrix' : Bool)
    (hs : shake' = true →
      (∀ i ∈ matchIds r.det.expr, ∀ b, lookupId r.det.ids i = some b → matchChildOK b = true) ∧
      (shake0F (shakeFuel (coalesce r.det.ids r.det.expr)) (coalesce r.det.ids r.det.expr)).2 = false ∧
      e2OK (shake0 (shakeFuel (coalesce r.det.ids r.det.expr)) (coalesce r.det.ids r.det.expr)) = true)
    (hm : matrix' = true →
      mOK ((if rewrite' then rewrite E else id)
        ((if shake' then shake else id) (coalesce r.det.ids r.det.expr))) = true)
    (d : Doc) :
    (r.optimise E ⟨true, shake', rewrite', matrix'⟩).matches E d = r.matches E d := by
  have hdet : loadDetection E ic src.det = .ok r.det := by
    unfold loadRule at h
    split at h
    · cases h
    · cases h; assumption
  have hshape := (C03.loaded_condition_shape E ic src.det r.det hdet).1
  have hb : ∀ i b, lookupId r.det.ids i = some b → shakeOK b = true :=
    fun i b hl => loaded_bodies_shakeOK E ic src.det r.det hdet i b hl
  have h0 : solveG E closedK d (coalesce r.det.ids r.det.expr) = solveTop E r.det.ids d r.det.expr :=
    coalesce_sound E r.det.ids d r.det.expr hshape
  have h1 : (solveG E closedK d ((if shake' then shake else id) (coalesce r.det.ids r.det.expr))).isT =
      (solveTop E r.det.ids d r.det.expr).isT := by
    cases shake' with
    | false => simp only [Bool.false_eq_true, if_false, id]; rw [h0]
    | true =>
      obtain ⟨a, b, c⟩ := hs rfl
      simp only [if_true]
      rw [shake_verdict E closedK _ (coalesce_shakeOK r.det.ids r.det.expr hshape hb a) b c d, h0]
  have h2 : (solveG E closedK d ((if rewrite' then rewrite E else id)
      ((if shake' then shake else id) (coalesce r.det.ids r.det.expr)))).isT =
      (solveTop E r.det.ids d r.det.expr).isT := by
    cases rewrite' with
    | false => exact h1
    | true => simp only [if_true]; rw [rewrite_sound E hL closedK d]; exact h1
  unfold Rule.matches Rule.optimise Rule.solve
  simp only [hopt, Bool.false_eq_true, if_false, optimiseTree, if_true, List.map_nil]
  rw [← h2]
  cases matrix' with
  | false =>
    cases shake' <;> cases rewrite' <;> simp [solveTop, topK_nil]
  | true =>
    have := matrix_verdict E closedK _ (hm rfl) d
    cases shake' <;> cases rewrite' <;> simpa [solveTop, topK_nil] using this

/-- Not vacuous: a mapping that mixes two nested mappings on one field with a plain key is in the
    class, and shake_1 really merges the two blocks and moves them behind the plain conjunct. -/
example :
    let s (k : Str) (v : Str) : Expr := .search (.exact v) k false
    let e : Expr := .group .and [.nested ['f'] (s ['k'] ['a']), s ['g'] ['b'], .nested ['f'] (s ['j'] ['c'])]
    e2OK e = true ∧
      (match shake1 6 e with
       | .group .and [.search _ _ _, .nested _ (.match .all (.group .or ms))] => ms.length
       | _ => 0) = 2 := by
  decide

end Tau.C01
