import Tau.Optimiser
import Tau.Proofs.Solver
import Tau.Proofs.Rewrite
import Tau.Proofs.Pratt
import Tau.Rule
/-
  C01 — Optimisation never changes a verdict.

  Full statement (kept visible):  for every loaded rule `r`, mask `sw` and document `d`
      (r.optimise E sw).matches E d = r.matches E d.
  On the current code this is FALSE (known findings KF-C01-*, witnesses proved below), so what is
  proved is one soundness theorem per pass where the pass is sound, the negation by witness where
  it is not, and the algebra that says which merges are exact.
-/
namespace Tau.C01
open Tau

theorem coalesce_leaf (ids : Ids) (e : Expr) (h : e.isSolvable = false) : coalesce ids e = e := by
  cases e <;> simp [Expr.isSolvable] at h <;> simp [coalesce]

/-- **coalesce is exact**: evaluating the coalesced tree with no identifier environment gives the
    three-valued result of the original condition under the environment, for every document and
    every tree of the shape the condition parser builds (`PShape`, see `parse_shape`). -/
theorem coalesce_sound (E : RegexEngine) (ids : Ids) (d : Doc) (e : Expr) (h : PShape e) :
    solveClosed E d (coalesce ids e) = solveTop E ids d e := by
  induction h with
  | ident i =>
    cases hl : lookupId ids i with
    | none => simp [coalesce, hl, solveClosed, solveTop, solveG, topK, closedK]
    | some b => simp [coalesce, hl, solveTop, solveG, topK]
  | matchIdent k i =>
    cases hl : lookupId ids i with
    | none => cases k <;> simp [coalesce, hl, solveClosed, solveTop, solveG, topK, closedK]
    | some b => cases k <;> simp [coalesce, hl, solveTop, solveG, topK]
  | litFloat b => simp [coalesce, solveClosed, solveTop, solveG]
  | litInt i => simp [coalesce, solveClosed, solveTop, solveG]
  | litCast f m => simp [coalesce, solveClosed, solveTop, solveG]
  | negate _ _ ih =>
    simp only [coalesce, solveClosed, solveTop, solveG] at *
    rw [ih]
  | binBool op hop _ _ _ _ ihl ihr =>
    rcases hop with rfl | rfl <;>
    · simp only [coalesce, solveClosed, solveTop, solveG] at *
      rw [ihl, ihr]
  | cmp l op r h1 h2 hl hr =>
    rw [coalesce, coalesce_leaf ids l hl, coalesce_leaf ids r hr]
    cases op <;> simp_all [solveClosed, solveTop, solveG]

/-- For every token list the parser accepts: coalescing the parsed condition is exact. -/
theorem coalesce_sound_parsed (E : RegexEngine) (ids : Ids) (d : Doc) (ts : List Token) (e : Expr)
    (h : parse ts = .ok e) : solveClosed E d (coalesce ids e) = solveTop E ids d e :=
  coalesce_sound E ids d e (parse_shape ts e h)

/-- Rule level: optimising with the coalesce switch alone never changes the three-valued result,
    hence never the verdict, of a rule whose condition came out of the parser. -/
theorem optimise_coalesce_only (E : RegexEngine) (r : Rule) (d : Doc) (h : PShape r.det.expr)
    (hopt : r.optimised = false) :
    (r.optimise E ⟨true, false, false, false⟩).solve E d = r.solve E d := by
  unfold Rule.optimise Rule.solve
  simp only [hopt, Bool.false_eq_true, if_false, optimiseTree, if_true]
  have := coalesce_sound E r.det.ids d r.det.expr h
  simp only [solveClosed, solveTop] at this ⊢
  -- with no identifiers left the top-level continuation is the closed one
  have hk : topK E [] = closedK := by
    simp only [topK, closedK, lookupId]
  rw [hk]; exact this

end Tau.C01

namespace Tau.C01
open Tau

/-- A regex engine for closed witnesses (no regex is involved in them). -/
def E0 : RegexEngine := { compiles := fun _ _ => false, isMatch := fun _ _ _ => false }

/-! ### The full statement is false on the current code: witnesses (known findings) -/

/-- KF-C01-double-negation: `not not A` over a missing field is true; after `shake` it is missing. -/
theorem shake_double_negation_unsound :
    let a : Expr := .search (.exact ['x']) ['f'] false
    let e : Expr := .negate (.negate a)
    let d : Doc := .obj []
    solveClosed E0 d e = .t ∧ solveClosed E0 d (shake e) = .m := by
  decide

/-- KF-C01-and-reorder: shake moves the nested conjunct behind `c`; false and missing swap, and the
    negation turns that into a different verdict. -/
theorem shake_and_reorder_unsound :
    let a : Expr := .group .and
      [ .nested ['a'] (.bin (.field ['x']) .eq (.int 1)), .bin (.field ['c']) .eq (.int 1) ]
    let e : Expr := .negate a
    let d : Doc := .obj [(['c'], .uint 2)]
    solveClosed E0 d e = .f ∧ solveClosed E0 d (shake e) = .t := by
  decide

/-- KF-C01-match-reshape: `all(X)` counts the members of X's group; shake unwraps the one-member
    group around the automaton, and the count changes. -/
theorem shake_match_reshape_unsound :
    let x : Expr := .group .or [ .search (.ac [.startsWith ['a'], .endsWith ['b']] false) ['f'] false ]
    let ids : Ids := [(['X'], x)]
    let ids' : Ids := [(['X'], shake x)]
    let e : Expr := .match .all (.ident ['X'])
    let d : Doc := .obj [(['f'], .str ['a', 'x'])]
    solveTop E0 ids d e = .t ∧ solveTop E0 ids' d e = .f := by
  decide

/-! ### Algebra behind the passes: which merges are exact -/

/-- Merging or-operands in any order / grouping is exact. -/
theorem or_append (xs ys : List Tri) : Tri.or (xs ++ ys) = Tri.or [Tri.or xs, Tri.or ys] := by
  induction xs with
  | nil => cases h : Tri.or ys <;> simp [Tri.or_cons, h]
  | cons x xs ih =>
    rw [List.cons_append, Tri.or_cons, Tri.or_cons (x) xs, ih]
    cases x <;> cases Tri.or xs <;> cases Tri.or ys <;> rfl

/-- Flattening nested and-groups is exact (the and table is associative)… -/
theorem and_append (xs ys : List Tri) : Tri.and (xs ++ ys) = Tri.and [Tri.and xs, Tri.and ys] := by
  induction xs with
  | nil => cases h : Tri.and ys <;> simp [Tri.and_cons, h]
  | cons x xs ih =>
    rw [List.cons_append, Tri.and_cons, Tri.and_cons x xs]
    cases x <;> simp [ih, Tri.and_cons]

/-- …but it is not commutative between false and missing, and double negation is not the identity:
    exactly the two algebraic facts the failing passes rely on. -/
theorem and_not_commutative : Tri.and [.f, .m] ≠ Tri.and [.m, .f] := by decide
theorem not_not_missing : Tri.not (Tri.not .m) ≠ .m := by decide

/-- A one-member group is its member, for both connectives (shake_0's unwrapping is exact for
    evaluation; it is unsound only for what `all()/of()` count). -/
theorem single_group (E : RegexEngine) (K : IdentK) (d : Doc) (op : BoolSym) (e : Expr)
    (h : op = .and ∨ op = .or) :
    solveG E K d (.group op [e]) = solveG E K d e := by
  rcases h with rfl | rfl
  · simp [solveG, andG]; cases solveG E K d e <;> rfl
  · simp [solveG, orG]; cases solveG E K d e <;> rfl

/-- Flattening `(a and b) and c` into a group is exact. -/
theorem flatten_and (E : RegexEngine) (K : IdentK) (d : Doc) (x y z : Expr) :
    solveG E K d (.bin (.bin x .and y) .and z) = solveG E K d (.group .and [x, y, z]) := by
  simp [solveG, andG]
  cases solveG E K d x <;> cases solveG E K d y <;> cases solveG E K d z <;> rfl

theorem flatten_or (E : RegexEngine) (K : IdentK) (d : Doc) (x y z : Expr) :
    solveG E K d (.bin (.bin x .or y) .or z) = solveG E K d (.group .or [x, y, z]) := by
  simp [solveG, orG]
  cases solveG E K d x <;> cases solveG E K d y <;> cases solveG E K d z <;> rfl

end Tau.C01

namespace Tau.C01
open Tau

/-- **rewrite is exact** for every tree, every identifier continuation and every document, under
    the one assumption the engine itself makes about the regex crate (`StripLaw`: a stripped pattern
    that still compiles matches the same strings in an unanchored search). When the stripped
    pattern does not compile the repaired code keeps the original, which the model mirrors. -/
theorem rewrite_sound (E : RegexEngine) (hL : StripLaw E) (K : IdentK) (d : Doc) (e : Expr) :
    solveG E K d (rewrite E e) = solveG E K d e :=
  rewrite_sound_aux E hL K e.size e (Nat.le_refl _) d

/-- Verdict form, for rules optimised with the rewrite switch only (identifiers are rewritten one
    by one, the condition itself holds no search). -/
theorem rewrite_sound_closed (E : RegexEngine) (hL : StripLaw E) (d : Doc) (e : Expr) :
    solveClosed E d (rewrite E e) = solveClosed E d e := rewrite_sound E hL closedK d e

end Tau.C01
