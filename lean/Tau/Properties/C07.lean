import Tau.Mapping
import Tau.Solver
import Tau.Proofs.Batch
/-
  C07 — String predicates are exact for all strings, single or batched.
-/
set_option linter.unusedSimpArgs false
namespace Tau.C07
open Tau

/-! ### The documented relations -/

theorem isInfixOf_iff (n h : Str) : isInfixOf n h = true ↔ ∃ a b, h = a ++ n ++ b := by
  induction h with
  | nil =>
    simp only [isInfixOf, List.isEmpty_iff]
    constructor
    · rintro rfl; exact ⟨[], [], rfl⟩
    · rintro ⟨a, b, hab⟩
      have : a ++ n ++ b = [] := hab.symm
      simp at this; exact this.2.1
  | cons x t ih =>
    simp only [isInfixOf, Bool.or_eq_true, ih]
    constructor
    · rintro (hp | ⟨a, b, hab⟩)
      · obtain ⟨b, hb⟩ := List.isPrefixOf_iff_prefix.mp hp
        exact ⟨[], b, by simpa using hb.symm⟩
      · exact ⟨x :: a, b, by simp [hab]⟩
    · rintro ⟨a, b, hab⟩
      cases a with
      | nil =>
        left
        exact List.isPrefixOf_iff_prefix.mpr ⟨b, by simpa using hab.symm⟩
      | cons y a' =>
        right
        simp at hab
        exact ⟨a', b, by simpa using hab.2⟩

/-- Plain text: equality. -/
theorem search_exact (E : RegexEngine) (n h : Str) : searchStr E (.exact n) h = true ↔ n = h := by
  simp [searchStr]

/-- `x*`: prefix. -/
theorem search_starts (E : RegexEngine) (n h : Str) :
    searchStr E (.startsWith n) h = true ↔ ∃ t, h = n ++ t := by
  simp only [searchStr, List.isPrefixOf_iff_prefix]
  exact ⟨fun ⟨t, ht⟩ => ⟨t, ht.symm⟩, fun ⟨t, ht⟩ => ⟨t, ht.symm⟩⟩

/-- `*x`: suffix. -/
theorem search_ends (E : RegexEngine) (n h : Str) :
    searchStr E (.endsWith n) h = true ↔ ∃ t, h = t ++ n := by
  simp only [searchStr, List.isSuffixOf_iff_suffix]
  exact ⟨fun ⟨t, ht⟩ => ⟨t, ht.symm⟩, fun ⟨t, ht⟩ => ⟨t, ht.symm⟩⟩

/-- `*x*`: substring. -/
theorem search_contains (E : RegexEngine) (n h : Str) :
    searchStr E (.contains n) h = true ↔ ∃ a b, h = a ++ n ++ b := by
  simp [searchStr, isInfixOf_iff]

/-- `*`: any string. -/
theorem search_any (E : RegexEngine) (h : Str) : searchStr E .any h = true := rfl

/-- `?re`: unanchored regex search with the case flag, as answered by the regex engine. -/
theorem search_regex (E : RegexEngine) (p h : Str) (ci : Bool) :
    searchStr E (.regex p ci) h = E.isMatch p ci h := rfl

/-- The relation of one member of an automaton. -/
def RelMT (ci : Bool) (mt : MatchType) (h : Str) : Prop :=
  match mt with
  | .contains n => ∃ a b, foldCase ci h = a ++ foldCase ci n ++ b
  | .endsWith n => ∃ t, foldCase ci h = t ++ foldCase ci n
  | .exact n => foldCase ci n = foldCase ci h
  | .startsWith n => ∃ t, foldCase ci h = foldCase ci n ++ t

theorem relMT_iff (ci : Bool) (mt : MatchType) (h : Str) : relMT ci mt h = true ↔ RelMT ci mt h := by
  cases mt with
  | contains n => simp [relMT, RelMT, isInfixOf_iff]
  | endsWith n =>
    simp only [relMT, RelMT, List.isSuffixOf_iff_suffix]
    exact ⟨fun ⟨t, ht⟩ => ⟨t, ht.symm⟩, fun ⟨t, ht⟩ => ⟨t, ht.symm⟩⟩
  | exact n => simp [relMT, RelMT]
  | startsWith n =>
    simp only [relMT, RelMT, List.isPrefixOf_iff_prefix]
    exact ⟨fun ⟨t, ht⟩ => ⟨t, ht.symm⟩, fun ⟨t, ht⟩ => ⟨t, ht.symm⟩⟩

/-- A batched automaton matches exactly when at least one member would match on its own — for
    every list of members, of any kinds, in any order (the `i` flag folds ASCII case on both
    sides). -/
theorem search_ac_iff (E : RegexEngine) (ctx : List MatchType) (ci : Bool) (h : Str) :
    searchStr E (.ac ctx ci) h = true ↔ ∃ mt ∈ ctx, RelMT ci mt h := by
  simp only [searchStr, List.any_eq_true]
  constructor
  · rintro ⟨mt, hm, hr⟩; exact ⟨mt, hm, (relMT_iff ci mt h).mp hr⟩
  · rintro ⟨mt, hm, hr⟩; exact ⟨mt, hm, (relMT_iff ci mt h).mpr hr⟩

/-- A regex set matches exactly when one of its members matches. -/
theorem search_set_iff (E : RegexEngine) (ps : List Str) (ci : Bool) (h : Str) :
    searchStr E (.regexSet ps ci) h = true ↔ ∃ p ∈ ps, E.isMatch p ci h = true := by
  simp [searchStr, List.any_eq_true]

/-- Case folding is ASCII only: a non-ASCII letter is compared as written. -/
example : relMT true (.exact ['Ä']) ['Ä'] = true ∧ relMT true (.exact ['Ä']) ['ä'] = false ∧
    relMT true (.exact ['a', 'b']) ['A', 'B'] = true := by decide

/-! ### From the pattern text to the relation -/

/-- Surrounding quotes make the text literal. -/
example (E : RegexEngine) :
    intoIdentifier E false "'a*'".toList = .ok ⟨false, .exact "a*".toList⟩ ∧
    intoIdentifier E false "\"?x\"".toList = .ok ⟨false, .exact "?x".toList⟩ := by
  constructor <;> rfl

theorem getLast?_cons_snoc {α} (c : α) (cs : List α) (x : α) : (c :: (cs ++ [x])).getLast? = some x := by
  rw [← List.cons_append, List.getLast?_append]; rfl

/-- Shapes of the literal patterns (default build, no `i`): `x*`, `*x`, `*x*`, `*`, plain. -/
theorem literal_shapes (w : Str) (hw : ∀ c ∈ w, c ≠ '*' ∧ c ≠ '"' ∧ c ≠ '\'') (hne : w ≠ []) :
    literalPattern false (w ++ ['*']) = .startsWith w ∧
    literalPattern false ('*' :: w) = .endsWith w ∧
    literalPattern false ('*' :: (w ++ ['*'])) = .contains w ∧
    literalPattern false ['*'] = .any ∧
    literalPattern false w = .exact w := by
  obtain ⟨c, cs, rfl⟩ := List.exists_cons_of_ne_nil hne
  have hc := hw c (by simp)
  have hlast : ∀ x, (c :: cs).getLast? = some x → x ≠ '*' ∧ x ≠ '"' ∧ x ≠ '\'' := by
    intro x hx
    exact hw x (List.mem_of_getLast? hx)
  have hl : ∀ q, (q = '*' ∨ q = '"' ∨ q = '\'') → lastIs (c :: cs) q = false := by
    intro q hq
    simp only [lastIs]
    cases hg : (c :: cs).getLast? with
    | none => rfl
    | some x =>
      have := hlast x hg
      rcases hq with rfl | rfl | rfl <;> simp [this]
  have hl1 := hl '*' (Or.inl rfl)
  have hl2 := hl '"' (Or.inr (Or.inl rfl))
  have hl3 := hl '\'' (Or.inr (Or.inr rfl))
  have hstar : lastIs (c :: (cs ++ ['*'])) '*' = true := by simp [lastIs, getLast?_cons_snoc]
  have hstar2 : lastIs ('*' :: c :: (cs ++ ['*'])) '*' = true := by
    simp [lastIs, List.getLast?_cons_cons, getLast?_cons_snoc]
  have hl1' : lastIs ('*' :: c :: cs) '*' = false := by
    simpa [lastIs, List.getLast?_cons_cons] using hl1
  have hdrop : dropLast (c :: (cs ++ ['*'])) = c :: cs := by
    simp [dropLast]
  have hdrop2 : dropLast (c :: (cs ++ ['*'])) = c :: cs := hdrop
  refine ⟨?_, ?_, ?_, by rfl, ?_⟩
  · simp only [List.cons_append]
    simp [literalPattern, hstar, hc.1, foldIf, hdrop]
  · simp [literalPattern, hl1', foldIf]
  · simp only [List.cons_append]
    simp [literalPattern, hstar2, foldIf, hdrop2]
  · simp [literalPattern, hc.1, hc.2.1, hc.2.2, hl1, hl2, hl3, foldIf]

end Tau.C07

namespace Tau.C07
open Tau

/-! ### Batching is invisible (second sentence of the property) -/

/-- A case-sensitive automaton, at the level of the three-valued solver (missing field, scalar,
    array, wrong kind): the `or` of its members as single searches. -/
theorem automaton_is_or_of_members (E : RegexEngine) (d : Doc) (ctx : List MatchType) (hne : ctx ≠ [])
    (f : Str) (c : Bool) :
    solveSearch E d (.ac ctx false) f c =
      Tri.or (ctx.map (fun mt => solveSearch E d (searchOfMatchType mt) f c)) := ac_or E d ctx hne f c

theorem iautomaton_is_or_of_members (E : RegexEngine) (d : Doc) (ctx : List MatchType) (hne : ctx ≠ [])
    (f : Str) (c : Bool) :
    solveSearch E d (.ac ctx true) f c =
      Tri.or (ctx.map (fun mt => solveSearch E d (.ac [mt] true) f c)) := iac_or E d ctx hne f c

theorem regex_set_is_or_of_members (E : RegexEngine) (d : Doc) (ps : List Str) (ci : Bool) (hne : ps ≠ [])
    (f : Str) (c : Bool) :
    solveSearch E d (.regexSet ps ci) f c =
      Tri.or (ps.map (fun p => solveSearch E d (.regex p ci) f c)) := set_or E d ps ci hne f c

/-- However the sequence branch of `parse_mapping` batches what the member loop collected
    (automaton per case flag, regex set per case flag, lone members unbatched), the resulting group
    has the value of the members evaluated one by one. -/
theorem batching_invisible (E : RegexEngine) (K : IdentK) (d : Doc) (st : SeqSt) (hwf : st.WF) (f : Str) :
    V E K d (batchMembers st f).1 = V E K d (unbatched st f) := batch_or E K d st hwf f

theorem shapeGroup_plain_value (E : RegexEngine) (K : IdentK) (d : Doc) (f : Str) (g : Expr) (gs : List Expr)
    (m : Bool) : solveG E K d (shapeGroup (.field f) g gs m) = V E K d (g :: gs) := by
  unfold shapeGroup V
  simp only []
  split
  · rename_i h
    have : gs = [] := by
      cases gs with
      | nil => rfl
      | cons _ _ => simp at h
    subst this
    simp only [List.map_cons, List.map_nil]
    cases solveG E K d g <;> rfl
  · simp only [solveG, orG_eq, listG_eq_map]

/-- **A list of patterns on one field matches exactly when at least one member would match on
    its own** — as a three-valued result, for every list (strings of every pattern kind and case
    flag, numbers, booleans, null, nested mappings), every document and field value: the value of
    `f: [v1, .., vn]` is the `or` of the values of `f: [vi]`. -/
theorem list_is_or_of_members (E : RegexEngine) (ic : Bool) (f : Str) (s : List Yaml) (x : Expr)
    (h : parseVal E ic (.field f) f none (.seq s) = .ok x) (K : IdentK) (d : Doc) :
    solveG E K d x =
      Tri.or (s.map (fun v => V E K d (memberAlone E ic f none (.field f) v))) := by
  simp only [parseVal] at h
  split at h
  · cases h
  · rename_i st hst
    have hwf : st.WF := parseMembers_wf E ic f none (.field f) s _ st hst (wf_empty _)
    unfold shapeSeq at h
    split at h
    · cases h
    · split at h
      · cases h
      · rename_i g gs hg
        cases h
        have hv : solveG E K d (wrapNot none (shapeGroup (.field f) g gs (batchMembers st f).2)) =
            V E K d (g :: gs) := by
          simp only [wrapNot]
          exact shapeGroup_plain_value E K d f g gs _
        rw [hv, ← hg, batch_or E K d st hwf f]
        exact members_or E K d ic f none (.field f) s st hst

/-- … and `f: [v]` is what `f: v` means: a member taken alone is the entry the scalar branch of
    `parse_mapping` builds for it. -/
theorem member_alone_is_entry (E : RegexEngine) (ic : Bool) (f : Str) (v : Yaml) (y : Expr)
    (hv : v.isSeq = false) (h : parseVal E ic (.field f) f none v = .ok y) :
    memberAlone E ic f none (.field f) v = [y] := by
  cases v with
  | seq xs => simp [Yaml.isSeq] at hv
  | tagged => simp [parseVal] at h
  | null => simp [parseVal, wrapNot] at h; subst h; rfl
  | bool b => simp [parseVal, wrapNot] at h; subst h; rfl
  | num n =>
    cases n <;> simp [parseVal, wrapNot] at h <;> subst h <;> rfl
  | map m =>
    simp only [parseVal] at h
    simp only [memberAlone, memberDelta]
    split at h
    · cases h
    · rename_i hm
      simp only [hm, Bool.false_eq_true, if_false]
      cases hfm : finishMapping (parseEntries E ic m) with
      | error e => rw [hfm] at h; cases h
      | ok z => rw [hfm] at h; simp [wrapNot] at h; subst h; rfl
  | str s =>
    simp only [parseVal] at h
    simp only [memberAlone, memberDelta]
    cases hid : intoIdentifier E ic s with
    | error e => rw [hid] at h; cases h
    | ok ident =>
      rw [hid] at h
      simp only [castCheck] at h ⊢
      cases hp : ident.pat <;> simp only [hp, numExpr, searchOfPattern, wrapNot] at h ⊢ <;>
        (try cases h) <;> simp [unbatched, unbatchOne, hp, searchOfPattern]

end Tau.C07
