import Tau.Mapping
import Tau.Solver
/-
  C07 — String predicates are exact for all strings, single or batched.
-/
set_option linter.unusedSimpArgs false
namespace Tau.C07
open Tau

/-! ### The documented relations -/

theorem isInfixOf_iff (n h : Str) : isInfixOf n h = true ↔ ∃ a b, h = a ++ n ++ b := by
  induction h with
  | nil =>
    simp only [isInfixOf, List.isEmpty_iff]
    constructor
    · rintro rfl; exact ⟨[], [], rfl⟩
    · rintro ⟨a, b, hab⟩
      have : a ++ n ++ b = [] := hab.symm
      simp at this; exact this.2.1
  | cons x t ih =>
    simp only [isInfixOf, Bool.or_eq_true, ih]
    constructor
    · rintro (hp | ⟨a, b, hab⟩)
      · obtain ⟨b, hb⟩ := List.isPrefixOf_iff_prefix.mp hp
        exact ⟨[], b, by simpa using hb.symm⟩
      · exact ⟨x :: a, b, by simp [hab]⟩
    · rintro ⟨a, b, hab⟩
      cases a with
      | nil =>
        left
        exact List.isPrefixOf_iff_prefix.mpr ⟨b, by simpa using hab.symm⟩
      | cons y a' =>
        right
        simp at hab
        exact ⟨a', b, by simpa using hab.2⟩

/-- Plain text: equality. -/
theorem search_exact (E : RegexEngine) (n h : Str) : searchStr E (.exact n) h = true ↔ n = h := by
  simp [searchStr]

/-- `x*`: prefix. -/
theorem search_starts (E : RegexEngine) (n h : Str) :
    searchStr E (.startsWith n) h = true ↔ ∃ t, h = n ++ t := by
  simp only [searchStr, List.isPrefixOf_iff_prefix]
  exact ⟨fun ⟨t, ht⟩ => ⟨t, ht.symm⟩, fun ⟨t, ht⟩ => ⟨t, ht.symm⟩⟩

/-- `*x`: suffix. -/
theorem search_ends (E : RegexEngine) (n h : Str) :
    searchStr E (.endsWith n) h = true ↔ ∃ t, h = t ++ n := by
  simp only [searchStr, List.isSuffixOf_iff_suffix]
  exact ⟨fun ⟨t, ht⟩ => ⟨t, ht.symm⟩, fun ⟨t, ht⟩ => ⟨t, ht.symm⟩⟩

/-- `*x*`: substring. -/
theorem search_contains (E : RegexEngine) (n h : Str) :
    searchStr E (.contains n) h = true ↔ ∃ a b, h = a ++ n ++ b := by
  simp [searchStr, isInfixOf_iff]

/-- `*`: any string. -/
theorem search_any (E : RegexEngine) (h : Str) : searchStr E .any h = true := rfl

/-- `?re`: unanchored regex search with the case flag, as answered by the regex engine. -/
theorem search_regex (E : RegexEngine) (p h : Str) (ci : Bool) :
    searchStr E (.regex p ci) h = E.isMatch p ci h := rfl

/-- The relation of one member of an automaton. -/
def RelMT (ci : Bool) (mt : MatchType) (h : Str) : Prop :=
  match mt with
  | .contains n => ∃ a b, foldCase ci h = a ++ foldCase ci n ++ b
  | .endsWith n => ∃ t, foldCase ci h = t ++ foldCase ci n
  | .exact n => foldCase ci n = foldCase ci h
  | .startsWith n => ∃ t, foldCase ci h = foldCase ci n ++ t

theorem relMT_iff (ci : Bool) (mt : MatchType) (h : Str) : relMT ci mt h = true ↔ RelMT ci mt h := by
  cases mt with
  | contains n => simp [relMT, RelMT, isInfixOf_iff]
  | endsWith n =>
    simp only [relMT, RelMT, List.isSuffixOf_iff_suffix]
    exact ⟨fun ⟨t, ht⟩ => ⟨t, ht.symm⟩, fun ⟨t, ht⟩ => ⟨t, ht.symm⟩⟩
  | exact n => simp [relMT, RelMT]
  | startsWith n =>
    simp only [relMT, RelMT, List.isPrefixOf_iff_prefix]
    exact ⟨fun ⟨t, ht⟩ => ⟨t, ht.symm⟩, fun ⟨t, ht⟩ => ⟨t, ht.symm⟩⟩

/-- A batched automaton matches exactly when at least one member would match on its own — for
    every list of members, of any kinds, in any order (the `i` flag folds ASCII case on both
    sides). -/
theorem search_ac_iff (E : RegexEngine) (ctx : List MatchType) (ci : Bool) (h : Str) :
    searchStr E (.ac ctx ci) h = true ↔ ∃ mt ∈ ctx, RelMT ci mt h := by
  simp only [searchStr, List.any_eq_true]
  constructor
  · rintro ⟨mt, hm, hr⟩; exact ⟨mt, hm, (relMT_iff ci mt h).mp hr⟩
  · rintro ⟨mt, hm, hr⟩; exact ⟨mt, hm, (relMT_iff ci mt h).mpr hr⟩

/-- A regex set matches exactly when one of its members matches. -/
theorem search_set_iff (E : RegexEngine) (ps : List Str) (ci : Bool) (h : Str) :
    searchStr E (.regexSet ps ci) h = true ↔ ∃ p ∈ ps, E.isMatch p ci h = true := by
  simp [searchStr, List.any_eq_true]

/-- Case folding is ASCII only: a non-ASCII letter is compared as written. -/
example : relMT true (.exact ['Ä']) ['Ä'] = true ∧ relMT true (.exact ['Ä']) ['ä'] = false ∧
    relMT true (.exact ['a', 'b']) ['A', 'B'] = true := by decide

/-! ### From the pattern text to the relation -/

/-- Surrounding quotes make the text literal. -/
example (E : RegexEngine) :
    intoIdentifier E false "'a*'".toList = .ok ⟨false, .exact "a*".toList⟩ ∧
    intoIdentifier E false "\"?x\"".toList = .ok ⟨false, .exact "?x".toList⟩ := by
  constructor <;> rfl

theorem getLast?_cons_snoc {α} (c : α) (cs : List α) (x : α) : (c :: (cs ++ [x])).getLast? = some x := by
  rw [← List.cons_append, List.getLast?_append]; rfl

/-- Shapes of the literal patterns (default build, no `i`): `x*`, `*x`, `*x*`, `*`, plain. -/
theorem literal_shapes (w : Str) (hw : ∀ c ∈ w, c ≠ '*' ∧ c ≠ '"' ∧ c ≠ '\'') (hne : w ≠ []) :
    literalPattern false (w ++ ['*']) = .startsWith w ∧
    literalPattern false ('*' :: w) = .endsWith w ∧
    literalPattern false ('*' :: (w ++ ['*'])) = .contains w ∧
    literalPattern false ['*'] = .any ∧
    literalPattern false w = .exact w := by
  obtain ⟨c, cs, rfl⟩ := List.exists_cons_of_ne_nil hne
  have hc := hw c (by simp)
  have hlast : ∀ x, (c :: cs).getLast? = some x → x ≠ '*' ∧ x ≠ '"' ∧ x ≠ '\'' := by
    intro x hx
    exact hw x (List.mem_of_getLast? hx)
  have hl : ∀ q, (q = '*' ∨ q = '"' ∨ q = '\'') → lastIs (c :: cs) q = false := by
    intro q hq
    simp only [lastIs]
    cases hg : (c :: cs).getLast? with
    | none => rfl
    | some x =>
      have := hlast x hg
      rcases hq with rfl | rfl | rfl <;> simp [this]
  have hl1 := hl '*' (Or.inl rfl)
  have hl2 := hl '"' (Or.inr (Or.inl rfl))
  have hl3 := hl '\'' (Or.inr (Or.inr rfl))
  have hstar : lastIs (c :: (cs ++ ['*'])) '*' = true := by simp [lastIs, getLast?_cons_snoc]
  have hstar2 : lastIs ('*' :: c :: (cs ++ ['*'])) '*' = true := by
    simp [lastIs, List.getLast?_cons_cons, getLast?_cons_snoc]
  have hl1' : lastIs ('*' :: c :: cs) '*' = false := by
    simpa [lastIs, List.getLast?_cons_cons] using hl1
  have hdrop : dropLast (c :: (cs ++ ['*'])) = c :: cs := by
    simp [dropLast]
  have hdrop2 : dropLast (c :: (cs ++ ['*'])) = c :: cs := hdrop
  refine ⟨?_, ?_, ?_, by rfl, ?_⟩
  · simp only [List.cons_append]
    simp [literalPattern, hstar, hc.1, foldIf, hdrop]
  · simp [literalPattern, hl1', foldIf]
  · simp only [List.cons_append]
    simp [literalPattern, hstar2, foldIf, hdrop2]
  · simp [literalPattern, hc.1, hc.2.1, hc.2.2, hl1, hl2, hl3, foldIf]

end Tau.C07
