import Tau.Properties.C06
import Tau.Mapping
/-
  C08 — List quantifiers count the members the author wrote.

  Full statement: for a key with a member list `ms`, `all(k)` = Tri.and, `of(k,n)` = Tri.ofN n and
  the plain list = Tri.or of the members' own results, whatever the members are and however they
  are batched. On the current code this holds when every member stays a separate node of the group
  (theorems below, via C06) and FAILS when same-kind string members are batched into one automaton
  next to other members (KF-C08-batched-member; witness proved below).
-/
set_option linter.unusedSimpArgs false
namespace Tau.C08
open Tau

/-- When each written member is its own node `es[i]`, `all(k)` is the conjunction of the members… -/
theorem all_counts_members (E : RegexEngine) (K : IdentK) (d : Doc) (es : List Expr) :
    solveG E K d (.match .all (.group .or es)) = Tri.and (es.map (solveG E K d)) :=
  C06.solve_all_group E K d .or es

/-- …`of(k, n)` counts them… -/
theorem of_counts_members (E : RegexEngine) (K : IdentK) (d : Doc) (n : Nat) (es : List Expr) :
    solveG E K d (.match (.of n) (.group .or es)) = Tri.ofN n (es.map (solveG E K d)) :=
  C06.solve_of_group E K d n .or es

/-- …and a plain list is their disjunction. -/
theorem list_is_or (E : RegexEngine) (K : IdentK) (d : Doc) (es : List Expr) :
    solveG E K d (.group .or es) = Tri.or (es.map (solveG E K d)) :=
  C06.solve_group_or E K d es

/-- A list that batches into ONE automaton is counted per needle: `all` needs every needle,
    `of(n)` at least `n` distinct needles (string-valued field). -/
theorem all_single_automaton (E : RegexEngine) (K : IdentK) (d : Doc) (ctx : List MatchType) (ci : Bool)
    (f : Str) (c : Bool) (h : Str) (hf : d.find f = some (.str h)) :
    solveG E K d (.match .all (.search (.ac ctx ci) f c)) = Tri.ofBool (ctx.all (relMT ci · h)) := by
  simp only [solveG, allAc, hf, onFieldValue, triOfOpt, slowAho]
  have : (ctx.countP (relMT ci · h) == ctx.length) = ctx.all (relMT ci · h) := by
    induction ctx with
    | nil => rfl
    | cons x xs ih =>
      by_cases hx : relMT ci x h = true
      · simp [List.countP_cons, hx, ← ih]
      · have hx' : relMT ci x h = false := by simpa using hx
        have hle := List.countP_le_length (p := (relMT ci · h)) (l := xs)
        simp [List.countP_cons, hx']
        omega
  rw [this]
  cases ctx.all (relMT ci · h) <;> rfl

theorem of_single_automaton (E : RegexEngine) (K : IdentK) (d : Doc) (n : Nat) (hn : 0 < n)
    (ctx : List MatchType) (ci : Bool) (f : Str) (c : Bool) (h : Str) (hf : d.find f = some (.str h)) :
    solveG E K d (.match (.of n) (.search (.ac ctx ci) f c)) = Tri.ofBool (decide (n ≤ ctx.countP (relMT ci · h))) := by
  have : n ≠ 0 := by omega
  simp only [solveG, ofAc, this, if_false, hf, onFieldValue, triOfOpt, slowAho]
  by_cases hle : n ≤ ctx.countP (relMT ci · h) <;> simp [hle, Tri.ofBool]

/-- A one-member list under `of(k, n)` keeps its count (repaired): a single member can satisfy a
    count of at most one, and `of(k, 0)` inverts it. -/
theorem of_single_member (r : Tri) :
    ofSingle 0 r = (match r with | .t => .f | .f => .t | .m => .m) ∧
    ofSingle 1 r = r ∧
    (∀ n, 2 ≤ n → ofSingle n r = (match r with | .t => .m | x => x)) := by
  refine ⟨by cases r <;> rfl, by cases r <;> rfl, ?_⟩
  intro n hn
  have h0 : n ≠ 0 := by omega
  have h1 : n > 1 := by omega
  cases r <;> simp [ofSingle, h0, h1]

/-- KF-C08-batched-member, proved on the model: `all(f): [a*, *b, i*C]` parses into a group whose
    first node is the automaton `[a*, *b]`; on `f: ac` the member `*b` does not match, yet `all`
    is true because the automaton is evaluated as one disjunctive member. -/
theorem batched_member_counted_once :
    let e : Expr := .match .all (.group .or
      [ .search (.ac [.startsWith ['a'], .endsWith ['b']] false) ['f'] false,
        .search (.ac [.endsWith ['c']] true) ['f'] false ])
    let d : Doc := .obj [(['f'], .str ['a', 'c'])]
    solveClosed ⟨fun _ _ => false, fun _ _ _ => false⟩ d e = .t ∧
    relMT false (.endsWith ['b']) ['a', 'c'] = false := by
  decide

/-- The array variant of the same finding: over an array-valued field the lone automaton of
    `all(f): ['*ab*', '*cd*']` needs ONE element containing both needles, while each member on its
    own matches some element (so the members written out as `A and B` are true). -/
theorem batched_all_is_per_element :
    let E0 : RegexEngine := ⟨fun _ _ => false, fun _ _ _ => false⟩
    let e : Expr := .match .all (.search (.ac [.contains ['a', 'b'], .contains ['c', 'd']] false) ['f'] false)
    let m1 : Expr := .search (.contains ['a', 'b']) ['f'] false
    let m2 : Expr := .search (.contains ['c', 'd']) ['f'] false
    let d : Doc := .obj [(['f'], .arr [.str ['a', 'b'], .str ['c', 'd']])]
    solveClosed E0 d e = .f ∧ solveClosed E0 d m1 = .t ∧ solveClosed E0 d m2 = .t := by
  decide

end Tau.C08
