import Tau.Properties.C06
import Tau.Mapping
import Tau.Proofs.Batch
/-
  C08 — List quantifiers count the members the author wrote.

  Full statement: for a key with a member list `ms`, `all(k)` = Tri.and, `of(k,n)` = Tri.ofN n and
  the plain list = Tri.or of the members' own results, whatever the members are and however they
  are batched. On the current code this holds when every member stays a separate node of the group
  (theorems below, via C06) and FAILS when same-kind string members are batched into one automaton
  next to other members (KF-C08-batched-member; witness proved below).
-/
set_option linter.unusedSimpArgs false
namespace Tau.C08
open Tau

/-- When each written member is its own node `es[i]`, `all(k)` is the conjunction of the members… -/
theorem all_counts_members (E : RegexEngine) (K : IdentK) (d : Doc) (es : List Expr) :
    solveG E K d (.match .all (.group .or es)) = Tri.and (es.map (solveG E K d)) :=
  C06.solve_all_group E K d .or es

/-- …`of(k, n)` counts them… -/
theorem of_counts_members (E : RegexEngine) (K : IdentK) (d : Doc) (n : Nat) (es : List Expr) :
    solveG E K d (.match (.of n) (.group .or es)) = Tri.ofN n (es.map (solveG E K d)) :=
  C06.solve_of_group E K d n .or es

/-- …and a plain list is their disjunction. -/
theorem list_is_or (E : RegexEngine) (K : IdentK) (d : Doc) (es : List Expr) :
    solveG E K d (.group .or es) = Tri.or (es.map (solveG E K d)) :=
  C06.solve_group_or E K d es

/-- A list that batches into ONE automaton is counted per needle: `all` needs every needle,
    `of(n)` at least `n` distinct needles (string-valued field). -/
theorem all_single_automaton (E : RegexEngine) (K : IdentK) (d : Doc) (ctx : List MatchType) (ci : Bool)
    (f : Str) (c : Bool) (h : Str) (hf : d.find f = some (.str h)) :
    solveG E K d (.match .all (.search (.ac ctx ci) f c)) = Tri.ofBool (ctx.all (relMT ci · h)) := by
  simp only [solveG, allAc, hf, onFieldValue, triOfOpt, slowAho]
  have : (ctx.countP (relMT ci · h) == ctx.length) = ctx.all (relMT ci · h) := by
    induction ctx with
    | nil => rfl
    | cons x xs ih =>
      by_cases hx : relMT ci x h = true
      · simp [List.countP_cons, hx, ← ih]
      · have hx' : relMT ci x h = false := by simpa using hx
        have hle := List.countP_le_length (p := (relMT ci · h)) (l := xs)
        simp [List.countP_cons, hx']
        omega
  rw [this]
  cases ctx.all (relMT ci · h) <;> rfl

theorem of_single_automaton (E : RegexEngine) (K : IdentK) (d : Doc) (n : Nat) (hn : 0 < n)
    (ctx : List MatchType) (ci : Bool) (f : Str) (c : Bool) (h : Str) (hf : d.find f = some (.str h)) :
    solveG E K d (.match (.of n) (.search (.ac ctx ci) f c)) = Tri.ofBool (decide (n ≤ ctx.countP (relMT ci · h))) := by
  have : n ≠ 0 := by omega
  simp only [solveG, ofAc, this, if_false, hf, onFieldValue, triOfOpt, slowAho]
  by_cases hle : n ≤ ctx.countP (relMT ci · h) <;> simp [hle, Tri.ofBool]

/-- A one-member list under `of(k, n)` keeps its count (repaired): a single member can satisfy a
    count of at most one, and `of(k, 0)` inverts it. -/
theorem of_single_member (r : Tri) :
    ofSingle 0 r = (match r with | .t => .f | .f => .t | .m => .m) ∧
    ofSingle 1 r = r ∧
    (∀ n, 2 ≤ n → ofSingle n r = (match r with | .t => .m | x => x)) := by
  refine ⟨by cases r <;> rfl, by cases r <;> rfl, ?_⟩
  intro n hn
  have h0 : n ≠ 0 := by omega
  have h1 : n > 1 := by omega
  cases r <;> simp [ofSingle, h0, h1]

/-- KF-C08-batched-member, proved on the model: `all(f): [a*, *b, i*C]` parses into a group whose
    first node is the automaton `[a*, *b]`; on `f: ac` the member `*b` does not match, yet `all`
    is true because the automaton is evaluated as one disjunctive member. -/
theorem batched_member_counted_once :
    let e : Expr := .match .all (.group .or
      [ .search (.ac [.startsWith ['a'], .endsWith ['b']] false) ['f'] false,
        .search (.ac [.endsWith ['c']] true) ['f'] false ])
    let d : Doc := .obj [(['f'], .str ['a', 'c'])]
    solveClosed ⟨fun _ _ => false, fun _ _ _ => false⟩ d e = .t ∧
    relMT false (.endsWith ['b']) ['a', 'c'] = false := by
  decide

/-- The array variant of the same finding: over an array-valued field the lone automaton of
    `all(f): ['*ab*', '*cd*']` needs ONE element containing both needles, while each member on its
    own matches some element (so the members written out as `A and B` are true). -/
theorem batched_all_is_per_element :
    let E0 : RegexEngine := ⟨fun _ _ => false, fun _ _ _ => false⟩
    let e : Expr := .match .all (.search (.ac [.contains ['a', 'b'], .contains ['c', 'd']] false) ['f'] false)
    let m1 : Expr := .search (.contains ['a', 'b']) ['f'] false
    let m2 : Expr := .search (.contains ['c', 'd']) ['f'] false
    let d : Doc := .obj [(['f'], .arr [.str ['a', 'b'], .str ['c', 'd']])]
    solveClosed E0 d e = .f ∧ solveClosed E0 d m1 = .t ∧ solveClosed E0 d m2 = .t := by
  decide

end Tau.C08

namespace Tau.C08
open Tau

/-! ### When nothing is batched, the quantifiers count exactly the members as written -/

theorem litBlock_unbatched (L : List Ident) (f : Str) (c : Bool)
    (hci : ∀ i ∈ L, i.ci = false) (hk : ∀ i ∈ L, ∃ mt, matchTypeOf i.pat = some mt)
    (hm : (litBlock (L.filterMap (fun i => matchTypeOf i.pat)) f c).2 = false) :
    (litBlock (L.filterMap (fun i => matchTypeOf i.pat)) f c).1 = L.filterMap (unbatchOne f c) := by
  have hmt : ∀ i ∈ L, ∃ mt, matchTypeOf i.pat = some mt ∧
      unbatchOne f c i = some (Expr.search (searchOfMatchType mt) f c) := by
    intro i hi
    obtain ⟨mt, h⟩ := hk i hi
    exact ⟨mt, h, by simp [unbatchOne, hci i hi, searchOfPattern_lit_false _ _ h]⟩
  have hR : L.filterMap (unbatchOne f c) =
      (L.filterMap (fun i => matchTypeOf i.pat)).map (fun mt => Expr.search (searchOfMatchType mt) f c) := by
    clear hci hk hm
    induction L with
    | nil => rfl
    | cons x xs ih =>
      obtain ⟨mt, h1, h2⟩ := hmt x (by simp)
      rw [List.filterMap_cons, h2, List.filterMap_cons, h1, List.map_cons,
        ih (fun i hi => hmt i (by simp [hi]))]
  rw [hR]
  generalize L.filterMap (fun i => matchTypeOf i.pat) = ctx at hm ⊢
  match ctx, hm with
  | [], _ => rfl
  | [m], _ => rfl
  | _ :: _ :: _, hm => simp [litBlock] at hm

theorem ilitBlock_unbatched (L : List Ident) (f : Str) (c : Bool)
    (hk : ∀ i ∈ L, ∃ mt, matchTypeOf i.pat = some mt)
    (hm : (ilitBlock (L.filterMap (fun i => matchTypeOf i.pat)) f c).2 = false) :
    L = [] ∧ (ilitBlock (L.filterMap (fun i => matchTypeOf i.pat)) f c).1 = [] := by
  cases L with
  | nil => exact ⟨rfl, rfl⟩
  | cons x xs =>
    obtain ⟨mt, h⟩ := hk x (by simp)
    simp [ilitBlock, List.filterMap_cons, h] at hm

theorem rxBlock_unbatched (L : List Ident) (ci : Bool) (f : Str) (c : Bool)
    (hci : ∀ i ∈ L, i.ci = ci) (hk : ∀ i ∈ L, ∃ p, i.pat = .regex p)
    (hm : (rxBlock (L.filterMap regexText) ci f c).2 = false) :
    (rxBlock (L.filterMap regexText) ci f c).1 = L.filterMap (unbatchOne f c) := by
  have hmt : ∀ i ∈ L, ∃ p, regexText i = some p ∧
      unbatchOne f c i = some (Expr.search (.regex p ci) f c) := by
    intro i hi
    obtain ⟨p, h⟩ := hk i hi
    refine ⟨p, ?_, ?_⟩
    · obtain ⟨ci', pat⟩ := i; simp only at h; subst h; rfl
    · simp [unbatchOne, hci i hi, h, searchOfPattern]
  have hR : L.filterMap (unbatchOne f c) =
      (L.filterMap regexText).map (fun p => Expr.search (.regex p ci) f c) := by
    clear hci hk hm
    induction L with
    | nil => rfl
    | cons x xs ih =>
      obtain ⟨p, h1, h2⟩ := hmt x (by simp)
      rw [List.filterMap_cons, h2, List.filterMap_cons, h1, List.map_cons,
        ih (fun i hi => hmt i (by simp [hi]))]
  rw [hR]
  generalize L.filterMap regexText = rs at hm ⊢
  match rs, hm with
  | [], _ => rfl
  | [r], _ => rfl
  | _ :: _ :: _, hm => simp [rxBlock] at hm


/-- With no batch of two or more, the group is the written members, up to order. -/
theorem unbatched_perm (st : SeqSt) (hwf : st.WF) (f : Str) (hm : (batchMembers st f).2 = false) :
    (batchMembers st f).1.Perm (unbatched st f) := by
  let ex0 := st.exact.filter isEmptyExact
  let ex1 := st.exact.filter isNonEmptyExact
  let all := st.startsWith ++ st.contains ++ st.endsWith ++ ex1
  let L1 := all.filter (fun i => !i.ci)
  let L2 := all.filter (fun i => i.ci)
  let R1 := st.regex.filter (fun i => !i.ci)
  let R2 := st.regex.filter (fun i => i.ci)
  have hb : (batchMembers st f).1 =
      ex0.map (fun _ => Expr.search (.exact []) f st.cast)
        ++ (litBlock (L1.filterMap (fun i => matchTypeOf i.pat)) f st.cast).1
        ++ (ilitBlock (L2.filterMap (fun i => matchTypeOf i.pat)) f st.cast).1
        ++ (rxBlock (R1.filterMap regexText) false f st.cast).1
        ++ (rxBlock (R2.filterMap regexText) true f st.cast).1 ++ st.rest := rfl
  have hflag : (batchMembers st f).2 =
      ((litBlock (L1.filterMap (fun i => matchTypeOf i.pat)) f st.cast).2 ||
       (ilitBlock (L2.filterMap (fun i => matchTypeOf i.pat)) f st.cast).2 ||
       (rxBlock (R1.filterMap regexText) false f st.cast).2 ||
       (rxBlock (R2.filterMap regexText) true f st.cast).2) := rfl
  rw [hflag] at hm
  simp only [Bool.or_eq_false_iff] at hm
  obtain ⟨⟨⟨hm1, hm2⟩, hm3⟩, hm4⟩ := hm
  have hall : ∀ i ∈ all, ∃ mt, matchTypeOf i.pat = some mt := by
    intro i hi
    simp only [all, ex1, List.mem_append, List.mem_filter] at hi
    rcases hi with ((hi | hi) | hi) | ⟨hi, _⟩
    · obtain ⟨s, h⟩ := hwf.startsWith i hi; exact ⟨_, by rw [h]; rfl⟩
    · obtain ⟨s, h⟩ := hwf.contains i hi; exact ⟨_, by rw [h]; rfl⟩
    · obtain ⟨s, h⟩ := hwf.endsWith i hi; exact ⟨_, by rw [h]; rfl⟩
    · obtain ⟨s, h⟩ := hwf.exact i hi; exact ⟨_, by rw [h]; rfl⟩
  have h0 : ex0.map (fun _ => Expr.search (.exact []) f st.cast) = ex0.filterMap (unbatchOne f st.cast) := by
    apply emptyExact_V
    intro i hi
    simp only [ex0, List.mem_filter] at hi
    obtain ⟨s, h⟩ := hwf.exact i hi.1
    have := hi.2
    simp only [isEmptyExact, h] at this
    rw [h]; congr; exact List.isEmpty_iff.mp this
  have h1 := litBlock_unbatched L1 f st.cast
    (fun i hi => by simpa using (List.mem_filter.mp hi).2)
    (fun i hi => hall i (List.mem_filter.mp hi).1) hm1
  obtain ⟨hL2, h2⟩ := ilitBlock_unbatched L2 f st.cast (fun i hi => hall i (List.mem_filter.mp hi).1) hm2
  have h3 := rxBlock_unbatched R1 false f st.cast
    (fun i hi => by simpa using (List.mem_filter.mp hi).2)
    (fun i hi => hwf.regex i (List.mem_filter.mp hi).1) hm3
  have h4 := rxBlock_unbatched R2 true f st.cast
    (fun i hi => by simpa using (List.mem_filter.mp hi).2)
    (fun i hi => hwf.regex i (List.mem_filter.mp hi).1) hm4
  rw [hb, h0, h1, h2, h3, h4]
  have e0 : ex0.filterMap (unbatchOne f st.cast) ++ L1.filterMap (unbatchOne f st.cast) ++ []
      ++ R1.filterMap (unbatchOne f st.cast) ++ R2.filterMap (unbatchOne f st.cast) ++ st.rest =
      (ex0 ++ L1 ++ L2 ++ R1 ++ R2).filterMap (unbatchOne f st.cast) ++ st.rest := by
    rw [hL2]; simp only [List.filterMap_append, List.append_nil, List.filterMap_nil]
  rw [e0]
  unfold unbatched
  apply List.Perm.append_right
  apply List.Perm.filterMap
  have pL : (L1 ++ L2).Perm all :=
    (List.perm_append_comm).trans (List.filter_append_perm (fun i => i.ci) all)
  have pR : (R1 ++ R2).Perm st.regex :=
    (List.perm_append_comm).trans (List.filter_append_perm (fun i => i.ci) st.regex)
  have hex1 : ex1 = st.exact.filter (fun i => !isEmptyExact i) := by
    apply List.filter_congr
    intro i hi
    obtain ⟨s, h⟩ := hwf.exact i hi
    simp [isNonEmptyExact, isEmptyExact, h]
  have pE : (ex0 ++ ex1).Perm st.exact := by
    rw [hex1]; exact List.filter_append_perm isEmptyExact st.exact
  have e1 : ex0 ++ L1 ++ L2 ++ R1 ++ R2 = ex0 ++ ((L1 ++ L2) ++ (R1 ++ R2)) := by
    simp only [List.append_assoc]
  rw [e1]
  refine ((pL.append pR).append_left ex0).trans ?_
  have e2 : ex0 ++ (all ++ st.regex) = (ex0 ++ all) ++ st.regex := by simp only [List.append_assoc]
  rw [e2]
  apply List.Perm.append_right
  have e3 : all ++ ex0 = (st.startsWith ++ st.contains ++ st.endsWith) ++ (ex1 ++ ex0) := by
    simp only [all, List.append_assoc]
  exact (List.perm_append_comm.trans (e3 ▸ List.Perm.refl _)).trans
    (((List.perm_append_comm).trans pE).append_left _)

/-- What the member loop collected is, up to order, the members taken one at a time. -/
theorem members_perm (E : RegexEngine) (ic : Bool) (f : Str) (misc : Option ModSym) (lhs : Expr) :
    ∀ (vs : List Yaml) (Δ : SeqSt),
      parseMembers E ic f misc lhs vs { cast := (misc == some .str) } = .ok Δ →
      (unbatched Δ f).Perm (vs.flatMap (memberAlone E ic f misc lhs))
  | [], Δ, h => by
    simp only [parseMembers] at h; cases h
    exact List.Perm.refl _
  | v :: vs, Δ, h => by
    rw [parseMembers_step E ic f misc lhs v vs _ rfl] at h
    simp only at h
    cases hδ : memberDelta E ic f misc lhs (misc == some .str) v with
    | error e => rw [hδ] at h; cases h
    | ok δ =>
      rw [hδ] at h
      simp only at h
      have hδc := memberDelta_cast E ic f misc lhs _ v δ hδ
      rw [parseMembers_hom E ic f misc lhs vs _ rfl] at h
      have e2 : ((({ cast := (misc == some ModSym.str) } : SeqSt).add δ)).cast = (misc == some .str) := rfl
      rw [e2] at h
      cases hΔ' : parseMembers E ic f misc lhs vs { cast := (misc == some ModSym.str) } with
      | error e => rw [hΔ'] at h; cases h
      | ok Δ' =>
        rw [hΔ'] at h
        simp only [exMap] at h
        cases h
        have ih := members_perm E ic f misc lhs vs Δ' hΔ'
        have hΔ'c : Δ'.cast = (misc == some .str) := parseMembers_cast E ic f misc lhs vs _ Δ' rfl hΔ'
        have hmem : memberAlone E ic f misc lhs v = unbatched δ f := by simp only [memberAlone, hδ]
        have p1 := unbatched_add (({ cast := (misc == some ModSym.str) } : SeqSt).add δ) Δ' f hΔ'c
        have p2 := unbatched_add ({ cast := (misc == some ModSym.str) } : SeqSt) δ f hδc
        have e0 : unbatched ({ cast := (misc == some ModSym.str) } : SeqSt) f = [] := rfl
        rw [e0, List.nil_append] at p2
        rw [List.flatMap_cons, hmem]
        exact (p1.trans (p2.append_right _)).trans (ih.append_left _)


theorem ofN_single (n : Nat) (r : Tri) : Tri.ofN n [r] = ofSingle n r := by
  unfold Tri.ofN ofSingle Tri.count
  by_cases h0 : n = 0
  · subst h0; cases r <;> rfl
  · simp only [h0, if_false]
    cases r
    · by_cases h1 : n > 1
      · have : ¬ n ≤ 1 := by omega
        simp [h1, this]
      · have : n ≤ 1 := by omega
        simp [h1, this]
    · simp; omega
    · simp; omega

/-- The table of a quantifier. -/
def quantVal (k : MatchK) (xs : List Tri) : Tri :=
  match k with
  | .all => Tri.and xs
  | .of n => Tri.ofN n xs

/-- A quantified key list with at least two nodes in its group: `all(k)` is the `and`, `of(k, n)`
    the count over `(batchMembers st f).1`. -/
theorem key_quantifier_value (E : RegexEngine) (ic : Bool) (f : Str) (k : MatchK) (s : List Yaml) (x : Expr)
    (h : parseVal E ic (.match k (.field f)) f none (.seq s) = .ok x) :
    ∃ st, parseMembers E ic f none (.field f) s { cast := false } = .ok st ∧
      (2 ≤ (batchMembers st f).1.length →
        ∀ (K : IdentK) (d : Doc), solveG E K d x = quantVal k ((batchMembers st f).1.map (solveG E K d))) := by
  simp only [parseVal] at h
  split at h
  · cases h
  · rename_i st hst
    refine ⟨st, hst, fun hlen K d => ?_⟩
    unfold shapeSeq at h
    split at h
    · cases h
    · split at h
      · cases h
      · rename_i g gs hg
        cases h
        have hw : ∀ y, wrapNot none y = y := fun y => by simp [wrapNot]
        rw [hw, hg]
        have hgs : gs.isEmpty = false := by
          rw [hg] at hlen
          cases gs with
          | nil => simp at hlen
          | cons _ _ => rfl
        cases k with
        | all =>
          simp only [shapeGroup, hgs, Bool.and_false, Bool.false_eq_true, if_false, quantVal]
          exact C06.solve_all_group E K d .or _
        | of n =>
          simp only [shapeGroup, hgs, Bool.false_eq_true, if_false, quantVal]
          exact C06.solve_of_group E K d n .or _

/-- **Nothing batched ⇒ the quantifiers count the members as written.** If the list under
    `all(k)` / `of(k, n)` holds no two members that the parser batches together (no two
    case-sensitive literals, no case-insensitive literal, no two regexes of one case flag) then
    `of(k, n)` is exactly the count over the members taken one at a time, and `all(k)` is true
    exactly when every member is. -/
theorem unbatched_key_quantifiers (E : RegexEngine) (ic : Bool) (f : Str) (k : MatchK) (s : List Yaml) (x : Expr)
    (h : parseVal E ic (.match k (.field f)) f none (.seq s) = .ok x) :
    ∃ st, parseMembers E ic f none (.field f) s { cast := false } = .ok st ∧
      ((batchMembers st f).2 = false → 2 ≤ (batchMembers st f).1.length →
        ∀ (K : IdentK) (d : Doc),
          let members := (s.flatMap (memberAlone E ic f none (.field f))).map (solveG E K d)
          (solveG E K d x = .t ↔ quantVal k members = .t) ∧
          (∀ n, k = .of n → solveG E K d x = Tri.ofN n members)) := by
  obtain ⟨st, hst, hval⟩ := key_quantifier_value E ic f k s x h
  refine ⟨st, hst, fun hm hlen K d => ?_⟩
  have hwf : st.WF := parseMembers_wf E ic f none (.field f) s _ st hst (wf_empty _)
  have hperm : (batchMembers st f).1.Perm (s.flatMap (memberAlone E ic f none (.field f))) :=
    (unbatched_perm st hwf f hm).trans (members_perm E ic f none (.field f) s st hst)
  have hv := hval hlen K d
  simp only
  rw [hv]
  refine ⟨?_, fun n hk => ?_⟩
  · cases k with
    | all =>
      simp only [quantVal]
      exact Tri.and_t_perm (hperm.map _)
    | of n =>
      simp only [quantVal]
      rw [Tri.ofN_perm n (hperm.map _)]
  · subst hk
    simp only [quantVal]
    exact Tri.ofN_perm n (hperm.map _)

end Tau.C08
