import Tau.Solver
/-
  C10 — Field paths resolve to exactly the addressed value.
-/
namespace Tau.C10
open Tau

/-- One step of a structured path: a name, optionally followed by an array index. -/
structure Step where
  name : Str
  idx : Option Nat
  idxText : Str          -- the digits written for the index (unused when `idx = none`)

/-- Structural resolution: descend objects by name, arrays by index. Nothing else. -/
def resolveStep (cur : Value) (s : Step) : Option Value :=
  match cur with
  | .obj kvs =>
    match s.idx with
    | none => getKey kvs s.name
    | some i =>
      match getKey kvs s.name with
      | some (.arr a) => a[i]?
      | _ => none
  | _ => none

def resolve : Value → List Step → Option Value
  | v, [] => some v
  | v, s :: rest =>
    match resolveStep v s with
    | some v' => resolve v' rest
    | none => none

/-- How a step is written in a key. -/
def renderStep (s : Step) : Str :=
  match s.idx with
  | none => s.name
  | some _ => s.name ++ ['['] ++ s.idxText ++ [']']

/-- A step is well formed: its name contains none of `. [ ]`, a plain name does not end in `]`
    (vacuous given the first part), and the index text parses to the index. -/
def Step.WF (s : Step) : Prop :=
  (∀ c ∈ s.name, c ≠ '.' ∧ c ≠ '[' ∧ c ≠ ']') ∧
  (match s.idx with
   | none => True
   | some i => parseUsize s.idxText = some i ∧ (∀ c ∈ s.idxText, c ≠ '.' ∧ c ≠ '[' ∧ c ≠ ']'))

theorem getLast?_append_singleton {α} (xs : List α) (x : α) : (xs ++ [x]).getLast? = some x := by
  simp

theorem splitOn_no_sep (c : Char) (s : Str) (h : ∀ x ∈ s, x ≠ c) : splitOn c s = [s] := by
  induction s with
  | nil => rfl
  | cons x xs ih =>
    have hx : (x == c) = false := by simpa using h x (by simp)
    have := ih (fun y hy => h y (by simp [hy]))
    simp [splitOn, hx, this]

theorem splitOn_append (c : Char) (a b : Str) (h : ∀ x ∈ a, x ≠ c) :
    splitOn c (a ++ c :: b) = a :: splitOn c b := by
  induction a with
  | nil => simp [splitOn]
  | cons x xs ih =>
    have hx : (x == c) = false := by simpa using h x (by simp)
    have := ih (fun y hy => h y (by simp [hy]))
    simp [splitOn, hx, this]

/-- A plain well-formed name is looked up as a key. -/
theorem segIndex_plain (s : Step) (h : s.WF) (hi : s.idx = none) : segIndex (renderStep s) = none := by
  unfold segIndex renderStep
  simp only [hi]
  have hmem : '[' ∉ s.name := fun hm => absurd rfl (h.1 _ hm).2.1
  simp [hmem]

/-- An indexed well-formed step decomposes into its name and its index. -/
theorem segIndex_indexed (s : Step) (h : s.WF) (i : Nat) (hi : s.idx = some i) :
    segIndex (renderStep s) = some (s.name, some i) := by
  obtain ⟨hname, hidx⟩ := h
  simp only [hi] at hidx
  obtain ⟨hparse, htext⟩ := hidx
  unfold segIndex renderStep
  simp only [hi]
  have hlast : (s.name ++ ['['] ++ s.idxText ++ [']']).getLast? = some ']' := by
    rw [List.getLast?_append]; rfl
  have hcont : (s.name ++ ['['] ++ s.idxText ++ [']']).contains '[' = true := by simp
  have hsplit : splitOn '[' (s.name ++ ['['] ++ s.idxText ++ [']']) = [s.name, s.idxText ++ [']']] := by
    have h1 : s.name ++ ['['] ++ s.idxText ++ [']'] = s.name ++ '[' :: (s.idxText ++ [']']) := by simp
    rw [h1, splitOn_append _ _ _ (fun x hx => (hname x hx).2.1)]
    rw [splitOn_no_sep]
    intro x hx
    simp at hx
    rcases hx with hx | hx
    · exact (htext x hx).2.1
    · subst hx; decide
  simp only [hlast, hcont, hsplit]
  simp [hparse, List.getLast?_append]

/-- One step of `find` is one step of the structural resolution. -/
theorem findStep_eq (kvs : List (Str × Value)) (s : Step) (h : s.WF) :
    findStep kvs (renderStep s) = resolveStep (.obj kvs) s := by
  unfold findStep resolveStep
  cases hi : s.idx with
  | none =>
    rw [segIndex_plain s h hi]
    simp [renderStep, hi]
  | some i =>
    rw [segIndex_indexed s h i hi]
    simp only []
    cases getKey kvs s.name with
    | none => rfl
    | some v => cases v <;> rfl

theorem findSegs_eq (v : Value) (p : List Step) (h : ∀ s ∈ p, s.WF) :
    findSegs v (p.map renderStep) = resolve v p := by
  induction p generalizing v with
  | nil => cases v <;> rfl
  | cons s rest ih =>
    cases v with
    | obj kvs =>
      simp only [List.map_cons, findSegs, resolve]
      rw [findStep_eq kvs s (h s (by simp))]
      cases hr : resolveStep (.obj kvs) s with
      | none => rfl
      | some v' => exact ih v' (fun t ht => h t (by simp [ht]))
    | _ => simp [findSegs, resolve, resolveStep]

/-- **find resolves exactly the addressed value.** For a well-formed path written with `.` between
    its steps, `find` returns what structural descent returns — in particular `none` as soon as a
    step does not exist or has the wrong shape; nothing is fabricated from another key, a shorter
    path or a different index. -/
theorem find_resolve (kvs : List (Str × Value)) (p : List Step)
    (h : ∀ s ∈ p, s.WF) (hs : splitOn '.' (['.'].intercalate (p.map renderStep)) = p.map renderStep) :
    objFind kvs (['.'].intercalate (p.map renderStep)) = resolve (.obj kvs) p := by
  unfold objFind
  rw [hs]
  exact findSegs_eq _ p h

/-- `find` is total on every key string (it is a total function of the model; this instance shows
    an ill-formed key is simply missing). -/
example : objFind [(['a'], .arr [.uint 1])] "a[x]".toList = none ∧
    objFind [(['a'], .arr [.uint 1])] "a[0]".toList = some (.uint 1) ∧
    objFind [(['a'], .obj []), (['c'], .uint 1)] "a.b.c".toList = none := by
  refine ⟨by rfl, by rfl, by rfl⟩

/-- A nested mapping over an object is the block evaluated on that object. -/
theorem nested_object (E : RegexEngine) (K : IdentK) (d : Doc) (f : Str) (kvs : List (Str × Value))
    (s : Search) (k : Str) (c : Bool) (h : d.find f = some (.obj kvs)) :
    solveG E K d (.nested f (.search s k c)) = solveG E K (.obj kvs) (.search s k c) := by
  simp [solveG, h]

/-- Nested mapping = dotted key whenever the intermediate value is an object (leaf = a string
    predicate on a plain key). -/
theorem nested_eq_dotted (E : RegexEngine) (K : IdentK) (doc : List (Str × Value)) (f k : Str)
    (inner : List (Str × Value)) (s : Search) (c : Bool)
    (hf : ∀ x ∈ f, x ≠ '.' ∧ x ≠ '[' ∧ x ≠ ']') (hk : ∀ x ∈ k, x ≠ '.' ∧ x ≠ '[' ∧ x ≠ ']')
    (h : getKey doc f = some (.obj inner)) :
    solveG E K (.obj doc) (.nested f (.search s k c)) = solveG E K (.obj doc) (.search s (f ++ '.' :: k) c) := by
  have hfind : (Doc.obj doc).find f = some (.obj inner) := by
    simp only [Doc.find, objFind]
    rw [splitOn_no_sep _ _ (fun x hx => (hf x hx).1)]
    have : segIndex f = none := segIndex_plain ⟨f, none, []⟩ ⟨hf, trivial⟩ rfl
    simp [findSegs, findStep, this, h]
  have hfind2 : (Doc.obj doc).find (f ++ '.' :: k) = (Doc.obj inner).find k := by
    simp only [Doc.find, objFind]
    rw [splitOn_append _ _ _ (fun x hx => (hf x hx).1), splitOn_no_sep _ _ (fun x hx => (hk x hx).1)]
    have h1 : segIndex f = none := segIndex_plain ⟨f, none, []⟩ ⟨hf, trivial⟩ rfl
    simp [findSegs, findStep, h1, h]
  simp only [solveG, hfind, solveSearch, hfind2]

/-- A nested mapping over an array of objects means "some element satisfies it" (for a block that
    is not an `all` group — that exception is the recorded finding about `all(k)` inside a nested
    block). -/
theorem nested_array_exists (E : RegexEngine) (K : IdentK) (d : Doc) (f : Str) (a : List Value)
    (s : Search) (k : Str) (c : Bool) (h : d.find f = some (.arr a)) :
    solveG E K d (.nested f (.search s k c)) =
      Tri.ofBool ((elemObjs a).any (fun kvs => solveG E K (.obj kvs) (.search s k c) == .t)) := by
  simp [solveG, h]

/-- A missing intermediate field makes the nested block missing, a scalar one makes it false. -/
theorem nested_missing (E : RegexEngine) (K : IdentK) (d : Doc) (f : Str) (s : Search) (k : Str) (c : Bool)
    (h : d.find f = none) : solveG E K d (.nested f (.search s k c)) = .m := by
  simp [solveG, h]

end Tau.C10

namespace Tau.C10
open Tau

/-! ### An index that names no element is missing — never another element

`name[i]` reads its index with `usize::from_str`: text that is not a (64-bit) unsigned number — a
sign other than `+`, a non-digit, no digits at all, a value of 2^64 or more — names no element, and
the whole lookup is missing. No wrap-around onto another index (a seeded change of round 14 replaced
the library parser by a digit loop that wraps at 2^64: `a[18446744073709551616]` then reads `a[0]`). -/

/-- A segment `name[text]` whose index text does not parse decomposes into its name and NO index. -/
theorem segIndex_bad_index (name text : Str)
    (hname : ∀ c ∈ name, c ≠ '.' ∧ c ≠ '[' ∧ c ≠ ']') (htext : ∀ c ∈ text, c ≠ '.' ∧ c ≠ '[' ∧ c ≠ ']')
    (hp : parseUsize text = none) :
    segIndex (name ++ ['['] ++ text ++ [']']) = some (name, none) := by
  unfold segIndex
  have hlast : (name ++ ['['] ++ text ++ [']']).getLast? = some ']' := by
    rw [List.getLast?_append]; rfl
  have hcont : (name ++ ['['] ++ text ++ [']']).contains '[' = true := by simp
  have hsplit : splitOn '[' (name ++ ['['] ++ text ++ [']']) = [name, text ++ [']']] := by
    have h1 : name ++ ['['] ++ text ++ [']'] = name ++ '[' :: (text ++ [']']) := by simp
    rw [h1, splitOn_append _ _ _ (fun x hx => (hname x hx).2.1)]
    rw [splitOn_no_sep]
    intro x hx
    simp at hx
    rcases hx with hx | hx
    · exact (htext x hx).2.1
    · subst hx; decide
  simp only [hlast, hcont, hsplit]
  simp [hp, List.getLast?_append]

/-- **Such a step resolves to nothing**, whatever the object holds under `name` — in particular it
    never falls back to element 0, to the array itself or to a key spelled like the segment. -/
theorem bad_index_missing (kvs : List (Str × Value)) (name text : Str)
    (hname : ∀ c ∈ name, c ≠ '.' ∧ c ≠ '[' ∧ c ≠ ']') (htext : ∀ c ∈ text, c ≠ '.' ∧ c ≠ '[' ∧ c ≠ ']')
    (hp : parseUsize text = none) :
    findStep kvs (name ++ ['['] ++ text ++ [']']) = none := by
  unfold findStep
  rw [segIndex_bad_index name text hname htext hp]

/-- Index text of 2^64 or more, or with a sign / a non-digit, does not parse (kernel-evaluated
    instances; `parseUsize` refuses every digit string whose value exceeds u64::MAX by definition). -/
theorem parseUsize_overflow (ds : Str) (h1 : ds.isEmpty = false) (h2 : ds.all isAsciiDigit = true)
    (h3 : u64Max < digitsVal ds) (h4 : ds.head? ≠ some '+') : parseUsize ds = none := by
  have hn : ¬ digitsVal ds ≤ u64Max := by omega
  cases ds with
  | nil => simp at h1
  | cons c r =>
    have hc : c ≠ '+' := by intro hc; subst hc; simp at h4
    unfold parseUsize
    split
    · rename_i heq; cases heq; exact absurd rfl hc
    · rename_i r' hnot
      simp only [List.isEmpty_cons, Bool.false_or, h2, Bool.not_true, Bool.false_eq_true, if_false, hn]

example : parseUsize "18446744073709551616".toList = none ∧ parseUsize "-1".toList = none ∧
    parseUsize "1.0".toList = none ∧ parseUsize "".toList = none ∧
    parseUsize "18446744073709551615".toList = some 18446744073709551615 ∧
    parseUsize "+1".toList = some 1 ∧ parseUsize "007".toList = some 7 := by decide

example : objFind [(['a'], .arr [.str ['z'], .str ['o']])] "a[18446744073709551616]".toList = none ∧
    objFind [(['a'], .arr [.str ['z'], .str ['o']])] "a[2]".toList = none ∧
    objFind [(['a'], .arr [.str ['z'], .str ['o']])] "a[1]".toList = some (.str ['o']) := by
  refine ⟨by rfl, by rfl, by rfl⟩

end Tau.C10
