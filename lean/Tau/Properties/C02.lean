import Tau.Properties.C06
import Tau.Properties.C01
import Tau.Mapping
/-
  C02 — Verdicts follow the documented rule language (partial).

  The reference semantics is split by layer: the condition language over identifier results
  (`Spec.cond`, theorem `cond_refines`), the shape of identifiers (a mapping is the conjunction of
  its entries in written order, a sequence of mappings a disjunction: `mapping_is_and`,
  `sequence_is_or`), and the leaf predicates (C07 strings, C09 numbers, C10 paths, C08 quantifiers).
  The independent reference interpreter that works from the YAML text and the document value is the
  Rust oracle of the C02 check; its Lean counterpart below covers the condition layer and the
  identifier shapes. Not proved: a single end-to-end `load_refines_spec` over YAML values.
-/
set_option linter.unusedSimpArgs false
namespace Tau.C02
open Tau

/-- The condition language. -/
inductive Cond where
  | id (i : Str)
  | not (c : Cond)
  | and (a b : Cond)
  | or (a b : Cond)
  | all (i : Str)
  | of (i : Str) (n : Nat)

/-- What the parser builds for it. -/
def Cond.toExpr : Cond → Expr
  | .id i => .ident i
  | .not c => .negate c.toExpr
  | .and a b => .bin a.toExpr .and b.toExpr
  | .or a b => .bin a.toExpr .or b.toExpr
  | .all i => .match .all (.ident i)
  | .of i n => .match (.of n) (.ident i)

/-- Reference semantics of a condition, given the result of every identifier (`val`) and of every
    identifier's entries (`entries`): the documented tables, nothing else. -/
def Spec.cond (val : Str → Tri) (entries : Str → List Tri) : Cond → Tri
  | .id i => val i
  | .not c => (Spec.cond val entries c).not
  | .and a b => Tri.and [Spec.cond val entries a, Spec.cond val entries b]
  | .or a b => Tri.or [Spec.cond val entries a, Spec.cond val entries b]
  | .all i => Tri.and (entries i)
  | .of i n => Tri.ofN n (entries i)

/-- The engine's evaluation of a condition is the reference semantics, where an identifier's value
    is the value of its body and its entries are the members of its body when that is a list. -/
theorem cond_refines (E : RegexEngine) (ids : Ids) (d : Doc) (c : Cond)
    (val : Str → Tri) (entries : Str → List Tri)
    (hval : ∀ i, solveTop E ids d (.ident i) = val i)
    (hall : ∀ i, solveTop E ids d (.match .all (.ident i)) = Tri.and (entries i))
    (hof : ∀ i n, solveTop E ids d (.match (.of n) (.ident i)) = Tri.ofN n (entries i)) :
    solveTop E ids d c.toExpr = Spec.cond val entries c := by
  induction c with
  | id i => exact hval i
  | not c ih => simp only [Cond.toExpr, Spec.cond, ← ih]; simp [solveTop, solveG]
  | and a b iha ihb =>
    simp only [Cond.toExpr, Spec.cond, ← iha, ← ihb]
    simp [solveTop, solveG, binAnd_eq]
  | or a b iha ihb =>
    simp only [Cond.toExpr, Spec.cond, ← iha, ← ihb]
    simp [solveTop, solveG, binOr_eq]
  | all i => exact hall i
  | of i n => exact hof i n

/-- For an identifier whose body is a list of entries the hypotheses of `cond_refines` hold with
    the entries' own results (C06). -/
theorem entries_of_group (E : RegexEngine) (ids : Ids) (d : Doc) (i : Str) (op : BoolSym) (es : List Expr)
    (h : lookupId ids i = some (.group op es)) :
    solveTop E ids d (.match .all (.ident i)) = Tri.and (es.map (solveClosed E d)) ∧
    ∀ n, solveTop E ids d (.match (.of n) (.ident i)) = Tri.ofN n (es.map (solveClosed E d)) :=
  ⟨C06.solve_all_ident E ids d i op es h, fun n => C06.solve_of_ident E ids d i n op es h⟩

/-- A mapping is the conjunction of its entries taken in written order. -/
theorem mapping_is_and (E : RegexEngine) (ic : Bool) (d : Doc) (kvs : List (Yaml × Yaml)) (e : Expr)
    (h : parseMapping E ic kvs = .ok e) :
    ∃ es, parseEntries E ic kvs = .ok es ∧ solveClosed E d e = Tri.and (es.map (solveClosed E d)) := by
  unfold parseMapping finishMapping at h
  split at h
  · cases h
  · cases h
  · rename_i e' heq
    cases h
    refine ⟨[e], heq, ?_⟩
    simp [Tri.and_cons]
    cases solveClosed E d e <;> rfl
  · rename_i es _ _ heq
    cases h
    exact ⟨es, heq, by simp [solveClosed, C06.solve_group_and]; rfl⟩

/-- A sequence of mappings is the disjunction of its mappings. -/
theorem sequence_is_or (E : RegexEngine) (d : Doc) (es : List Expr) :
    solveClosed E d (.group .or es) = Tri.or (es.map (solveClosed E d)) := by
  simp [solveClosed, C06.solve_group_or]; rfl

/-- A field the document does not have makes its predicate missing — never true. -/
theorem absent_field_missing (E : RegexEngine) (K : IdentK) (d : Doc) (f : Str) (h : d.find f = none) :
    (∀ s c, solveG E K d (.search s f c) = .m) ∧
    (∀ e, solveG E K d (.nested f e) = .m) ∧
    (∀ op i, op ≠ .and → op ≠ .or → solveG E K d (.bin (.field f) op (.int i)) = .m) := by
  refine ⟨fun s c => by simp [solveG, solveSearch, h], fun e => ?_, fun op i h1 h2 => ?_⟩
  · cases e with
    | «match» k x =>
      cases k with
      | all => cases x with
        | group op es => cases op <;> simp [solveG, h]
        | _ => simp [solveG, h]
      | of n => simp [solveG, h]
    | _ => simp [solveG, h]
  · cases op <;> simp_all [solveG, solveCmp, operand]

/-- Only a condition that evaluates to true is a match. -/
theorem only_true_matches (E : RegexEngine) (ids : Ids) (d : Doc) (e : Expr) :
    matchesTop E ids d e = true ↔ solveTop E ids d e = .t := C06.verdict_iff E ids d e

end Tau.C02
