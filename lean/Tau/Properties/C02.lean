import Tau.Properties.C06
import Tau.Properties.C01
import Tau.Mapping
import Tau.Properties.C14
import Tau.Properties.C07
import Tau.Proofs.Batch
import Tau.Proofs.Shake0
import Tau.Proofs.MappingShake
/-
  C02 — Verdicts follow the documented rule language (partial).

  The reference semantics is split by layer: the condition language over identifier results
  (`Spec.cond`, theorem `cond_refines`), the shape of identifiers (a mapping is the conjunction of
  its entries in written order, a sequence of mappings a disjunction: `mapping_is_and`,
  `sequence_is_or`), and the leaf predicates (C07 strings, C09 numbers, C10 paths, C08 quantifiers).
  The independent reference interpreter that works from the YAML text and the document value is the
  Rust oracle of the C02 check; its Lean counterpart below covers the condition layer and the
  identifier shapes; `identifier_refines` (end of file) is the end-to-end statement for identifier
  bodies without all()/of() keys: the parsed tree evaluates to a denotational semantics defined by
  recursion on the YAML value.
-/
set_option linter.unusedSimpArgs false
namespace Tau.C02
open Tau

/-- The condition language. -/
inductive Cond where
  | id (i : Str)
  | not (c : Cond)
  | and (a b : Cond)
  | or (a b : Cond)
  | all (i : Str)
  | of (i : Str) (n : Nat)

/-- What the parser builds for it. -/
def Cond.toExpr : Cond → Expr
  | .id i => .ident i
  | .not c => .negate c.toExpr
  | .and a b => .bin a.toExpr .and b.toExpr
  | .or a b => .bin a.toExpr .or b.toExpr
  | .all i => .match .all (.ident i)
  | .of i n => .match (.of n) (.ident i)

/-- Reference semantics of a condition, given the result of every identifier (`val`) and of every
    identifier's entries (`entries`): the documented tables, nothing else. -/
def Spec.cond (val : Str → Tri) (entries : Str → List Tri) : Cond → Tri
  | .id i => val i
  | .not c => (Spec.cond val entries c).not
  | .and a b => Tri.and [Spec.cond val entries a, Spec.cond val entries b]
  | .or a b => Tri.or [Spec.cond val entries a, Spec.cond val entries b]
  | .all i => Tri.and (entries i)
  | .of i n => Tri.ofN n (entries i)

/-- The engine's evaluation of a condition is the reference semantics, where an identifier's value
    is the value of its body and its entries are the members of its body when that is a list. -/
theorem cond_refines (E : RegexEngine) (ids : Ids) (d : Doc) (c : Cond)
    (val : Str → Tri) (entries : Str → List Tri)
    (hval : ∀ i, solveTop E ids d (.ident i) = val i)
    (hall : ∀ i, solveTop E ids d (.match .all (.ident i)) = Tri.and (entries i))
    (hof : ∀ i n, solveTop E ids d (.match (.of n) (.ident i)) = Tri.ofN n (entries i)) :
    solveTop E ids d c.toExpr = Spec.cond val entries c := by
  induction c with
  | id i => exact hval i
  | not c ih => simp only [Cond.toExpr, Spec.cond, ← ih]; simp [solveTop, solveG]
  | and a b iha ihb =>
    simp only [Cond.toExpr, Spec.cond, ← iha, ← ihb]
    simp [solveTop, solveG, binAnd_eq]
  | or a b iha ihb =>
    simp only [Cond.toExpr, Spec.cond, ← iha, ← ihb]
    simp [solveTop, solveG, binOr_eq]
  | all i => exact hall i
  | of i n => exact hof i n

/-- For an identifier whose body is a list of entries the hypotheses of `cond_refines` hold with
    the entries' own results (C06). -/
theorem entries_of_group (E : RegexEngine) (ids : Ids) (d : Doc) (i : Str) (op : BoolSym) (es : List Expr)
    (h : lookupId ids i = some (.group op es)) :
    solveTop E ids d (.match .all (.ident i)) = Tri.and (es.map (solveClosed E d)) ∧
    ∀ n, solveTop E ids d (.match (.of n) (.ident i)) = Tri.ofN n (es.map (solveClosed E d)) :=
  ⟨C06.solve_all_ident E ids d i op es h, fun n => C06.solve_of_ident E ids d i n op es h⟩

/-- A mapping is the conjunction of its entries taken in written order. -/
theorem mapping_is_and (E : RegexEngine) (ic : Bool) (d : Doc) (kvs : List (Yaml × Yaml)) (e : Expr)
    (h : parseMapping E ic kvs = .ok e) :
    ∃ es, parseEntries E ic kvs = .ok es ∧ solveClosed E d e = Tri.and (es.map (solveClosed E d)) := by
  unfold parseMapping finishMapping at h
  split at h
  · cases h
  · cases h
  · rename_i e' heq
    cases h
    refine ⟨[e], heq, ?_⟩
    simp [Tri.and_cons]
    cases solveClosed E d e <;> rfl
  · rename_i es _ _ heq
    cases h
    exact ⟨es, heq, by simp [solveClosed, C06.solve_group_and]; rfl⟩

/-- A sequence of mappings is the disjunction of its mappings. -/
theorem sequence_is_or (E : RegexEngine) (d : Doc) (es : List Expr) :
    solveClosed E d (.group .or es) = Tri.or (es.map (solveClosed E d)) := by
  simp [solveClosed, C06.solve_group_or]; rfl

/-- A field the document does not have makes its predicate missing — never true. -/
theorem absent_field_missing (E : RegexEngine) (K : IdentK) (d : Doc) (f : Str) (h : d.find f = none) :
    (∀ s c, solveG E K d (.search s f c) = .m) ∧
    (∀ e, solveG E K d (.nested f e) = .m) ∧
    (∀ op i, op ≠ .and → op ≠ .or → solveG E K d (.bin (.field f) op (.int i)) = .m) := by
  refine ⟨fun s c => by simp [solveG, solveSearch, h], fun e => ?_, fun op i h1 h2 => ?_⟩
  · cases e with
    | «match» k x =>
      cases k with
      | all => cases x with
        | group op es => cases op <;> simp [solveG, h]
        | _ => simp [solveG, h]
      | of n => simp [solveG, h]
    | _ => simp [solveG, h]
  · cases op <;> simp_all [solveG, solveCmp, operand]

/-- Only a condition that evaluates to true is a match. -/
theorem only_true_matches (E : RegexEngine) (ids : Ids) (d : Doc) (e : Expr) :
    matchesTop E ids d e = true ↔ solveTop E ids d e = .t := C06.verdict_iff E ids d e

end Tau.C02

namespace Tau.C02
open Tau

/-! ### A denotational semantics of identifier bodies, and the parser refines it -/

/-- The documented meaning of a nested mapping under key `f`: missing if the field is absent; the
    body on the object; "some element satisfies it" on an array; false on anything else. -/
def nestedSem (f : Str) (body : Doc → Tri) (d : Doc) : Tri :=
  match d.find f with
  | none => .m
  | some (.obj kvs) => body (.obj kvs)
  | some (.arr a) => Tri.ofBool ((elemObjs a).any (fun kvs => body (.obj kvs) == .t))
  | some _ => .f

def notTri (misc : Option ModSym) (t : Tri) : Tri := if misc == some .not then t.not else t

def isMatchE : Expr → Bool
  | .match _ _ => true
  | _ => false

section
variable (E : RegexEngine) (ic : Bool) (K : IdentK)

/-- A scalar under a key: the leaf predicate (strings: C07, numbers: C09, paths: C10). -/
def atomSem (e : Expr) (f : Str) (misc : Option ModSym) (v : Yaml) (d : Doc) : Tri :=
  match parseVal E ic e f misc v with
  | .ok x => solveG E K d x
  | .error _ => .m

mutual
/-- Entries of a mapping, in written order. -/
def semEntries : List (Yaml × Yaml) → Doc → List Tri
  | [], _ => []
  | p :: rest, d => semPair p d :: semEntries rest d
def semPair : Yaml × Yaml → Doc → Tri
  | (k, v), d =>
    match parseKey k v.isSeq with
    | .error _ => .m
    | .ok (e, f, misc) => semVal e f misc v d
/-- A value under a key: a nested mapping, a list (the `or` of its members), or a leaf. -/
def semVal (e : Expr) (f : Str) (misc : Option ModSym) : Yaml → Doc → Tri
  | .map m, d => notTri misc (nestedSem f (fun d' => Tri.and (semEntries m d')) d)
  | .seq s, d => notTri misc (Tri.or (semMembers e f misc s d))
  | .null, d => atomSem E ic K e f misc .null d
  | .bool b, d => atomSem E ic K e f misc (.bool b) d
  | .num n, d => atomSem E ic K e f misc (.num n) d
  | .str s, d => atomSem E ic K e f misc (.str s) d
  | .tagged y, d => atomSem E ic K e f misc (.tagged y) d
/-- Members of a list, one at a time. -/
def semMembers (e : Expr) (f : Str) (misc : Option ModSym) : List Yaml → Doc → List Tri
  | [], _ => []
  | .map m :: vs, d => nestedSem f (fun d' => Tri.and (semEntries m d')) d :: semMembers e f misc vs d
  | v :: vs, d => V E K d (memberAlone E ic f misc (unmatchedOf e) v) :: semMembers e f misc vs d
end

/-- An identifier: a mapping (conjunction of its entries) or a sequence of mappings (disjunction). -/
def semIdent : Yaml → Doc → Tri
  | .map m, d => Tri.and (semEntries E ic K m d)
  | .seq ys, d => Tri.or (ys.map (fun y => match y with | .map m => Tri.and (semEntries E ic K m d) | _ => .m))
  | _, _ => .m

end


theorem solve_wrapNot (E : RegexEngine) (K : IdentK) (d : Doc) (misc : Option ModSym) (x : Expr) :
    solveG E K d (wrapNot misc x) = notTri misc (solveG E K d x) := by
  unfold wrapNot notTri
  split <;> simp [solveG]

theorem isMatch_wrapNot (misc : Option ModSym) (x : Expr) (h : isMatchE x = false) :
    isMatchE (wrapNot misc x) = false := by
  unfold wrapNot; split
  · rfl
  · exact h

theorem shapeGroup_value (E : RegexEngine) (K : IdentK) (d : Doc) (e g : Expr) (gs : List Expr) (m : Bool)
    (he : isMatchE e = false) : solveG E K d (shapeGroup e g gs m) = V E K d (g :: gs) := by
  unfold shapeGroup V
  cases e <;> simp [isMatchE] at he <;> simp only []
  all_goals
    split
    · rename_i h
      have : gs = [] := by
        cases gs with
        | nil => rfl
        | cons _ _ => simp at h
      subst this
      simp only [List.map_cons, List.map_nil]
      cases solveG E K d g <;> rfl
    · simp only [solveG, orG_eq, listG_eq_map]

theorem shapeGroup_notMatch (e g : Expr) (gs : List Expr) (m : Bool)
    (he : isMatchE e = false) (hg : isMatchE g = false) : isMatchE (shapeGroup e g gs m) = false := by
  unfold shapeGroup
  cases e <;> simp [isMatchE] at he <;> simp only [] <;> split <;> first | exact hg | rfl

/-- A list under any non-quantifier key: the `or` of its members taken one at a time, negated
    under `not(k)`. -/
theorem list_value (E : RegexEngine) (ic : Bool) (e : Expr) (f : Str) (misc : Option ModSym) (s : List Yaml)
    (x : Expr) (he : isMatchE e = false)
    (h : parseVal E ic e f misc (.seq s) = .ok x) (K : IdentK) (d : Doc) :
    solveG E K d x =
      notTri misc (Tri.or (s.map (fun v => V E K d (memberAlone E ic f misc (unmatchedOf e) v)))) := by
  simp only [parseVal] at h
  split at h
  · cases h
  · rename_i st hst
    have hst' : parseMembers E ic f misc (unmatchedOf e) s { cast := misc == some ModSym.str } = .ok st := by
      cases e <;> first | (simp [isMatchE] at he; done) | exact hst
    clear hst
    have hst := hst'
    have hwf : st.WF := parseMembers_wf E ic f misc (unmatchedOf e) s _ st hst (wf_empty _)
    unfold shapeSeq at h
    split at h
    · cases h
    · split at h
      · cases h
      · rename_i g gs hg
        cases h
        rw [solve_wrapNot, shapeGroup_value E K d e g gs _ he, ← hg, batch_or E K d st hwf f]
        rw [members_or E K d ic f misc (unmatchedOf e) s st hst]


theorem nested_value (E : RegexEngine) (K : IdentK) (d : Doc) (f : Str) (x : Expr) (hx : isMatchE x = false) :
    solveG E K d (.nested f x) = nestedSem f (fun d' => solveG E K d' x) d := by
  have hs : nestedSpecial x = false := by cases x <;> simp [isMatchE] at hx <;> rfl
  rw [nested_generic E K d f x hs]
  rfl

theorem finish_value (E : RegexEngine) (K : IdentK) (es : List Expr) (x : Expr)
    (h : finishMapping (.ok es) = .ok x) (hm : ∀ e ∈ es, isMatchE e = false) :
    (∀ d, solveG E K d x = Tri.and (es.map (solveG E K d))) ∧ isMatchE x = false := by
  match es, h with
  | [a], h =>
    simp [finishMapping] at h; subst h
    exact ⟨fun d => by simp only [List.map_cons, List.map_nil]; cases solveG E K d a <;> rfl, hm a (by simp)⟩
  | a :: b :: r, h =>
    simp [finishMapping] at h; subst h
    exact ⟨fun d => C06.solve_group_and E K d _, rfl⟩

theorem notMatch_wrap_search (misc : Option ModSym) (s : Search) (f : Str) (c : Bool) :
    isMatchE (wrapNot misc (.search s f c)) = false := isMatch_wrapNot _ _ rfl
theorem notMatch_wrap_bin (misc : Option ModSym) (l : Expr) (op : BoolSym) (r : Expr) :
    isMatchE (wrapNot misc (.bin l op r)) = false := isMatch_wrapNot _ _ rfl

/-- Scalar entries are never all()/of() nodes. -/
theorem scalar_notMatch (E : RegexEngine) (ic : Bool) (e : Expr) (f : Str) (misc : Option ModSym) (v : Yaml)
    (x : Expr) (hv : ∀ m, v ≠ .map m) (hs : ∀ s, v ≠ .seq s) (h : parseVal E ic e f misc v = .ok x) :
    isMatchE x = false := by
  cases v with
  | map m => exact absurd rfl (hv m)
  | seq s => exact absurd rfl (hs s)
  | tagged y => simp [parseVal] at h
  | null => simp only [parseVal] at h; cases h; exact notMatch_wrap_bin _ _ _ _
  | bool b =>
    simp only [parseVal] at h; cases h
    apply isMatch_wrapNot
    split
    · rfl
    · split <;> rfl
  | num n =>
    cases n with
    | int i =>
      simp only [parseVal] at h; cases h
      apply isMatch_wrapNot
      split <;> rfl
    | big a b c =>
      simp only [parseVal] at h
      split at h
      · cases h
      · split at h <;> cases h <;> apply isMatch_wrapNot <;> rfl
    | flt b c =>
      simp only [parseVal] at h
      split at h
      · cases h
      · split at h <;> cases h <;> apply isMatch_wrapNot <;> rfl
  | str s =>
    simp only [parseVal] at h
    cases hid : intoIdentifier E ic s with
    | error err => rw [hid] at h; cases h
    | ok ident =>
      rw [hid] at h
      simp only at h
      cases hcc : castCheck misc ident.pat with
      | error err => rw [hcc] at h; cases h
      | ok u =>
        rw [hcc] at h
        simp only at h
        cases hp : ident.pat <;> simp only [hp, numExpr, searchOfPattern] at h <;>
          first
            | (cases h; exact isMatch_wrapNot _ _ rfl)
            | (split at h <;> cases h <;> exact isMatch_wrapNot _ _ rfl)


/-! #### The fragment: no all()/of() keys -/

mutual
def nqEntries : List (Yaml × Yaml) → Bool
  | [] => true
  | p :: rest => nqPair p && nqEntries rest
def nqPair : Yaml × Yaml → Bool
  | (k, v) =>
    (match parseKey k v.isSeq with
     | .ok (e, _, _) => !isMatchE e
     | .error _ => true) && nqVal v
def nqVal : Yaml → Bool
  | .map m => nqEntries m
  | .seq s => nqMembers s
  | _ => true
def nqMembers : List Yaml → Bool
  | [] => true
  | .map m :: vs => nqEntries m && nqMembers vs
  | _ :: vs => nqMembers vs
end

def nqIdent : Yaml → Bool
  | .map m => nqEntries m
  | .seq ys => ys.all (fun y => match y with | .map m => nqEntries m | _ => true)
  | _ => true

theorem member_notMatch {g : Expr} (h : Member g) : isMatchE g = false := by
  cases g <;> first | rfl | (have := h.2.2.1; simp [mayBecomeMatch] at this)

/-- Every member must have been accepted for the loop to succeed. -/
theorem parseMembers_ok_members (E : RegexEngine) (ic : Bool) (f : Str) (misc : Option ModSym) (lhs : Expr) :
    ∀ (vs : List Yaml) (st st' : SeqSt), st.cast = (misc == some .str) →
      parseMembers E ic f misc lhs vs st = .ok st' →
      ∀ v ∈ vs, ∃ δ, memberDelta E ic f misc lhs (misc == some .str) v = .ok δ
  | [], _, _, _, _ => by intro v hv; cases hv
  | v :: vs, st, st', hc, h => by
    rw [parseMembers_step E ic f misc lhs v vs st hc] at h
    cases hδ : memberDelta E ic f misc lhs st.cast v with
    | error e => rw [hδ] at h; cases h
    | ok δ =>
      rw [hδ] at h
      simp only at h
      intro w hw
      rcases List.mem_cons.mp hw with rfl | hw'
      · exact ⟨δ, by rw [← hc]; exact hδ⟩
      · exact parseMembers_ok_members E ic f misc lhs vs (st.add δ) st' hc h w hw'


section
variable (E : RegexEngine) (ic : Bool) (K : IdentK)

/-- What the refinement says about a list of parsed entries. -/
def EntriesOK (kvs : List (Yaml × Yaml)) (es : List Expr) : Prop :=
  (∀ d, es.map (solveG E K d) = semEntries E ic K kvs d) ∧ (∀ x ∈ es, isMatchE x = false)

mutual
theorem entries_sem : ∀ (kvs : List (Yaml × Yaml)) (es : List Expr),
    parseEntries E ic kvs = .ok es → nqEntries kvs = true → EntriesOK E ic K kvs es
  | [], es, h, _ => by
    simp [parseEntries] at h; subst h
    exact ⟨fun d => by simp [semEntries], fun x hx => by cases hx⟩
  | p :: rest, es, h, hq => by
    simp only [parseEntries] at h
    simp only [nqEntries, Bool.and_eq_true] at hq
    split at h
    · cases h
    · rename_i x hx
      split at h
      · cases h
      · rename_i xs hxs
        cases h
        obtain ⟨h1, h2⟩ := pair_sem p x hx hq.1
        obtain ⟨h3, h4⟩ := entries_sem rest xs hxs hq.2
        refine ⟨fun d => ?_, fun y hy => ?_⟩
        · simp only [List.map_cons, semEntries, h1 d, h3 d]
        · rcases List.mem_cons.mp hy with rfl | hy'
          · exact h2
          · exact h4 y hy'

theorem pair_sem : ∀ (p : Yaml × Yaml) (x : Expr), parsePair E ic p = .ok x → nqPair p = true →
    (∀ d, solveG E K d x = semPair E ic K p d) ∧ isMatchE x = false
  | (k, v), x, h, hq => by
    simp only [parsePair] at h
    simp only [nqPair, Bool.and_eq_true] at hq
    cases hk : parseKey k v.isSeq with
    | error err => rw [hk] at h; cases h
    | ok r =>
      obtain ⟨e, f, misc⟩ := r
      rw [hk] at h hq
      simp only [Bool.not_eq_true'] at hq
      have hleaf := parseKey_leaf k v.isSeq e f misc hk
      obtain ⟨h1, h2⟩ := val_sem e f misc hq.1 hleaf.2 v x h hq.2
      refine ⟨fun d => ?_, h2⟩
      simp only [semPair, hk]
      exact h1 d

theorem val_sem (e : Expr) (f : Str) (misc : Option ModSym) (he : isMatchE e = false)
    (hleaf : isLeafE (unmatchedOf e) = true) :
    ∀ (v : Yaml) (x : Expr), parseVal E ic e f misc v = .ok x → nqVal v = true →
      (∀ d, solveG E K d x = semVal E ic K e f misc v d) ∧ isMatchE x = false
  | .null, x, h, _ =>
    ⟨fun d => by simp only [semVal, atomSem, h], scalar_notMatch E ic e f misc _ x (by simp) (by simp) h⟩
  | .bool b, x, h, _ =>
    ⟨fun d => by simp only [semVal, atomSem, h], scalar_notMatch E ic e f misc _ x (by simp) (by simp) h⟩
  | .num n, x, h, _ =>
    ⟨fun d => by simp only [semVal, atomSem, h], scalar_notMatch E ic e f misc _ x (by simp) (by simp) h⟩
  | .str s, x, h, _ =>
    ⟨fun d => by simp only [semVal, atomSem, h], scalar_notMatch E ic e f misc _ x (by simp) (by simp) h⟩
  | .tagged y, x, h, _ => by simp [parseVal] at h
  | .map m, x, h, hq => by
    simp only [parseVal] at h
    simp only [nqVal] at hq
    split at h
    · cases h
    · cases hes : parseEntries E ic m with
      | error err => rw [hes] at h; simp [finishMapping] at h
      | ok es =>
        rw [hes] at h
        obtain ⟨h1, h2⟩ := entries_sem m es hes hq
        cases hfin : finishMapping (.ok es) with
        | error err => rw [hfin] at h; cases h
        | ok y =>
          rw [hfin] at h
          cases h
          obtain ⟨hv, hm⟩ := finish_value E K es y hfin h2
          refine ⟨fun d => ?_, isMatch_wrapNot _ _ rfl⟩
          rw [solve_wrapNot, nested_value E K d f y hm]
          simp only [semVal]
          congr 2
          funext d'
          rw [hv d', h1 d']
  | .seq s, x, h, hq => by
    simp only [nqVal] at hq
    have hval := list_value E ic e f misc s x he h K
    -- the batch group holds no all()/of() node
    have hnm : isMatchE x = false := by
      simp only [parseVal] at h
      split at h
      · cases h
      · rename_i st hst
        have hst' : parseMembers E ic f misc (unmatchedOf e) s { cast := misc == some ModSym.str } = .ok st := by
          cases e <;> first | (simp [isMatchE] at he; done) | exact hst
        have hrest : MemberAll st.rest :=
          members_member E ic f misc _ hleaf s _ st hst' (by intro e he; cases he)
        have hall := batchMembers_member st f hrest
        unfold shapeSeq at h
        split at h
        · cases h
        · split at h
          · cases h
          · rename_i g gs hg
            cases h
            apply isMatch_wrapNot
            apply shapeGroup_notMatch e g gs _ he
            exact member_notMatch (hall g (by rw [hg]; simp))
    refine ⟨fun d => ?_, hnm⟩
    rw [hval d]
    simp only [semVal]
    congr 2
    -- member by member
    have hok : ∀ v ∈ s, ∃ δ, memberDelta E ic f misc (unmatchedOf e) (misc == some .str) v = .ok δ := by
      simp only [parseVal] at h
      split at h
      · cases h
      · rename_i st hst
        have hst' : parseMembers E ic f misc (unmatchedOf e) s { cast := misc == some ModSym.str } = .ok st := by
          cases e <;> first | (simp [isMatchE] at he; done) | exact hst
        exact parseMembers_ok_members E ic f misc (unmatchedOf e) s _ st rfl hst'
    exact members_sem e f misc s hq hok d

theorem members_sem (e : Expr) (f : Str) (misc : Option ModSym) :
    ∀ (vs : List Yaml), nqMembers vs = true →
      (∀ v ∈ vs, ∃ δ, memberDelta E ic f misc (unmatchedOf e) (misc == some .str) v = .ok δ) →
      ∀ d, vs.map (fun v => V E K d (memberAlone E ic f misc (unmatchedOf e) v)) = semMembers E ic K e f misc vs d
  | [], _, _, d => by simp [semMembers]
  | v :: vs, hq, hok, d => by
    have htail : ∀ (hq' : nqMembers vs = true), vs.map (fun v => V E K d (memberAlone E ic f misc (unmatchedOf e) v)) =
        semMembers E ic K e f misc vs d :=
      fun hq' => members_sem e f misc vs hq' (fun w hw => hok w (by simp [hw])) d
    cases v with
    | map m =>
      simp only [nqMembers, Bool.and_eq_true] at hq
      simp only [List.map_cons, semMembers, htail hq.2]
      congr 1
      obtain ⟨δ, hδ⟩ := hok (.map m) (by simp)
      simp only [memberDelta] at hδ
      split at hδ
      · cases hδ
      · rename_i hmisc
        cases hes : parseEntries E ic m with
        | error err => rw [hes] at hδ; simp [finishMapping] at hδ
        | ok es =>
          rw [hes] at hδ
          cases hfin : finishMapping (.ok es) with
          | error err => rw [hfin] at hδ; cases hδ
          | ok y =>
            obtain ⟨h1, h2⟩ := entries_sem m es hes hq.1
            obtain ⟨hv, hm⟩ := finish_value E K es y hfin h2
            have hma : memberAlone E ic f misc (unmatchedOf e) (.map m) = [.nested f y] := by
              simp only [memberAlone, memberDelta, hmisc, Bool.false_eq_true, if_false, hes, hfin]
              rfl
            rw [hma]
            have : V E K d [.nested f y] = solveG E K d (.nested f y) := by
              unfold V; simp only [List.map_cons, List.map_nil]
              cases solveG E K d (.nested f y) <;> rfl
            rw [this, nested_value E K d f y hm]
            congr 1
            funext d'
            rw [hv d', h1 d']
    | null => simp only [nqMembers] at hq; simp only [List.map_cons, semMembers, htail hq]
    | bool b => simp only [nqMembers] at hq; simp only [List.map_cons, semMembers, htail hq]
    | num n => simp only [nqMembers] at hq; simp only [List.map_cons, semMembers, htail hq]
    | str s => simp only [nqMembers] at hq; simp only [List.map_cons, semMembers, htail hq]
    | seq xs => simp only [nqMembers] at hq; simp only [List.map_cons, semMembers, htail hq]
    | tagged y => simp only [nqMembers] at hq; simp only [List.map_cons, semMembers, htail hq]
end

end

section
variable (E : RegexEngine) (ic : Bool) (K : IdentK)

theorem mapping_sem (m : List (Yaml × Yaml)) (x : Expr) (h : parseMapping E ic m = .ok x)
    (hq : nqEntries m = true) : ∀ d, solveG E K d x = Tri.and (semEntries E ic K m d) := by
  unfold parseMapping at h
  cases hes : parseEntries E ic m with
  | error err => rw [hes] at h; simp [finishMapping] at h
  | ok es =>
    rw [hes] at h
    obtain ⟨h1, h2⟩ := entries_sem E ic K m es hes hq
    obtain ⟨hv, _⟩ := finish_value E K es x h h2
    intro d
    rw [hv d, h1 d]

theorem go_sem : ∀ (ys : List Yaml) (es : List Expr), parseIdentifier.go E ic ys = .ok es →
    (ys.all (fun y => match y with | .map m => nqEntries m | _ => true)) = true →
    ∀ d, es.map (solveG E K d) =
      ys.map (fun y => match y with | .map m => Tri.and (semEntries E ic K m d) | _ => .m)
  | [], es, h, _, d => by simp [parseIdentifier.go] at h; subst h; rfl
  | y :: rest, es, h, hq, d => by
    cases y with
    | map m =>
      simp only [parseIdentifier.go] at h
      simp only [List.all_cons, Bool.and_eq_true] at hq
      split at h
      · cases h
      · rename_i x hx
        split at h
        · cases h
        · rename_i xs hxs
          cases h
          simp only [List.map_cons]
          rw [mapping_sem E ic K m x hx hq.1 d, go_sem rest xs hxs hq.2 d]
    | _ => simp [parseIdentifier.go] at h

/-- **The parser refines the documented meaning of identifiers.** For every identifier value
    without all()/of() keys that `parse_identifier` accepts, the three-valued result of the parsed
    expression on every document is the denotational semantics: a mapping is the conjunction of its
    entries in written order, a sequence of mappings their disjunction, a list under a key the
    disjunction of its members taken one at a time (whatever gets batched), a nested mapping is the
    body on the object / "some element" on an array, `not(k)` negates, and a scalar under a key is
    the leaf predicate. -/
theorem identifier_refines (y : Yaml) (e : Expr) (h : parseIdentifier E ic y = .ok e)
    (hq : nqIdent y = true) : ∀ d, solveG E K d e = semIdent E ic K y d := by
  cases y with
  | map m =>
    intro d
    exact mapping_sem E ic K m e (by simpa [parseIdentifier] using h) hq d
  | seq ys =>
    cases ys with
    | nil => simp [parseIdentifier] at h
    | cons a r =>
      simp only [parseIdentifier] at h
      split at h
      · cases h
      · rename_i es hes
        cases h
        intro d
        rw [C06.solve_group_or, go_sem E ic K (a :: r) es hes hq d]
        rfl
  | _ => simp [parseIdentifier] at h

end
end Tau.C02

namespace Tau.C02
open Tau

/-! ### Rule level: a loaded rule evaluates to the documented meaning of its text -/

def rawLookup : List (Str × Yaml) → Str → Option Yaml
  | [], _ => none
  | (k, v) :: rest, key => if k == key then some v else rawLookup rest key

/-- Conditions without all()/of(). -/
def Cond.noQ : Cond → Bool
  | .id _ => true
  | .not c => c.noQ
  | .and a b => a.noQ && b.noQ
  | .or a b => a.noQ && b.noQ
  | .all _ => false
  | .of _ _ => false

theorem cons_lookup (E : RegexEngine) (ic : Bool) : ∀ (pre ids : Ids) (raw : List (Str × Yaml)),
    C14.Cons E ic pre ids raw → ∀ i,
      (lookupId ids i = none ∧ rawLookup raw i = none) ∨
      (∃ b y, lookupId ids i = some b ∧ rawLookup raw i = some y ∧ parseIdentifier E ic y = .ok b)
  | _, [], [], _, i => Or.inl ⟨rfl, rfl⟩
  | _, [], _ :: _, h, _ => h.elim
  | _, _ :: _, [], h, _ => by obtain ⟨k, e⟩ := ‹Str × Expr›; exact h.elim
  | pre, (k, e) :: ids, (k', v) :: raw, h, i => by
    obtain ⟨h1, h2, _, _, h5⟩ := h
    subst h1
    simp only [lookupId, rawLookup]
    by_cases hk : (k == i) = true
    · simp only [hk, if_true]
      exact Or.inr ⟨e, v, rfl, rfl, h2⟩
    · simp only [hk, Bool.false_eq_true, if_false]
      exact cons_lookup E ic _ ids raw h5 i

theorem rawLookup_mem (raw : List (Str × Yaml)) (i : Str) (y : Yaml) (h : rawLookup raw i = some y) :
    (i, y) ∈ raw := by
  induction raw with
  | nil => simp [rawLookup] at h
  | cons x xs ih =>
    obtain ⟨k, v⟩ := x
    simp only [rawLookup] at h
    split at h
    · rename_i hk; cases h; simp at hk; subst hk; simp
    · exact List.mem_cons_of_mem _ (ih h)

/-- The loader keeps raw and parsed identifiers consistent (from C14). -/
theorem loaded_cons (E : RegexEngine) (ic : Bool) (entries : List (Str × Yaml)) (det : Detection)
    (h : loadDetection E ic entries = .ok det) : C14.Cons E ic [] det.ids det.idsRaw := by
  unfold loadDetection at h
  cases h1 : loadEntries E ic entries {} with
  | error e => rw [h1] at h; cases h
  | ok st =>
    rw [h1] at h
    have hc := C14.loadEntries_cons E ic entries {} st trivial h1
    simp only at h
    split at h
    · cases h
    · split at h
      · cases h
      · split at h
        · cases h
        · split at h
          · cases h
          · split at h
            · cases h
            · cases h; exact hc

/-- **A loaded rule means what its text says.** For a detection block that loads, whose condition
    uses identifiers with and/or/not and whose identifier values use no all()/of() keys: on every
    document the three-valued result of the rule is the documented table of the condition applied
    to the denotational semantics of the identifier values as written (`semIdent` on the raw YAML). -/
theorem rule_refines (E : RegexEngine) (ic : Bool) (entries : List (Str × Yaml)) (det : Detection)
    (h : loadDetection E ic entries = .ok det) (c : Cond) (hc : det.expr = c.toExpr) (hnq : c.noQ = true)
    (hids : ∀ p ∈ det.idsRaw, nqIdent p.2 = true) (doc : Doc) :
    solveTop E det.ids doc det.expr =
      Spec.cond (fun i => match rawLookup det.idsRaw i with
                          | some y => semIdent E ic closedK y doc
                          | none => .m) (fun _ => []) c := by
  have hcons := loaded_cons E ic entries det h
  rw [hc]
  clear hc
  induction c with
  | id i =>
    simp only [Cond.toExpr, Spec.cond, solveTop, solveG, topK]
    rcases cons_lookup E ic [] det.ids det.idsRaw hcons i with ⟨h1, h2⟩ | ⟨b, y, h1, h2, h3⟩
    · simp only [h1, h2]
    · simp only [h1, h2]
      exact identifier_refines E ic closedK y b h3 (hids (i, y) (rawLookup_mem _ i y h2)) doc
  | not c ih =>
    simp only [Cond.noQ] at hnq
    simp only [Cond.toExpr, Spec.cond, ← ih hnq]
    simp [solveTop, solveG]
  | and a b iha ihb =>
    simp only [Cond.noQ, Bool.and_eq_true] at hnq
    simp only [Cond.toExpr, Spec.cond, ← iha hnq.1, ← ihb hnq.2]
    simp [solveTop, solveG, binAnd_eq]
  | or a b iha ihb =>
    simp only [Cond.noQ, Bool.and_eq_true] at hnq
    simp only [Cond.toExpr, Spec.cond, ← iha hnq.1, ← ihb hnq.2]
    simp [solveTop, solveG, binOr_eq]
  | all i => simp [Cond.noQ] at hnq
  | of i n => simp [Cond.noQ] at hnq

end Tau.C02

/-! ### Rule level with quantifiers in the condition -/

namespace Tau.C02
open Tau

section
variable (E : RegexEngine) (ic : Bool) (K : IdentK)

/-- The top-level entries of an identifier value as all(X) / of(X, n) count them: the entries of a
    mapping with at least two entries (in written order), the mappings of a sequence. `none`: the
    identifier is not a list of entries (a one-entry mapping stands for its entry; what the
    quantifiers do with that is C08's subject and its recorded finding). -/
def semTop (y : Yaml) (d : Doc) : Option (List Tri) :=
  match y with
  | .map (p :: q :: rest) => some (semEntries E ic K (p :: q :: rest) d)
  | .seq (a :: r) => some ((a :: r).map (fun y => match y with | .map m => Tri.and (semEntries E ic K m d) | _ => .m))
  | _ => none

def wide : Yaml → Bool
  | .map (_ :: _ :: _) => true
  | .seq (_ :: _) => true
  | _ => false

theorem parseEntries_length : ∀ (kvs : List (Yaml × Yaml)) (es : List Expr),
    parseEntries E ic kvs = .ok es → es.length = kvs.length
  | [], es, h => by simp [parseEntries] at h; subst h; rfl
  | p :: rest, es, h => by
    simp only [parseEntries] at h
    split at h
    · cases h
    · split at h
      · cases h
      · rename_i xs hxs
        cases h
        simp only [List.length_cons, parseEntries_length rest xs hxs]

/-- **An identifier that is a list of entries parses to a group of exactly those entries**, each
    evaluating to the documented meaning of the entry as written. -/
theorem identifier_top_refines (y : Yaml) (e : Expr) (h : parseIdentifier E ic y = .ok e)
    (hq : nqIdent y = true) (hw : wide y = true) :
    ∃ op es, e = .group op es ∧ ∀ d, some (es.map (solveG E K d)) = semTop E ic K y d := by
  cases y with
  | map m =>
    match m, hw with
    | p :: q :: rest, _ =>
      simp only [parseIdentifier, parseMapping] at h
      cases hes : parseEntries E ic (p :: q :: rest) with
      | error err => rw [hes] at h; simp [finishMapping] at h
      | ok es =>
        rw [hes] at h
        have hlen := parseEntries_length E ic _ es hes
        obtain ⟨h1, _⟩ := entries_sem E ic K _ es hes hq
        match es, hlen with
        | x1 :: x2 :: xs, _ =>
          simp only [finishMapping] at h
          cases h
          exact ⟨.and, x1 :: x2 :: xs, rfl, fun d => by simp only [semTop, h1 d]⟩
  | seq ys =>
    match ys, hw with
    | a :: r, _ =>
      simp only [parseIdentifier] at h
      split at h
      · cases h
      · rename_i es hes
        cases h
        refine ⟨.or, es, rfl, fun d => ?_⟩
        simp only [semTop]
        rw [go_sem E ic K (a :: r) es hes hq d]
        all_goals rfl
  | _ => simp [wide] at hw

end

/-- The identifiers a condition quantifies over. -/
def Cond.quantified : Cond → List Str
  | .id _ => []
  | .not c => c.quantified
  | .and a b => a.quantified ++ b.quantified
  | .or a b => a.quantified ++ b.quantified
  | .all i => [i]
  | .of i _ => [i]

/-- **A loaded rule means what its text says — with all(X) and of(X, n) in the condition.** As
    `rule_refines`, for EVERY condition of the language: identifiers under a quantifier have to be
    lists of entries (`wide`: a mapping with at least two entries, or a sequence of mappings), and
    the quantifier then counts the documented meanings of those entries as written. -/
theorem rule_refines_quantified (E : RegexEngine) (ic : Bool) (entries : List (Str × Yaml)) (det : Detection)
    (h : loadDetection E ic entries = .ok det) (c : Cond) (hc : det.expr = c.toExpr)
    (hids : ∀ p ∈ det.idsRaw, nqIdent p.2 = true)
    (hwide : ∀ i ∈ c.quantified, ∃ y, rawLookup det.idsRaw i = some y ∧ wide y = true) (doc : Doc) :
    solveTop E det.ids doc det.expr =
      Spec.cond (fun i => match rawLookup det.idsRaw i with
                          | some y => semIdent E ic closedK y doc
                          | none => .m)
                (fun i => match rawLookup det.idsRaw i with
                          | some y => (semTop E ic closedK y doc).getD []
                          | none => []) c := by
  have hcons := loaded_cons E ic entries det h
  rw [hc]
  clear hc
  have key : ∀ i, (∃ y, rawLookup det.idsRaw i = some y ∧ wide y = true) →
      ∃ op es, lookupId det.ids i = some (.group op es) ∧
        es.map (solveClosed E doc) = (match rawLookup det.idsRaw i with
                          | some y => (semTop E ic closedK y doc).getD []
                          | none => []) := by
    intro i ⟨y, hy, hw⟩
    rcases cons_lookup E ic [] det.ids det.idsRaw hcons i with ⟨_, h2⟩ | ⟨b, y', h1, h2, h3⟩
    · rw [h2] at hy; cases hy
    · rw [h2] at hy; cases hy
      obtain ⟨op, es, rfl, hs⟩ := identifier_top_refines E ic closedK y b h3
        (hids (i, y) (rawLookup_mem _ i y h2)) hw
      refine ⟨op, es, h1, ?_⟩
      simp only [h2, ← hs doc, Option.getD_some]
      rfl
  induction c with
  | id i =>
    simp only [Cond.toExpr, Spec.cond, solveTop, solveG, topK]
    rcases cons_lookup E ic [] det.ids det.idsRaw hcons i with ⟨h1, h2⟩ | ⟨b, y, h1, h2, h3⟩
    · simp only [h1, h2]
    · simp only [h1, h2]
      exact identifier_refines E ic closedK y b h3 (hids (i, y) (rawLookup_mem _ i y h2)) doc
  | not c ih =>
    simp only [Cond.toExpr, Spec.cond, ← ih (fun i hi => hwide i hi)]
    simp [solveTop, solveG]
  | and a b iha ihb =>
    simp only [Cond.toExpr, Spec.cond,
      ← iha (fun i hi => hwide i (by simp [Cond.quantified, hi])),
      ← ihb (fun i hi => hwide i (by simp [Cond.quantified, hi]))]
    simp [solveTop, solveG, binAnd_eq]
  | or a b iha ihb =>
    simp only [Cond.toExpr, Spec.cond,
      ← iha (fun i hi => hwide i (by simp [Cond.quantified, hi])),
      ← ihb (fun i hi => hwide i (by simp [Cond.quantified, hi]))]
    simp [solveTop, solveG, binOr_eq]
  | all i =>
    obtain ⟨op, es, hl, hs⟩ := key i (hwide i (by simp [Cond.quantified]))
    simp only [Cond.toExpr, Spec.cond, ← hs]
    exact C06.solve_all_ident E det.ids doc i op es hl
  | of i n =>
    obtain ⟨op, es, hl, hs⟩ := key i (hwide i (by simp [Cond.quantified]))
    simp only [Cond.toExpr, Spec.cond, ← hs]
    exact C06.solve_of_ident E det.ids doc i n op es hl

/-- Non-vacuity: a sequence of two mappings and a two-entry mapping meet the hypotheses. -/
example :
    let X : Yaml := .seq [.map [(.str "a".toList, .str "x".toList)], .map [(.str "b".toList, .num (.int 2)), (.str "c".toList, .str "y*".toList)]]
    let M : Yaml := .map [(.str "a".toList, .str "x".toList), (.str "not(b)".toList, .seq [.str "p".toList, .str "?q".toList])]
    wide X = true ∧ nqIdent X = true ∧ wide M = true ∧ nqIdent M = true ∧
    (Cond.or (.of "X".toList 2) (.not (.all "M".toList))).quantified = ["X".toList, "M".toList] := by
  refine ⟨rfl, by decide, rfl, by decide, rfl⟩

end Tau.C02
