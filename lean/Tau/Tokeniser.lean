import Tau.Syntax
import Tau.Num
/-
  Tau.Tokeniser — model of `impl Tokeniser for String` (tokeniser.rs:158-317).
  The loop is driven by fuel = input length + 1; every branch either consumes at least one
  character or returns, so the fuel never runs out (`Tau.Proofs.Tokeniser`).
-/
namespace Tau

/-- `match_ahead` (tokeniser.rs:307). -/
def matchAhead (s kw : Str) : Bool := kw.isPrefixOf s

/-- Characters `consume_while` accepts inside an identifier (tokeniser.rs:210-217). -/
def isIdentChar (a : Char) : Bool :=
  isAlphanumeric a || a == '_' || a == '.' || a == '#' || a == '[' || a == ']'

def isNumChar (a : Char) : Bool := isNumeric a || a == '.'

/-- Keyword table, in the order the source tests it: text looked ahead, token, characters consumed. -/
def keywords : List (Str × Token × Nat) :=
  [ ("flt(".toList, .modifier .flt, 3),
    ("int(".toList, .modifier .int, 3),
    ("string(".toList, .modifier .str, 6),
    ("str(".toList, .modifier .str, 3),
    ("and ".toList, .op .and, 3),
    ("or ".toList, .op .or, 2),
    ("not ".toList, .miscNot, 3),
    ("not(".toList, .modifier .not, 3),
    ("all(".toList, .matchAll, 3),
    ("of(".toList, .matchOf, 2) ]

def findKeyword (s : Str) : Option (Token × Nat) :=
  match keywords.find? (fun k => matchAhead s k.1) with
  | some (_, t, n) => some (t, n)
  | none => none

/-- One step of the loop on a non-empty input: the token produced (if any) and the rest. -/
def tokStep (c : Char) (cs : Str) : Except Err (Option Token × Str) :=
  let s := c :: cs
  if c == '.' || c == '-' || isAsciiDigit c then
    let number := s.takeWhile isNumChar
    let rest := s.dropWhile isNumChar
    if number.contains '.' then
      match F64.parse number with
      | some b => .ok (some (.float b), rest)
      | none => .error .tokInvalidNum
    else
      match parseI64 number with
      | some i => .ok (some (.int i), rest)
      | none => .error .tokInvalidNum
  else if isAsciiAlpha c || c == '#' then
    match findKeyword s with
    | some (t, n) => .ok (some t, s.drop n)
    | none => .ok (some (.ident (s.takeWhile isIdentChar)), s.dropWhile isIdentChar)
  else if isTokWs c then .ok (none, cs)
  else if c == '=' then
    match cs with
    | '=' :: r => .ok (some (.op .eq), r)
    | _ => .error .tokInvalidChar
  else if c == '<' then
    match cs with
    | '=' :: r => .ok (some (.op .le), r)
    | _ => .ok (some (.op .lt), cs)
  else if c == '>' then
    match cs with
    | '=' :: r => .ok (some (.op .ge), r)
    | _ => .ok (some (.op .gt), cs)
  else if c == ',' then .ok (some .comma, cs)
  else if c == '(' then .ok (some .lparen, cs)
  else if c == ')' then .ok (some .rparen, cs)
  else .error .tokInvalidChar

def tokLoop : Nat → Str → List Token → Except Err (List Token)
  | 0, _, _ => .error (.panic "tokenise: out of fuel")
  | _ + 1, [], acc => .ok acc.reverse
  | fuel + 1, c :: cs, acc =>
    match tokStep c cs with
    | .error e => .error e
    | .ok (none, rest) => tokLoop fuel rest acc
    | .ok (some t, rest) => tokLoop fuel rest (t :: acc)

def tokenise (s : Str) : Except Err (List Token) := tokLoop (s.length + 1) s []

end Tau
