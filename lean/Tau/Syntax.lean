import Tau.Base
/-
  Tau.Syntax — data types mirroring tokeniser.rs / parser.rs / value.rs constructor for constructor.
-/
namespace Tau

/-- `tokeniser::BoolSym`. -/
inductive BoolSym where
  | and | eq | gt | ge | lt | le | or
  deriving DecidableEq, Repr, Inhabited

/-- `tokeniser::ModSym`. -/
inductive ModSym where
  | flt | int | not | str
  deriving DecidableEq, Repr, Inhabited

/-- `tokeniser::Token`. Floats are carried as their IEEE-754 binary64 bit pattern. -/
inductive Token where
  | comma | lparen | rparen
  | float (bits : Nat)
  | ident (s : Str)
  | int (i : Int)
  | op (o : BoolSym)
  | modifier (m : ModSym)
  | miscNot
  | matchAll | matchOf
  deriving DecidableEq, Repr, Inhabited

/-- `Token::binding_power` (tokeniser.rs:109). -/
def Token.bp : Token → Nat
  | .op .and => 70
  | .op .or => 80
  | .op _ => 90
  | .miscNot => 95
  | .modifier _ => 60
  | .matchAll | .matchOf => 60
  | _ => 0

/-- `parser::Match`. -/
inductive MatchK where
  | all | of (n : Nat)
  deriving DecidableEq, Repr, Inhabited

/-- `parser::MatchType`. -/
inductive MatchType where
  | contains (s : Str) | endsWith (s : Str) | exact (s : Str) | startsWith (s : Str)
  deriving DecidableEq, Repr, Inhabited

def MatchType.value : MatchType → Str
  | .contains s | .endsWith s | .exact s | .startsWith s => s

/-- `parser::Search`.  The automaton is represented by its context vector (the needles are
    `ctx.map value` at every construction site in the source); regexes by pattern text + flag. -/
inductive Search where
  | ac (ctx : List MatchType) (ci : Bool)
  | any
  | contains (s : Str)
  | endsWith (s : Str)
  | exact (s : Str)
  | regex (p : Str) (ci : Bool)
  | regexSet (ps : List Str) (ci : Bool)
  | startsWith (s : Str)
  deriving DecidableEq, Repr, Inhabited

/-- `parser::Expression`. -/
inductive Expr where
  | group (op : BoolSym) (es : List Expr)
  | bin (l : Expr) (op : BoolSym) (r : Expr)
  | bool (b : Bool)
  | cast (f : Str) (m : ModSym)
  | field (f : Str)
  | float (bits : Nat)
  | ident (n : Str)
  | int (i : Int)
  | «match» (k : MatchK) (e : Expr)
  | matrix (cols : List Str) (rows : List (List (Option Expr)))
  | negate (e : Expr)
  | nested (f : Str) (e : Expr)
  | null
  | search (s : Search) (f : Str) (cast : Bool)
  deriving Repr, Inhabited

/-- `Expression::is_solvable` (parser.rs:155). -/
def Expr.isSolvable : Expr → Bool
  | .bool _ | .cast _ _ | .field _ | .float _ | .int _ | .null => false
  | _ => true

/-- Document values (`value::Value`). A float carries its bit pattern and its Rust `Display`
    text (supplied by the harness, see DESIGN §4.3). -/
inductive Value where
  | null
  | bool (b : Bool)
  | flt (bits : Nat) (shown : Str)
  | int (i : Int)
  | uint (n : Nat)
  | str (s : Str)
  | arr (xs : List Value)
  | obj (kvs : List (Str × Value))
  deriving Repr, Inhabited

/-- A YAML number as serde_yaml classifies it. -/
inductive YNum where
  | int (i : Int)                       -- fits i64 (as_i64 is Some)
  | big (n : Nat) (bits : Nat) (shown : Str)  -- u64 above i64::MAX: as_i64 None, as_f64 = n as f64
  | flt (bits : Nat) (shown : Str)
  deriving Repr, Inhabited

/-- `serde_yaml::Value` as the rule loader sees it. -/
inductive Yaml where
  | null
  | bool (b : Bool)
  | num (n : YNum)
  | str (s : Str)
  | seq (xs : List Yaml)
  | map (kvs : List (Yaml × Yaml))
  | tagged (inner : Yaml)
  deriving Repr, Inhabited

/-- Error kinds (error.rs), reduced to what the correspondence compares; `panic` is a value. -/
inductive Err where
  | tokInvalidChar | tokInvalidNum
  | parseInvalidIdent | parseInvalidExpr | parseInvalidToken | parseLedFollowing | parseLedPreceding
  | rule (why : String)
  | panic (site : String)
  | unsupported (why : String)
  deriving DecidableEq, Repr, Inhabited

end Tau
