/-
  Tau.Base — three-valued results, strings as `List Char`, character classes.
  Model files import nothing outside this package (so the driver links as a `lean_exe`).
-/
namespace Tau

/-- A string is a list of Unicode scalar values (Rust `str` seen through `.chars()`). -/
abbrev Str := List Char

/-- `solver::SolverResult`. -/
inductive Tri where
  | t | f | m
  deriving DecidableEq, Repr, Inhabited

namespace Tri

/-- `Expression::Negate` (solver.rs:701): swaps true/false, missing becomes false. -/
def not : Tri → Tri
  | .t => .f
  | .f => .t
  | .m => .f

/-- Declarative table for `or`: true if any true, else false if any false, else missing. -/
def or (xs : List Tri) : Tri :=
  if xs.any (· == .t) then .t else if xs.any (· == .f) then .f else .m

/-- Declarative table for `and`: the first non-true operand result, true if there is none. -/
def and (xs : List Tri) : Tri :=
  match xs.find? (· != .t) with
  | some x => x
  | none => .t

/-- Number of true operands. -/
def count (xs : List Tri) : Nat := xs.countP (· == .t)

/-- `of(.., n)`: n ≥ 1: at least n true ⇒ true, else false if some operand false, else missing;
    n = 0: some true ⇒ false, else true if some operand false, else missing
    (this is what the group loop of solver.rs:612-649 computes). -/
def ofN (n : Nat) (xs : List Tri) : Tri :=
  if n = 0 then
    if xs.any (· == .t) then .f else if xs.any (· == .f) then .t else .m
  else
    if n ≤ count xs then .t else if xs.any (· == .f) then .f else .m

def ofBool (b : Bool) : Tri := if b then .t else .f

def isT : Tri → Bool
  | .t => true
  | _ => false

end Tri

/-! ### Characters -/

def isAsciiDigit (c : Char) : Bool := '0' ≤ c && c ≤ '9'
def isAsciiLower (c : Char) : Bool := 'a' ≤ c && c ≤ 'z'
def isAsciiUpper (c : Char) : Bool := 'A' ≤ c && c ≤ 'Z'
def isAsciiAlpha (c : Char) : Bool := isAsciiLower c || isAsciiUpper c
def isAscii (c : Char) : Bool := c.val < 128

/-- Character classes of the non-ASCII characters the generators use.  `char::is_alphanumeric`,
    `char::is_numeric` and `char::to_lowercase` are exact on ASCII; on other characters the
    model knows only this table and the driver answers `unsupported` elsewhere. -/
inductive UClass where
  | alpha (lower : Char)   -- alphabetic; simple lowercase mapping
  | numeric                -- Nd/Nl/No
  | other                  -- neither
  deriving Repr

def uclass? (c : Char) : Option UClass :=
  if c = 'Ä' then some (.alpha 'ä') else
  if c = 'ä' then some (.alpha 'ä') else
  if c = 'é' then some (.alpha 'é') else
  if c = 'É' then some (.alpha 'é') else
  if c = 'ß' then some (.alpha 'ß') else
  if c = '日' then some (.alpha '日') else
  if c = 'Ж' then some (.alpha 'ж') else
  if c = 'ж' then some (.alpha 'ж') else
  if c = '٣' then some .numeric else
  if c = '²' then some .numeric else
  if c = '½' then some .numeric else
  if c = '√' then some .other else
  if c = '€' then some .other else
  if c = ' ' then some .other else
  if c = '😀' then some .other else
  none

/-- Is every character either ASCII or in the table? -/
def supportedChar (c : Char) : Bool := isAscii c || (uclass? c).isSome
def supportedStr (s : Str) : Bool := s.all supportedChar

/-- `char::is_numeric` (exact on ASCII; the class table elsewhere). -/
def isNumeric (c : Char) : Bool :=
  isAsciiDigit c ||
    (!isAscii c && (match uclass? c with
      | some .numeric => true
      | _ => false))

/-- `char::is_alphanumeric` (exact on ASCII; the class table elsewhere). -/
def isAlphanumeric (c : Char) : Bool :=
  isAsciiAlpha c || isAsciiDigit c ||
    (!isAscii c && (match uclass? c with
      | some (.alpha _) => true
      | some .numeric => true
      | _ => false))

def asciiLowerChar (c : Char) : Char :=
  if isAsciiUpper c then Char.ofNat (c.toNat + 32) else c

/-- `str::to_lowercase` (Unicode; on the table it is the simple mapping). -/
def lowerChar (c : Char) : Char :=
  if isAscii c then asciiLowerChar c else
  match uclass? c with
  | some (.alpha l) => l
  | _ => c

def toLowercase (s : Str) : Str := s.map lowerChar
def toAsciiLowercase (s : Str) : Str := s.map asciiLowerChar

/-- ASCII whitespace accepted by the tokeniser: `' ' | '\x09'..='\x0d'`. -/
def isTokWs (c : Char) : Bool := c = ' ' || (9 ≤ c.toNat && c.toNat ≤ 13)

/-! ### Orders used by the optimiser's `sort_by` calls and ordered maps -/

/-- Lexicographic comparison by code point (= Rust `str` `Ord`, UTF-8 preserves code-point order). -/
def strCmp : Str → Str → Ordering
  | [], [] => .eq
  | [], _ :: _ => .lt
  | _ :: _, [] => .gt
  | a :: as, b :: bs =>
    if a.toNat < b.toNat then .lt else if b.toNat < a.toNat then .gt else strCmp as bs

def strLe (a b : Str) : Bool := strCmp a b != .gt

/-- Stable insertion sort (Rust `sort_by` is stable). `le a b` = "a may stay before b". -/
def insertSorted {α} (le : α → α → Bool) (x : α) : List α → List α
  | [] => [x]
  | y :: ys => if le y x then y :: insertSorted le x ys else x :: y :: ys

/-- Stable: equal elements keep their input order (an element is inserted after all `≤` ones). -/
def stableSort {α} (le : α → α → Bool) (xs : List α) : List α :=
  xs.foldl (fun acc x => insertSorted le x acc) []

end Tau
