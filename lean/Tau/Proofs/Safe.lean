import Tau.Safe
import Tau.Proofs.Frame
import Tau.Proofs.Pratt
/-
  `safe` trees never reach a panic site of the solver.
-/
set_option linter.unusedSimpArgs false
set_option linter.unnecessarySimpa false
namespace Tau

/-- Documents whose `find` cannot panic (everything except the private matrix cache). -/
def NoFP (d : Doc) : Prop := ∀ k, d.findPanics k = false

theorem noFP_obj (kvs : List (Str × Value)) : NoFP (.obj kvs) := fun _ => rfl
theorem noFP_user (g : Str → Option Value) : NoFP (.user g) := fun _ => rfl
theorem noFP_pass (v : Option Value) : NoFP (.pass v) := fun _ => rfl

theorem operandHits_noFP (d : Doc) (h : NoFP d) (e : Expr) : operandHits d e = false := by
  cases e <;> simp [operandHits]
  case field f => exact h f
  case cast f m => cases m <;> simp [operandHits, h f]

theorem cmpHits_noFP (d : Doc) (h : NoFP d) (l : Expr) (op : BoolSym) (r : Expr) :
    cmpHits d l op r = false := by
  unfold cmpHits
  split
  · rename_i lf rf
    simp only [h lf, h rf, Bool.false_or, Bool.and_false]
    cases d.find lf <;> simp
  · exact h _
  · exact h _
  · simp only [operandHits_noFP d h, Bool.false_or]
    cases operand d l <;> simp

theorem anyUntil_false {α} (hit isT : α → Bool) (xs : List α) (h : ∀ x ∈ xs, hit x = false) :
    anyUntil hit isT xs = false := by
  induction xs with
  | nil => rfl
  | cons x xs ih =>
    simp only [anyUntil, h x (by simp), Bool.false_or, ih (fun y hy => h y (by simp [hy])), Bool.and_false]

theorem colKey_toNat (i : Nat) (h : i < 55296) : (colKey i) = [Char.ofNat i] ∧ (Char.ofNat i).toNat = i := by
  refine ⟨rfl, ?_⟩
  have hv : Nat.isValidChar i := Or.inl h
  simp [Char.ofNat, hv, Char.ofNatAux, Char.toNat]

theorem cache_find_noPanic (cache : List (Option Value)) (i : Nat) (hi : i < cache.length) (h55 : i < 55296) :
    (Doc.cache cache).findPanics (colKey i) = false := by
  have := (colKey_toNat i h55).2
  simp [Doc.findPanics, colKey, this]
  omega

end Tau

namespace Tau

theorem sizeRow_mem (row : List (Option Expr)) (e : Expr) (h : some e ∈ row) :
    e.size ≤ Expr.size.sizeRow row := by
  induction row with
  | nil => cases h
  | cons c cs ih =>
    cases c with
    | none =>
      simp only [Expr.size.sizeRow]
      have := ih (by simpa using h); omega
    | some x =>
      simp only [Expr.size.sizeRow]
      rcases List.mem_cons.mp h with h' | h'
      · cases h'; omega
      · have := ih h'; omega

theorem sizeRows_mem (rows : List (List (Option Expr))) (row : List (Option Expr)) (h : row ∈ rows) :
    Expr.size.sizeRow row ≤ Expr.size.sizeRows rows := by
  induction rows with
  | nil => cases h
  | cons r rs ih =>
    simp only [Expr.size.sizeRows]
    rcases List.mem_cons.mp h with rfl | h'
    · omega
    · have := ih h'; omega

theorem rowG_cache_length (E : RegexEngine) (K : IdentK) (d : Doc) (cols : List Str) :
    ∀ (row : List (Option Expr)) (i : Nat) (cache : List (Option Value)),
      (rowG E K d cols row i cache).2.length = cache.length
  | [], _, _ => by simp [rowG]
  | none :: cells, i, cache => by simp only [rowG]; exact rowG_cache_length E K d cols cells (i + 1) cache
  | some e :: cells, i, cache => by
    simp only [rowG]
    split
    · rfl
    · rename_i cache' hfill
      have hlen : cache'.length = cache.length := by
        revert hfill
        split
        · intro h; cases h; rfl
        · split
          · intro h; cases h
          · split
            · intro h; cases h; simp [cacheSet]
            · intro h; cases h
      split
      · rw [rowG_cache_length E K d cols cells (i + 1) cache', hlen]
      · exact hlen

/-- Cell-level statement used inside the induction. -/
def CellsOK (E : RegexEngine) (K : IdentK) (H : HitK) (row : List (Option Expr)) : Prop :=
  ∀ e, some e ∈ row → ∀ i (cache : List (Option Value)), cellKeyOk i e = true → i < cache.length → i < 55296 →
    hitsG E K H (.cache cache) e = false

theorem rowH_false (E : RegexEngine) (K : IdentK) (H : HitK) (defd : Str → Bool) (d : Doc) (hd : NoFP d)
    (cols : List Str) (hcols : cols.length < 55296) :
    ∀ (row : List (Option Expr)) (i : Nat) (cache : List (Option Value)),
      CellsOK E K H row → safeRow defd row i = true → row.length + i ≤ cols.length →
      cache.length = cols.length → rowH E K H d cols row i cache = false
  | [], _, _, _, _, _, _ => by simp [rowH]
  | none :: cells, i, cache, hc, hs, hl, hcl => by
    simp only [rowH]
    exact rowH_false E K H defd d hd cols hcols cells (i + 1) cache
      (fun e he => hc e (by simp [he])) (by simpa [safeRow] using hs) (by simp at hl; omega) hcl
  | some e :: cells, i, cache, hc, hs, hl, hcl => by
    simp only [safeRow, Bool.and_eq_true] at hs
    obtain ⟨⟨hkey, _⟩, hrest⟩ := hs
    simp only [List.length_cons] at hl
    have hi : i < cols.length := by omega
    have hic : i < cache.length := by omega
    have hcell := hc e (by simp)
    have hrec : ∀ c : List (Option Value), c.length = cols.length →
        rowH E K H d cols cells (i + 1) c = false :=
      fun c hcl' => rowH_false E K H defd d hd cols hcols cells (i + 1) c
        (fun e' he' => hc e' (by simp [he'])) hrest (by omega) hcl'
    simp only [rowH]
    have hnot : ¬ (cache.length ≤ i) := by omega
    simp only [hnot, if_false]
    split
    · simp [hcell i cache hkey hic (by omega), hrec cache hcl]
    · have hcol : cols[i]? = some cols[i] := List.getElem?_eq_getElem hi
      simp only [hcol, hd cols[i], Bool.false_or]
      cases hf : d.find cols[i] with
      | none => rfl
      | some v =>
        have hlen' : (cacheSet cache i v).length = cols.length := by simp [cacheSet, hcl]
        simp [hcell i (cacheSet cache i v) hkey (by omega) (by omega), hrec _ hlen']

theorem rowsH_false (E : RegexEngine) (K : IdentK) (H : HitK) (defd : Str → Bool) (d : Doc) (hd : NoFP d)
    (cols : List Str) (hcols : cols.length < 55296) (stop : Tri → Bool) :
    ∀ (rows : List (List (Option Expr))) (cache : List (Option Value)),
      (∀ row ∈ rows, CellsOK E K H row) → safeRows defd cols.length rows = true →
      cache.length = cols.length → (rowsH E K H d cols rows cache stop).1 = false
  | [], _, _, _, _ => by simp [rowsH]
  | row :: rows, cache, hc, hs, hcl => by
    simp only [safeRows, Bool.and_eq_true, decide_eq_true_eq] at hs
    obtain ⟨⟨hlen, hrow⟩, hrest⟩ := hs
    simp only [rowsH]
    have h1 := rowH_false E K H defd d hd cols hcols row 0 cache (hc row (by simp)) hrow (by omega) hcl
    simp only [h1, Bool.false_eq_true, if_false]
    split
    · rfl
    · exact rowsH_false E K H defd d hd cols hcols stop rows _ (fun r hr => hc r (by simp [hr])) hrest
        (by rw [rowG_cache_length]; exact hcl)

theorem rowsOfH_false (E : RegexEngine) (K : IdentK) (H : HitK) (defd : Str → Bool) (d : Doc) (hd : NoFP d)
    (cols : List Str) (hcols : cols.length < 55296) (c : Nat) :
    ∀ (rows : List (List (Option Expr))) (cache : List (Option Value)) (hits : Nat),
      (∀ row ∈ rows, CellsOK E K H row) → safeRows defd cols.length rows = true →
      cache.length = cols.length → rowsOfH E K H d cols rows cache c hits = false
  | [], _, _, _, _, _ => by simp [rowsOfH]
  | row :: rows, cache, hits, hc, hs, hcl => by
    simp only [safeRows, Bool.and_eq_true, decide_eq_true_eq] at hs
    obtain ⟨⟨hlen, hrow⟩, hrest⟩ := hs
    simp only [rowsOfH]
    have h1 := rowH_false E K H defd d hd cols hcols row 0 cache (hc row (by simp)) hrow (by omega) hcl
    have hrec : ∀ n, rowsOfH E K H d cols rows (rowG E K d cols row 0 cache).2 c n = false :=
      fun n => rowsOfH_false E K H defd d hd cols hcols c rows _ n (fun r hr => hc r (by simp [hr])) hrest
        (by rw [rowG_cache_length]; exact hcl)
    simp only [h1, Bool.false_or]
    split
    · split
      · rfl
      · exact hrec _
    · exact hrec _

end Tau

namespace Tau

theorem safeL_mem (defd : Str → Bool) (es : List Expr) (h : safeL defd es = true) : ∀ e ∈ es, safe defd e = true := by
  induction es with
  | nil => intro e he; cases he
  | cons x xs ih =>
    simp only [safeL, Bool.and_eq_true] at h
    intro e he
    rcases List.mem_cons.mp he with rfl | h'
    · exact h.1
    · exact ih h.2 e h'

theorem safeRow_mem (defd : Str → Bool) :
    ∀ (row : List (Option Expr)) (i : Nat), safeRow defd row i = true → ∀ e, some e ∈ row → safe defd e = true
  | [], _, _, e, he => by cases he
  | none :: cells, i, h, e, he => by
    simp only [safeRow] at h
    exact safeRow_mem defd cells (i + 1) h e (by simpa using he)
  | some x :: cells, i, h, e, he => by
    simp only [safeRow, Bool.and_eq_true] at h
    rcases List.mem_cons.mp he with h' | h'
    · cases h'; exact h.1.2
    · exact safeRow_mem defd cells (i + 1) h.2 e h'

theorem safeRows_mem (defd : Str → Bool) (w : Nat) (rows : List (List (Option Expr)))
    (h : safeRows defd w rows = true) : ∀ row ∈ rows, ∀ e, some e ∈ row → safe defd e = true := by
  induction rows with
  | nil => intro r hr; cases hr
  | cons r rs ih =>
    simp only [safeRows, Bool.and_eq_true] at h
    intro row hrow e he
    rcases List.mem_cons.mp hrow with rfl | h'
    · exact safeRow_mem defd _ 0 h.1.2 e he
    · exact ih h.2 row h' e he

theorem andH_false (E : RegexEngine) (K : IdentK) (H : HitK) (d : Doc) (es : List Expr)
    (h : ∀ e ∈ es, hitsG E K H d e = false) : andH E K H d es = false := by
  induction es with
  | nil => rfl
  | cons x xs ih => simp [andH, h x (by simp), ih (fun e he => h e (by simp [he]))]

theorem orH_false (E : RegexEngine) (K : IdentK) (H : HitK) (d : Doc) (es : List Expr)
    (h : ∀ e ∈ es, hitsG E K H d e = false) : orH E K H d es = false := by
  induction es with
  | nil => rfl
  | cons x xs ih => simp [orH, h x (by simp), ih (fun e he => h e (by simp [he]))]

theorem ofH_false (E : RegexEngine) (K : IdentK) (H : HitK) (d : Doc) (c : Nat) (es : List Expr)
    (h : ∀ e ∈ es, hitsG E K H d e = false) : ∀ count, ofH E K H d c count es = false := by
  induction es with
  | nil => intro _; rfl
  | cons x xs ih =>
    intro count
    have ih' := ih (fun e he => h e (by simp [he]))
    simp only [ofH, h x (by simp), Bool.false_or]
    split
    · split
      · rfl
      · split
        · rfl
        · exact ih' _
    · exact ih' _

theorem nestedAllOrH_false (E : RegexEngine) (K : IdentK) (H : HitK) (objs : List (List (Str × Value)))
    (es : List Expr) (h : ∀ e ∈ es, ∀ kvs, hitsG E K H (.obj kvs) e = false) :
    nestedAllOrH E K H objs es = false := by
  induction es with
  | nil => rfl
  | cons x xs ih =>
    simp only [nestedAllOrH]
    rw [anyUntil_false _ _ objs (fun kvs _ => h x (by simp) kvs), ih (fun e he => h e (by simp [he]))]
    simp

end Tau

namespace Tau

theorem passRowH_false (E : RegexEngine) (K : IdentK) (H : HitK) (defd : Str → Bool) (v : Value) (cols : List Str) :
    ∀ (row : List (Option Expr)) (i : Nat),
      (∀ e, some e ∈ row → ∀ d, NoFP d → hitsG E K H d e = false) →
      row.length + i ≤ cols.length → passRowH E K H v cols row i = false
  | [], _, _, _ => by simp [passRowH]
  | none :: cells, i, hc, hl => by
    simp only [passRowH]
    exact passRowH_false E K H defd v cols cells (i + 1) (fun e he => hc e (by simp [he])) (by simp at hl; omega)
  | some e :: cells, i, hc, hl => by
    simp only [List.length_cons] at hl
    have hi : i < cols.length := by omega
    have hrec := passRowH_false E K H defd v cols cells (i + 1) (fun e' he' => hc e' (by simp [he'])) (by omega)
    simp only [passRowH]
    cases v <;> simp only [hrec]
    rename_i kvs
    have hcol : cols[i]? = some cols[i] := List.getElem?_eq_getElem hi
    simp [hcol, hc e (by simp) _ (noFP_pass _)]

theorem nestedAllMatrixH_false (E : RegexEngine) (K : IdentK) (H : HitK) (defd : Str → Bool) (a : List Value)
    (cols : List Str) (rows : List (List (Option Expr)))
    (hc : ∀ row ∈ rows, ∀ e, some e ∈ row → ∀ d, NoFP d → hitsG E K H d e = false)
    (hl : ∀ row ∈ rows, row.length ≤ cols.length) : nestedAllMatrixH E K H a cols rows = false := by
  induction rows with
  | nil => rfl
  | cons r rs ih =>
    simp only [nestedAllMatrixH]
    have h1 : (a.any fun v => passRowH E K H v cols r 0) = false := by
      apply List.any_eq_false.mpr
      intro v _
      simp [passRowH_false E K H defd v cols r 0 (hc r (by simp)) (by have := hl r (by simp); omega)]
    rw [h1, ih (fun row hr => hc row (by simp [hr])) (fun row hr => hl row (by simp [hr]))]
    simp

theorem safeRows_len (defd : Str → Bool) (w : Nat) (rows : List (List (Option Expr)))
    (h : safeRows defd w rows = true) : ∀ row ∈ rows, row.length ≤ w := by
  induction rows with
  | nil => intro r hr; cases hr
  | cons r rs ih =>
    simp only [safeRows, Bool.and_eq_true, decide_eq_true_eq] at h
    intro row hrow
    rcases List.mem_cons.mp hrow with rfl | h'
    · exact h.1.1
    · exact ih h.2 row h'

theorem operandHits_lit (d : Doc) (r : Expr) (h : isLiteral r = true) : operandHits d r = false := by
  cases r <;> simp [isLiteral] at h <;> rfl

theorem cmpHits_cell (d : Doc) (k : Str) (hk : d.findPanics k = false) (l : Expr)
    (hl : l = .field k ∨ ∃ m, l = .cast k m) (op : BoolSym) (r : Expr) (hr : isLiteral r = true) :
    cmpHits d l op r = false := by
  have hopl : operandHits d l = false := by
    rcases hl with rfl | ⟨m, rfl⟩
    · exact hk
    · cases m <;> simp [operandHits, hk]
  unfold cmpHits
  split
  · -- both sides str casts: the right side is not a literal
    simp [isLiteral] at hr
  · rcases hl with h | ⟨m, h⟩
    · cases h; exact hk
    · cases h
  · rcases hl with h | ⟨m, h⟩
    · cases h; exact hk
    · cases h
  · simp only [hopl, operandHits_lit d r hr, Bool.false_or]
    cases operand d l <;> rfl

/-- **Safe trees never reach a panic site.** Part 1: on every document whose `find` cannot panic
    (mappings, arbitrary user documents); part 2: a matrix cell on the private cache. -/
theorem safe_no_hits (E : RegexEngine) (K : IdentK) (H : HitK) (defd : Str → Bool)
    (hHi : ∀ i d, defd i = true → NoFP d → H.ident i d = false)
    (hHm : ∀ k i d, defd i = true → NoFP d → H.match k i d = false) :
    ∀ (n : Nat) (e : Expr), e.size ≤ n → safe defd e = true →
      (∀ d, NoFP d → hitsG E K H d e = false) ∧
      (∀ i (cache : List (Option Value)), cellKeyOk i e = true → i < cache.length → i < 55296 →
        hitsG E K H (.cache cache) e = false) := by
  intro n
  induction n with
  | zero => intro e hs; cases e <;> simp [Expr.size] at hs
  | succ n ih =>
    intro e hs hsafe
    have members : ∀ (es : List Expr), Expr.size.sizeL es ≤ n → safeL defd es = true →
        ∀ x ∈ es, ∀ d, NoFP d → hitsG E K H d x = false := by
      intro es hsz hsl x hx d hd
      exact (ih x (by have := size_mem_lt es x hx; omega) (safeL_mem defd es hsl x hx)).1 d hd
    have cells : ∀ (rows : List (List (Option Expr))), Expr.size.sizeRows rows ≤ n →
        (∀ row ∈ rows, ∀ e, some e ∈ row → safe defd e = true) →
        (∀ row ∈ rows, CellsOK E K H row) ∧
        (∀ row ∈ rows, ∀ e, some e ∈ row → ∀ d, NoFP d → hitsG E K H d e = false) := by
      intro rows hsz hsr
      constructor
      · intro row hrow e he i cache hk hi h55
        have hsize : e.size ≤ n := by
          have := sizeRow_mem row e he; have := sizeRows_mem rows row hrow; omega
        exact (ih e hsize (hsr row hrow e he)).2 i cache hk hi h55
      · intro row hrow e he d hd
        have hsize : e.size ≤ n := by
          have := sizeRow_mem row e he; have := sizeRows_mem rows row hrow; omega
        exact (ih e hsize (hsr row hrow e he)).1 d hd
    have matrixCase : ∀ cols rows, Expr.size.sizeRows rows ≤ n →
        (decide (cols.length < 55296) && safeRows defd cols.length rows) = true →
        ∀ d, NoFP d → ∀ stop, (rowsH E K H d cols rows (emptyCache cols) stop).1 = false := by
      intro cols rows hsz hs d hd stop
      simp only [Bool.and_eq_true, decide_eq_true_eq] at hs
      exact rowsH_false E K H defd d hd cols hs.1 stop rows _ (cells rows hsz (safeRows_mem defd _ rows hs.2)).1 hs.2
        (by simp [emptyCache])
    cases e with
    | group op es =>
      simp only [Expr.size] at hs
      simp only [safe, Bool.and_eq_true, Bool.or_eq_true, beq_iff_eq] at hsafe
      have hm := members es (by omega) hsafe.2
      refine ⟨fun d hd => ?_, fun i cache hk => by simp [cellKeyOk] at hk⟩
      rcases hsafe.1 with rfl | rfl
      · simp only [hitsG]; exact andH_false E K H d es (fun x hx => hm x hx d hd)
      · simp only [hitsG]; exact orH_false E K H d es (fun x hx => hm x hx d hd)
    | bin l op r =>
      simp only [Expr.size] at hs
      refine ⟨fun d hd => ?_, fun i cache hk hi h55 => ?_⟩
      · cases op
        case and =>
          simp only [safe, Bool.and_eq_true] at hsafe
          simp [hitsG, (ih l (by omega) hsafe.1).1 d hd, (ih r (by omega) hsafe.2).1 d hd]
        case or =>
          simp only [safe, Bool.and_eq_true] at hsafe
          simp [hitsG, (ih l (by omega) hsafe.1).1 d hd, (ih r (by omega) hsafe.2).1 d hd]
        all_goals simp only [hitsG]; exact cmpHits_noFP d hd l _ r
      · -- a comparison cell: `field k op literal` or `cast k op literal`
        have hfp := cache_find_noPanic cache i hi h55
        have hform : (l = .field (colKey i) ∨ ∃ m, l = .cast (colKey i) m) ∧ isLiteral r = true ∧ op ≠ .and ∧ op ≠ .or := by
          cases l <;> simp [cellKeyOk] at hk
          · obtain ⟨⟨⟨hk1, hlit⟩, hop1⟩, hop2⟩ := hk
            exact ⟨Or.inr ⟨_, by rw [hk1]⟩, hlit, hop1, hop2⟩
          · obtain ⟨⟨⟨hk1, hlit⟩, hop1⟩, hop2⟩ := hk
            exact ⟨Or.inl (by rw [hk1]), hlit, hop1, hop2⟩
        obtain ⟨hl, hlit, hop1, hop2⟩ := hform
        cases op <;> simp at hop1 hop2 <;> simp only [hitsG] <;> exact cmpHits_cell _ _ hfp l hl _ r hlit
    | ident i =>
      simp only [safe] at hsafe
      exact ⟨fun d hd => by simp only [hitsG]; exact hHi i d hsafe hd, fun i cache hk => by simp [cellKeyOk] at hk⟩
    | «match» k x =>
      simp only [Expr.size] at hs
      refine ⟨fun d hd => ?_, fun i cache hk => by simp [cellKeyOk] at hk⟩
      have hgen : safe defd x = true → hitsG E K H d x = false :=
        fun hsx => (ih x (by omega) hsx).1 d hd
      cases x with
      | ident i =>
        simp only [safe] at hsafe
        cases k <;> simp only [hitsG] <;> exact hHm _ i d hsafe hd
      | group op es =>
        simp only [Expr.size] at hs
        simp only [safe] at hsafe
        have hm := members es (by omega) hsafe
        cases k <;> simp only [hitsG]
        · exact andH_false E K H d es (fun x hx => hm x hx d hd)
        · exact ofH_false E K H d _ es (fun x hx => hm x hx d hd) 0
      | search s f c =>
        cases k <;> cases s <;> simp [hitsG, hd f]
      | matrix cols rows =>
        simp only [Expr.size] at hs
        simp only [safe] at hsafe
        have hmx := matrixCase cols rows (by omega) hsafe d hd
        cases k with
        | all => simp only [hitsG]; exact hmx _
        | of c =>
          simp only [hitsG]
          split
          · exact hmx _
          · simp only [Bool.and_eq_true, decide_eq_true_eq] at hsafe
            exact rowsOfH_false E K H defd d hd cols hsafe.1 c rows _ 0
              (cells rows (by omega) (safeRows_mem defd _ rows hsafe.2)).1 hsafe.2 (by simp [emptyCache])
      | _ =>
        have hx := hgen (by cases k <;> simpa [safe] using hsafe)
        cases k <;> (first | exact hx | (simp only [hitsG] at hx ⊢; exact hx))
    | matrix cols rows =>
      simp only [Expr.size] at hs
      simp only [safe] at hsafe
      refine ⟨fun d hd => ?_, fun i cache hk => by simp [cellKeyOk] at hk⟩
      simp only [hitsG]
      exact matrixCase cols rows (by omega) hsafe d hd _
    | negate x =>
      simp only [Expr.size] at hs
      simp only [safe] at hsafe
      refine ⟨fun d hd => ?_, fun i cache hk => by simp [cellKeyOk] at hk⟩
      simp only [hitsG]
      exact (ih x (by omega) hsafe).1 d hd
    | nested f x =>
      simp only [Expr.size] at hs
      simp only [safe] at hsafe
      have hx := (ih x (by omega) hsafe).1
      -- whatever document `d0` the block hangs off: if `find f` on it cannot panic, nothing below does
      have core : ∀ d0 : Doc, d0.findPanics f = false → hitsG E K H d0 (.nested f x) = false := by
        intro d0 hf0
        cases x with
        | «match» k y =>
          cases k with
          | all =>
            cases y with
            | group op es =>
              simp only [Expr.size] at hs
              simp only [safe] at hsafe
              have hm := members es (by omega) hsafe
              cases op
              case or =>
                simp only [hitsG, hf0, Bool.false_or]
                cases d0.find f with
                | none => rfl
                | some v =>
                  cases v <;> simp only []
                  · exact nestedAllOrH_false E K H _ es (fun z hz kvs => hm z hz _ (noFP_obj kvs))
                  · exact andH_false E K H _ es (fun z hz => hm z hz _ (noFP_obj _))
              all_goals
                simp only [hitsG, hf0, Bool.false_or]
                cases d0.find f with
                | none => rfl
                | some v =>
                  cases v with
                  | arr a =>
                    exact anyUntil_false _ _ _ (fun kvs _ => by
                      have := hx (.obj kvs) (noFP_obj kvs); simpa [hitsG] using this)
                  | obj kvs => have := hx (.obj kvs) (noFP_obj kvs); simpa [hitsG] using this
                  | _ => rfl
            | matrix cols rows =>
              simp only [Expr.size] at hs
              simp only [safe, Bool.and_eq_true, decide_eq_true_eq] at hsafe
              have hc := cells rows (by omega) (safeRows_mem defd _ rows hsafe.2)
              simp only [hitsG, hf0, Bool.false_or]
              cases d0.find f with
              | none => rfl
              | some v =>
                cases v <;> simp only []
                · exact nestedAllMatrixH_false E K H defd _ cols rows hc.2 (safeRows_len defd _ rows hsafe.2)
                · exact rowsH_false E K H defd _ (noFP_obj _) cols hsafe.1 _ rows _ hc.1 hsafe.2 (by simp [emptyCache])
            | _ =>
              simp only [hitsG, hf0, Bool.false_or]
              cases d0.find f with
              | none => rfl
              | some v =>
                cases v with
                | arr a => exact anyUntil_false _ _ _ (fun kvs _ => hx (.obj kvs) (noFP_obj kvs))
                | obj kvs => exact hx (.obj kvs) (noFP_obj kvs)
                | _ => rfl
          | of c =>
            simp only [hitsG, hf0, Bool.false_or]
            cases d0.find f with
            | none => rfl
            | some v =>
              cases v with
              | arr a => exact anyUntil_false _ _ _ (fun kvs _ => hx (.obj kvs) (noFP_obj kvs))
              | obj kvs => exact hx (.obj kvs) (noFP_obj kvs)
              | _ => rfl
        | _ =>
          simp only [hitsG, hf0, Bool.false_or]
          cases d0.find f with
          | none => rfl
          | some v =>
            cases v with
            | arr a => exact anyUntil_false _ _ _ (fun kvs _ => hx (.obj kvs) (noFP_obj kvs))
            | obj kvs => exact hx (.obj kvs) (noFP_obj kvs)
            | _ => rfl
      refine ⟨fun d hd => core d (hd f), fun i cache hk hi h55 => ?_⟩
      simp only [cellKeyOk, beq_iff_eq] at hk
      subst hk
      exact core _ (cache_find_noPanic cache i hi h55)
    | search s f c =>
      refine ⟨fun d hd => by simp only [hitsG]; exact hd f, fun i cache hk hi h55 => ?_⟩
      simp only [cellKeyOk, beq_iff_eq] at hk
      subst hk
      simp only [hitsG]
      exact cache_find_noPanic cache i hi h55
    | _ => simp [safe] at hsafe

end Tau

namespace Tau

theorem safe_match_of_safe (defd : Str → Bool) (k : MatchK) (b : Expr) (h : safe defd b = true) :
    safe defd (.match k b) = true := by
  cases b <;> simp_all [safe]

/-- Closed trees (identifier bodies) that are safe never panic on a document whose `find` cannot. -/
theorem closed_no_hits (E : RegexEngine) (d : Doc) (hd : NoFP d) (b : Expr)
    (h : safe (fun _ => false) b = true) : hitsClosed E d b = false :=
  (safe_no_hits E closedK closedH (fun _ => false) (fun _ _ h => by cases h) (fun _ _ _ h => by cases h)
    b.size b (Nat.le_refl _) h).1 d hd

/-- **A safe rule never panics in `matches`.** If every identifier body is safe and the condition
    is safe with respect to the defined identifiers, evaluating the condition against any mapping
    or any user document never reaches `unreachable!()`, an undefined identifier, or an
    out-of-range access of the matrix cache. -/
theorem top_no_hits (E : RegexEngine) (ids : Ids) (d : Doc) (hd : NoFP d) (e : Expr)
    (hbodies : ∀ i b, lookupId ids i = some b → safe (fun _ => false) b = true)
    (he : safe (fun i => (lookupId ids i).isSome) e = true) : hitsTop E ids d e = false := by
  refine (safe_no_hits E (topK E ids) (topH E ids) (fun i => (lookupId ids i).isSome) ?_ ?_
    e.size e (Nat.le_refl _) he).1 d hd
  · intro i d' hdef hd'
    simp only [topH]
    cases hl : lookupId ids i with
    | none => simp [hl] at hdef
    | some b => exact closed_no_hits E d' hd' b (hbodies i b hl)
  · intro k i d' hdef hd'
    simp only [topH]
    cases hl : lookupId ids i with
    | none => simp [hl] at hdef
    | some b => exact closed_no_hits E d' hd' (.match k b) (safe_match_of_safe _ k b (hbodies i b hl))

end Tau

namespace Tau

/-- Identifiers a parsed condition refers to. -/
def condIdents : Expr → List Str
  | .ident i => [i]
  | .match _ (.ident i) => [i]
  | .negate e => condIdents e
  | .bin l _ r => condIdents l ++ condIdents r
  | _ => []

/-- A parsed condition that is solvable and refers only to defined identifiers is safe. -/
theorem pshape_safe (defd : Str → Bool) (e : Expr) (h : PShape e) (hs : e.isSolvable = true)
    (hd : ∀ i ∈ condIdents e, defd i = true) : safe defd e = true := by
  induction h with
  | ident i => simp only [safe]; exact hd i (by simp [condIdents])
  | matchIdent k i => simp only [safe]; exact hd i (by simp [condIdents])
  | litFloat b => simp [Expr.isSolvable] at hs
  | litInt i => simp [Expr.isSolvable] at hs
  | litCast f m => simp [Expr.isSolvable] at hs
  | negate hp hn ih =>
    simp only [safe]
    exact ih (PShape.negatable_solvable hp hn) (fun i hi => hd i (by simpa [condIdents] using hi))
  | binBool op hop _ _ hls hrs ihl ihr =>
    have h1 := ihl hls (fun i hi => hd i (by simp [condIdents, hi]))
    have h2 := ihr hrs (fun i hi => hd i (by simp [condIdents, hi]))
    rcases hop with rfl | rfl <;> simp [safe, h1, h2]
  | cmp l op r h1 h2 _ _ => cases op <;> simp_all [safe]

end Tau
