import Tau.Proofs.MatrixSafe
import Tau.Proofs.Shake0X
/-
  `matrix` keeps every verdict (true / not true) on the class `mOK`.
  Cells: a re-keyed member reads the cache exactly as the member reads the document (`keyed_congr`);
  the cache only ever holds what the document returns for that column (`Cons`); a row is true iff
  all the members it was built from are (`row_truth`); `rowOfMembers` loses no conjunct (columns
  cover the counted fields, fields within a conjunction are distinct); the rebuilt or-group is true
  iff a member is (`matrixOut_truth`); induction over the pass (`matrix_good`).
-/
set_option linter.unusedSimpArgs false
namespace Tau

/-- The comparison arms read the document only through `find` of the left operand's field when the
    right operand is a literal. -/
theorem operand_lit (d d' : Doc) (r : Expr) (h : isLiteral r = true) : operand d r = operand d' r := by
  cases r <;> simp [isLiteral] at h <;> rfl

theorem operand_field_congr (d d' : Doc) (f k : Str) (h : d'.find k = d.find f) :
    operand d' (.field k) = operand d (.field f) := by
  simp only [operand, h]

theorem operand_cast_congr (d d' : Doc) (f k : Str) (kind : ModSym) (h : d'.find k = d.find f) :
    operand d' (.cast k kind) = operand d (.cast f kind) := by
  cases kind <;> simp only [operand, h]

/-- A keyed member evaluates the same on any document whose `find` of the new key is the old
    document's `find` of the member's field. -/
theorem keyed_congr (E : RegexEngine) (K : IdentK) (d d' : Doc) (k f : Str) (m m' : Expr)
    (hf : memberField m = some f) (hr : rekey k m = some m') (h : d'.find k = d.find f) :
    solveG E K d' m' = solveG E K d m := by
  cases m with
  | search s g c =>
    simp only [memberField, Option.some.injEq] at hf; subst hf
    simp only [rekey, Option.some.injEq] at hr; subst hr
    simp only [solveG, solveSearch, h]
  | nested g x =>
    simp only [memberField, Option.some.injEq] at hf; subst hf
    simp only [rekey, Option.some.injEq] at hr; subst hr
    cases hs : nestedSpecial x with
    | false => rw [nested_generic E K d' k x hs, nested_generic E K d g x hs, h]
    | true =>
      cases x with
      | «match» kk y =>
        cases kk with
        | of c => simp [nestedSpecial] at hs
        | all =>
          cases y with
          | group op es => cases op <;> first | (simp [nestedSpecial] at hs; done) | simp only [solveG, h]
          | matrix cols rows => simp only [solveG, h]
          | _ => simp [nestedSpecial] at hs
      | _ => simp [nestedSpecial] at hs
  | bin l op r =>
    cases l with
    | cast g kind =>
      have hlit : isLiteral r = true ∧ g = f := by
        simp only [memberField, cmpField] at hf
        split at hf <;> simp_all
      obtain ⟨hlit, rfl⟩ := hlit
      simp only [rekey, Option.some.injEq] at hr; subst hr
      have ho := operand_cast_congr d d' g k kind h
      cases r <;> simp [isLiteral] at hlit <;> cases op <;>
        cases kind <;> simp only [solveG, solveCmp, operand, h]
    | field g =>
      have hlit : isLiteral r = true ∧ g = f := by
        simp only [memberField, cmpField] at hf
        split at hf <;> simp_all
      obtain ⟨hlit, rfl⟩ := hlit
      simp only [rekey, Option.some.injEq] at hr; subst hr
      have ho := operand_field_congr d d' g k h
      cases r <;> simp [isLiteral] at hlit <;> cases op <;>
        simp only [solveG, solveCmp, ho, operand, h]
    | _ => simp [rekey] at hr
  | _ => simp [rekey] at hr

theorem keyed_missing (E : RegexEngine) (K : IdentK) (d : Doc) (f : Str) (m : Expr)
    (hf : memberField m = some f) (h : d.find f = none) : solveG E K d m ≠ .t := by
  cases m with
  | search s g c =>
    simp only [memberField, Option.some.injEq] at hf; subst hf
    simp [solveG, solveSearch, h]
  | nested g x =>
    simp only [memberField, Option.some.injEq] at hf; subst hf
    cases hs : nestedSpecial x with
    | false => rw [nested_generic E K d g x hs, h]; simp
    | true =>
      cases x with
      | «match» kk y =>
        cases kk with
        | of c => simp [nestedSpecial] at hs
        | all =>
          cases y with
          | group op es => cases op <;> first | (simp [nestedSpecial] at hs; done) | simp [solveG, h]
          | matrix cols rows => simp [solveG, h]
          | _ => simp [nestedSpecial] at hs
      | _ => simp [nestedSpecial] at hs
  | bin l op r =>
    cases l with
    | cast g kind =>
      have hlit : isLiteral r = true ∧ g = f := by
        simp only [memberField, cmpField] at hf
        split at hf <;> simp_all
      obtain ⟨hlit, rfl⟩ := hlit
      cases r <;> simp [isLiteral] at hlit <;> cases op <;>
        cases kind <;> simp [solveG, solveCmp, operand, h, binAnd, binOr]
    | field g =>
      have hlit : isLiteral r = true ∧ g = f := by
        simp only [memberField, cmpField] at hf
        split at hf <;> simp_all
      obtain ⟨hlit, rfl⟩ := hlit
      cases r <;> simp [isLiteral] at hlit <;> cases op <;>
        simp [solveG, solveCmp, operand, h, binAnd, binOr]
    | _ => simp [memberField, cmpField] at hf
  | _ => simp [memberField, cmpField] at hf

/-- The per-evaluation cache holds, at column `i`, only what the document returns for column `i`. -/
def Cons (d : Doc) (cols : List Str) (cache : List (Option Value)) : Prop :=
  ∀ (i : Nat) (v : Value), (cache[i]?).join = some v → ∃ col : Str, cols[i]? = some col ∧ d.find col = some v

theorem cons_empty (d : Doc) (cols : List Str) : Cons d cols (emptyCache cols) := by
  intro i v h
  simp only [emptyCache, List.getElem?_map] at h
  cases hc : cols[i]? <;> simp [hc] at h

theorem cache_find (cache : List (Option Value)) (i : Nat) (h55 : i < 55296) :
    (Doc.cache cache).find (colKey i) = (cache[i]?).join := by
  obtain ⟨h1, h2⟩ := colKey_toNat i h55
  rw [h1]; simp only [Doc.find, h2]

/-- How the cells of a row (from column `i` on) come from members `ms`. -/
def RowFrom (cols : List Str) : Nat → List (Option Expr) → List (Option Expr) → Prop
  | _, [], [] => True
  | i, none :: cs, none :: ms => RowFrom cols (i + 1) cs ms
  | i, some e :: cs, some m :: ms =>
    (∃ col, cols[i]? = some col ∧ memberField m = some col ∧ rekey (colKey i) m = some e) ∧
      RowFrom cols (i + 1) cs ms
  | _, _, _ => False

theorem row_truth (E : RegexEngine) (K : IdentK) (d : Doc) (cols : List Str) (h55 : cols.length < 55296) :
    ∀ (cells ms : List (Option Expr)) (i : Nat) (cache : List (Option Value)),
      RowFrom cols i cells ms → Cons d cols cache → cache.length = cols.length →
      Cons d cols (rowG E K d cols cells i cache).2 ∧
      (rowG E K d cols cells i cache).2.length = cols.length ∧
      ((rowG E K d cols cells i cache).1 = .t ↔ ∀ m, some m ∈ ms → solveG E K d m = .t) := by
  intro cells
  induction cells with
  | nil =>
    intro ms i cache hr hc hl
    cases ms with
    | nil => simp [rowG, hc, hl]
    | cons _ _ => simp [RowFrom] at hr
  | cons c cs ih =>
    intro ms i cache hr hc hl
    cases ms with
    | nil => cases c <;> simp [RowFrom] at hr
    | cons m ms =>
      cases c with
      | none =>
        cases m with
        | some _ => simp [RowFrom] at hr
        | none =>
          simp only [RowFrom] at hr
          simp only [rowG]
          obtain ⟨a, b, c⟩ := ih ms (i + 1) cache hr hc hl
          refine ⟨a, b, ?_⟩
          rw [c]; simp
      | some e =>
        cases m with
        | none => simp [RowFrom] at hr
        | some m =>
          simp only [RowFrom] at hr
          obtain ⟨⟨col, hcol, hmf, hrk⟩, hrest⟩ := hr
          have hi : i < cols.length := by
            cases hh : cols[i]? with
            | none => rw [hh] at hcol; cases hcol
            | some _ => exact (List.getElem?_eq_some_iff.mp hh).1
          have hi55 : i < 55296 := by omega
          -- the continuation once the cell's column is in the cache
          have cont : ∀ cache', Cons d cols cache' → cache'.length = cols.length →
              (cache'[i]?).join = d.find col → (d.find col).isSome = true →
              Cons d cols (match solveG E K (.cache cache') e with
                | .t => rowG E K d cols cs (i + 1) cache' | r => (r, cache')).2 ∧
              (match solveG E K (.cache cache') e with
                | .t => rowG E K d cols cs (i + 1) cache' | r => (r, cache')).2.length = cols.length ∧
              ((match solveG E K (.cache cache') e with
                | .t => rowG E K d cols cs (i + 1) cache' | r => (r, cache')).1 = .t ↔
                ∀ x, some x ∈ some m :: ms → solveG E K d x = .t) := by
            intro cache' hc' hl' hfind _
            have hv : solveG E K (.cache cache') e = solveG E K d m :=
              keyed_congr E K d (.cache cache') (colKey i) col m e hmf hrk
                (by rw [cache_find cache' i hi55, hfind])
            rw [hv]
            cases hm : solveG E K d m with
            | t =>
              obtain ⟨a, b, c⟩ := ih ms (i + 1) cache' hrest hc' hl'
              refine ⟨a, b, ?_⟩
              simp only [c, List.mem_cons, Option.some.injEq]
              constructor
              · rintro h x (rfl | hx)
                · exact hm
                · exact h x hx
              · intro h x hx; exact h x (Or.inr hx)
            | f =>
              refine ⟨hc', hl', ?_⟩
              simp only [List.mem_cons, Option.some.injEq]
              constructor
              · intro h; cases h
              · intro h; have := h m (Or.inl rfl); rw [hm] at this; cases this
            | m =>
              refine ⟨hc', hl', ?_⟩
              simp only [List.mem_cons, Option.some.injEq]
              constructor
              · intro h; cases h
              · intro h; have := h m (Or.inl rfl); rw [hm] at this; cases this
          simp only [rowG]
          cases hj : (cache[i]?).join with
          | some v =>
            obtain ⟨col', hcol', hv⟩ := hc i v hj
            rw [hcol] at hcol'; cases hcol'
            simp only
            exact cont cache hc hl (by rw [hj, hv]) (by rw [hv]; rfl)
          | none =>
            simp only [hcol]
            cases hfd : d.find col with
            | none =>
              simp only
              refine ⟨hc, hl, ?_⟩
              constructor
              · intro h; cases h
              · intro h
                have := h m (by simp)
                exact absurd this (keyed_missing E K d col m hmf hfd)
            | some v =>
              simp only
              have hset : ((cacheSet cache i v)[i]?).join = some v := by
                simp [cacheSet, hl, hi]
              apply cont (cacheSet cache i v)
              · intro j w hjw
                by_cases hji : j = i
                · subst hji
                  rw [hset] at hjw; cases hjw
                  exact ⟨col, hcol, hfd⟩
                · apply hc j w
                  simpa [cacheSet, List.getElem?_set, Ne.symm hji] using hjw
              · simp [cacheSet, hl]
              · rw [hset, hfd]
              · rw [hfd]; rfl

def AllTrue (E : RegexEngine) (K : IdentK) (d : Doc) (ms : List (Option Expr)) : Prop :=
  ∀ m, some m ∈ ms → solveG E K d m = .t

/-- Rows and the member lists they come from, in parallel. -/
def RowsFrom (cols : List Str) : List (List (Option Expr)) → List (List (Option Expr)) → Prop
  | [], [] => True
  | r :: rs, m :: ms => RowFrom cols 0 r m ∧ RowsFrom cols rs ms
  | _, _ => False

theorem rows_truth (E : RegexEngine) (K : IdentK) (d : Doc) (cols : List Str) (h55 : cols.length < 55296) :
    ∀ (rows mss : List (List (Option Expr))) (cache : List (Option Value)),
      RowsFrom cols rows mss → Cons d cols cache → cache.length = cols.length →
      (.t ∈ (rowsG E K d cols rows cache).1 ↔ ∃ ms ∈ mss, AllTrue E K d ms) := by
  intro rows
  induction rows with
  | nil =>
    intro mss cache hr _ _
    cases mss with
    | nil => simp [rowsG]
    | cons _ _ => simp [RowsFrom] at hr
  | cons r rs ih =>
    intro mss cache hr hc hl
    cases mss with
    | nil => simp [RowsFrom] at hr
    | cons ms mss =>
      simp only [RowsFrom] at hr
      obtain ⟨a, b, c⟩ := row_truth E K d cols h55 r ms 0 cache hr.1 hc hl
      have := ih mss _ hr.2 a b
      simp only [rowsG, List.mem_cons, this, exists_eq_or_imp]
      constructor
      · rintro (h | h)
        · exact Or.inl (c.mp h.symm)
        · exact Or.inr h
      · rintro (h | h)
        · exact Or.inl (c.mpr h).symm
        · exact Or.inr h

/-- A matrix node is true exactly when the members of one of its rows are all true. -/
theorem matrix_node_truth (E : RegexEngine) (K : IdentK) (d : Doc) (cols : List Str) (h55 : cols.length < 55296)
    (rows mss : List (List (Option Expr))) (hr : RowsFrom cols rows mss) :
    solveG E K d (.matrix cols rows) = .t ↔ ∃ ms ∈ mss, AllTrue E K d ms := by
  simp only [solveG]
  rw [Tri.or_eq_t_iff]
  exact rows_truth E K d cols h55 rows mss _ hr (cons_empty d cols) (by simp [emptyCache])

/-- Cells and sources built index by index over the columns are aligned. -/
theorem rowFrom_range (cols : List Str) (g h : Nat → Option Expr) :
    ∀ (n i : Nat),
      (∀ j, i ≤ j → j < i + n →
        (g j = none ∧ h j = none) ∨
        (∃ e m col, g j = some e ∧ h j = some m ∧ cols[j]? = some col ∧ memberField m = some col ∧
          rekey (colKey j) m = some e)) →
      RowFrom cols i ((List.range' i n).map g) ((List.range' i n).map h)
  | 0, i, _ => by simp [RowFrom]
  | n + 1, i, hh => by
    simp only [List.range'_succ, List.map_cons]
    have rest := rowFrom_range cols g h n (i + 1) (fun j h1 h2 => hh j (by omega) (by omega))
    rcases hh i (Nat.le_refl _) (by omega) with ⟨h1, h2⟩ | ⟨e, m, col, h1, h2, h3, h4, h5⟩
    · rw [h1, h2]; simpa [RowFrom] using rest
    · rw [h1, h2]; simp only [RowFrom]; exact ⟨⟨col, h3, h4, h5⟩, rest⟩

theorem rekey_some (k : Str) (m : Expr) (f : Str) (h : memberField m = some f) : ∃ e, rekey k m = some e := by
  cases m with
  | search s g c => exact ⟨_, rfl⟩
  | nested g x => exact ⟨_, rfl⟩
  | bin l op r =>
    cases l with
    | cast g kind => exact ⟨_, rfl⟩
    | field g => exact ⟨_, rfl⟩
    | _ => simp [memberField, cmpField] at h
  | _ => simp [memberField, cmpField] at h

theorem getD_eq_getElem? (cols : List Str) (j : Nat) (hj : j < cols.length) :
    cols[j]? = some (cols.getD j []) := by
  simp [List.getD, List.getElem?_eq_getElem hj]

/-- The sources of `singleRow`. -/
def singleSrc (cols : List Str) (f : Str) (x : Expr) : List (Option Expr) :=
  (List.range cols.length).map (fun i => if cols.getD i [] == f then some x else none)

theorem singleRow_from (cols : List Str) (f : Str) (x : Expr) (hf : memberField x = some f) :
    RowFrom cols 0 (singleRow cols f x) (singleSrc cols f x) := by
  unfold singleRow singleSrc
  rw [List.range_eq_range']
  apply rowFrom_range
  intro j _ hj
  simp only [Nat.zero_add] at hj
  by_cases hc : (cols.getD j [] == f) = true
  · right
    obtain ⟨e, he⟩ := rekey_some (colKey j) x f hf
    have hcf : cols[j]?.getD [] = f := by simpa using hc
    have hcf' : cols.getD j [] = f := by simpa using hc
    exact ⟨e, x, f, by simp [hcf, he], by simp [hcf], by rw [getD_eq_getElem? cols j hj, hcf'], hf, he⟩
  · left
    have hcf : ¬ cols[j]?.getD [] = f := by simpa using hc
    simp [hcf]

theorem singleSrc_mem (cols : List Str) (f : Str) (x m : Expr) (hmem : f ∈ cols) :
    some m ∈ singleSrc cols f x ↔ m = x := by
  unfold singleSrc
  simp only [List.mem_map, List.mem_range]
  constructor
  · rintro ⟨i, _, h⟩
    split at h <;> simp at h
    exact h.symm
  · rintro rfl
    obtain ⟨i, hi, hget⟩ := List.getElem_of_mem hmem
    refine ⟨i, hi, ?_⟩
    have : cols[i]?.getD [] = f := by simp [List.getElem?_eq_getElem hi, hget]
    simp [this]

/-- The sources of `rowOfMembers`. -/
def rowSrc (cols : List Str) (es : List Expr) : List (Option Expr) :=
  (List.range cols.length).map (fun i => es.find? (fun x => memberField x == some (cols.getD i [])))

theorem rowOfMembers_from (cols : List Str) (es : List Expr) (row : List (Option Expr))
    (h : rowOfMembers cols es = some row) : RowFrom cols 0 row (rowSrc cols es) := by
  unfold rowOfMembers at h
  simp only at h
  split at h
  · cases h
  · split at h
    · cases h
    · simp only [Option.some.injEq] at h
      subst h
      unfold rowSrc
      rw [List.range_eq_range']
      apply rowFrom_range
      intro j _ hj
      simp only [Nat.zero_add] at hj
      cases hfind : es.find? (fun x => memberField x == some (cols.getD j [])) with
      | none => left; simp [hfind]
      | some m =>
        right
        have hp := List.find?_some hfind
        have hmf : memberField m = some (cols.getD j []) := by simpa using hp
        obtain ⟨e, he⟩ := rekey_some (colKey j) m _ hmf
        exact ⟨e, m, cols.getD j [], by simp [hfind, he], rfl, getD_eq_getElem? cols j hj, hmf, he⟩

theorem length_eraseDups_le {α} [BEq α] : ∀ (l : List α), l.eraseDups.length ≤ l.length
  | [] => by simp
  | a :: as => by
    rw [List.eraseDups_cons]
    have h1 := List.length_filter_le (fun b => !b == a) as
    have : (as.filter fun b => !b == a).length < as.length + 1 := by omega
    have h2 := length_eraseDups_le (as.filter fun b => !b == a)
    simp only [List.length_cons]; omega
termination_by l => l.length

theorem nodup_of_eraseDups_len {α} [BEq α] [LawfulBEq α] :
    ∀ (l : List α), l.eraseDups.length = l.length → l.Nodup
  | [], _ => List.nodup_nil
  | a :: as, h => by
    rw [List.eraseDups_cons] at h
    have h1 := List.length_filter_le (fun b => !b == a) as
    have h2 := length_eraseDups_le (as.filter fun b => !b == a)
    simp only [List.length_cons] at h
    have hf : (as.filter fun b => !b == a).length = as.length := by omega
    have hfe : as.filter (fun b => !b == a) = as := List.filter_eq_self.mpr (by
      intro b hb
      exact (List.length_filter_eq_length_iff.mp hf) b hb)
    rw [hfe] at h
    have ih := nodup_of_eraseDups_len as (by omega)
    refine List.nodup_cons.mpr ⟨?_, ih⟩
    intro hmem
    have := (List.length_filter_eq_length_iff.mp hf) a hmem
    simp at this
termination_by l => l.length

/-- What `rowOfMembers` checked: every member has a column and no two share one. -/
theorem rowOfMembers_facts (cols : List Str) (es : List Expr) (row : List (Option Expr))
    (h : rowOfMembers cols es = some row) :
    (∀ m ∈ es, (memberField m).isSome = true) ∧
    (∀ m ∈ es, ∀ m' ∈ es, ∀ i j (hi : i < es.length) (hj : j < es.length),
      es[i] = m → es[j] = m' → memberField m = memberField m' → i = j) := by
  unfold rowOfMembers at h
  simp only at h
  split at h
  · cases h
  · rename_i hnone
    split at h
    · cases h
    · rename_i hlen
      have hall : ∀ m ∈ es, (memberField m).isSome = true := by
        intro m hm
        cases hmf : memberField m with
        | some _ => rfl
        | none =>
          exfalso; apply hnone
          simp only [List.any_eq_true, List.mem_map]
          exact ⟨none, ⟨m, hm, hmf⟩, rfl⟩
      refine ⟨hall, ?_⟩
      have hnd : ((es.map memberField).filterMap id).Nodup := by
        apply nodup_of_eraseDups_len
        simp only [bne_iff_ne, ne_eq, Decidable.not_not] at hlen
        exact hlen.symm
      intro m hm m' hm' i j hi hj hei hej heq
      have hfm : (es.map memberField).filterMap id = es.map (fun x => (memberField x).getD []) := by
        rw [List.filterMap_map]
        have : ∀ (l : List Expr), (∀ x ∈ l, (memberField x).isSome = true) →
            l.filterMap (id ∘ memberField) = l.map (fun x => (memberField x).getD []) := by
          intro l
          induction l with
          | nil => intro _; rfl
          | cons x xs ih =>
            intro hl
            have hx := hl x (by simp)
            cases hx' : memberField x with
            | none => rw [hx'] at hx; cases hx
            | some f =>
              simp only [List.filterMap_cons, Function.comp, id, hx', List.map_cons, Option.getD_some]
              rw [← ih (fun y hy => hl y (by simp [hy]))]
        exact this es hall
      rw [hfm] at hnd
      have hi' : i < (es.map (fun x => (memberField x).getD [])).length := by simpa using hi
      have hj' : j < (es.map (fun x => (memberField x).getD [])).length := by simpa using hj
      exact (List.getElem_inj (h₀ := hi') (h₁ := hj') hnd).mp (by
        simp only [List.getElem_map, hei, hej, heq])

theorem rowSrc_mem (cols : List Str) (es : List Expr) (row : List (Option Expr))
    (h : rowOfMembers cols es = some row)
    (hcols : ∀ m ∈ es, ∀ f, memberField m = some f → f ∈ cols) (m : Expr) :
    some m ∈ rowSrc cols es ↔ m ∈ es := by
  obtain ⟨hall, hinj⟩ := rowOfMembers_facts cols es row h
  unfold rowSrc
  simp only [List.mem_map, List.mem_range]
  constructor
  · rintro ⟨i, _, hfind⟩
    exact List.mem_of_find?_eq_some hfind
  · intro hm
    have hsome := hall m hm
    cases hmf : memberField m with
    | none => rw [hmf] at hsome; cases hsome
    | some f =>
      obtain ⟨i, hi, hget⟩ := List.getElem_of_mem (hcols m hm f hmf)
      have hgd : cols.getD i [] = f := by simp [List.getElem?_eq_getElem hi, hget]
      refine ⟨i, hi, ?_⟩
      rw [hgd]
      cases hfind : es.find? (fun x => memberField x == some f) with
      | none =>
        have := List.find?_eq_none.mp hfind m hm
        simp [hmf] at this
      | some m' =>
        have hp : memberField m' = some f := by simpa using List.find?_some hfind
        have hm' := List.mem_of_find?_eq_some hfind
        obtain ⟨a, ha, hea⟩ := List.getElem_of_mem hm
        obtain ⟨b, hb, heb⟩ := List.getElem_of_mem hm'
        have := hinj m hm m' hm' a b ha hb hea heb (by rw [hmf, hp])
        subst this
        rw [← hea, ← heb]

theorem and_group_true (E : RegexEngine) (K : IdentK) (d : Doc) (es : List Expr) :
    solveG E K d (.group .and es) = .t ↔ ∀ m ∈ es, solveG E K d m = .t := by
  rw [group_and_value, Tri.and_eq_t_iff]
  simp only [List.mem_map, forall_exists_index, and_imp, forall_apply_eq_imp_iff₂]

/-- What a member of the or-group turned into: a row whose members are exactly the conjuncts, or
    itself. -/
theorem classify_truth (E : RegexEngine) (K : IdentK) (d : Doc) (cols : List Str) (x : Expr)
    (hcols : ∀ f, (memberField x = some f ∨ ∃ ms, x = .group .and ms ∧
      (∀ m ∈ ms, (memberField m).isSome = true) ∧ ∃ m ∈ ms, memberField m = some f) → f ∈ cols) :
    match matrixClassify cols x with
    | .inl row => ∃ ms, RowFrom cols 0 row ms ∧ (AllTrue E K d ms ↔ solveG E K d x = .t)
    | .inr y => y = x := by
  have single : ∀ f, memberField x = some f →
      ∃ ms, RowFrom cols 0 (singleRow cols f x) ms ∧ (AllTrue E K d ms ↔ solveG E K d x = .t) := by
    intro f hf
    refine ⟨singleSrc cols f x, singleRow_from cols f x hf, ?_⟩
    unfold AllTrue
    simp only [singleSrc_mem cols f x _ (hcols f (Or.inl hf))]
    constructor
    · intro h; exact h x rfl
    · rintro h m rfl; exact h
  cases x with
  | group op ms =>
    cases op with
    | and =>
      simp only [matrixClassify]
      cases hrow : rowOfMembers cols ms with
      | none => rfl
      | some row =>
        refine ⟨rowSrc cols ms, rowOfMembers_from cols ms row hrow, ?_⟩
        unfold AllTrue
        rw [and_group_true]
        have := rowSrc_mem cols ms row hrow
          (fun m hm f hf => hcols f (Or.inr ⟨ms, rfl, (rowOfMembers_facts cols ms row hrow).1, m, hm, hf⟩))
        simp only [this]
    | _ => rfl
  | bin l op r =>
    cases l with
    | cast f kind =>
      simp only [matrixClassify]
      cases hlit : isLiteral r with
      | false => rfl
      | true => exact single f (by simp [memberField, cmpField, hlit])
    | field f =>
      simp only [matrixClassify]
      cases hlit : isLiteral r with
      | false => rfl
      | true => exact single f (by simp [memberField, cmpField, hlit])
    | _ => rfl
  | nested f b => exact single f rfl
  | search s f c => exact single f rfl
  | _ => rfl

theorem mem_countInsert_self (f : Str) (l : List (Str × Nat)) : f ∈ (countInsert f l).map (·.1) := by
  induction l with
  | nil => simp [countInsert]
  | cons q qs ih =>
    obtain ⟨k, n⟩ := q
    simp only [countInsert]
    cases h : strCmp f k with
    | lt => simp
    | eq => simp [strCmp_eq f k h]
    | gt => simp only [List.map_cons, List.mem_cons]; exact Or.inr ih

theorem mem_countInsert_mono (f k : Str) (l : List (Str × Nat)) (h : k ∈ l.map (·.1)) :
    k ∈ (countInsert f l).map (·.1) := by
  induction l with
  | nil => simp at h
  | cons q qs ih =>
    obtain ⟨k', n⟩ := q
    simp only [countInsert]
    simp only [List.map_cons, List.mem_cons] at h
    cases hc : strCmp f k' with
    | lt => simp only [List.map_cons, List.mem_cons]; exact Or.inr h
    | eq => simpa using h
    | gt =>
      simp only [List.map_cons, List.mem_cons]
      rcases h with h | h
      · exact Or.inl h
      · exact Or.inr (ih h)

theorem foldCount_mono (ms : List Expr) : ∀ (acc : List (Str × Nat)) (k : Str), k ∈ acc.map (·.1) →
    k ∈ (ms.foldl (fun acc x => match memberField x with | some f => countInsert f acc | none => acc) acc).map (·.1) := by
  induction ms with
  | nil => intro acc k h; exact h
  | cons m ms ih =>
    intro acc k h
    simp only [List.foldl_cons]
    apply ih
    cases memberField m with
    | none => exact h
    | some f => exact mem_countInsert_mono f k acc h

theorem foldCount_self (ms : List Expr) : ∀ (acc : List (Str × Nat)) (m : Expr) (f : Str), m ∈ ms →
    memberField m = some f →
    f ∈ (ms.foldl (fun acc x => match memberField x with | some f => countInsert f acc | none => acc) acc).map (·.1) := by
  induction ms with
  | nil => intro acc m f h; simp at h
  | cons x xs ih =>
    intro acc m f hm hf
    simp only [List.foldl_cons]
    rcases List.mem_cons.mp hm with rfl | hm
    · apply foldCount_mono
      rw [hf]; exact mem_countInsert_self f acc
    · exact ih _ m f hm hf

theorem countFields_mono (fields : List (Str × Nat)) (e : Expr) (k : Str) (h : k ∈ fields.map (·.1)) :
    k ∈ (countFields fields e).map (·.1) := by
  unfold countFields
  split
  · split
    · exact foldCount_mono _ fields k h
    · exact h
  all_goals first | exact mem_countInsert_mono _ k fields h | exact h

/-- The fields `classify_truth` needs are among those `countFields` inserts. -/
def needsCol (x : Expr) (f : Str) : Prop :=
  memberField x = some f ∨ ∃ ms, x = .group .and ms ∧
    (∀ m ∈ ms, (memberField m).isSome = true) ∧ ∃ m ∈ ms, memberField m = some f

theorem countFields_self (fields : List (Str × Nat)) (x : Expr) (f : Str) (h : needsCol x f) :
    f ∈ (countFields fields x).map (·.1) := by
  rcases h with h | ⟨ms, rfl, hall, m, hm, hf⟩
  · cases x with
    | search s g c => simp only [memberField, Option.some.injEq] at h; subst h; exact mem_countInsert_self _ _
    | nested g b => simp only [memberField, Option.some.injEq] at h; subst h; exact mem_countInsert_self _ _
    | bin l op r =>
      cases l with
      | cast g kind =>
        have : g = f := by simp only [memberField, cmpField] at h; split at h <;> simp_all
        subst this; exact mem_countInsert_self _ _
      | field g =>
        have : g = f := by simp only [memberField, cmpField] at h; split at h <;> simp_all
        subst this; exact mem_countInsert_self _ _
      | _ => simp [memberField, cmpField] at h
    | _ => simp [memberField, cmpField] at h
  · simp only [countFields]
    have : ms.all (fun x => (memberField x).isSome) = true := List.all_eq_true.mpr hall
    simp only [this, if_true]
    exact foldCount_self ms fields m f hm hf

theorem foldFields_cover (scratch : List Expr) : ∀ (acc : List (Str × Nat)),
    (∀ k, k ∈ acc.map (·.1) → k ∈ (scratch.foldl countFields acc).map (·.1)) ∧
    (∀ x ∈ scratch, ∀ f, needsCol x f → f ∈ (scratch.foldl countFields acc).map (·.1)) := by
  induction scratch with
  | nil => intro acc; exact ⟨fun k h => h, fun x hx => by simp at hx⟩
  | cons y ys ih =>
    intro acc
    simp only [List.foldl_cons]
    obtain ⟨m1, m2⟩ := ih (countFields acc y)
    constructor
    · intro k hk; exact m1 k (countFields_mono acc y k hk)
    · intro x hx f hn
      rcases List.mem_cons.mp hx with rfl | hx
      · exact m1 f (countFields_self acc x f hn)
      · exact m2 x hx f hn

def inlOf (c : Sum (List (Option Expr)) Expr) : Option (List (Option Expr)) :=
  match c with | .inl r => some r | _ => none
def inrOf (c : Sum (List (Option Expr)) Expr) : Option Expr :=
  match c with | .inr r => some r | _ => none

theorem classify_split (E : RegexEngine) (K : IdentK) (d : Doc) (cols : List Str) :
    ∀ (L : List Expr), (∀ x ∈ L, ∀ f, needsCol x f → f ∈ cols) →
      ∃ mss, RowsFrom cols ((L.map (matrixClassify cols)).filterMap inlOf) mss ∧
        (((∃ ms ∈ mss, AllTrue E K d ms) ∨
          ∃ r ∈ (L.map (matrixClassify cols)).filterMap inrOf, solveG E K d r = .t) ↔
         ∃ x ∈ L, solveG E K d x = .t) := by
  intro L
  induction L with
  | nil => intro _; exact ⟨[], by simp [RowsFrom], by simp⟩
  | cons x xs ih =>
    intro hc
    obtain ⟨mss, hr, hiff⟩ := ih (fun y hy => hc y (by simp [hy]))
    have hx := classify_truth E K d cols x (fun f hf => hc x (by simp) f hf)
    cases hcl : matrixClassify cols x with
    | inl row =>
      rw [hcl] at hx
      obtain ⟨ms, hfrom, htruth⟩ := hx
      refine ⟨ms :: mss, ?_, ?_⟩
      · simp only [List.map_cons, hcl, List.filterMap_cons, inlOf, RowsFrom]
        exact ⟨hfrom, hr⟩
      · simp only [List.map_cons, hcl, List.filterMap_cons, inrOf, List.mem_cons, exists_eq_or_imp]
        rw [htruth, ← hiff]
        constructor
        · rintro ((h | h) | h)
          · exact Or.inl h
          · exact Or.inr (Or.inl h)
          · exact Or.inr (Or.inr h)
        · rintro (h | h | h)
          · exact Or.inl (Or.inl h)
          · exact Or.inl (Or.inr h)
          · exact Or.inr h
    | inr y =>
      rw [hcl] at hx
      simp only at hx
      subst hx
      refine ⟨mss, ?_, ?_⟩
      · simp only [List.map_cons, hcl, List.filterMap_cons, inlOf]
        exact hr
      · simp only [List.map_cons, hcl, List.filterMap_cons, inrOf, List.mem_cons, exists_eq_or_imp]
        rw [← hiff]
        constructor
        · rintro (h | h | h)
          · exact Or.inr (Or.inl h)
          · exact Or.inl h
          · exact Or.inr (Or.inr h)
        · rintro (h | h | h)
          · exact Or.inr (Or.inl h)
          · exact Or.inl h
          · exact Or.inr (Or.inr h)

theorem or_group_true (E : RegexEngine) (K : IdentK) (d : Doc) (es : List Expr) :
    solveG E K d (.group .or es) = .t ↔ ∃ m ∈ es, solveG E K d m = .t := by
  rw [group_or_value, Tri.or_eq_t_iff]
  simp only [List.mem_map]

/-- The matrix built from an or-group is true exactly when a member of the group is. -/
def matrixOut (scratch : List Expr) : Expr :=
  let fields := scratch.foldl countFields []
  let cols := (stableSort (fun (a b : Str × Nat) => a.2 ≤ b.2) fields).map (·.1)
  let cl := scratch.map (matrixClassify cols)
  let rows := cl.filterMap inlOf
  let rest := cl.filterMap inrOf
  let out := (if rows.isEmpty then [] else [Expr.matrix cols rows]) ++ rest
  unwrapGroup .or out

theorem matrixOut_truth (E : RegexEngine) (K : IdentK) (d : Doc) (scratch : List Expr)
    (h55 : (scratch.foldl countFields []).length < 55296) :
    solveG E K d (matrixOut scratch) = .t ↔ ∃ x ∈ scratch, solveG E K d x = .t := by
  unfold matrixOut
  simp only
  generalize hcols : (stableSort (fun (a b : Str × Nat) => a.2 ≤ b.2) (scratch.foldl countFields [])).map (·.1) = cols
  have hlen : cols.length < 55296 := by
    rw [← hcols, List.length_map, (stableSort_perm _ _).length_eq]; exact h55
  have hcover : ∀ x ∈ scratch, ∀ f, needsCol x f → f ∈ cols := by
    intro x hx f hn
    have := (foldFields_cover scratch []).2 x hx f hn
    rw [← hcols]
    simp only [List.mem_map] at this ⊢
    obtain ⟨q, hq, rfl⟩ := this
    exact ⟨q, (mem_stableSort _ _ q).mpr hq, rfl⟩
  obtain ⟨mss, hr, hiff⟩ := classify_split E K d cols scratch hcover
  rw [unwrapGroup_solve E K d .or _ (Or.inr rfl), or_group_true, ← hiff]
  generalize (scratch.map (matrixClassify cols)).filterMap inlOf = rows at hr
  generalize (scratch.map (matrixClassify cols)).filterMap inrOf = rest
  cases rows with
  | nil =>
    cases mss with
    | nil => simp
    | cons _ _ => simp [RowsFrom] at hr
  | cons r rs =>
    simp only [List.isEmpty_cons, Bool.false_eq_true, if_false, List.cons_append, List.nil_append,
      List.mem_cons, exists_eq_or_imp]
    rw [matrix_node_truth E K d cols hlen (r :: rs) mss hr]

mutual
/-- Trees on which `matrix` keeps every verdict: no negation above an or-group it may rebuild (a row
    reports false/missing in column order: `matrix_order_unsound`), all()/of() on operands
    `shake_1` is exact on (the pass re-shakes them), nested mappings not directly on an all()-list. -/
def mOK : Expr → Bool
  | .group .and es => mOKL es
  | .group .or es => mOKL es
  | .group _ _ => false
  | .bin l .and r => mOK l && mOK r
  | .bin l .or r => mOK l && mOK r
  | .bin l _ r => isLeafE l && isLeafE r
  | .match k x => e1OK (.match k x)
  | .negate _ => false
  | .nested _ x => nestedChildOK x && !nestedSpecial x && mOK x
  | _ => true
def mOKL : List Expr → Bool
  | [] => true
  | e :: es => mOK e && mOKL es
end

theorem mOKL_iff (l : List Expr) : mOKL l = true ↔ ∀ x ∈ l, mOK x = true := by
  induction l with
  | nil => simp [mOKL]
  | cons x xs ih => simp [mOKL, ih]

theorem matrix_or (fuel : Nat) (es : List Expr) :
    matrix (fuel + 1) (.group .or es) =
      (if ((es.map (matrix fuel)).foldl countFields []).any (fun (_, n) => n > 1 && n < 256) &&
          decide (((es.map (matrix fuel)).foldl countFields []).length < 55296)
       then matrixOut (es.map (matrix fuel)) else .group .or (es.map (matrix fuel))) := by
  rfl

theorem matrix_match (fuel : Nat) (k : MatchK) (x : Expr) :
    matrix (fuel + 1) (.match k x) = shake1 (shakeFuel x + 1) (.match k x) := by
  rw [shake1_match]
  cases x <;> rfl

theorem split_len (cl : List (Sum (List (Option Expr)) Expr)) :
    (cl.filterMap inlOf).length + (cl.filterMap inrOf).length = cl.length := by
  induction cl with
  | nil => rfl
  | cons c cs ih => cases c <;> simp only [List.filterMap_cons, inlOf, inrOf, List.length_cons] <;> omega

theorem inr_mem (cols : List Str) (L : List Expr) (z : Expr)
    (h : z ∈ (L.map (matrixClassify cols)).filterMap inrOf) : z ∈ L := by
  simp only [List.mem_filterMap, List.mem_map] at h
  obtain ⟨c, ⟨x, hx, rfl⟩, hc⟩ := h
  have : matrixClassify cols x = .inr z := by
    cases hcl : matrixClassify cols x with
    | inl r => rw [hcl] at hc; simp [inrOf] at hc
    | inr y => rw [hcl] at hc; simp [inrOf] at hc; rw [hc]
  -- an `inr` is the member itself
  have hx' : z = x := by
    unfold matrixClassify at this
    split at this
    · split at this <;> simp at this; exact this.symm
    · split at this <;> simp at this; exact this.symm
    · split at this <;> simp at this; exact this.symm
    · simp at this
    · simp at this
    · simp at this; exact this.symm
  rw [hx']; exact hx

/-- If the rebuilt or-group is a single all()/of(), the group had that single member. -/
theorem matrixOut_mbm (scratch : List Expr) (h : mayBecomeMatch (matrixOut scratch) = true) :
    ∃ z, scratch = [z] ∧ mayBecomeMatch z = true := by
  unfold matrixOut at h
  simp only at h
  generalize hcols : (stableSort (fun (a b : Str × Nat) => a.2 ≤ b.2) (scratch.foldl countFields [])).map (·.1) = cols at h
  have hlen := split_len (scratch.map (matrixClassify cols))
  have hmem := inr_mem cols scratch
  generalize (scratch.map (matrixClassify cols)).filterMap inlOf = rows at h hlen
  generalize (scratch.map (matrixClassify cols)).filterMap inrOf = rest at h hlen hmem
  have key : ∃ z, (if rows.isEmpty then [] else [Expr.matrix cols rows]) ++ rest = [z] ∧ mayBecomeMatch z = true := by
    rcases unwrapGroup_cases .or ((if rows.isEmpty then [] else [Expr.matrix cols rows]) ++ rest) with ⟨z, hz, hu⟩ | ⟨hl, hu⟩
    · rw [hu] at h; exact ⟨z, hz, h⟩
    · rw [hu] at h
      obtain ⟨z, hz, hm⟩ := mbm_group2 _ _ h
      exact ⟨z, hz, hm⟩
  obtain ⟨z, hz, hm⟩ := key
  cases rows with
  | nil =>
    simp only [List.isEmpty_nil, if_true, List.nil_append] at hz
    subst hz
    simp only [List.length_nil, List.length_singleton, List.length_map, Nat.zero_add] at hlen
    have hzs := hmem z (by simp)
    match scratch, hlen, hzs with
    | [w], _, hzs => simp at hzs; subst hzs; exact ⟨z, rfl, hm⟩
  | cons r rs =>
    simp only [List.isEmpty_cons, Bool.false_eq_true, if_false, List.cons_append, List.nil_append,
      List.cons.injEq] at hz
    rw [← hz.1] at hm; cases hm

/-- Truth-level congruence of the generic nested arm. -/
theorem nested_truth_congr (E : RegexEngine) (K : IdentK) (f : Str) (x x' : Expr)
    (hx : nestedSpecial x = false) (hx' : nestedSpecial x' = false)
    (h : ∀ d, solveG E K d x' = .t ↔ solveG E K d x = .t) :
    ∀ d, solveG E K d (.nested f x') = .t ↔ solveG E K d (.nested f x) = .t := by
  intro d
  rw [nested_generic E K d f x hx, nested_generic E K d f x' hx']
  cases d.find f with
  | none => simp
  | some v =>
    cases v with
    | obj kvs => exact h _
    | arr a =>
      simp only [Tri.ofBool]
      have : (elemObjs a).any (fun kvs => solveG E K (.obj kvs) x' == .t) =
          (elemObjs a).any (fun kvs => solveG E K (.obj kvs) x == .t) := by
        rw [Bool.eq_iff_iff]
        simp only [List.any_eq_true, beq_iff_eq]
        constructor
        · rintro ⟨kvs, hk, ht⟩; exact ⟨kvs, hk, (h _).mp ht⟩
        · rintro ⟨kvs, hk, ht⟩; exact ⟨kvs, hk, (h _).mpr ht⟩
      rw [this]
    | _ => simp

def MGood (E : RegexEngine) (K : IdentK) (fuel : Nat) (e : Expr) : Prop :=
  (∀ d, solveG E K d (matrix fuel e) = .t ↔ solveG E K d e = .t) ∧
  (mayBecomeMatch (matrix fuel e) = true → mayBecomeMatch e = true)

theorem matrix_leaf (fuel : Nat) (e : Expr) (h : isLeafE e = true) : matrix fuel e = e := by
  cases fuel <;> cases e <;> simp [isLeafE] at h <;> rfl

theorem mgood_match (E : RegexEngine) (K : IdentK) (n : Nat) (k : MatchK) (x : Expr)
    (h : e1OK (.match k x) = true) : MGood E K (n + 1) (.match k x) := by
  have G := shake1_good E K (shakeFuel x + 1) (.match k x) h
  refine ⟨fun d => ?_, fun _ => rfl⟩
  rw [matrix_match, G.2.1 d]

theorem matrix_good (E : RegexEngine) (K : IdentK) : ∀ fuel e, mOK e = true → MGood E K fuel e := by
  intro fuel
  induction fuel with
  | zero => intro e _; exact ⟨fun _ => Iff.rfl, id⟩
  | succ n ih =>
    intro e h
    cases e with
    | group op es =>
      have hmem : ∀ y ∈ es, mOK y = true := by
        cases op <;> simp only [mOK] at h <;> first | exact (mOKL_iff es).mp h | cases h
      have hLt : ∀ d, (∃ x ∈ es.map (matrix n), solveG E K d x = .t) ↔ ∃ y ∈ es, solveG E K d y = .t := by
        intro d
        constructor
        · rintro ⟨x, hx, ht⟩
          obtain ⟨y, hy, rfl⟩ := List.mem_map.mp hx
          exact ⟨y, hy, ((ih y (hmem y hy)).1 d).mp ht⟩
        · rintro ⟨y, hy, ht⟩
          exact ⟨matrix n y, List.mem_map.mpr ⟨y, hy, rfl⟩, ((ih y (hmem y hy)).1 d).mpr ht⟩
      have hsingle : ∀ z, es.map (matrix n) = [z] → mayBecomeMatch z = true →
          ∃ y, es = [y] ∧ mayBecomeMatch y = true := by
        intro z hz hm
        obtain ⟨y, hes, hy⟩ := map_eq_single _ _ _ hz
        rw [← hy] at hm
        exact ⟨y, hes, (ih y (hmem y (by rw [hes]; simp))).2 hm⟩
      cases op with
      | and =>
        have hform : matrix (n + 1) (.group .and es) = .group .and (es.map (matrix n)) := rfl
        rw [MGood, hform]
        constructor
        · intro d
          rw [and_group_true, and_group_true]
          constructor
          · intro hall y hy
            exact ((ih y (hmem y hy)).1 d).mp (hall _ (List.mem_map.mpr ⟨y, hy, rfl⟩))
          · intro hall x hx
            obtain ⟨y, hy, rfl⟩ := List.mem_map.mp hx
            exact ((ih y (hmem y hy)).1 d).mpr (hall y hy)
        · intro hm
          obtain ⟨z, hz, hzm⟩ := mbm_group2 _ _ hm
          obtain ⟨y, hes, hym⟩ := hsingle z hz hzm
          rw [hes]; simpa [mayBecomeMatch] using hym
      | or =>
        rw [MGood, matrix_or]
        split
        · rename_i hcond
          simp only [Bool.and_eq_true, decide_eq_true_eq] at hcond
          constructor
          · intro d
            rw [matrixOut_truth E K d _ hcond.2, or_group_true]
            exact hLt d
          · intro hm
            obtain ⟨z, hz, hzm⟩ := matrixOut_mbm _ hm
            obtain ⟨y, hes, hym⟩ := hsingle z hz hzm
            rw [hes]; simpa [mayBecomeMatch] using hym
        · constructor
          · intro d
            rw [or_group_true, or_group_true]
            exact hLt d
          · intro hm
            obtain ⟨z, hz, hzm⟩ := mbm_group2 _ _ hm
            obtain ⟨y, hes, hym⟩ := hsingle z hz hzm
            rw [hes]; simpa [mayBecomeMatch] using hym
      | _ => simp only [mOK] at h; cases h
    | bin l op r =>
      have hform : matrix (n + 1) (.bin l op r) = .bin (matrix n l) op (matrix n r) := rfl
      rw [MGood, hform]
      refine ⟨fun d => ?_, fun hm => by cases hm⟩
      cases op with
      | and =>
        simp only [mOK, Bool.and_eq_true] at h
        simp only [solveG]
        have hl := (ih l h.1).1 d
        have hr := (ih r h.2).1 d
        cases h1 : solveG E K d (matrix n l) <;> cases h2 : solveG E K d l <;>
          simp_all [binAnd]
      | or =>
        simp only [mOK, Bool.and_eq_true] at h
        simp only [solveG]
        have hl := (ih l h.1).1 d
        have hr := (ih r h.2).1 d
        cases h1 : solveG E K d (matrix n l) <;> cases h2 : solveG E K d l <;>
          cases h3 : solveG E K d (matrix n r) <;> cases h4 : solveG E K d r <;>
          simp_all [binOr]
      | _ =>
        simp only [mOK, Bool.and_eq_true] at h
        rw [matrix_leaf n l h.1, matrix_leaf n r h.2]
    | «match» k x =>
      simp only [mOK] at h
      exact mgood_match E K n k x h
    | negate x => simp only [mOK] at h; cases h
    | nested f x =>
      simp only [mOK, Bool.and_eq_true, Bool.not_eq_true'] at h
      obtain ⟨⟨h1, h2⟩, h3⟩ := h
      have G := ih x h3
      have hform : matrix (n + 1) (.nested f x) = .nested f (matrix n x) := rfl
      rw [MGood, hform]
      refine ⟨?_, fun hm => by cases hm⟩
      have hsp : nestedSpecial (matrix n x) = false := by
        cases hs : nestedSpecial (matrix n x) with
        | false => rfl
        | true =>
          have hm := G.2 (special_is_match _ hs)
          cases x with
          | «match» k y =>
            cases n with
            | zero => exact absurd hs (by simpa [matrix] using h2)
            | succ m =>
              rw [matrix_match] at hs
              obtain ⟨y', he, hsp', _⟩ := shake1_match_form (shakeFuel y + 1) k y
              rw [he, hsp', h2] at hs; cases hs
          | group op es =>
            obtain ⟨y, hes, hym⟩ := mbm_group2 _ _ hm
            subst hes
            simp [nestedChildOK, hym] at h1
          | _ => simp [mayBecomeMatch] at hm
      exact nested_truth_congr E K f x (matrix n x) h2 hsp G.1
    | _ => exact ⟨fun _ => Iff.rfl, id⟩


end Tau
