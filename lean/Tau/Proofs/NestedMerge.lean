import Tau.Proofs.Shake0
import Tau.Proofs.Batch
/-
  The merges of shake_1's nested members are exact on their own.
-/
set_option linter.unusedSimpArgs false
namespace Tau

/-! ### Algebra behind shake_1's merges (each merge step on its own is exact) -/

/-- Or-arm, nested members on one field: `f: {x1}` or `f: {x2}` … is `f: {x1 or x2 …}` — exactly,
    on every document (missing field, object, array of objects, anything else). -/
theorem nested_or_merge (E : RegexEngine) (K : IdentK) (d : Doc) (f : Str) (xs : List Expr) (hne : xs ≠ [])
    (hns : ∀ x ∈ xs, nestedSpecial x = false) :
    solveG E K d (.nested f (.group .or xs)) = Tri.or (xs.map (fun x => solveG E K d (.nested f x))) := by
  rw [nested_generic E K d f (.group .or xs) rfl]
  have hx : ∀ x ∈ xs, solveG E K d (.nested f x) =
      (match d.find f with
       | none => .m
       | some (.obj kvs) => solveG E K (.obj kvs) x
       | some (.arr a) => Tri.ofBool ((elemObjs a).any (fun kvs => solveG E K (.obj kvs) x == .t))
       | some _ => .f) := fun x hx => nested_generic E K d f x (hns x hx)
  rw [List.map_congr_left hx]
  cases d.find f with
  | none => exact (or_map_const_m xs).symm
  | some v =>
    cases v with
    | obj kvs => simp only []; rw [group_or_value]
    | arr a =>
      simp only []
      rw [or_map_bool xs (fun x => (elemObjs a).any (fun kvs => solveG E K (.obj kvs) x == .t)) hne]
      congr 1
      rw [← any_any_comm]
      congr 1
      funext kvs
      rw [group_or_value]
      rw [Bool.eq_iff_iff]
      simp only [beq_iff_eq, Tri.or_eq_t_iff, List.mem_map, List.any_eq_true]
    | _ =>
      simp only []
      have : ∀ (l : List Expr), l ≠ [] → Tri.or (l.map (fun _ => Tri.f)) = .f := by
        intro l hl
        cases l with
        | nil => exact absurd rfl hl
        | cons y ys => simp [Tri.or, List.any_cons]
      exact (this xs hne).symm


theorem nestedAllOrG_eq (E : RegexEngine) (K : IdentK) (objs : List (List (Str × Value))) (xs : List Expr) :
    nestedAllOrG E K objs xs =
      Tri.and (xs.map (fun x => Tri.ofBool (objs.any (fun kvs => solveG E K (.obj kvs) x == .t)))) := by
  induction xs with
  | nil => rfl
  | cons x rest ih =>
    simp only [nestedAllOrG, List.map_cons, Tri.and_cons]
    have : (Tri.or (objs.map (fun kvs => solveG E K (.obj kvs) x)) = .t) ↔
        objs.any (fun kvs => solveG E K (.obj kvs) x == .t) = true := by
      rw [Tri.or_eq_t_iff]
      simp only [List.mem_map, List.any_eq_true, beq_iff_eq]
    cases hb : objs.any (fun kvs => solveG E K (.obj kvs) x == .t) with
    | true =>
      rw [this.mpr hb]
      simp only [Tri.ofBool, if_true]
      exact ih
    | false =>
      have hne : Tri.or (objs.map (fun kvs => solveG E K (.obj kvs) x)) ≠ .t := fun h => by
        rw [this.mp h] at hb; cases hb
      simp only [Tri.ofBool, Bool.false_eq_true, if_false]

/-- And-arm, nested members on one field: `f: {x1}` and `f: {x2}` … is the merged
    `f: {all of [x1, x2 …]}` the pass builds — exactly, on every document. (What is NOT exact in
    that arm is moving the merged block behind the other conjuncts: `shake_and_reorder_unsound`.) -/
theorem nested_and_merge (E : RegexEngine) (K : IdentK) (d : Doc) (f : Str) (xs : List Expr) (hne : xs ≠ [])
    (hns : ∀ x ∈ xs, nestedSpecial x = false) :
    solveG E K d (.nested f (.match .all (.group .or xs))) =
      Tri.and (xs.map (fun x => solveG E K d (.nested f x))) := by
  have hx : ∀ x ∈ xs, solveG E K d (.nested f x) =
      (match d.find f with
       | none => .m
       | some (.obj kvs) => solveG E K (.obj kvs) x
       | some (.arr a) => Tri.ofBool ((elemObjs a).any (fun kvs => solveG E K (.obj kvs) x == .t))
       | some _ => .f) := fun x hx => nested_generic E K d f x (hns x hx)
  rw [List.map_congr_left hx]
  simp only [solveG]
  cases d.find f with
  | none =>
    cases xs with
    | nil => exact absurd rfl hne
    | cons y ys => simp [Tri.and_cons]
  | some v =>
    cases v with
    | obj kvs => simp only []; rw [andG_eq, listG_eq_map]
    | arr a => simp only []; exact nestedAllOrG_eq E K (elemObjs a) xs
    | _ =>
      simp only []
      cases xs with
      | nil => exact absurd rfl hne
      | cons y ys => simp [Tri.and_cons]

end Tau
