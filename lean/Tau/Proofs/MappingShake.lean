import Tau.Mapping
import Tau.Proofs.Shake0
import Tau.Proofs.MappingSafe
/-
  Everything `parse_mapping` / `parse_identifier` builds lies in `shakeOK`, the class of trees on
  which `shake_0` is exact (Tau.Proofs.Shake0), with the structural side facts the induction needs:
  list members are never all()/of() nodes or and/or chains, nested bodies are never a one-member
  group around an all()/of().
-/
set_option linter.unusedSimpArgs false
set_option linter.unnecessarySimpa false
namespace Tau

/-- What a list member / a scalar entry is. -/
def Member (g : Expr) : Prop :=
  shakeOK g = true ∧ matchChildOK g = true ∧ mayBecomeMatch g = false ∧ nestedChildOK g = true

/-- What one `(key, value)` entry of a mapping turns into. -/
def Entry (x : Expr) : Prop := shakeOK x = true ∧ nestedChildOK x = true

def MemberAll (es : List Expr) : Prop := ∀ e ∈ es, Member e
def EntryAll (es : List Expr) : Prop := ∀ e ∈ es, Entry e

theorem Member.entry {g : Expr} (h : Member g) : Entry g := ⟨h.1, h.2.2.2⟩

theorem member_search (s : Search) (f : Str) (c : Bool) : Member (.search s f c) := ⟨rfl, rfl, rfl, rfl⟩

theorem member_cmp (l : Expr) (op : BoolSym) (r : Expr) (hl : isLeafE l = true) (hr : isLeafE r = true)
    (hop : op ≠ .and ∧ op ≠ .or) : Member (.bin l op r) := by
  cases op <;> simp_all [Member, shakeOK, matchChildOK, mayBecomeMatch, nestedChildOK]

theorem member_nested (f : Str) (x : Expr) (h : Entry x) : Member (.nested f x) :=
  ⟨by simp [shakeOK, h.1, h.2], rfl, rfl, rfl⟩

theorem entry_wrapNot (misc : Option ModSym) (x : Expr) (h : Entry x) : Entry (wrapNot misc x) := by
  unfold wrapNot; split
  · exact ⟨by simpa [shakeOK] using h.1, rfl⟩
  · exact h

theorem shakeOKL_of_all (es : List Expr) (h : ∀ e ∈ es, shakeOK e = true) : shakeOKL es = true := by
  induction es with
  | nil => rfl
  | cons x xs ih =>
    simp only [shakeOKL, Bool.and_eq_true]
    exact ⟨h x (by simp), ih (fun e he => h e (by simp [he]))⟩

theorem memberAll_append {a b : List Expr} (ha : MemberAll a) (hb : MemberAll b) : MemberAll (a ++ b) := by
  intro e he
  rcases List.mem_append.mp he with h | h
  · exact ha e h
  · exact hb e h

theorem memberAll_single {x : Expr} (h : Member x) : MemberAll [x] := by
  intro e he; simp at he; subst he; exact h

theorem numExpr_member (lhs : Expr) (p : Pattern) (x : Expr) (h : numExpr lhs p = some x)
    (hl : isLeafE lhs = true)
    (hop : ∀ op i, p = .cmpI op i → op ≠ .and ∧ op ≠ .or) (hopf : ∀ op b, p = .cmpF op b → op ≠ .and ∧ op ≠ .or) :
    Member x := by
  cases p <;> simp [numExpr] at h
  · subst h; exact member_cmp _ _ _ hl rfl (hop _ _ rfl)
  · subst h; exact member_cmp _ _ _ hl rfl (hopf _ _ rfl)

theorem finishMapping_entry (r : Except Err (List Expr)) (x : Expr)
    (h : finishMapping r = .ok x) (hr : ∀ es, r = .ok es → EntryAll es) : Entry x := by
  cases r with
  | error e => simp [finishMapping] at h
  | ok es =>
    have hall := hr es rfl
    cases es with
    | nil => simp [finishMapping] at h
    | cons a rest =>
      cases rest with
      | nil => simp [finishMapping] at h; subst h; exact hall a (by simp)
      | cons b rest' =>
        simp [finishMapping] at h; subst h
        refine ⟨?_, rfl⟩
        simp only [shakeOK, boolOp, Bool.true_and, List.isEmpty_cons, Bool.not_false]
        exact shakeOKL_of_all _ (fun e he => (hall e he).1)

theorem shapeGroup_entry (e g : Expr) (gs : List Expr) (multiple : Bool) (h : MemberAll (g :: gs)) :
    Entry (shapeGroup e g gs multiple) := by
  have hg : Member g := h g (by simp)
  have hl : shakeOKL (g :: gs) = true := shakeOKL_of_all _ (fun e he => (h e he).1)
  have hgrp : ∀ op, boolOp op = true → shakeOK (.group op (g :: gs)) = true := by
    intro op hop; simp only [shakeOK, hop, Bool.true_and, List.isEmpty_cons, Bool.not_false]; exact hl
  have hmatch : ∀ k, Entry (.match k g) := fun k => ⟨by simp [shakeOK, hg.1, hg.2.1], rfl⟩
  have hmg : ∀ k, gs.isEmpty = false → Entry (.match k (.group .or (g :: gs))) := by
    intro k hne
    refine ⟨?_, rfl⟩
    have : 2 ≤ (g :: gs).length := by
      cases gs with
      | nil => simp at hne
      | cons _ _ => simp
    have hgo := hgrp .or rfl
    simp only [shakeOK, matchChildOK, Bool.and_eq_true, decide_eq_true_eq]
    exact ⟨this, by simpa [shakeOK] using hgo⟩
  have hplain : Entry (.group .or (g :: gs)) := by
    refine ⟨hgrp .or rfl, ?_⟩
    cases gs with
    | nil => simp [nestedChildOK, hg.2.2.1]
    | cons _ _ => rfl
  unfold shapeGroup
  split
  · split
    · exact hmatch _
    · rename_i hne; exact hmg _ (by simpa using hne)
  · split
    · exact hg.entry
    · split
      · exact hmatch _
      · rename_i hne; exact hmg _ (by simpa using hne)
  · split
    · exact hg.entry
    · exact hplain

theorem shapeSeq_entry (e : Expr) (misc : Option ModSym) (st : SeqSt) (group : List Expr) (multiple : Bool)
    (x : Expr) (h : shapeSeq e misc st group multiple = .ok x) (hg : MemberAll group) : Entry x := by
  unfold shapeSeq at h
  split at h
  · cases h
  · split at h
    · cases h
    · cases h
      exact entry_wrapNot _ _ (shapeGroup_entry e _ _ multiple hg)

theorem batchMembers_member (st : SeqSt) (f : Str) (h : MemberAll st.rest) : MemberAll (batchMembers st f).1 := by
  unfold batchMembers
  simp only
  intro e he
  simp only [List.mem_append] at he
  rcases he with ((((he | he) | he) | he) | he) | he
  · simp at he; obtain ⟨_, _, rfl⟩ := he; exact member_search _ _ _
  · unfold litBlock at he; split at he <;> simp at he <;> subst he <;> exact member_search _ _ _
  · unfold ilitBlock at he; split at he <;> simp at he; subst he; exact member_search _ _ _
  · unfold rxBlock at he; split at he <;> simp at he <;> subst he <;> exact member_search _ _ _
  · unfold rxBlock at he; split at he <;> simp at he <;> subst he <;> exact member_search _ _ _
  · exact h e he

def unmatchedOf (e : Expr) : Expr := match e with | .match _ x => x | x => x

/-- What `parse_key` hands to the value branch: a leaf left-hand side, wrapped in all()/of() only
    when the value is a sequence. -/
theorem parseKey_leaf (k : Yaml) (b : Bool) (e : Expr) (f : Str) (misc : Option ModSym)
    (h : parseKey k b = .ok (e, f, misc)) :
    (b = false → isLeafE e = true) ∧ isLeafE (unmatchedOf e) = true := by
  unfold parseKey at h
  split at h
  · split at h
    · cases h
    · split at h
      · cases h
      · split at h
        · split at h <;> cases h <;> exact ⟨fun _ => rfl, rfl⟩
        · cases h; exact ⟨fun _ => rfl, rfl⟩
        · split at h
          · rename_i hb; cases h; exact ⟨fun hf => (by rw [hf] at hb; cases hb), rfl⟩
          · cases h
        · cases h
  · cases h


mutual
theorem entries_entry (E : RegexEngine) (ic : Bool) : ∀ (kvs : List (Yaml × Yaml)) (es : List Expr),
    parseEntries E ic kvs = .ok es → EntryAll es
  | [], es, h => by simp [parseEntries] at h; subst h; intro e he; cases he
  | p :: rest, es, h => by
    simp only [parseEntries] at h
    split at h
    · cases h
    · rename_i x hx
      split at h
      · cases h
      · rename_i xs hxs
        cases h
        intro e he
        rcases List.mem_cons.mp he with rfl | he'
        · exact pair_entry E ic p _ hx
        · exact entries_entry E ic rest xs hxs e he'

theorem pair_entry (E : RegexEngine) (ic : Bool) : ∀ (p : Yaml × Yaml) (x : Expr),
    parsePair E ic p = .ok x → Entry x
  | (k, v), x, h => by
    simp only [parsePair] at h
    split at h
    · cases h
    · rename_i e f misc hk
      have hkey := parseKey_leaf k v.isSeq e f misc hk
      exact val_entry E ic e f misc v x hkey.1 hkey.2 h

theorem val_entry (E : RegexEngine) (ic : Bool) (e : Expr) (f : Str) (misc : Option ModSym) :
    ∀ (v : Yaml) (x : Expr), (v.isSeq = false → isLeafE e = true) → isLeafE (unmatchedOf e) = true →
      parseVal E ic e f misc v = .ok x → Entry x
  | .null, x, hk, _, h => by
    simp only [parseVal] at h; cases h
    exact entry_wrapNot _ _ (member_cmp _ _ _ (hk rfl) rfl (by simp)).entry
  | .bool b, x, hk, _, h => by
    simp only [parseVal] at h; cases h
    apply entry_wrapNot
    split
    · exact (member_cmp _ _ _ (hk rfl) rfl (by simp)).entry
    · split
      · exact (member_search _ _ _).entry
      · exact (member_cmp _ _ _ (hk rfl) rfl (by simp)).entry
  | .num n, x, hk, _, h => by
    cases n with
    | int i =>
      simp only [parseVal] at h; cases h
      apply entry_wrapNot
      split
      · exact (member_search _ _ _).entry
      · exact (member_cmp _ _ _ (hk rfl) rfl (by simp)).entry
    | big a b c =>
      simp only [parseVal] at h
      split at h
      · cases h
      · split at h <;> cases h <;> apply entry_wrapNot
        · exact (member_search _ _ _).entry
        · exact (member_cmp _ _ _ (hk rfl) rfl (by simp)).entry
    | flt b c =>
      simp only [parseVal] at h
      split at h
      · cases h
      · split at h <;> cases h <;> apply entry_wrapNot
        · exact (member_search _ _ _).entry
        · exact (member_cmp _ _ _ (hk rfl) rfl (by simp)).entry
  | .tagged _, x, _, _, h => by simp [parseVal] at h
  | .str s, x, hk, _, h => by
    simp only [parseVal] at h
    split at h
    · cases h
    · rename_i ident hid
      have hops := intoIdentifier_ops E ic s ident hid
      split at h
      · cases h
      · split at h
        · rename_i y hy
          cases h
          exact entry_wrapNot _ _ (numExpr_member e ident.pat y hy (hk rfl) hops.1 hops.2).entry
        · split at h
          · cases h; exact entry_wrapNot _ _ (member_search _ _ _).entry
          · cases h
  | .map m, x, _, _, h => by
    simp only [parseVal] at h
    split at h
    · cases h
    · split at h
      · cases h
      · rename_i y hy
        cases h
        apply entry_wrapNot
        exact (member_nested f y (finishMapping_entry _ y hy (fun es hes => entries_entry E ic m es hes))).entry
  | .seq s, x, _, hu, h => by
    simp only [parseVal] at h
    split at h
    · cases h
    · rename_i st hst
      have hrest : MemberAll st.rest :=
        members_member E ic f misc _ hu s _ st hst (by intro e he; cases he)
      exact shapeSeq_entry e misc st _ _ x h (batchMembers_member st f hrest)

theorem members_member (E : RegexEngine) (ic : Bool) (f : Str) (misc : Option ModSym) (lhs : Expr)
    (hl : isLeafE lhs = true) :
    ∀ (vs : List Yaml) (st st' : SeqSt), parseMembers E ic f misc lhs vs st = .ok st' →
      MemberAll st.rest → MemberAll st'.rest
  | [], st, st', h, hs => by simp [parseMembers] at h; subst h; exact hs
  | v :: vs, st, st', h, hs => by
    have cmpOk : ∀ op r, isLeafE r = true → op ≠ BoolSym.and ∧ op ≠ BoolSym.or →
        MemberAll (st.rest ++ [Expr.bin lhs op r]) :=
      fun op r hr hop => memberAll_append hs (memberAll_single (member_cmp _ _ _ hl hr hop))
    cases v with
    | null =>
      simp only [parseMembers] at h
      exact members_member E ic f misc lhs hl vs _ st' h (cmpOk _ _ rfl (by simp))
    | bool b =>
      simp only [parseMembers] at h
      split at h
      · exact members_member E ic f misc lhs hl vs _ st' h (cmpOk _ _ rfl (by simp))
      · split at h
        · exact members_member E ic f misc lhs hl vs _ st' h hs
        · exact members_member E ic f misc lhs hl vs _ st' h (cmpOk _ _ rfl (by simp))
    | num n =>
      cases n with
      | int i =>
        simp only [parseMembers] at h
        split at h
        · exact members_member E ic f misc lhs hl vs _ st' h hs
        · exact members_member E ic f misc lhs hl vs _ st' h (cmpOk _ _ rfl (by simp))
      | big a b c =>
        simp only [parseMembers] at h
        split at h
        · cases h
        · split at h
          · exact members_member E ic f misc lhs hl vs _ st' h hs
          · exact members_member E ic f misc lhs hl vs _ st' h (cmpOk _ _ rfl (by simp))
      | flt b c =>
        simp only [parseMembers] at h
        split at h
        · cases h
        · split at h
          · exact members_member E ic f misc lhs hl vs _ st' h hs
          · exact members_member E ic f misc lhs hl vs _ st' h (cmpOk _ _ rfl (by simp))
    | tagged => simp [parseMembers] at h
    | seq xs => simp [parseMembers] at h
    | str s =>
      simp only [parseMembers] at h
      split at h
      · cases h
      · rename_i ident hid
        have hops := intoIdentifier_ops E ic s ident hid
        split at h
        · cases h
        · revert h
          cases hp : ident.pat with
          | exact _ => simp only []; intro h; exact members_member E ic f misc lhs hl vs _ st' h (by split <;> exact hs)
          | startsWith _ => simp only []; intro h; exact members_member E ic f misc lhs hl vs _ st' h (by split <;> exact hs)
          | endsWith _ => simp only []; intro h; exact members_member E ic f misc lhs hl vs _ st' h (by split <;> exact hs)
          | contains _ => simp only []; intro h; exact members_member E ic f misc lhs hl vs _ st' h (by split <;> exact hs)
          | regex _ => simp only []; intro h; exact members_member E ic f misc lhs hl vs _ st' h (by split <;> exact hs)
          | any =>
            simp only []; intro h
            refine members_member E ic f misc lhs hl vs _ st' h ?_
            split <;> exact memberAll_append hs (memberAll_single (member_search _ _ _))
          | cmpI op i =>
            simp only []; intro h
            refine members_member E ic f misc lhs hl vs _ st' h ?_
            have hop := hops.1 op i hp
            split <;> exact memberAll_append hs (memberAll_single (member_cmp _ _ _ hl rfl hop))
          | cmpF op b =>
            simp only []; intro h
            refine members_member E ic f misc lhs hl vs _ st' h ?_
            have hop := hops.2 op b hp
            split <;> exact memberAll_append hs (memberAll_single (member_cmp _ _ _ hl rfl hop))
    | map m =>
      simp only [parseMembers] at h
      split at h
      · cases h
      · split at h
        · cases h
        · rename_i y hy
          refine members_member E ic f misc lhs hl vs _ st' h (memberAll_append hs (memberAll_single ?_))
          exact member_nested f y (finishMapping_entry _ y hy (fun es hes => entries_entry E ic m es hes))
end

/-- **Identifier bodies lie in `shakeOK`.** -/
theorem parseMapping_entry (E : RegexEngine) (ic : Bool) (kvs : List (Yaml × Yaml)) (e : Expr)
    (h : parseMapping E ic kvs = .ok e) : Entry e :=
  finishMapping_entry _ e h (fun es hes => entries_entry E ic kvs es hes)

theorem parseIdentifier_go_entry (E : RegexEngine) (ic : Bool) :
    ∀ (ys : List Yaml) (es : List Expr), parseIdentifier.go E ic ys = .ok es → EntryAll es
  | [], es, h => by simp [parseIdentifier.go] at h; subst h; intro e he; cases he
  | y :: rest, es, h => by
    cases y with
    | map m =>
      simp only [parseIdentifier.go] at h
      split at h
      · cases h
      · rename_i x hx
        split at h
        · cases h
        · rename_i xs hxs
          cases h
          intro e he
          rcases List.mem_cons.mp he with rfl | he'
          · exact parseMapping_entry E ic m _ hx
          · exact parseIdentifier_go_entry E ic rest xs hxs e he'
    | _ => simp [parseIdentifier.go] at h

/-- Every identifier body the loader builds lies in `shakeOK`. -/
theorem parseIdentifier_shakeOK (E : RegexEngine) (ic : Bool) (y : Yaml) (e : Expr)
    (h : parseIdentifier E ic y = .ok e) : shakeOK e = true := by
  cases y with
  | map m => exact (parseMapping_entry E ic m e (by simpa [parseIdentifier] using h)).1
  | seq xs =>
    cases xs with
    | nil => simp [parseIdentifier] at h
    | cons x rest =>
      simp only [parseIdentifier] at h
      split at h
      · cases h
      · rename_i es hes
        cases h
        have hall := parseIdentifier_go_entry E ic _ es hes
        have hne : es ≠ [] := by
          intro hn; subst hn
          cases x with
          | map m =>
            simp only [parseIdentifier.go] at hes
            split at hes
            · cases hes
            · split at hes <;> cases hes
          | _ => simp [parseIdentifier.go] at hes
        simp only [shakeOK, boolOp, Bool.true_and, Bool.and_eq_true, Bool.not_eq_true', List.isEmpty_eq_false_iff]
        exact ⟨hne, shakeOKL_of_all _ (fun e he => (hall e he).1)⟩
  | _ => simp [parseIdentifier] at h

end Tau
