import Tau.Pratt
/-
  Shape invariant of the Pratt parser: whatever it returns is built from identifiers,
  all()/of() over identifiers, casts and literals with `not`, `and`, `or` and comparisons, where the
  operands of `and`/`or`/`not` are predicates and the operands of comparisons are casts/literals.
-/
set_option linter.unusedSimpArgs false
namespace Tau

/-- What the condition parser can build. -/
inductive PShape : Expr → Prop where
  | ident (i) : PShape (.ident i)
  | matchIdent (k i) : PShape (.match k (.ident i))
  | litFloat (b) : PShape (.float b)
  | litInt (i) : PShape (.int i)
  | litCast (f m) : PShape (.cast f m)
  | negate {e} : PShape e → negatable e = true → PShape (.negate e)
  | binBool {l r} (op) : (op = .and ∨ op = .or) → PShape l → PShape r →
      l.isSolvable = true → r.isSolvable = true → PShape (.bin l op r)
  | cmp (l op r) : op ≠ .and → op ≠ .or → l.isSolvable = false → r.isSolvable = false →
      PShape (.bin l op r)

theorem ledCheck_shape (op : BoolSym) (l r : Expr) (hl : PShape l) (hr : PShape r)
    (h : ledCheck op l r = .ok ()) : PShape (.bin l op r) := by
  cases op
  case and =>
    simp only [ledCheck, ledCheckBool] at h
    cases hls : l.isSolvable <;> cases hrs : r.isSolvable <;> simp [hls, hrs] at h
    exact .binBool .and (Or.inl rfl) hl hr hls hrs
  case or =>
    simp only [ledCheck, ledCheckBool] at h
    cases hls : l.isSolvable <;> cases hrs : r.isSolvable <;> simp [hls, hrs] at h
    exact .binBool .or (Or.inr rfl) hl hr hls hrs
  all_goals
    simp only [ledCheck, ledCheckEq, ledCheckCmp] at h
    cases l <;> cases r <;> simp [Expr.isSolvable] at h ⊢ <;>
      exact .cmp _ _ _ (by decide) (by decide) rfl rfl

theorem parseParenIdent_ok (ts : List Token) (s : Str) (rest : List Token)
    (_h : parseParenIdent ts = .ok (s, rest)) : True := trivial

/-- The four mutually recursive parser functions all return shaped expressions. -/
theorem parse_shape_aux : ∀ (fuel : Nat),
    (∀ ts e, parseAll fuel ts = .ok e → PShape e) ∧
    (∀ rbp ts e rest, parseExpr fuel rbp ts = .ok (e, rest) → PShape e) ∧
    (∀ rbp left ts e rest, PShape left → parseLoop fuel rbp left ts = .ok (e, rest) → PShape e) ∧
    (∀ ts e rest, parseNud fuel ts = .ok (e, rest) → PShape e) := by
  intro fuel
  induction fuel with
  | zero =>
    refine ⟨?_, ?_, ?_, ?_⟩ <;> intros <;> simp_all [parseAll, parseExpr, parseLoop, parseNud]
  | succ n ih =>
    obtain ⟨ihAll, ihExpr, ihLoop, ihNud⟩ := ih
    refine ⟨?_, ?_, ?_, ?_⟩
    · intro ts e h
      simp only [parseAll] at h
      split at h
      · cases h
      · rename_i e' rest heq
        split at h
        · cases h; exact ihExpr _ _ _ _ heq
        · cases h
    · intro rbp ts e rest h
      simp only [parseExpr] at h
      split at h
      · cases h
      · rename_i left rest' heq
        exact ihLoop _ _ _ _ _ (ihNud _ _ _ heq) h
    · intro rbp left ts e rest hleft h
      cases ts with
      | nil => simp only [parseLoop] at h; cases h; exact hleft
      | cons next ts' =>
        simp only [parseLoop] at h
        split at h
        · cases h; exact hleft
        · split at h
          · rename_i sym
            split at h
            · cases h
            · rename_i right rest' heq
              split at h
              · cases h
              · rename_i hchk
                exact ihLoop _ _ _ _ _ (ledCheck_shape _ left right hleft (ihExpr _ _ _ _ heq) hchk) h
          · cases h
    · intro ts e rest h
      cases ts with
      | nil => simp [parseNud] at h
      | cons t ts' =>
        simp only [parseNud] at h
        split at h
        · -- lparen
          split at h
          · cases h
          · rename_i e' heq
            cases h
            exact ihAll _ _ heq
        · cases h
        · cases h
        · cases h; exact .litFloat _
        · cases h; exact .ident _
        · cases h; exact .litInt _
        · -- not
          split at h
          · cases h
          · rename_i right rest' heq
            split at h
            · rename_i hneg
              cases h
              exact .negate (ihExpr _ _ _ _ heq) hneg
            · cases h
        · -- modifier
          split at h
          · cases h
          · cases h; exact .litCast _ _
        · split at h
          · cases h
          · cases h; exact .matchIdent _ _
        · split at h
          · cases h
          · cases h; exact .matchIdent _ _
        · cases h

/-- **Shape of parsed conditions.** -/
theorem parse_shape (ts : List Token) (e : Expr) (h : parse ts = .ok e) : PShape e :=
  (parse_shape_aux (parseFuel ts)).1 ts e h

end Tau

namespace Tau

theorem PShape.lit_not_solvable {e : Expr} (h : PShape e) (hs : e.isSolvable = false) :
    (∃ b, e = .float b) ∨ (∃ i, e = .int i) ∨ (∃ f m, e = .cast f m) := by
  cases h <;> simp [Expr.isSolvable] at hs
  · exact Or.inl ⟨_, rfl⟩
  · exact Or.inr (Or.inl ⟨_, rfl⟩)
  · exact Or.inr (Or.inr ⟨_, _, rfl⟩)

/-- The operand of a parsed `not` is a predicate. -/
theorem PShape.negatable_solvable {e : Expr} (h : PShape e) (hn : negatable e = true) : e.isSolvable = true := by
  cases h <;> simp [negatable] at hn <;> simp [Expr.isSolvable]

end Tau
