import Tau.Proofs.TokRT
/-
  Any amount of blanks between (and in front of) the tokens of a condition: the tokeniser reads
  the same token list.
-/
set_option linter.unusedSimpArgs false
namespace Tau

/-- `k` blanks. -/
def sp (k : Nat) : Str := List.replicate k ' '

theorem sp_succ (k : Nat) : sp (k + 1) = ' ' :: sp k := rfl

theorem tokLoop_spaces : ∀ (k fuel : Nat) (rest : Str) (acc : List Token),
    tokLoop (fuel + k) (sp k ++ rest) acc = tokLoop fuel rest acc
  | 0, fuel, rest, acc => by simp [sp]
  | k + 1, fuel, rest, acc => by
    rw [sp_succ, List.cons_append, ← Nat.add_assoc, tokLoop_space, tokLoop_spaces k]

/-- One token, the blank that ends it, `g` more blanks. -/
theorem gap_step (f g : Nat) (c : Char) (cs R : Str) (t : Token) (acc : List Token)
    (h : tokStep c cs = .ok (some t, ' ' :: (sp g ++ R))) :
    tokLoop (f + g + 1 + 1) (c :: cs) acc = tokLoop f R (t :: acc) := by
  rw [tokLoop_step (f + g + 1) c cs _ t acc h, tokLoop_space, tokLoop_spaces]

def endsBlank : Token → Bool
  | .matchAll | .matchOf | .modifier _ | .float _ => false
  | _ => true

/-- The text of a token list with EXTRA blanks: `gs` gives, token by token (keywords that must
    touch their parenthesis take none), how many blanks follow beyond the one that ends the token. -/
def renderG (num : Int → Str) : List Token → List Nat → Str
  | [], _ => []
  | t :: ts, gs =>
    if endsBlank t then tokText num t ++ (sp (gs.headD 0) ++ renderG num ts gs.tail)
    else tokText num t ++ renderG num ts gs

theorem renderG_nogaps (num : Int → Str) : ∀ (ts : List Token), renderG num ts [] = render num ts
  | [] => rfl
  | t :: ts => by
    unfold renderG render
    split <;> simp [sp, renderG_nogaps num ts]

theorem tokLoop_renderG (num : Int → Str) (ts : List Token) (h : Renderable num ts) :
    ∀ (gs : List Nat) (fuel : Nat) (acc : List Token), (renderG num ts gs).length + 1 ≤ fuel →
      tokLoop fuel (renderG num ts gs) acc = .ok (acc.reverse ++ ts) := by
  induction h with
  | nil =>
    intro gs fuel acc hf
    obtain ⟨f, rfl⟩ : ∃ f, fuel = f + 1 := ⟨fuel - 1, by omega⟩
    simp [renderG, tokLoop]
  | ident s ts hg _ ih =>
    intro gs fuel acc hf
    obtain ⟨⟨c, cs, rfl, _⟩, _⟩ := id hg
    have e : renderG num (.ident (c :: cs) :: ts) gs = c :: (cs ++ ' ' :: (sp (gs.headD 0) ++ renderG num ts gs.tail)) := by
      simp [renderG, endsBlank, tokText]
    rw [e] at hf ⊢
    simp only [List.length_cons, List.length_append, sp, List.length_replicate] at hf
    obtain ⟨f, rfl⟩ : ∃ f, fuel = f + gs.headD 0 + 1 + 1 := ⟨fuel - gs.headD 0 - 2, by omega⟩
    rw [gap_step f _ c _ _ _ acc (tokStep_ident c cs _ hg), ih gs.tail f _ (by omega)]
    simp
  | op o ts _ ih =>
    intro gs fuel acc hf
    have key : ∀ (c : Char) (cs : Str), opText o = c :: cs →
        tokStep c (cs ++ ' ' :: (sp (gs.headD 0) ++ renderG num ts gs.tail)) = .ok (some (.op o), ' ' :: (sp (gs.headD 0) ++ renderG num ts gs.tail)) →
        tokLoop fuel (renderG num (.op o :: ts) gs) acc = .ok (acc.reverse ++ .op o :: ts) := by
      intro c cs hc hstep
      have e : renderG num (.op o :: ts) gs = c :: (cs ++ ' ' :: (sp (gs.headD 0) ++ renderG num ts gs.tail)) := by
        simp [renderG, endsBlank, tokText, hc]
      rw [e] at hf ⊢
      simp only [List.length_cons, List.length_append, sp, List.length_replicate] at hf
      obtain ⟨f, rfl⟩ : ∃ f, fuel = f + gs.headD 0 + 1 + 1 := ⟨fuel - gs.headD 0 - 2, by omega⟩
      rw [gap_step f _ c _ _ _ acc hstep, ih gs.tail f _ (by omega)]
      simp
    cases o with
    | and => exact key 'a' ['n', 'd'] rfl (tokStep_and _)
    | or => exact key 'o' ['r'] rfl (tokStep_or _)
    | eq => exact key '=' ['='] rfl (tokStep_eq _)
    | gt => exact key '>' [] rfl (tokStep_gt _)
    | ge => exact key '>' ['='] rfl (tokStep_ge _)
    | lt => exact key '<' [] rfl (tokStep_lt _)
    | le => exact key '<' ['='] rfl (tokStep_le _)
  | miscNot ts _ ih =>
    intro gs fuel acc hf
    have e : renderG num (.miscNot :: ts) gs = 'n' :: ('o' :: 't' :: ' ' :: (sp (gs.headD 0) ++ renderG num ts gs.tail)) := by
      simp [renderG, endsBlank, tokText]
    rw [e] at hf ⊢
    simp only [List.length_cons, List.length_append, sp, List.length_replicate] at hf
    obtain ⟨f, rfl⟩ : ∃ f, fuel = f + gs.headD 0 + 1 + 1 := ⟨fuel - gs.headD 0 - 2, by omega⟩
    rw [gap_step f _ _ _ _ _ acc (tokStep_not _), ih gs.tail f _ (by omega)]
    simp
  | lparen ts _ ih =>
    intro gs fuel acc hf
    have e : renderG num (.lparen :: ts) gs = '(' :: (' ' :: (sp (gs.headD 0) ++ renderG num ts gs.tail)) := by
      simp [renderG, endsBlank, tokText]
    rw [e] at hf ⊢
    simp only [List.length_cons, List.length_append, sp, List.length_replicate] at hf
    obtain ⟨f, rfl⟩ : ∃ f, fuel = f + gs.headD 0 + 1 + 1 := ⟨fuel - gs.headD 0 - 2, by omega⟩
    rw [gap_step f _ _ _ _ _ acc (tokStep_lparen _), ih gs.tail f _ (by omega)]
    simp
  | rparen ts _ ih =>
    intro gs fuel acc hf
    have e : renderG num (.rparen :: ts) gs = ')' :: (' ' :: (sp (gs.headD 0) ++ renderG num ts gs.tail)) := by
      simp [renderG, endsBlank, tokText]
    rw [e] at hf ⊢
    simp only [List.length_cons, List.length_append, sp, List.length_replicate] at hf
    obtain ⟨f, rfl⟩ : ∃ f, fuel = f + gs.headD 0 + 1 + 1 := ⟨fuel - gs.headD 0 - 2, by omega⟩
    rw [gap_step f _ _ _ _ _ acc (tokStep_rparen _), ih gs.tail f _ (by omega)]
    simp
  | comma ts _ ih =>
    intro gs fuel acc hf
    have e : renderG num (.comma :: ts) gs = ',' :: (' ' :: (sp (gs.headD 0) ++ renderG num ts gs.tail)) := by
      simp [renderG, endsBlank, tokText]
    rw [e] at hf ⊢
    simp only [List.length_cons, List.length_append, sp, List.length_replicate] at hf
    obtain ⟨f, rfl⟩ : ∃ f, fuel = f + gs.headD 0 + 1 + 1 := ⟨fuel - gs.headD 0 - 2, by omega⟩
    rw [gap_step f _ _ _ _ _ acc (tokStep_comma _), ih gs.tail f _ (by omega)]
    simp
  | int i ts hn _ ih =>
    intro gs fuel acc hf
    obtain ⟨⟨d, ds, hd, _⟩, _⟩ := id hn
    have e : renderG num (.int i :: ts) gs = d :: (ds ++ ' ' :: (sp (gs.headD 0) ++ renderG num ts gs.tail)) := by
      simp [renderG, endsBlank, tokText, hd]
    rw [e] at hf ⊢
    simp only [List.length_cons, List.length_append, sp, List.length_replicate] at hf
    obtain ⟨f, rfl⟩ : ∃ f, fuel = f + gs.headD 0 + 1 + 1 := ⟨fuel - gs.headD 0 - 2, by omega⟩
    rw [gap_step f _ d _ _ _ acc (tokStep_int num i hn d ds _ hd), ih gs.tail f _ (by omega)]
    simp
  | matchAll ts _ ih =>
    intro gs fuel acc hf
    have e : renderG num (.matchAll :: .lparen :: ts) gs = 'a' :: 'l' :: 'l' :: renderG num (.lparen :: ts) gs := by
      simp [renderG, endsBlank, tokText]
    have e2 : renderG num (.lparen :: ts) gs = '(' :: (' ' :: (sp (gs.headD 0) ++ renderG num ts gs.tail)) := by
      simp [renderG, endsBlank, tokText]
    rw [e] at hf ⊢
    simp only [List.length_cons] at hf
    obtain ⟨f, rfl⟩ : ∃ f, fuel = f + 1 := ⟨fuel - 1, by omega⟩
    rw [e2, tokLoop_step f _ _ _ _ acc (tokStep_all _), ← e2, ih gs f _ (by omega)]
    simp
  | matchOf ts _ ih =>
    intro gs fuel acc hf
    have e : renderG num (.matchOf :: .lparen :: ts) gs = 'o' :: 'f' :: renderG num (.lparen :: ts) gs := by
      simp [renderG, endsBlank, tokText]
    have e2 : renderG num (.lparen :: ts) gs = '(' :: (' ' :: (sp (gs.headD 0) ++ renderG num ts gs.tail)) := by
      simp [renderG, endsBlank, tokText]
    rw [e] at hf ⊢
    simp only [List.length_cons] at hf
    obtain ⟨f, rfl⟩ : ∃ f, fuel = f + 1 := ⟨fuel - 1, by omega⟩
    rw [e2, tokLoop_step f _ _ _ _ acc (tokStep_of _), ← e2, ih gs f _ (by omega)]
    simp
  | modifier m ts _ ih =>
    intro gs fuel acc hf
    have e2 : renderG num (.lparen :: ts) gs = '(' :: (' ' :: (sp (gs.headD 0) ++ renderG num ts gs.tail)) := by
      simp [renderG, endsBlank, tokText]
    obtain ⟨c, cs, hm, hstep⟩ := tokStep_mod m (' ' :: (sp (gs.headD 0) ++ renderG num ts gs.tail))
    have e : renderG num (.modifier m :: .lparen :: ts) gs = c :: (cs ++ renderG num (.lparen :: ts) gs) := by
      simp [renderG, endsBlank, tokText, hm]
    rw [e] at hf ⊢
    simp only [List.length_cons, List.length_append] at hf
    obtain ⟨f, rfl⟩ : ∃ f, fuel = f + 1 := ⟨fuel - 1, by omega⟩
    rw [e2, tokLoop_step f _ _ _ _ acc hstep, ← e2, ih gs f _ (by omega)]
    simp

/-- **Extra blanks never change the tokens.** `k` blanks in front, and after every token as many
    more as `gs` says: the tokeniser returns the same list as for the plain rendering. -/
theorem tokenise_renderG (num : Int → Str) (ts : List Token) (h : Renderable num ts) (k : Nat) (gs : List Nat) :
    tokenise (sp k ++ renderG num ts gs) = .ok ts := by
  unfold tokenise
  have hlen : (sp k ++ renderG num ts gs).length + 1 = ((renderG num ts gs).length + 1) + k := by
    simp [sp]; omega
  rw [hlen, tokLoop_spaces]
  simpa using tokLoop_renderG num ts h gs ((renderG num ts gs).length + 1) [] (Nat.le_refl _)

end Tau
