import Tau.Optimiser
import Tau.Proofs.Solver
import Tau.Proofs.Rewrite
/-
  `shake_0` is exact on every tree on which it does not eliminate a double negation and whose
  all()/of() nodes do not sit directly on something it reshapes.
-/
set_option linter.unusedSimpArgs false
namespace Tau

/-- What may stand directly under an all()/of() for shake_0 to be exact: anything except a group of
    fewer than two members (it would be unwrapped and the count would change) and a chain of
    `and`/`or` (it would be flattened into a group, which all()/of() count differently). -/
def matchChildOK : Expr → Bool
  | .group _ es => decide (2 ≤ es.length)
  | .bin _ .and _ => false
  | .bin _ .or _ => false
  | _ => true

theorem unwrapGroup_solve (E : RegexEngine) (K : IdentK) (d : Doc) (op : BoolSym) (es : List Expr)
    (h : op = .and ∨ op = .or) : solveG E K d (unwrapGroup op es) = solveG E K d (.group op es) := by
  unfold unwrapGroup
  split
  · rename_i e
    rcases h with rfl | rfl
    · simp [solveG, andG]; cases solveG E K d e <;> rfl
    · simp [solveG, orG]; cases solveG E K d e <;> rfl
  · rfl

theorem group_and_value (E : RegexEngine) (K : IdentK) (d : Doc) (es : List Expr) :
    solveG E K d (.group .and es) = Tri.and (es.map (solveG E K d)) := by
  simp [solveG, andG_eq, listG_eq_map]
theorem group_or_value (E : RegexEngine) (K : IdentK) (d : Doc) (es : List Expr) :
    solveG E K d (.group .or es) = Tri.or (es.map (solveG E K d)) := by
  simp [solveG, orG_eq, listG_eq_map]

theorem and_append' (xs ys : List Tri) : Tri.and (xs ++ ys) = binAnd (Tri.and xs) (Tri.and ys) := by
  induction xs with
  | nil => cases h : Tri.and ys <;> simp [binAnd, h]
  | cons x xs ih =>
    rw [List.cons_append, Tri.and_cons, Tri.and_cons x xs]
    cases x <;> simp [ih, binAnd]

theorem or_append' (xs ys : List Tri) : Tri.or (xs ++ ys) = binOr (Tri.or xs) (Tri.or ys) := by
  induction xs with
  | nil => cases h : Tri.or ys <;> simp [binOr, h]
  | cons x xs ih =>
    rw [List.cons_append, Tri.or_cons, Tri.or_cons x xs, ih]
    cases x <;> cases Tri.or xs <;> cases Tri.or ys <;> rfl

theorem and_single (x : Tri) : Tri.and [x] = x := by cases x <;> rfl
theorem or_single (x : Tri) : Tri.or [x] = x := by cases x <;> rfl

def isLeafE : Expr → Bool
  | .bool _ | .cast _ _ | .field _ | .float _ | .int _ | .null => true
  | _ => false

/-- Could shake_0 turn this into an all()/of() node (by unwrapping one-member groups)? -/
def mayBecomeMatch : Expr → Bool
  | .group _ [x] => mayBecomeMatch x
  | .match _ _ => true
  | _ => false

/-- What may stand directly under a nested mapping: not a one-member group around an all()/of()
    (unwrapping it would expose the solver's special `Nested(Match::All(..))` arms). -/
def nestedChildOK : Expr → Bool
  | .group _ [x] => !mayBecomeMatch x
  | _ => true

def boolOp : BoolSym → Bool
  | .and | .or => true
  | _ => false

mutual
/-- The trees on which shake_0 is exact provided it eliminates no double negation: groups are
    non-empty and carry `and`/`or`; comparisons have leaf operands; an all()/of() does not sit
    directly on a group of fewer than two members or on an and/or chain; a nested mapping is not a
    one-member group.  Everything `parse_identifier` / the Pratt parser build satisfies this. -/
def shakeOK : Expr → Bool
  | .group op es => boolOp op && !es.isEmpty && shakeOKL es
  | .bin l .and r => shakeOK l && shakeOK r
  | .bin l .or r => shakeOK l && shakeOK r
  | .bin l _ r => isLeafE l && isLeafE r
  | .match _ x => matchChildOK x && shakeOK x
  | .negate x => shakeOK x
  | .nested _ x => nestedChildOK x && shakeOK x
  | _ => true
def shakeOKL : List Expr → Bool
  | [] => true
  | e :: es => shakeOK e && shakeOKL es
end

theorem shakeOKL_append (a b : List Expr) : shakeOKL (a ++ b) = (shakeOKL a && shakeOKL b) := by
  induction a with
  | nil => simp [shakeOKL]
  | cons x xs ih => simp [shakeOKL, ih, Bool.and_assoc]

theorem shake0F_leaf (fuel : Nat) (e : Expr) (h : isLeafE e = true) : shake0F fuel e = (e, false) := by
  cases fuel with
  | zero => rfl
  | succ n => cases e <;> simp [isLeafE] at h <;> rfl

/-! ### Same dispatch shape, equal values -/

def genericCls : Expr → Bool
  | .negate _ | .nested _ _ => true
  | _ => false

/-- `x'` is dispatched by the solver's `Match` and `Nested` arms exactly like `x`, with equal
    values for the pieces. -/
inductive Sim (E : RegexEngine) (K : IdentK) : Expr → Expr → Prop
  | refl (x : Expr) : Sim E K x x
  | group (op : BoolSym) (es es' : List Expr) (h2 : 2 ≤ es.length)
      (h : ∀ d, es'.map (solveG E K d) = es.map (solveG E K d)) : Sim E K (.group op es) (.group op es')
  | «match» (k : MatchK) (y y' : Expr) (h : Sim E K y y') : Sim E K (.match k y) (.match k y')
  | gen (x x' : Expr) (hx : genericCls x = true) (hx' : genericCls x' = true)
      (h : ∀ d, solveG E K d x' = solveG E K d x) : Sim E K x x'

theorem map_len {α β} {f : α → β} {a b : List α} (h : a.map f = b.map f) : a.length = b.length := by
  have := congrArg List.length h
  simpa using this

theorem andG_congrL (E : RegexEngine) (K : IdentK) (d : Doc) (es es' : List Expr)
    (h : es'.map (solveG E K d) = es.map (solveG E K d)) : andG E K d es' = andG E K d es := by
  rw [andG_eq, andG_eq, listG_eq_map, listG_eq_map, h]

theorem orG_congrL (E : RegexEngine) (K : IdentK) (d : Doc) (es es' : List Expr)
    (h : es'.map (solveG E K d) = es.map (solveG E K d)) : orG E K d es' = orG E K d es := by
  rw [orG_eq, orG_eq, listG_eq_map, listG_eq_map, h]

theorem match_generic (E : RegexEngine) (K : IdentK) (d : Doc) (k : MatchK) (x : Expr)
    (hx : genericCls x = true) :
    solveG E K d (.match k x) = (match k with | .all => solveG E K d x | .of c => ofSingle c (solveG E K d x)) := by
  cases x <;> simp [genericCls] at hx <;> cases k <;> simp [solveG]

theorem match_match (E : RegexEngine) (K : IdentK) (d : Doc) (k k2 : MatchK) (y : Expr) :
    solveG E K d (.match k (.match k2 y)) =
      (match k with | .all => solveG E K d (.match k2 y) | .of c => ofSingle c (solveG E K d (.match k2 y))) := by
  cases k <;> simp [solveG]

theorem sim_match (E : RegexEngine) (K : IdentK) (x x' : Expr) (h : Sim E K x x') :
    ∀ k d, solveG E K d (.match k x') = solveG E K d (.match k x) := by
  induction h with
  | refl x => intros; rfl
  | group op es es' h2 h =>
    intro k d
    cases k with
    | all => simp only [solveG]; exact andG_congrL E K d es es' (h d)
    | of c => simp only [solveG]; rw [listG_eq_map, listG_eq_map, h d]
  | «match» k2 y y' _ ih =>
    intro k d
    rw [match_match, match_match, ih k2 d]
  | gen x x' hx hx' h =>
    intro k d
    rw [match_generic E K d k x hx, match_generic E K d k x' hx', h d]

theorem sim_value (E : RegexEngine) (K : IdentK) (x x' : Expr) (h : Sim E K x x') :
    ∀ d, solveG E K d x' = solveG E K d x := by
  cases h with
  | refl => intros; rfl
  | group op es es' h2 h =>
    intro d
    cases op <;> simp only [solveG]
    · exact andG_congrL E K d es es' (h d)
    · exact orG_congrL E K d es es' (h d)
  | «match» k y y' h => intro d; exact sim_match E K y y' h k d
  | gen _ _ _ _ h => exact h

theorem sim_matchChildOK (E : RegexEngine) (K : IdentK) (x x' : Expr) (h : Sim E K x x')
    (hx : matchChildOK x = true) : matchChildOK x' = true := by
  cases h with
  | refl => exact hx
  | group op es es' h2 h =>
    have := map_len (h (.pass none))
    simpa [matchChildOK, this] using hx
  | «match» => rfl
  | gen _ _ _ hx' _ => cases x' <;> simp [genericCls] at hx' <;> rfl

theorem sim_nestedChildOK (E : RegexEngine) (K : IdentK) (x x' : Expr) (h : Sim E K x x')
    (hx : nestedChildOK x = true) : nestedChildOK x' = true := by
  cases h with
  | refl => exact hx
  | group op es es' h2 h =>
    have hl := map_len (h (.pass none))
    match es, es', hl, h2 with
    | _ :: _ :: _, _ :: _ :: _, _, _ => rfl
  | «match» => rfl
  | gen _ _ _ hx' _ => cases x' <;> simp [genericCls] at hx' <;> rfl


theorem nestedAllOrG_congrL (E : RegexEngine) (K : IdentK) (objs : List (List (Str × Value))) :
    ∀ (es es' : List Expr), (∀ d, es'.map (solveG E K d) = es.map (solveG E K d)) →
      nestedAllOrG E K objs es' = nestedAllOrG E K objs es
  | [], [], _ => rfl
  | [], _ :: _, h => by have := map_len (h (.pass none)); simp at this
  | _ :: _, [], h => by have := map_len (h (.pass none)); simp at this
  | x :: xs, y :: ys, h => by
    have hh : ∀ d, solveG E K d y = solveG E K d x := fun d => by
      have := h d; simp only [List.map_cons, List.cons.injEq] at this; exact this.1
    have ht : ∀ d, ys.map (solveG E K d) = xs.map (solveG E K d) := fun d => by
      have := h d; simp only [List.map_cons, List.cons.injEq] at this; exact this.2
    simp only [nestedAllOrG]
    have : (objs.map fun kvs => solveG E K (.obj kvs) y) = objs.map fun kvs => solveG E K (.obj kvs) x := by
      apply List.map_congr_left; intro kvs _; exact hh _
    rw [this, nestedAllOrG_congrL E K objs xs ys ht]

/-- The children the `Nested` arm of the solver treats specially. -/
def nestedSpecial : Expr → Bool
  | .match .all (.group .or _) => true
  | .match .all (.matrix _ _) => true
  | _ => false

theorem nested_generic (E : RegexEngine) (K : IdentK) (d : Doc) (f : Str) (x : Expr)
    (hx : nestedSpecial x = false) :
    solveG E K d (.nested f x) =
      (match d.find f with
       | none => .m
       | some (.obj kvs) => solveG E K (.obj kvs) x
       | some (.arr a) => Tri.ofBool ((elemObjs a).any (fun kvs => solveG E K (.obj kvs) x == .t))
       | some _ => .f) := by
  cases x with
  | «match» k y =>
    cases k with
    | of c => (simp only [solveG]) <;> rfl
    | all =>
      cases y with
      | group op es => cases op <;> first | (simp [nestedSpecial] at hx; done) | ((simp only [solveG]) <;> rfl)
      | matrix => simp [nestedSpecial] at hx
      | _ => (simp only [solveG]) <;> rfl
  | _ => (simp only [solveG]) <;> rfl

theorem nested_generic_congr (E : RegexEngine) (K : IdentK) (f : Str) (x x' : Expr)
    (hx : nestedSpecial x = false) (hx' : nestedSpecial x' = false)
    (h : ∀ d, solveG E K d x' = solveG E K d x) :
    ∀ d, solveG E K d (.nested f x') = solveG E K d (.nested f x) := by
  intro d
  rw [nested_generic E K d f x hx, nested_generic E K d f x' hx']
  simp only [h]

theorem sim_nested (E : RegexEngine) (K : IdentK) (x x' : Expr) (h : Sim E K x x') :
    ∀ f d, solveG E K d (.nested f x') = solveG E K d (.nested f x) := by
  intro f
  cases h with
  | refl => intro d; rfl
  | group op es es' h2 h =>
    exact nested_generic_congr E K f _ _ rfl rfl (sim_value E K _ _ (.group op es es' h2 h))
  | gen x x' hx hx' h =>
    refine nested_generic_congr E K f _ _ ?_ ?_ h
    · cases x <;> simp [genericCls] at hx <;> rfl
    · cases x' <;> simp [genericCls] at hx' <;> rfl
  | «match» k y y' hy =>
    cases k with
    | of c => exact nested_generic_congr E K f _ _ rfl rfl (sim_value E K _ _ (.match _ y y' hy))
    | all =>
      cases hy with
      | refl => intro d; rfl
      | «match» k2 z z' hz =>
        exact nested_generic_congr E K f _ _ rfl rfl (sim_value E K _ _ (.match _ _ _ (.match k2 z z' hz)))
      | gen y y' hy hy' hv =>
        refine nested_generic_congr E K f _ _ ?_ ?_ (sim_value E K _ _ (.match _ _ _ (.gen y y' hy hy' hv)))
        · cases y <;> simp [genericCls] at hy <;> rfl
        · cases y' <;> simp [genericCls] at hy' <;> rfl
      | group op es es' h2 hm =>
        by_cases hop : op = .or
        · subst hop
          intro d
          simp only [solveG]
          cases d.find f with
          | none => rfl
          | some v =>
            cases v <;> simp only []
            · exact nestedAllOrG_congrL E K _ es es' hm
            · exact andG_congrL E K _ es es' (hm _)
        · refine nested_generic_congr E K f _ _ ?_ ?_ (sim_value E K _ _ (.match _ _ _ (.group op es es' h2 hm)))
          · cases op <;> first | rfl | exact absurd rfl hop
          · cases op <;> first | rfl | exact absurd rfl hop


theorem bin_and_value (E : RegexEngine) (K : IdentK) (d : Doc) (l r : Expr) :
    solveG E K d (.bin l .and r) = binAnd (solveG E K d l) (solveG E K d r) := by simp only [solveG]
theorem bin_or_value (E : RegexEngine) (K : IdentK) (d : Doc) (l r : Expr) :
    solveG E K d (.bin l .or r) = binOr (solveG E K d l) (solveG E K d r) := by simp only [solveG]

theorem and_cons' (x : Tri) (xs : List Tri) : Tri.and (x :: xs) = binAnd x (Tri.and xs) := by
  have := and_append' [x] xs
  simpa [and_single] using this
theorem or_cons' (x : Tri) (xs : List Tri) : Tri.or (x :: xs) = binOr x (Tri.or xs) := by
  have := or_append' [x] xs
  simpa [or_single] using this

theorem and3 (x y z : Tri) : Tri.and [x, y, z] = binAnd (binAnd x y) z := by
  cases x <;> cases y <;> cases z <;> rfl
theorem and3' (x y z : Tri) : Tri.and [x, y, z] = binAnd x (binAnd y z) := by
  cases x <;> cases y <;> cases z <;> rfl
theorem or3 (x y z : Tri) : Tri.or [x, y, z] = binOr (binOr x y) z := by
  cases x <;> cases y <;> cases z <;> rfl
theorem or3' (x y z : Tri) : Tri.or [x, y, z] = binOr x (binOr y z) := by
  cases x <;> cases y <;> cases z <;> rfl

/-- What the flattening arms do: the regrouped members carry the value of the original
    `l op r`, stay inside `shakeOK`, and are at least two. -/
theorem binRegroup_spec (E : RegexEngine) (K : IdentK) (l r : Expr) (op sym : BoolSym) (xs : List Expr)
    (h : binRegroup l op r = some (sym, xs)) :
    boolOp sym = true ∧ sym = op ∧
    (∀ d, solveG E K d (.group sym xs) = solveG E K d (.bin l op r)) ∧
    (shakeOK l = true → shakeOK r = true → shakeOKL xs = true ∧ 2 ≤ xs.length) := by
  unfold binRegroup at h
  split at h <;> simp only [Option.some.injEq, Prod.mk.injEq, reduceCtorEq] at h
  all_goals obtain ⟨rfl, rfl⟩ := h
  all_goals refine ⟨rfl, rfl, fun d => ?_, fun hl hr => ?_⟩
  all_goals first
    | (simp only [group_and_value, group_or_value, bin_and_value, bin_or_value, List.map_append,
        List.map_cons, List.map_nil, and_append', or_append', and_single, or_single, and_cons', or_cons',
        and3, or3]; done)
    | (simp only [group_and_value, group_or_value, bin_and_value, bin_or_value, List.map_append,
        List.map_cons, List.map_nil]
       first | exact and3 _ _ _ | exact and3' _ _ _ | exact or3 _ _ _ | exact or3' _ _ _)
    | (simp only [group_and_value, group_or_value, bin_and_value, bin_or_value, List.map_append,
        List.map_cons, List.map_nil, and_append', or_append', and_single, or_single]; done)
    | skip
  all_goals
    simp [shakeOK, shakeOKL, shakeOKL_append, boolOp] at hl hr ⊢
    try (constructor <;> grind [List.length_pos_iff])


theorem binRegroup_cmp (l r : Expr) (op : BoolSym) (h : boolOp op = false) : binRegroup l op r = none := by
  unfold binRegroup
  split <;> first | rfl | (simp [boolOp] at h)

theorem unwrapGroup_ge2 (op : BoolSym) (es : List Expr) (h : 2 ≤ es.length) :
    unwrapGroup op es = .group op es := by
  match es, h with
  | _ :: _ :: _, _ => rfl

theorem unwrapGroup_shakeOK (op : BoolSym) (es : List Expr) (hop : boolOp op = true) (hne : es ≠ [])
    (h : shakeOKL es = true) : shakeOK (unwrapGroup op es) = true := by
  unfold unwrapGroup
  split
  · simpa [shakeOKL] using h
  · simp [shakeOK, hop, h, hne]

theorem group_congrL (E : RegexEngine) (K : IdentK) (op : BoolSym) (es es' : List Expr)
    (h : ∀ d, es'.map (solveG E K d) = es.map (solveG E K d)) :
    ∀ d, solveG E K d (.group op es') = solveG E K d (.group op es) := by
  intro d
  cases op <;> simp only [solveG]
  · exact andG_congrL E K d es es' (h d)
  · exact orG_congrL E K d es es' (h d)

theorem notMBM_ok (e : Expr) (h : mayBecomeMatch e = false) :
    nestedSpecial e = false ∧ nestedChildOK e = true := by
  cases e with
  | «match» => simp [mayBecomeMatch] at h
  | group op es =>
    match es, h with
    | [], _ => exact ⟨rfl, rfl⟩
    | [x], h => exact ⟨rfl, by simpa [nestedChildOK, mayBecomeMatch] using h⟩
    | _ :: _ :: _, _ => exact ⟨rfl, rfl⟩
  | _ => exact ⟨rfl, rfl⟩

theorem sim_mbm (E : RegexEngine) (K : IdentK) (x x' : Expr) (h : Sim E K x x')
    (hx : mayBecomeMatch x = false) : mayBecomeMatch x' = false := by
  cases h with
  | refl => exact hx
  | group op es es' h2 h =>
    have hl := map_len (h (.pass none))
    match es, es', hl, h2 with
    | _ :: _ :: _, _ :: _ :: _, _, _ => rfl
  | «match» => simp [mayBecomeMatch] at hx
  | gen _ _ _ hx' _ => cases x' <;> simp [genericCls] at hx' <;> rfl

/-- The statement proved by induction on the fuel. -/
def Shake0OK (E : RegexEngine) (K : IdentK) (fuel : Nat) : Prop :=
  ∀ e, shakeOK e = true → (shake0F fuel e).2 = false →
    shakeOK (shake0F fuel e).1 = true ∧
    (∀ d, solveG E K d (shake0F fuel e).1 = solveG E K d e) ∧
    (matchChildOK e = true → Sim E K e (shake0F fuel e).1) ∧
    (nestedChildOK e = true → nestedChildOK (shake0F fuel e).1 = true ∧
      ∀ f d, solveG E K d (.nested f (shake0F fuel e).1) = solveG E K d (.nested f e)) ∧
    (mayBecomeMatch e = false → mayBecomeMatch (shake0F fuel e).1 = false)

theorem map_fst_sound (E : RegexEngine) (K : IdentK) (fuel : Nat) (ih : Shake0OK E K fuel) (es : List Expr)
    (hok : shakeOKL es = true) (hf : (es.map (shake0F fuel)).any (·.2) = false) :
    shakeOKL ((es.map (shake0F fuel)).map (·.1)) = true ∧
    (∀ d, ((es.map (shake0F fuel)).map (·.1)).map (solveG E K d) = es.map (solveG E K d)) := by
  induction es with
  | nil => simp [shakeOKL]
  | cons x xs ihl =>
    simp only [shakeOKL, Bool.and_eq_true] at hok
    simp only [List.map_cons, List.any_cons, Bool.or_eq_false_iff] at hf
    obtain ⟨h1, h2, _⟩ := ih x hok.1 hf.1
    obtain ⟨h3, h4⟩ := ihl hok.2 hf.2
    refine ⟨by simp only [List.map_cons, shakeOKL, h1, h3, Bool.and_self], fun d => ?_⟩
    simp only [List.map_cons, h2 d]
    rw [← h4 d]

theorem ofSim (E : RegexEngine) (K : IdentK) (e e' : Expr) (hS : shakeOK e' = true) (h : Sim E K e e') :
    shakeOK e' = true ∧ (∀ d, solveG E K d e' = solveG E K d e) ∧
    (matchChildOK e = true → Sim E K e e') ∧
    (nestedChildOK e = true → nestedChildOK e' = true ∧
      ∀ f d, solveG E K d (.nested f e') = solveG E K d (.nested f e)) ∧
    (mayBecomeMatch e = false → mayBecomeMatch e' = false) :=
  ⟨hS, sim_value E K e e' h, fun _ => h,
   fun hn => ⟨sim_nestedChildOK E K e e' h hn, sim_nested E K e e' h⟩, sim_mbm E K e e' h⟩

theorem shake0_ok (E : RegexEngine) (K : IdentK) : ∀ fuel, Shake0OK E K fuel := by
  intro fuel
  induction fuel with
  | zero => intro e hok _; exact ofSim E K e e hok (.refl e)
  | succ n ih =>
    intro e hok hfl
    cases e with
    | group op es =>
      simp only [shakeOK, Bool.and_eq_true, Bool.not_eq_true', List.isEmpty_eq_false_iff] at hok
      obtain ⟨⟨hop, hne⟩, hL⟩ := hok
      have hbo : op = .and ∨ op = .or := by cases op <;> simp [boolOp] at hop <;> simp
      match es, hne, hL with
      | [a], _, hL =>
        have hres : shake0F (n + 1) (.group op [a]) = ((shake0F n a).1, (shake0F n a).2 || false) := rfl
        rw [hres] at hfl ⊢
        simp only [Bool.or_false] at hfl ⊢
        simp only [shakeOKL, Bool.and_true] at hL
        obtain ⟨aS, aV, _, _, aB⟩ := ih a hL hfl
        have hV : ∀ d, solveG E K d (shake0F n a).1 = solveG E K d (.group op [a]) := fun d => by
          rw [aV d]; exact unwrapGroup_solve E K d op [a] hbo
        refine ⟨aS, hV, fun hm => by simp [matchChildOK] at hm, fun hn => ?_, fun hb => ?_⟩
        · have hb : mayBecomeMatch a = false := by simpa [nestedChildOK] using hn
          obtain ⟨hsp, hco⟩ := notMBM_ok _ (aB hb)
          exact ⟨hco, fun f => nested_generic_congr E K f _ _ rfl hsp hV⟩
        · exact aB (by simpa [mayBecomeMatch] using hb)
      | a :: b :: rest, _, hL =>
        have hres : shake0F (n + 1) (.group op (a :: b :: rest)) =
            (unwrapGroup op (((a :: b :: rest).map (shake0F n)).map (·.1)),
             ((a :: b :: rest).map (shake0F n)).any (·.2)) := rfl
        rw [hres] at hfl ⊢
        obtain ⟨h3, h4⟩ := map_fst_sound E K n ih _ hL hfl
        generalize ((a :: b :: rest).map (shake0F n)).map (·.1) = es' at h3 h4 ⊢
        have hlen : es'.length = (a :: b :: rest).length := map_len (h4 (.pass none))
        have h2 : 2 ≤ es'.length := by rw [hlen]; simp
        have hne' : es' ≠ [] := by intro h; rw [h] at h2; simp at h2
        have hS := unwrapGroup_shakeOK op es' hop hne' h3
        rw [unwrapGroup_ge2 op es' h2] at hS ⊢
        exact ofSim E K _ _ hS (.group op _ es' (by simp) h4)
    | bin l op r =>
      have hres : shake0F (n + 1) (.bin l op r) =
          (match binRegroup (shake0F n l).1 op (shake0F n r).1 with
           | some (sym, xs) =>
             ((shake0F n (.group sym xs)).1, ((shake0F n l).2 || (shake0F n r).2) || (shake0F n (.group sym xs)).2)
           | none => (.bin (shake0F n l).1 op (shake0F n r).1, (shake0F n l).2 || (shake0F n r).2)) := rfl
      rw [hres] at hfl ⊢
      by_cases hb : boolOp op = true
      · have hlr : shakeOK l = true ∧ shakeOK r = true := by
          cases op <;> simp [boolOp] at hb <;> simpa [shakeOK] using hok
        have hmc : matchChildOK (.bin l op r) = false := by
          cases op <;> simp [boolOp] at hb <;> rfl
        have hbin : ∀ (a b a' b' : Expr), (∀ d, solveG E K d a' = solveG E K d a) →
            (∀ d, solveG E K d b' = solveG E K d b) →
            ∀ d, solveG E K d (.bin a' op b') = solveG E K d (.bin a op b) := by
          intro a b a' b' ha hb' d
          cases op <;> simp [boolOp] at hb
          · rw [bin_and_value, bin_and_value, ha, hb']
          · rw [bin_or_value, bin_or_value, ha, hb']
        cases hbr : binRegroup (shake0F n l).1 op (shake0F n r).1 with
        | none =>
          simp only [hbr, Bool.or_eq_false_iff] at hfl ⊢
          obtain ⟨lS, lV, _⟩ := ih l hlr.1 hfl.1
          obtain ⟨rS, rV, _⟩ := ih r hlr.2 hfl.2
          have hS : shakeOK (.bin (shake0F n l).1 op (shake0F n r).1) = true := by
            cases op <;> simp [boolOp] at hb <;> simp [shakeOK, lS, rS]
          have hV := hbin l r _ _ lV rV
          refine ⟨hS, hV, (fun hm => by rw [hmc] at hm; cases hm), fun _ => ⟨rfl, fun f => ?_⟩, fun _ => rfl⟩
          exact nested_generic_congr E K f _ _ rfl rfl hV
        | some p =>
          obtain ⟨sym, xs⟩ := p
          simp only [hbr, Bool.or_eq_false_iff] at hfl ⊢
          obtain ⟨⟨hfl1, hfl2⟩, hfg⟩ := hfl
          obtain ⟨lS, lV, _⟩ := ih l hlr.1 hfl1
          obtain ⟨rS, rV, _⟩ := ih r hlr.2 hfl2
          obtain ⟨hsym, hso, hgv, hgok⟩ := binRegroup_spec E K _ _ op sym xs hbr
          obtain ⟨hxs, hlen⟩ := hgok lS rS
          have hne : xs ≠ [] := by intro h; rw [h] at hlen; simp at hlen
          have hgS : shakeOK (.group sym xs) = true := by simp [shakeOK, hsym, hxs, hne]
          obtain ⟨gS, gV, _, gN, gB⟩ := ih (.group sym xs) hgS hfg
          have hV : ∀ d, solveG E K d (.group sym xs) = solveG E K d (.bin l op r) := fun d => by
            rw [hgv d]; exact hbin l r _ _ lV rV d
          have hnc : nestedChildOK (.group sym xs) = true ∧ mayBecomeMatch (.group sym xs) = false := by
            match xs, hlen with
            | _ :: _ :: _, _ => exact ⟨rfl, rfl⟩
          obtain ⟨gN1, gN2⟩ := gN hnc.1
          refine ⟨gS, fun d => (gV d).trans (hV d), (fun hm => by rw [hmc] at hm; cases hm),
            fun _ => ⟨gN1, fun f d => ?_⟩, fun _ => gB hnc.2⟩
          rw [gN2 f d]
          refine nested_generic_congr E K f _ _ rfl ?_ hV d
          cases sym <;> rfl
      · have hb' : boolOp op = false := by simpa using hb
        have hlr : isLeafE l = true ∧ isLeafE r = true := by
          cases op <;> simp [boolOp] at hb' <;> simpa [shakeOK] using hok
        have h0 : (match binRegroup (shake0F n l).1 op (shake0F n r).1 with
           | some (sym, xs) =>
             ((shake0F n (.group sym xs)).1, ((shake0F n l).2 || (shake0F n r).2) || (shake0F n (.group sym xs)).2)
           | none => (.bin (shake0F n l).1 op (shake0F n r).1, (shake0F n l).2 || (shake0F n r).2))
            = (Expr.bin l op r, false) := by
          rw [shake0F_leaf n l hlr.1, shake0F_leaf n r hlr.2, binRegroup_cmp l r op hb']; rfl
        rw [h0]
        exact ofSim E K _ _ hok (.refl _)
    | «match» k x =>
      have hres : shake0F (n + 1) (.match k x) = (.match k (shake0F n x).1, (shake0F n x).2) := rfl
      rw [hres] at hfl ⊢
      simp only [shakeOK, Bool.and_eq_true] at hok
      obtain ⟨xS, _, xM, _⟩ := ih x hok.2 hfl
      have hsim := xM hok.1
      refine ofSim E K _ _ ?_ (.match k _ _ hsim)
      simp [shakeOK, xS, sim_matchChildOK E K _ _ hsim hok.1]
    | negate x =>
      have hres : shake0F (n + 1) (.negate x) =
          (match unNeg (shake0F n x).1 with
           | some inner => ((shake0F n inner).1, true)
           | none => (.negate (shake0F n x).1, (shake0F n x).2)) := rfl
      rw [hres] at hfl ⊢
      cases hu : unNeg (shake0F n x).1 with
      | some inner => simp [hu] at hfl
      | none =>
        simp only [hu] at hfl ⊢
        simp only [shakeOK] at hok
        obtain ⟨xS, xV, _⟩ := ih x hok hfl
        refine ofSim E K _ _ (by simpa [shakeOK] using xS) (.gen _ _ rfl rfl fun d => ?_)
        simp only [solveG, xV d]
    | nested f x =>
      have hres : shake0F (n + 1) (.nested f x) = (.nested f (shake0F n x).1, (shake0F n x).2) := rfl
      rw [hres] at hfl ⊢
      simp only [shakeOK, Bool.and_eq_true] at hok
      obtain ⟨xS, _, _, xN, _⟩ := ih x hok.2 hfl
      obtain ⟨hc, hn⟩ := xN hok.1
      refine ofSim E K _ _ (by simp [shakeOK, xS, hc]) (.gen _ _ rfl rfl (hn f))
    | _ => exact ofSim E K _ _ hok (.refl _)

/-- **shake_0 is exact** on every tree in `shakeOK` on which it eliminates no double negation. -/
theorem shake0_sound (E : RegexEngine) (K : IdentK) (fuel : Nat) (e : Expr) (hok : shakeOK e = true)
    (hfl : (shake0F fuel e).2 = false) (d : Doc) :
    solveG E K d (shake0 fuel e) = solveG E K d e :=
  (shake0_ok E K fuel e hok hfl).2.1 d

/-- ... and its result is again in `shakeOK`. -/
theorem shake0_shakeOK (fuel : Nat) (e : Expr) (hok : shakeOK e = true)
    (hfl : (shake0F fuel e).2 = false) : shakeOK (shake0 fuel e) = true :=
  (shake0_ok ⟨fun _ _ => false, fun _ _ _ => false⟩ closedK fuel e hok hfl).1

end Tau
