import Tau.Proofs.Shake1Safe
import Tau.Proofs.Batch
import Tau.Proofs.Shake0
import Tau.Proofs.NestedMerge
/-
  `shake_1` is exact (same three-valued result on every document) on the class `e1OK`:
  everything except and-groups holding nested mappings (they are moved behind the other conjuncts)
  and nested mappings directly on an all()-list.  Induction on the depth budget carrying five facts
  (`Good`): the result is in the class again, has the same value, is an all()/of() only if the
  input could become one, has a nested mapping on top only if the input had, and is dispatched by
  the solver's Match arms like the input (`Sim`).
-/
set_option linter.unusedSimpArgs false
namespace Tau

mutual
def hasTopNested : Expr → Bool
  | .nested _ _ => true
  | .group _ es => hasTopNestedL es
  | _ => false
def hasTopNestedL : List Expr → Bool
  | [] => false
  | e :: es => hasTopNested e || hasTopNestedL es
end

mutual
def e1OK : Expr → Bool
  | .group .and es => !es.isEmpty && e1OKL es && !hasTopNestedL es
  | .group .or es => !es.isEmpty && e1OKL es
  | .group _ _ => false
  | .bin l .and r => e1OK l && e1OK r
  | .bin l .or r => e1OK l && e1OK r
  | .bin l _ r => isLeafE l && isLeafE r
  | .match _ x => matchChildOK x && e1OK x
  | .negate x => e1OK x
  | .nested _ x => nestedChildOK x && !nestedSpecial x && e1OK x
  | .search (.ac ctx _) _ _ => !ctx.isEmpty
  | .search (.regexSet ps _) _ _ => !ps.isEmpty
  | _ => true
def e1OKL : List Expr → Bool
  | [] => true
  | e :: es => e1OK e && e1OKL es
end

def kindIs (k : Nat) (x : Expr) : Bool :=
  match x, k with
  | .search (.exact _) _ _, 0 => true
  | .search (.startsWith _) _ _, 1 => true
  | .search (.endsWith _) _ _, 2 => true
  | .search (.contains _) _ _, 3 => true
  | .search (.ac _ _) _ _, 4 => true
  | _, _ => false

def buildNeedle (q : (Str × Bool × Bool) × List MatchType) : Expr :=
  match q with
  | ((f, c, ci), ctx) =>
    match ci, ctx with
    | false, [mt] => Expr.search (shake1.searchOfMatchType' mt) f c
    | _, _ => Expr.search (.ac ctx ci) f c

def buildPattern (q : (Str × Bool × Bool) × List Str) : Expr :=
  match q with
  | ((f, c, ci), ps) =>
    match ps with
    | [p] => Expr.search (.regex p ci) f c
    | _ => Expr.search (.regexSet ps ci) f c

def buildNested (fuel : Nat) (q : Str × List Expr) : Expr :=
  match q with
  | (f, xs) =>
    match xs with
    | [x] => Expr.nested f (shake1 fuel x)
    | _ => Expr.nested f (shake1 fuel (.group .or xs))

def isRegex (x : Expr) : Bool := match x with | .search (.regex _ _) _ _ => true | _ => false
def isRegexSet (x : Expr) : Bool := match x with | .search (.regexSet _ _) _ _ => true | _ => false
def byLen (xs : List Expr) := stableSort (fun a b => searchByteLen a ≤ searchByteLen b) xs

def orOut (fuel : Nat) (st : OrSt) : List Expr :=
  let fromNeedles := st.needles.map buildNeedle
  let fromPatterns := st.patterns.map buildPattern
  st.any ++ byLen (fromNeedles.filter (kindIs 0)) ++ byLen (fromNeedles.filter (kindIs 1))
    ++ byLen (fromNeedles.filter (kindIs 2)) ++ byLen (fromNeedles.filter (kindIs 3))
    ++ stableSort ahoLe (fromNeedles.filter (kindIs 4))
    ++ stableSort regexLe (fromPatterns.filter isRegex)
    ++ stableSort regexSetLe (fromPatterns.filter isRegexSet)
    ++ st.rest ++ st.nested.map (buildNested fuel)

theorem shake1_or (fuel : Nat) (es : List Expr) :
    shake1 (fuel + 1) (.group .or es) =
      (if (orOut fuel ((es.map (shake1 fuel)).foldl orClassify {})).length != es.length
       then shake1 fuel (.group .or (orOut fuel ((es.map (shake1 fuel)).foldl orClassify {})))
       else unwrapGroup .or (orOut fuel ((es.map (shake1 fuel)).foldl orClassify {}))) := by
  rfl



theorem char_eq_of_toNat (a b : Char) (h : a.toNat = b.toNat) : a = b := by
  exact Char.toNat_inj.mp h

theorem strCmp_eq : ∀ (a b : Str), strCmp a b = .eq → a = b
  | [], [], _ => rfl
  | [], _ :: _, h => by simp [strCmp] at h
  | _ :: _, [], h => by simp [strCmp] at h
  | a :: as, b :: bs, h => by
    simp only [strCmp] at h
    split at h
    · cases h
    · split at h
      · cases h
      · have : a.toNat = b.toNat := by omega
        rw [char_eq_of_toNat a b this, strCmp_eq as bs h]

theorem boolCmp_eq (a b : Bool) (h : boolCmp a b = .eq) : a = b := by
  cases a <;> cases b <;> simp [boolCmp] at h <;> rfl

theorem keyCmp_eq (a b : Str × Bool × Bool) (h : keyCmp a b = .eq) : a = b := by
  obtain ⟨a1, a2, a3⟩ := a
  obtain ⟨b1, b2, b3⟩ := b
  simp only [keyCmp] at h
  cases h1 : strCmp a1 b1 <;> rw [h1] at h <;> simp at h
  cases h2 : boolCmp a2 b2 <;> rw [h2] at h <;> simp at h
  rw [strCmp_eq _ _ h1, boolCmp_eq _ _ h2, boolCmp_eq _ _ h]

/-- What a grouped association list stands for, before and after an insertion. -/
theorem groupInsert_ex {κ α} (cmp : κ → κ → Ordering) (hc : ∀ a b, cmp a b = .eq → a = b)
    (k : κ) (v : List α) (l : List (κ × List α)) (P : κ → α → Prop) :
    (∃ q ∈ groupInsert cmp k v l, ∃ m ∈ q.2, P q.1 m) ↔
      ((∃ m ∈ v, P k m) ∨ ∃ q ∈ l, ∃ m ∈ q.2, P q.1 m) := by
  induction l with
  | nil => simp [groupInsert]
  | cons q qs ih =>
    obtain ⟨k', vs⟩ := q
    simp only [groupInsert]
    split
    · simp
    · rename_i heq
      have := hc _ _ heq
      subst this
      simp only [List.mem_cons, exists_eq_or_imp, List.mem_append]
      constructor
      · rintro (⟨m, hm | hm, hp⟩ | h)
        · exact Or.inr (Or.inl ⟨m, hm, hp⟩)
        · exact Or.inl ⟨m, hm, hp⟩
        · exact Or.inr (Or.inr h)
      · rintro (⟨m, hm, hp⟩ | ⟨m, hm, hp⟩ | h)
        · exact Or.inl ⟨m, Or.inr hm, hp⟩
        · exact Or.inl ⟨m, Or.inl hm, hp⟩
        · exact Or.inr h
    · simp only [List.mem_cons, exists_eq_or_imp]
      rw [ih]
      constructor
      · rintro (h | h | h)
        · exact Or.inr (Or.inl h)
        · exact Or.inl h
        · exact Or.inr (Or.inr h)
      · rintro (h | h | h)
        · exact Or.inr (Or.inl h)
        · exact Or.inl h
        · exact Or.inr (Or.inr h)

theorem groupInsert_ne_nil {κ α} (cmp : κ → κ → Ordering) (k : κ) (v : List α) (l : List (κ × List α)) :
    groupInsert cmp k v l ≠ [] := by
  cases l with
  | nil => simp [groupInsert]
  | cons q qs =>
    obtain ⟨k', vs⟩ := q
    simp only [groupInsert]
    split <;> simp

/-- Every value list in a grouped association list is non-empty when every inserted one was. -/
theorem groupInsert_vals_ne {κ α} (cmp : κ → κ → Ordering) (k : κ) (v : List α) (hv : v ≠ [])
    (l : List (κ × List α)) (hl : ∀ q ∈ l, q.2 ≠ []) : ∀ q ∈ groupInsert cmp k v l, q.2 ≠ [] := by
  induction l with
  | nil => simp [groupInsert]; exact hv
  | cons q qs ih =>
    obtain ⟨k', vs⟩ := q
    simp only [groupInsert]
    split
    · intro p hp
      rcases List.mem_cons.mp hp with rfl | hp
      · exact hv
      · exact hl p hp
    · intro p hp
      rcases List.mem_cons.mp hp with rfl | hp
      · simp; intro h; exact absurd h (hl (k', vs) (by simp))
      · exact hl p (by simp [hp])
    · intro p hp
      rcases List.mem_cons.mp hp with rfl | hp
      · exact hl _ (by simp)
      · exact ih (fun q hq => hl q (by simp [hq])) p hp

def Dist (φ : Tri → Prop) : Prop := ∀ xs : List Tri, φ (Tri.or xs) ↔ ∃ x ∈ xs, φ x

theorem dist_t : Dist (· = .t) := by
  intro xs
  show Tri.or xs = .t ↔ ∃ x ∈ xs, x = .t
  rw [Tri.or_eq_t_iff]
  constructor
  · intro h; exact ⟨_, h, rfl⟩
  · rintro ⟨x, hx, rfl⟩; exact hx

theorem dist_nm : Dist (· ≠ .m) := by
  intro xs
  show Tri.or xs ≠ .m ↔ ∃ x ∈ xs, x ≠ .m
  induction xs with
  | nil => simp
  | cons x xs ih =>
    rw [Tri.or_cons]
    cases x with
    | t => simp
    | f => simp; cases Tri.or xs <;> simp
    | m => simp; exact ih

theorem tri_eq_of (a b : Tri) (h1 : a = .t ↔ b = .t) (h2 : a ≠ .m ↔ b ≠ .m) : a = b := by
  cases a <;> cases b <;> simp_all

theorem or_single' (x : Tri) : Tri.or [x] = x := by cases x <;> rfl

theorem ac_single_false (E : RegexEngine) (d : Doc) (mt : MatchType) (f : Str) (c : Bool) :
    solveSearch E d (.ac [mt] false) f c = solveSearch E d (searchOfMatchType mt) f c := by
  rw [ac_or E d [mt] (by simp) f c]; simp [or_single']

theorem acAny_or (E : RegexEngine) (d : Doc) (ctx : List MatchType) (hne : ctx ≠ []) (ci : Bool) (f : Str) (c : Bool) :
    solveSearch E d (.ac ctx ci) f c = Tri.or (ctx.map (fun mt => solveSearch E d (.ac [mt] ci) f c)) := by
  cases ci with
  | true => exact iac_or E d ctx hne f c
  | false =>
    rw [ac_or E d ctx hne f c]
    congr 1
    apply List.map_congr_left
    intro mt _
    exact (ac_single_false E d mt f c).symm

theorem solve_search (E : RegexEngine) (K : IdentK) (d : Doc) (s : Search) (f : Str) (c : Bool) :
    solveG E K d (.search s f c) = solveSearch E d s f c := by simp only [solveG]

section
variable (E : RegexEngine) (K : IdentK) (d : Doc) (φ : Tri → Prop)

def Ex (l : List Expr) : Prop := ∃ x ∈ l, φ (solveG E K d x)
def UN (l : List ((Str × Bool × Bool) × List MatchType)) : Prop :=
  ∃ q ∈ l, ∃ mt ∈ q.2, φ (solveSearch E d (.ac [mt] q.1.2.2) q.1.1 q.1.2.1)
def UP (l : List ((Str × Bool × Bool) × List Str)) : Prop :=
  ∃ q ∈ l, ∃ p ∈ q.2, φ (solveSearch E d (.regex p q.1.2.2) q.1.1 q.1.2.1)
def UNest (l : List (Str × List Expr)) : Prop :=
  ∃ q ∈ l, ∃ b ∈ q.2, φ (solveG E K d (.nested q.1 b))
def U (st : OrSt) : Prop :=
  Ex E K d φ st.any ∨ UN E d φ st.needles ∨ UP E d φ st.patterns ∨ Ex E K d φ st.rest ∨ UNest E K d φ st.nested

theorem Ex_append (a b : List Expr) : Ex E K d φ (a ++ b) ↔ Ex E K d φ a ∨ Ex E K d φ b := by
  unfold Ex
  constructor
  · rintro ⟨x, hx, h⟩
    rcases List.mem_append.mp hx with hx | hx
    · exact Or.inl ⟨x, hx, h⟩
    · exact Or.inr ⟨x, hx, h⟩
  · rintro (⟨x, hx, h⟩ | ⟨x, hx, h⟩)
    · exact ⟨x, List.mem_append.mpr (Or.inl hx), h⟩
    · exact ⟨x, List.mem_append.mpr (Or.inr hx), h⟩

theorem Ex_single (x : Expr) : Ex E K d φ [x] ↔ φ (solveG E K d x) := by
  unfold Ex; simp

theorem ex_map {α} (l : List α) (g : α → Tri) : (∃ x ∈ l.map g, φ x) ↔ ∃ a ∈ l, φ (g a) := by
  constructor
  · rintro ⟨x, hx, h⟩
    obtain ⟨a, ha, rfl⟩ := List.mem_map.mp hx
    exact ⟨a, ha, h⟩
  · rintro ⟨a, ha, h⟩
    exact ⟨g a, List.mem_map.mpr ⟨a, ha, rfl⟩, h⟩

/-- What may stand as a member of an or-group for the batching to be exact. -/
def memberOK : Expr → Bool
  | .search (.ac ctx _) _ _ => !ctx.isEmpty
  | .search (.regexSet ps _) _ _ => !ps.isEmpty
  | _ => true

theorem UN_insert (hφ : Dist φ) (f : Str) (c ci : Bool) (ctx : List MatchType) (hne : ctx ≠ [])
    (l : List ((Str × Bool × Bool) × List MatchType)) :
    UN E d φ (groupInsert keyCmp (f, c, ci) ctx l) ↔
      (φ (solveSearch E d (.ac ctx ci) f c) ∨ UN E d φ l) := by
  unfold UN
  rw [groupInsert_ex keyCmp keyCmp_eq (f, c, ci) ctx l
    (fun k mt => φ (solveSearch E d (.ac [mt] k.2.2) k.1 k.2.1))]
  rw [acAny_or E d ctx hne ci f c, hφ]
  rw [ex_map]

theorem UP_insert (hφ : Dist φ) (f : Str) (c ci : Bool) (ps : List Str) (hne : ps ≠ [])
    (l : List ((Str × Bool × Bool) × List Str)) :
    UP E d φ (groupInsert keyCmp (f, c, ci) ps l) ↔
      (φ (solveSearch E d (.regexSet ps ci) f c) ∨ UP E d φ l) := by
  unfold UP
  rw [groupInsert_ex keyCmp keyCmp_eq (f, c, ci) ps l
    (fun k p => φ (solveSearch E d (.regex p k.2.2) k.1 k.2.1))]
  rw [set_or E d ps ci hne f c, hφ]
  rw [ex_map]

theorem set_single (p : Str) (ci : Bool) (f : Str) (c : Bool) :
    solveSearch E d (.regexSet [p] ci) f c = solveSearch E d (.regex p ci) f c := by
  rw [set_or E d [p] ci (by simp) f c]; simp [or_single']

theorem UNest_insert (f : Str) (b : Expr) (l : List (Str × List Expr)) :
    UNest E K d φ (groupInsert strCmp f [b] l) ↔ (φ (solveG E K d (.nested f b)) ∨ UNest E K d φ l) := by
  unfold UNest
  rw [groupInsert_ex strCmp strCmp_eq f [b] l (fun k x => φ (solveG E K d (.nested k x)))]
  simp

theorem classify_U (hφ : Dist φ) (st : OrSt) (x : Expr) (hx : memberOK x = true) :
    U E K d φ (orClassify st x) ↔ (U E K d φ st ∨ φ (solveG E K d x)) := by
  unfold orClassify
  split
  · -- a nested all()-list: kept as it is
    simp only [U, Ex_append, Ex_single]
    constructor
    · rintro (h | h | h | (h | h) | h) <;> simp [h]
    · rintro ((h | h | h | h | h) | h) <;> simp [h]
  · -- nested
    rename_i f b _
    simp only [U]
    rw [UNest_insert]
    constructor
    · rintro (h | h | h | h | h | h) <;> simp [h]
    · rintro ((h | h | h | h | h) | h) <;> simp [h]
  · rename_i ctx ci f c
    have hne : ctx ≠ [] := by simpa [memberOK] using hx
    simp only [U]
    rw [UN_insert E d φ hφ f c ci ctx hne, solve_search]
    constructor
    · rintro (h | (h | h) | h | h | h) <;> simp [h]
    · rintro ((h | h | h | h | h) | h) <;> simp [h]
  · rename_i v f c
    simp only [U]
    rw [UN_insert E d φ hφ f c false [.contains v] (by simp), solve_search, ac_single_false]
    constructor
    · rintro (h | (h | h) | h | h | h)
      · simp [h]
      · exact Or.inr h
      all_goals simp [h]
    · rintro ((h | h | h | h | h) | h)
      all_goals first | (simp [h]; done) | exact Or.inr (Or.inl (Or.inl h))
  · rename_i v f c
    simp only [U]
    rw [UN_insert E d φ hφ f c false [.endsWith v] (by simp), solve_search, ac_single_false]
    constructor
    · rintro (h | (h | h) | h | h | h)
      · simp [h]
      · exact Or.inr h
      all_goals simp [h]
    · rintro ((h | h | h | h | h) | h)
      all_goals first | (simp [h]; done) | exact Or.inr (Or.inl (Or.inl h))
  · rename_i v f c
    simp only [U]
    rw [UN_insert E d φ hφ f c false [.exact v] (by simp), solve_search, ac_single_false]
    constructor
    · rintro (h | (h | h) | h | h | h)
      · simp [h]
      · exact Or.inr h
      all_goals simp [h]
    · rintro ((h | h | h | h | h) | h)
      all_goals first | (simp [h]; done) | exact Or.inr (Or.inl (Or.inl h))
  · rename_i v f c
    simp only [U]
    rw [UN_insert E d φ hφ f c false [.startsWith v] (by simp), solve_search, ac_single_false]
    constructor
    · rintro (h | (h | h) | h | h | h)
      · simp [h]
      · exact Or.inr h
      all_goals simp [h]
    · rintro ((h | h | h | h | h) | h)
      all_goals first | (simp [h]; done) | exact Or.inr (Or.inl (Or.inl h))
  · -- any
    simp only [U, Ex_append, Ex_single]
    constructor
    · rintro ((h | h) | h | h | h | h) <;> simp [h]
    · rintro ((h | h | h | h | h) | h) <;> simp [h]
  · rename_i r ci f c
    simp only [U]
    rw [UP_insert E d φ hφ f c ci [r] (by simp), solve_search, set_single]
    constructor
    · rintro (h | h | (h | h) | h | h) <;> simp [h]
    · rintro ((h | h | h | h | h) | h) <;> simp [h]
  · rename_i rs ci f c
    have hne : rs ≠ [] := by simpa [memberOK] using hx
    simp only [U]
    rw [UP_insert E d φ hφ f c ci rs hne, solve_search]
    constructor
    · rintro (h | h | (h | h) | h | h) <;> simp [h]
    · rintro ((h | h | h | h | h) | h) <;> simp [h]
  · simp only [U, Ex_append, Ex_single]
    constructor
    · rintro (h | h | h | (h | h) | h) <;> simp [h]
    · rintro ((h | h | h | h | h) | h) <;> simp [h]

end

def Good (E : RegexEngine) (K : IdentK) (fuel : Nat) (e : Expr) : Prop :=
  e1OK (shake1 fuel e) = true ∧ (∀ d, solveG E K d (shake1 fuel e) = solveG E K d e) ∧
  (mayBecomeMatch (shake1 fuel e) = true → mayBecomeMatch e = true) ∧
  (hasTopNested (shake1 fuel e) = true → hasTopNested e = true) ∧
  ((∀ op es, e ≠ .group op es) → matchChildOK e = true → Sim E K e (shake1 fuel e))

theorem shake1_match_form (fuel : Nat) (k : MatchK) (y : Expr) :
    ∃ y', shake1 fuel (.match k y) = .match k y' ∧
      nestedSpecial (.match k y') = nestedSpecial (.match k y) ∧
      matchChildOK y' = matchChildOK y := by
  cases fuel with
  | zero => exact ⟨y, rfl, rfl, rfl⟩
  | succ n =>
    cases y with
    | group op es =>
      refine ⟨.group op (es.map (shake1 n)), rfl, ?_, ?_⟩
      · cases k <;> cases op <;> rfl
      · simp [matchChildOK]
    | matrix cols rows => exact ⟨.matrix cols rows, by simp [shake1, shake1_leafish], rfl, rfl⟩
    | ident i => exact ⟨.ident i, by simp [shake1, shake1_leafish], rfl, rfl⟩
    | search s f c => exact ⟨.search s f c, by simp [shake1, shake1_leafish], rfl, rfl⟩
    | bin l op r =>
      refine ⟨shake1 n (.bin l op r), rfl, ?_, ?_⟩
      · cases n <;> cases k <;> rfl
      · cases n <;> cases op <;> rfl
    | negate x =>
      refine ⟨shake1 n (.negate x), rfl, ?_, ?_⟩
      · cases n <;> cases k <;> rfl
      · cases n <;> rfl
    | nested f x =>
      refine ⟨shake1 n (.nested f x), rfl, ?_, ?_⟩
      · cases n <;> cases k <;> rfl
      · cases n <;> rfl
    | «match» k2 x =>
      refine ⟨shake1 n (.match k2 x), rfl, ?_, ?_⟩
      · cases n
        · cases k <;> rfl
        · cases x <;> cases k <;> rfl
      · cases n
        · rfl
        · cases x <;> rfl
    | bool b => exact ⟨_, rfl, by cases n <;> cases k <;> rfl, by cases n <;> rfl⟩
    | cast f m => exact ⟨_, rfl, by cases n <;> cases k <;> rfl, by cases n <;> rfl⟩
    | field f => exact ⟨_, rfl, by cases n <;> cases k <;> rfl, by cases n <;> rfl⟩
    | float x => exact ⟨_, rfl, by cases n <;> cases k <;> rfl, by cases n <;> rfl⟩
    | int x => exact ⟨_, rfl, by cases n <;> cases k <;> rfl, by cases n <;> rfl⟩
    | null => exact ⟨_, rfl, by cases n <;> cases k <;> rfl, by cases n <;> rfl⟩

theorem special_is_match (x : Expr) (h : nestedSpecial x = true) : mayBecomeMatch x = true := by
  cases x <;> simp [nestedSpecial] at h <;> simp [mayBecomeMatch]

theorem nestedBody_ok (E : RegexEngine) (K : IdentK) (fuel : Nat) (x : Expr) (hG : Good E K fuel x)
    (h1 : nestedChildOK x = true) (h2 : nestedSpecial x = false) :
    nestedSpecial (shake1 fuel x) = false ∧ nestedChildOK (shake1 fuel x) = true := by
  have key : mayBecomeMatch (shake1 fuel x) = true →
      ∃ k y, x = .match k y := by
    intro hm
    have := hG.2.2.1 hm
    cases x with
    | «match» k y => exact ⟨k, y, rfl⟩
    | group op es =>
      match es, h1, this with
      | [], _, this => simp [mayBecomeMatch] at this
      | [y], h1, this => simp [nestedChildOK, mayBecomeMatch] at h1 this; rw [this] at h1; cases h1
      | _ :: _ :: _, _, this => simp [mayBecomeMatch] at this
    | _ => simp [mayBecomeMatch] at this
  constructor
  · cases hs : nestedSpecial (shake1 fuel x) with
    | false => rfl
    | true =>
      obtain ⟨k, y, rfl⟩ := key (special_is_match _ hs)
      obtain ⟨y', he, hsp, _⟩ := shake1_match_form fuel k y
      rw [he, hsp, h2] at hs; cases hs
  · cases hc : nestedChildOK (shake1 fuel x) with
    | true => rfl
    | false =>
      have hm : mayBecomeMatch (shake1 fuel x) = true := by
        generalize shake1 fuel x = r at hc
        cases r with
        | group op es =>
          match es, hc with
          | [], hc => simp [nestedChildOK] at hc
          | [y], hc => simpa [nestedChildOK, mayBecomeMatch] using hc
          | _ :: _ :: _, hc => simp [nestedChildOK] at hc
        | _ => simp [nestedChildOK] at hc
      obtain ⟨k, y, rfl⟩ := key hm
      obtain ⟨y', he, _, _⟩ := shake1_match_form fuel k y
      rw [he] at hc; simp [nestedChildOK] at hc

theorem groupInsert_all {κ α} (cmp : κ → κ → Ordering) (hc : ∀ a b, cmp a b = .eq → a = b)
    (k : κ) (v : List α) (l : List (κ × List α)) (Q : κ → α → Prop) :
    (∀ q ∈ groupInsert cmp k v l, ∀ m ∈ q.2, Q q.1 m) ↔
      ((∀ m ∈ v, Q k m) ∧ ∀ q ∈ l, ∀ m ∈ q.2, Q q.1 m) := by
  have h := groupInsert_ex cmp hc k v l (fun k m => ¬ Q k m)
  have h' := not_congr h
  simp only [not_exists, not_and, not_or, Classical.not_not] at h'
  exact h'

theorem mbm_group2 (op : BoolSym) (es : List Expr) (h : mayBecomeMatch (.group op es) = true) :
    ∃ y, es = [y] ∧ mayBecomeMatch y = true := by
  match es, h with
  | [], h => simp [mayBecomeMatch] at h
  | [y], h => exact ⟨y, rfl, by simpa [mayBecomeMatch] using h⟩
  | _ :: _ :: _, h => simp [mayBecomeMatch] at h

theorem e1OKL_iff (l : List Expr) : e1OKL l = true ↔ ∀ x ∈ l, e1OK x = true := by
  induction l with
  | nil => simp [e1OKL]
  | cons x xs ih => simp [e1OKL, ih]

theorem buildNested_spec (E : RegexEngine) (K : IdentK) (fuel : Nat)
    (IH : ∀ e, e1OK e = true → Good E K fuel e) (f : Str) (xs : List Expr) (hne : xs ≠ [])
    (hb : ∀ b ∈ xs, e1OK b = true ∧ nestedChildOK b = true ∧ nestedSpecial b = false) :
    e1OK (buildNested fuel (f, xs)) = true ∧
    ∀ d, solveG E K d (buildNested fuel (f, xs)) = Tri.or (xs.map (fun b => solveG E K d (.nested f b))) := by
  match xs, hne, hb with
  | [x], _, hb =>
    obtain ⟨h1, h2, h3⟩ := hb x (by simp)
    have hG := IH x h1
    obtain ⟨n1, n2⟩ := nestedBody_ok E K fuel x hG h2 h3
    constructor
    · simp [buildNested, e1OK, n1, n2, hG.1]
    · intro d
      simp only [buildNested, List.map_cons, List.map_nil, or_single']
      exact nested_generic_congr E K f x (shake1 fuel x) h3 n1 hG.2.1 d
  | x :: y :: rest, _, hb =>
    have hg : e1OK (.group .or (x :: y :: rest)) = true := by
      simp only [e1OK, List.isEmpty_cons, Bool.not_false, Bool.true_and]
      exact (e1OKL_iff _).mpr (fun b hb' => (hb b hb').1)
    have hG := IH _ hg
    have nm : mayBecomeMatch (shake1 fuel (.group .or (x :: y :: rest))) = false := by
      cases hm : mayBecomeMatch (shake1 fuel (.group .or (x :: y :: rest))) with
      | false => rfl
      | true =>
        obtain ⟨z, hz, _⟩ := mbm_group2 _ _ (hG.2.2.1 hm)
        simp at hz
    have n1 : nestedSpecial (shake1 fuel (.group .or (x :: y :: rest))) = false := by
      cases hs : nestedSpecial (shake1 fuel (.group .or (x :: y :: rest))) with
      | false => rfl
      | true => rw [special_is_match _ hs] at nm; cases nm
    have n2 : nestedChildOK (shake1 fuel (.group .or (x :: y :: rest))) = true := by
      generalize shake1 fuel (.group .or (x :: y :: rest)) = r at nm
      cases r with
      | group op es =>
        match es, nm with
        | [], _ => rfl
        | [w], nm => simpa [nestedChildOK, mayBecomeMatch] using nm
        | _ :: _ :: _, _ => rfl
      | _ => rfl
    constructor
    · simp [buildNested, e1OK, n1, n2, hG.1]
    · intro d
      simp only [buildNested]
      rw [nested_generic_congr E K f (.group .or (x :: y :: rest)) _ rfl n1 hG.2.1 d]
      exact nested_or_merge E K d f (x :: y :: rest) (by simp) (fun b hb' => (hb b hb').2.2)

theorem somt'_eq (mt : MatchType) : shake1.searchOfMatchType' mt = searchOfMatchType mt := by
  cases mt <;> rfl

theorem buildNeedle_form (q : (Str × Bool × Bool) × List MatchType) :
    ∃ s, buildNeedle q = .search s q.1.1 q.1.2.1 ∧
      (∃ k, k < 5 ∧ kindIs k (buildNeedle q) = true) := by
  obtain ⟨⟨f, c, ci⟩, ctx⟩ := q
  simp only [buildNeedle]
  split
  · rename_i mt
    cases mt
    · exact ⟨_, rfl, 3, by omega, rfl⟩
    · exact ⟨_, rfl, 2, by omega, rfl⟩
    · exact ⟨_, rfl, 0, by omega, rfl⟩
    · exact ⟨_, rfl, 1, by omega, rfl⟩
  · exact ⟨_, rfl, 4, by omega, rfl⟩

theorem buildNeedle_spec (E : RegexEngine) (K : IdentK) (d : Doc) (φ : Tri → Prop) (hφ : Dist φ)
    (q : (Str × Bool × Bool) × List MatchType) (hne : q.2 ≠ []) :
    e1OK (buildNeedle q) = true ∧
    (φ (solveG E K d (buildNeedle q)) ↔
      ∃ mt ∈ q.2, φ (solveSearch E d (.ac [mt] q.1.2.2) q.1.1 q.1.2.1)) := by
  obtain ⟨⟨f, c, ci⟩, ctx⟩ := q
  simp only [buildNeedle]
  split
  · rename_i mt
    constructor
    · cases mt <;> rfl
    · rw [solve_search, somt'_eq, ← ac_single_false]; simp
  · constructor
    · simpa [e1OK] using hne
    · rw [solve_search, acAny_or E d ctx hne ci f c, hφ, ex_map]

theorem buildPattern_form (q : (Str × Bool × Bool) × List Str) :
    (isRegex (buildPattern q) = true ∨ isRegexSet (buildPattern q) = true) := by
  obtain ⟨⟨f, c, ci⟩, ps⟩ := q
  simp only [buildPattern]
  split
  · exact Or.inl rfl
  · exact Or.inr rfl

theorem buildPattern_spec (E : RegexEngine) (K : IdentK) (d : Doc) (φ : Tri → Prop) (hφ : Dist φ)
    (q : (Str × Bool × Bool) × List Str) (hne : q.2 ≠ []) :
    e1OK (buildPattern q) = true ∧
    (φ (solveG E K d (buildPattern q)) ↔
      ∃ p ∈ q.2, φ (solveSearch E d (.regex p q.1.2.2) q.1.1 q.1.2.1)) := by
  obtain ⟨⟨f, c, ci⟩, ps⟩ := q
  simp only [buildPattern]
  split
  · rename_i p
    constructor
    · rfl
    · rw [solve_search]; simp
  · constructor
    · simpa [e1OK] using hne
    · rw [solve_search, set_or E d ps ci hne f c, hφ, ex_map]

theorem mem_orOut (fuel : Nat) (st : OrSt) (x : Expr) :
    x ∈ orOut fuel st ↔
      (x ∈ st.any ∨ x ∈ st.needles.map buildNeedle ∨ x ∈ st.patterns.map buildPattern ∨
       x ∈ st.rest ∨ x ∈ st.nested.map (buildNested fuel)) := by
  simp only [orOut, byLen, List.mem_append, mem_stableSort, List.mem_filter]
  constructor
  · rintro (((((((((h | h) | h) | h) | h) | h) | h) | h) | h) | h)
    · exact Or.inl h
    · exact Or.inr (Or.inl h.1)
    · exact Or.inr (Or.inl h.1)
    · exact Or.inr (Or.inl h.1)
    · exact Or.inr (Or.inl h.1)
    · exact Or.inr (Or.inl h.1)
    · exact Or.inr (Or.inr (Or.inl h.1))
    · exact Or.inr (Or.inr (Or.inl h.1))
    · exact Or.inr (Or.inr (Or.inr (Or.inl h)))
    · exact Or.inr (Or.inr (Or.inr (Or.inr h)))
  · rintro (h | h | h | h | h)
    · simp [h]
    · obtain ⟨q, hq, rfl⟩ := List.mem_map.mp h
      obtain ⟨s, _, k, hk, hkind⟩ := buildNeedle_form q
      have : k = 0 ∨ k = 1 ∨ k = 2 ∨ k = 3 ∨ k = 4 := by omega
      rcases this with rfl | rfl | rfl | rfl | rfl <;> simp [h, hkind]
    · obtain ⟨q, hq, rfl⟩ := List.mem_map.mp h
      rcases buildPattern_form q with hk | hk <;> simp [h, hk]
    · simp [h]
    · simp [h]

/-- Bookkeeping facts about the buckets after the members `L` have been classified. -/
structure OrS (L : List Expr) (st : OrSt) : Prop where
  any : ∀ x ∈ st.any, ∃ f c, x = .search .any f c
  rest : ∀ x ∈ st.rest, x ∈ L
  needles : ∀ q ∈ st.needles, q.2 ≠ []
  patterns : ∀ q ∈ st.patterns, q.2 ≠ []
  nestedNe : ∀ q ∈ st.nested, q.2 ≠ []
  nested : ∀ q ∈ st.nested, ∀ b ∈ q.2, Expr.nested q.1 b ∈ L
  count : st.needles = [] → st.patterns = [] → st.nested = [] → st.any.length + st.rest.length = L.length

theorem orS_empty : OrS [] {} :=
  ⟨by simp, by simp, by simp, by simp, by simp, by simp, by simp⟩

theorem orS_step (L : List Expr) (st : OrSt) (x : Expr) (hx : memberOK x = true) (h : OrS L st) :
    OrS (L ++ [x]) (orClassify st x) := by
  have up : ∀ y, y ∈ L → y ∈ L ++ [x] := fun y hy => List.mem_append.mpr (Or.inl hy)
  have last : x ∈ L ++ [x] := by simp
  unfold orClassify
  split
  · refine ⟨h.any, ?_, h.needles, h.patterns, h.nestedNe,
      fun q hq m hm => up _ (h.nested q hq m hm), ?_⟩
    · intro y hy
      rcases List.mem_append.mp hy with hy | hy
      · exact up y (h.rest y hy)
      · simp at hy; subst hy; exact last
    · intro h1 h2 h3
      have := h.count h1 h2 h3
      simp only [List.length_append, List.length_singleton]; omega
  · rename_i f b _
    refine ⟨h.any, fun y hy => up y (h.rest y hy), h.needles, h.patterns, ?_, ?_, ?_⟩
    · exact groupInsert_vals_ne strCmp f [b] (by simp) _ h.nestedNe
    · rw [groupInsert_all strCmp strCmp_eq f [b] st.nested (fun k m => Expr.nested k m ∈ L ++ [Expr.nested f b])]
      constructor
      · intro m hm; simp at hm; subst hm; exact last
      · intro q hq m hm; exact up _ (h.nested q hq m hm)
    · intro _ _ h3; exact absurd h3 (groupInsert_ne_nil _ _ _ _)
  · rename_i ctx ci f c
    have hne : ctx ≠ [] := by simpa [memberOK] using hx
    refine ⟨h.any, fun y hy => up y (h.rest y hy), ?_, h.patterns, h.nestedNe,
      fun q hq m hm => up _ (h.nested q hq m hm), ?_⟩
    · exact groupInsert_vals_ne keyCmp _ ctx hne _ h.needles
    · intro h1; exact absurd h1 (groupInsert_ne_nil _ _ _ _)
  · refine ⟨h.any, fun y hy => up y (h.rest y hy), ?_, h.patterns, h.nestedNe,
      fun q hq m hm => up _ (h.nested q hq m hm), ?_⟩
    · exact groupInsert_vals_ne keyCmp _ _ (by simp) _ h.needles
    · intro h1; exact absurd h1 (groupInsert_ne_nil _ _ _ _)
  · refine ⟨h.any, fun y hy => up y (h.rest y hy), ?_, h.patterns, h.nestedNe,
      fun q hq m hm => up _ (h.nested q hq m hm), ?_⟩
    · exact groupInsert_vals_ne keyCmp _ _ (by simp) _ h.needles
    · intro h1; exact absurd h1 (groupInsert_ne_nil _ _ _ _)
  · refine ⟨h.any, fun y hy => up y (h.rest y hy), ?_, h.patterns, h.nestedNe,
      fun q hq m hm => up _ (h.nested q hq m hm), ?_⟩
    · exact groupInsert_vals_ne keyCmp _ _ (by simp) _ h.needles
    · intro h1; exact absurd h1 (groupInsert_ne_nil _ _ _ _)
  · refine ⟨h.any, fun y hy => up y (h.rest y hy), ?_, h.patterns, h.nestedNe,
      fun q hq m hm => up _ (h.nested q hq m hm), ?_⟩
    · exact groupInsert_vals_ne keyCmp _ _ (by simp) _ h.needles
    · intro h1; exact absurd h1 (groupInsert_ne_nil _ _ _ _)
  · rename_i f c
    refine ⟨?_, fun y hy => up y (h.rest y hy), h.needles, h.patterns, h.nestedNe,
      fun q hq m hm => up _ (h.nested q hq m hm), ?_⟩
    · intro y hy
      rcases List.mem_append.mp hy with hy | hy
      · exact h.any y hy
      · simp at hy; exact ⟨f, c, hy⟩
    · intro h1 h2 h3
      have := h.count h1 h2 h3
      simp only [List.length_append, List.length_singleton]; omega
  · refine ⟨h.any, fun y hy => up y (h.rest y hy), h.needles, ?_, h.nestedNe,
      fun q hq m hm => up _ (h.nested q hq m hm), ?_⟩
    · exact groupInsert_vals_ne keyCmp _ _ (by simp) _ h.patterns
    · intro _ h2; exact absurd h2 (groupInsert_ne_nil _ _ _ _)
  · rename_i rs ci f c
    have hne : rs ≠ [] := by simpa [memberOK] using hx
    refine ⟨h.any, fun y hy => up y (h.rest y hy), h.needles, ?_, h.nestedNe,
      fun q hq m hm => up _ (h.nested q hq m hm), ?_⟩
    · exact groupInsert_vals_ne keyCmp _ _ hne _ h.patterns
    · intro _ h2; exact absurd h2 (groupInsert_ne_nil _ _ _ _)
  · refine ⟨h.any, ?_, h.needles, h.patterns, h.nestedNe,
      fun q hq m hm => up _ (h.nested q hq m hm), ?_⟩
    · intro y hy
      rcases List.mem_append.mp hy with hy | hy
      · exact up y (h.rest y hy)
      · simp at hy; subst hy; exact last
    · intro h1 h2 h3
      have := h.count h1 h2 h3
      simp only [List.length_append, List.length_singleton]; omega

theorem orS_fold (L : List Expr) (hL : ∀ x ∈ L, memberOK x = true) :
    ∀ (P : List Expr) (st : OrSt), OrS P st → OrS (P ++ L) (L.foldl orClassify st) := by
  induction L with
  | nil => intro P st h; simpa using h
  | cons x xs ih =>
    intro P st h
    simp only [List.foldl_cons]
    have := ih (fun y hy => hL y (by simp [hy])) (P ++ [x]) _ (orS_step P st x (hL x (by simp)) h)
    simpa using this

section
variable (E : RegexEngine) (K : IdentK) (d : Doc) (φ : Tri → Prop)

theorem fold_U (hφ : Dist φ) (L : List Expr) (hL : ∀ x ∈ L, memberOK x = true) :
    ∀ st, U E K d φ (L.foldl orClassify st) ↔ (U E K d φ st ∨ Ex E K d φ L) := by
  induction L with
  | nil => intro st; simp [Ex]
  | cons x xs ih =>
    intro st
    simp only [List.foldl_cons]
    rw [ih (fun y hy => hL y (by simp [hy])), classify_U E K d φ hφ st x (hL x (by simp))]
    have : Ex E K d φ (x :: xs) ↔ (φ (solveG E K d x) ∨ Ex E K d φ xs) := by
      unfold Ex; simp
    rw [this, or_assoc]

theorem U_empty : ¬ U E K d φ {} := by
  simp [U, Ex, UN, UP, UNest]

end

section
variable (E : RegexEngine) (K : IdentK) (d : Doc) (φ : Tri → Prop)

theorem Ex_map_iff {α} (l : List α) (g : α → Expr) (R : α → Prop)
    (h : ∀ q ∈ l, (φ (solveG E K d (g q)) ↔ R q)) : Ex E K d φ (l.map g) ↔ ∃ q ∈ l, R q := by
  unfold Ex
  constructor
  · rintro ⟨x, hx, hp⟩
    obtain ⟨q, hq, rfl⟩ := List.mem_map.mp hx
    exact ⟨q, hq, (h q hq).mp hp⟩
  · rintro ⟨q, hq, hr⟩
    exact ⟨g q, List.mem_map.mpr ⟨q, hq, rfl⟩, (h q hq).mpr hr⟩

theorem nested_facts (f : Str) (b : Expr) (h : e1OK (.nested f b) = true) :
    e1OK b = true ∧ nestedChildOK b = true ∧ nestedSpecial b = false := by
  simp only [e1OK, Bool.and_eq_true, Bool.not_eq_true'] at h
  exact ⟨h.2, h.1.1, h.1.2⟩

theorem out_U (hφ : Dist φ) (fuel : Nat) (IH : ∀ e, e1OK e = true → Good E K fuel e)
    (L : List Expr) (hL : ∀ x ∈ L, e1OK x = true) (st : OrSt) (hS : OrS L st) :
    Ex E K d φ (orOut fuel st) ↔ U E K d φ st := by
  have h1 : Ex E K d φ (orOut fuel st) ↔
      (Ex E K d φ st.any ∨ Ex E K d φ (st.needles.map buildNeedle) ∨
       Ex E K d φ (st.patterns.map buildPattern) ∨ Ex E K d φ st.rest ∨
       Ex E K d φ (st.nested.map (buildNested fuel))) := by
    unfold Ex
    constructor
    · rintro ⟨x, hx, hp⟩
      rcases (mem_orOut fuel st x).mp hx with h | h | h | h | h
      · exact Or.inl ⟨x, h, hp⟩
      · exact Or.inr (Or.inl ⟨x, h, hp⟩)
      · exact Or.inr (Or.inr (Or.inl ⟨x, h, hp⟩))
      · exact Or.inr (Or.inr (Or.inr (Or.inl ⟨x, h, hp⟩)))
      · exact Or.inr (Or.inr (Or.inr (Or.inr ⟨x, h, hp⟩)))
    · rintro (⟨x, h, hp⟩ | ⟨x, h, hp⟩ | ⟨x, h, hp⟩ | ⟨x, h, hp⟩ | ⟨x, h, hp⟩)
      · exact ⟨x, (mem_orOut fuel st x).mpr (Or.inl h), hp⟩
      · exact ⟨x, (mem_orOut fuel st x).mpr (Or.inr (Or.inl h)), hp⟩
      · exact ⟨x, (mem_orOut fuel st x).mpr (Or.inr (Or.inr (Or.inl h))), hp⟩
      · exact ⟨x, (mem_orOut fuel st x).mpr (Or.inr (Or.inr (Or.inr (Or.inl h)))), hp⟩
      · exact ⟨x, (mem_orOut fuel st x).mpr (Or.inr (Or.inr (Or.inr (Or.inr h)))), hp⟩
  rw [h1]
  unfold U
  have h2 : Ex E K d φ (st.needles.map buildNeedle) ↔ UN E d φ st.needles :=
    Ex_map_iff E K d φ _ _ _ (fun q hq => (buildNeedle_spec E K d φ hφ q (hS.needles q hq)).2)
  have h3 : Ex E K d φ (st.patterns.map buildPattern) ↔ UP E d φ st.patterns :=
    Ex_map_iff E K d φ _ _ _ (fun q hq => (buildPattern_spec E K d φ hφ q (hS.patterns q hq)).2)
  have h4 : Ex E K d φ (st.nested.map (buildNested fuel)) ↔ UNest E K d φ st.nested := by
    show _ ↔ ∃ q ∈ st.nested, ∃ b ∈ q.2, φ (solveG E K d (.nested q.1 b))
    apply Ex_map_iff E K d φ st.nested (buildNested fuel)
      (fun (q : Str × List Expr) => ∃ b ∈ q.2, φ (solveG E K d (.nested q.1 b)))
    intro q hq
    obtain ⟨f, xs⟩ := q
    have hb : ∀ b ∈ xs, e1OK b = true ∧ nestedChildOK b = true ∧ nestedSpecial b = false :=
      fun b hb => nested_facts f b (hL _ (hS.nested (f, xs) hq b hb))
    rw [(buildNested_spec E K fuel IH f xs (hS.nestedNe (f, xs) hq) hb).2 d, hφ, ex_map]
  rw [h2, h3, h4]

/-- Every member of the rebuilt or-group is inside the class again. -/
theorem out_e1OK (fuel : Nat) (IH : ∀ e, e1OK e = true → Good E K fuel e)
    (L : List Expr) (hL : ∀ x ∈ L, e1OK x = true) (st : OrSt) (hS : OrS L st) :
    ∀ x ∈ orOut fuel st, e1OK x = true := by
  intro x hx
  rcases (mem_orOut fuel st x).mp hx with h | h | h | h | h
  · obtain ⟨f, c, rfl⟩ := hS.any x h; rfl
  · obtain ⟨q, hq, rfl⟩ := List.mem_map.mp h
    exact (buildNeedle_spec E K (.obj []) (· = .t) dist_t q (hS.needles q hq)).1
  · obtain ⟨q, hq, rfl⟩ := List.mem_map.mp h
    exact (buildPattern_spec E K (.obj []) (· = .t) dist_t q (hS.patterns q hq)).1
  · exact hL x (hS.rest x h)
  · obtain ⟨q, hq, rfl⟩ := List.mem_map.mp h
    obtain ⟨f, xs⟩ := q
    have hb : ∀ b ∈ xs, e1OK b = true ∧ nestedChildOK b = true ∧ nestedSpecial b = false :=
      fun b hb => nested_facts f b (hL _ (hS.nested (f, xs) hq b hb))
    exact (buildNested_spec E K fuel IH f xs (hS.nestedNe (f, xs) hq) hb).1

end

theorem e1OK_memberOK (x : Expr) (h : e1OK x = true) : memberOK x = true := by
  cases x with
  | search s f c => cases s <;> simp [memberOK] <;> simpa [e1OK] using h
  | _ => rfl

/-- The or-arm rebuild has the same three-valued result as the members it was built from. -/
theorem orOut_value (E : RegexEngine) (K : IdentK) (d : Doc) (fuel : Nat)
    (IH : ∀ e, e1OK e = true → Good E K fuel e) (L : List Expr) (hL : ∀ x ∈ L, e1OK x = true) :
    Tri.or ((orOut fuel (L.foldl orClassify {})).map (solveG E K d)) = Tri.or (L.map (solveG E K d)) := by
  have hm : ∀ x ∈ L, memberOK x = true := fun x hx => e1OK_memberOK x (hL x hx)
  have hS : OrS L (L.foldl orClassify {}) := by
    simpa using orS_fold L hm [] {} orS_empty
  have key : ∀ φ, Dist φ → (φ (Tri.or ((orOut fuel (L.foldl orClassify {})).map (solveG E K d))) ↔
      φ (Tri.or (L.map (solveG E K d)))) := by
    intro φ hφ
    rw [hφ, hφ, ex_map, ex_map]
    have := out_U E K d φ hφ fuel IH L hL _ hS
    unfold Ex at this
    rw [this, fold_U E K d φ hφ L hm {}]
    simp [U_empty, Ex]
  exact tri_eq_of _ _ (key _ dist_t) (key _ dist_nm)

theorem shake1_leaf (fuel : Nat) (e : Expr) (h : isLeafE e = true) : shake1 fuel e = e := by
  cases fuel <;> cases e <;> simp [isLeafE] at h <;> rfl

theorem hasTopNestedL_iff (l : List Expr) : hasTopNestedL l = true ↔ ∃ x ∈ l, hasTopNested x = true := by
  induction l with
  | nil => simp [hasTopNestedL]
  | cons x xs ih => simp [hasTopNestedL, ih]

def shake1Arg (fuel : Nat) : Expr → Expr
  | .group op es => .group op (es.map (shake1 fuel))
  | x => shake1 fuel x

theorem shake1_match (fuel : Nat) (k : MatchK) (x : Expr) :
    shake1 (fuel + 1) (.match k x) = .match k (shake1Arg fuel x) := by
  cases x <;> rfl

def notNested (x : Expr) : Bool := match x with | .nested _ _ => false | _ => true

def andNestedFold (shaken : List Expr) : List (Str × List Expr) :=
  shaken.foldl andNestedStep []

def buildAndNested (fuel : Nat) (q : Str × List Expr) : Expr :=
  match q with
  | (f, xs) =>
    match xs with
    | [x] => Expr.nested f (shake1 fuel x)
    | _ => Expr.nested f (shake1 fuel (.match .all (.group .or xs)))

theorem shake1_and (fuel : Nat) (es : List Expr) :
    shake1 (fuel + 1) (.group .and es) =
      (if (((es.map (shake1 fuel)).filter notNested) ++
            (andNestedFold (es.map (shake1 fuel))).map (buildAndNested fuel)).length != es.length
       then shake1 fuel (.group .and (((es.map (shake1 fuel)).filter notNested) ++
            (andNestedFold (es.map (shake1 fuel))).map (buildAndNested fuel)))
       else unwrapGroup .and (((es.map (shake1 fuel)).filter notNested) ++
            (andNestedFold (es.map (shake1 fuel))).map (buildAndNested fuel))) := by
  rfl

theorem andFold_none (L : List Expr) (h : ∀ x ∈ L, notNested x = true) :
    andNestedFold L = [] ∧ L.filter notNested = L := by
  constructor
  · unfold andNestedFold
    have : ∀ acc, L.foldl andNestedStep acc = acc := by
      induction L with
      | nil => intro acc; rfl
      | cons x xs ih =>
        intro acc
        simp only [List.foldl_cons]
        have hx := h x (by simp)
        have hstep : andNestedStep acc x = acc := by
          cases x with
          | nested f b => simp [notNested] at hx
          | _ => rfl
        rw [hstep]
        exact ih (fun y hy => h y (by simp [hy])) acc
    exact this []
  · exact List.filter_eq_self.mpr h

theorem notNested_of (x : Expr) (h : hasTopNested x = false) : notNested x = true := by
  cases x <;> simp [hasTopNested] at h <;> rfl

theorem rest_len_le (fuel : Nat) (st : OrSt) : st.rest.length ≤ (orOut fuel st).length := by
  simp only [orOut, List.length_append]; omega

theorem unwrapGroup_cases (op : BoolSym) (es : List Expr) :
    (∃ z, es = [z] ∧ unwrapGroup op es = z) ∨ (es.length ≠ 1 ∧ unwrapGroup op es = .group op es) := by
  match es with
  | [] => exact Or.inr ⟨by simp, rfl⟩
  | [z] => exact Or.inl ⟨z, rfl, rfl⟩
  | _ :: _ :: _ => exact Or.inr ⟨by simp, rfl⟩

theorem not_mbm_search (s : Search) (f : Str) (c : Bool) : mayBecomeMatch (.search s f c) = false := rfl
theorem not_mbm_nested (f : Str) (b : Expr) : mayBecomeMatch (.nested f b) = false := rfl

theorem buildPattern_search (q : (Str × Bool × Bool) × List Str) :
    ∃ s f c, buildPattern q = .search s f c := by
  obtain ⟨⟨f, c, ci⟩, ps⟩ := q
  simp only [buildPattern]; split <;> exact ⟨_, _, _, rfl⟩

theorem buildNested_nested (fuel : Nat) (q : Str × List Expr) :
    ∃ f b, buildNested fuel q = .nested f b := by
  obtain ⟨f, xs⟩ := q
  simp only [buildNested]; split <;> exact ⟨_, _, rfl⟩

/-- A member of the rebuilt or-group that is not a search or a nested block is one of the shaken
    members. -/
theorem out_other (fuel : Nat) (L : List Expr) (st : OrSt) (hS : OrS L st) (z : Expr)
    (hz : z ∈ orOut fuel st) (h1 : ∀ s f c, z ≠ .search s f c) (h2 : ∀ f b, z ≠ .nested f b) :
    z ∈ st.rest := by
  rcases (mem_orOut fuel st z).mp hz with h | h | h | h | h
  · obtain ⟨f, c, rfl⟩ := hS.any z h; exact absurd rfl (h1 _ _ _)
  · obtain ⟨q, _, rfl⟩ := List.mem_map.mp h
    obtain ⟨s, hs, _⟩ := buildNeedle_form q
    exact absurd hs (h1 _ _ _)
  · obtain ⟨q, _, rfl⟩ := List.mem_map.mp h
    obtain ⟨s, f, c, hs⟩ := buildPattern_search q
    exact absurd hs (h1 _ _ _)
  · exact h
  · obtain ⟨q, _, rfl⟩ := List.mem_map.mp h
    obtain ⟨f, b, hs⟩ := buildNested_nested fuel q
    exact absurd hs (h2 _ _)

/-- If the rebuilt or-group is a single member that is neither a search nor a nested block, the
    group had a single member. -/
theorem out_single (fuel : Nat) (L : List Expr) (st : OrSt) (hS : OrS L st) (z : Expr)
    (hout : orOut fuel st = [z]) (h1 : ∀ s f c, z ≠ .search s f c) (h2 : ∀ f b, z ≠ .nested f b) :
    L = [z] := by
  have hmem : ∀ y, y ∈ orOut fuel st → y = z := by
    intro y hy; rw [hout] at hy; simpa using hy
  have hrest := out_other fuel L st hS z (by rw [hout]; simp) h1 h2
  have e1 : st.needles = [] := by
    cases hn : st.needles with
    | nil => rfl
    | cons q qs =>
      have : buildNeedle q ∈ orOut fuel st :=
        (mem_orOut fuel st _).mpr (Or.inr (Or.inl (by rw [hn]; simp)))
      obtain ⟨s, hs, _⟩ := buildNeedle_form q
      exact absurd (hs.symm.trans (hmem _ this)).symm (h1 _ _ _)
  have e2 : st.patterns = [] := by
    cases hn : st.patterns with
    | nil => rfl
    | cons q qs =>
      have : buildPattern q ∈ orOut fuel st :=
        (mem_orOut fuel st _).mpr (Or.inr (Or.inr (Or.inl (by rw [hn]; simp))))
      obtain ⟨s, f, c, hs⟩ := buildPattern_search q
      exact absurd (hs.symm.trans (hmem _ this)).symm (h1 _ _ _)
  have e3 : st.nested = [] := by
    cases hn : st.nested with
    | nil => rfl
    | cons q qs =>
      have : buildNested fuel q ∈ orOut fuel st :=
        (mem_orOut fuel st _).mpr (Or.inr (Or.inr (Or.inr (Or.inr (by rw [hn]; simp)))))
      obtain ⟨f, b, hs⟩ := buildNested_nested fuel q
      exact absurd (hs.symm.trans (hmem _ this)).symm (h2 _ _)
  have e4 : st.any = [] := by
    cases hn : st.any with
    | nil => rfl
    | cons y ys =>
      have hy : y ∈ st.any := by rw [hn]; simp
      have : y ∈ orOut fuel st := (mem_orOut fuel st _).mpr (Or.inl hy)
      obtain ⟨f, c, rfl⟩ := hS.any y hy
      exact absurd (hmem _ this).symm (h1 _ _ _)
  have hc := hS.count e1 e2 e3
  have hl := rest_len_le fuel st
  rw [hout, e4] at *
  simp only [List.length_nil, List.length_singleton, Nat.zero_add] at hc hl
  have hLz := hS.rest z hrest
  match L, hc, hLz with
  | [], hc, hLz => simp at hLz
  | [w], _, hLz => simp at hLz; rw [hLz]
  | _ :: _ :: _, hc, _ => simp at hc; omega

theorem out_ne_nil (fuel : Nat) (L : List Expr) (hne : L ≠ []) (st : OrSt) (hS : OrS L st) :
    orOut fuel st ≠ [] := by
  intro hout
  have hmem : ∀ y, ¬ y ∈ orOut fuel st := by intro y hy; rw [hout] at hy; simp at hy
  have e1 : st.needles = [] := by
    cases hn : st.needles with
    | nil => rfl
    | cons q qs => exact absurd ((mem_orOut fuel st _).mpr (Or.inr (Or.inl (by rw [hn]; simp)))) (hmem (buildNeedle q))
  have e2 : st.patterns = [] := by
    cases hn : st.patterns with
    | nil => rfl
    | cons q qs => exact absurd ((mem_orOut fuel st _).mpr (Or.inr (Or.inr (Or.inl (by rw [hn]; simp))))) (hmem (buildPattern q))
  have e3 : st.nested = [] := by
    cases hn : st.nested with
    | nil => rfl
    | cons q qs => exact absurd ((mem_orOut fuel st _).mpr (Or.inr (Or.inr (Or.inr (Or.inr (by rw [hn]; simp)))))) (hmem (buildNested fuel q))
  have e4 : st.any = [] := by
    cases hn : st.any with
    | nil => rfl
    | cons y ys => exact absurd ((mem_orOut fuel st _).mpr (Or.inl (by rw [hn]; simp))) (hmem y)
  have e5 : st.rest = [] := by
    cases hn : st.rest with
    | nil => rfl
    | cons y ys => exact absurd ((mem_orOut fuel st _).mpr (Or.inr (Or.inr (Or.inr (Or.inl (by rw [hn]; simp)))))) (hmem y)
  have hc := hS.count e1 e2 e3
  rw [e4, e5] at hc
  cases L with
  | nil => exact hne rfl
  | cons _ _ => simp at hc

theorem e1OK_group_mem (op : BoolSym) (es : List Expr) (h : e1OK (.group op es) = true) :
    ∀ y ∈ es, e1OK y = true := by
  cases op <;> simp only [e1OK, Bool.and_eq_true] at h <;>
    first | exact (e1OKL_iff es).mp h.1.2 | exact (e1OKL_iff es).mp h.2 | cases h

theorem argSim (E : RegexEngine) (K : IdentK) (n : Nat) (ih : ∀ e, e1OK e = true → Good E K n e)
    (x : Expr) (h : e1OK x = true) (hm : matchChildOK x = true) : Sim E K x (shake1Arg n x) := by
  cases x with
  | group op es =>
    simp only [shake1Arg]
    apply Sim.group op es _ (by simpa [matchChildOK] using hm)
    intro d
    rw [List.map_map]
    apply List.map_congr_left
    intro y hy
    exact (ih y (e1OK_group_mem op es h y hy)).2.1 d
  | _ => exact (ih _ h).2.2.2.2 (by intro op es h'; cases h') hm

theorem map_eq_single {α β} (g : α → β) (l : List α) (z : β) (h : l.map g = [z]) : ∃ y, l = [y] ∧ g y = z := by
  match l, h with
  | [y], h => exact ⟨y, rfl, by simpa using h⟩

theorem good_and (E : RegexEngine) (K : IdentK) (n : Nat) (ih : ∀ e, e1OK e = true → Good E K n e)
    (es : List Expr) (h : e1OK (.group .and es) = true) : Good E K (n + 1) (.group .and es) := by
  have hmem := e1OK_group_mem _ es h
  have hLok : ∀ x ∈ es.map (shake1 n), e1OK x = true := by
    intro x hx
    obtain ⟨y, hy, rfl⟩ := List.mem_map.mp hx
    exact (ih y (hmem y hy)).1
  have hLval : ∀ d, (es.map (shake1 n)).map (solveG E K d) = es.map (solveG E K d) := by
    intro d
    rw [List.map_map]
    apply List.map_congr_left
    intro y hy
    exact (ih y (hmem y hy)).2.1 d
  simp only [e1OK, Bool.and_eq_true, Bool.not_eq_true', List.isEmpty_eq_false_iff] at h
  obtain ⟨⟨hne, _⟩, hnt⟩ := h
  have hLnn : ∀ x ∈ es.map (shake1 n), hasTopNested x = false := by
    intro x hx
    obtain ⟨y, hy, rfl⟩ := List.mem_map.mp hx
    cases hh : hasTopNested (shake1 n y) with
    | false => rfl
    | true =>
      have := (hasTopNestedL_iff es).mpr ⟨y, hy, (ih y (hmem y hy)).2.2.2.1 hh⟩
      rw [this] at hnt; cases hnt
  obtain ⟨f1, f2⟩ := andFold_none (es.map (shake1 n)) (fun x hx => notNested_of x (hLnn x hx))
  have hform : shake1 (n + 1) (.group .and es) = unwrapGroup .and (es.map (shake1 n)) := by
    rw [shake1_and, f1, f2]
    simp
  rw [Good, hform]
  refine ⟨?_, ?_, ?_, ?_, ?_⟩
  · rcases unwrapGroup_cases .and (es.map (shake1 n)) with ⟨z, hz, hu⟩ | ⟨hl, hu⟩
    · rw [hu]; exact hLok z (by rw [hz]; simp)
    · rw [hu]
      simp only [e1OK, Bool.and_eq_true, Bool.not_eq_true', List.isEmpty_eq_false_iff]
      refine ⟨⟨by simpa using hne, (e1OKL_iff _).mpr hLok⟩, ?_⟩
      cases hh : hasTopNestedL (es.map (shake1 n)) with
      | false => rfl
      | true =>
        obtain ⟨z, hz, hzt⟩ := (hasTopNestedL_iff _).mp hh
        rw [hLnn z hz] at hzt; cases hzt
  · intro d
    rw [unwrapGroup_solve E K d .and _ (Or.inl rfl), group_and_value, group_and_value, hLval d]
  · intro hm
    rcases unwrapGroup_cases .and (es.map (shake1 n)) with ⟨z, hz, hu⟩ | ⟨hl, hu⟩
    · rw [hu] at hm
      obtain ⟨y, hes, hy⟩ := map_eq_single _ _ _ hz
      rw [← hy] at hm
      have := (ih y (hmem y (by rw [hes]; simp))).2.2.1 hm
      rw [hes]; simpa [mayBecomeMatch] using this
    · rw [hu] at hm
      obtain ⟨z, hz, _⟩ := mbm_group2 _ _ hm
      rw [hz] at hl; simp at hl
  · intro hm
    have : ∃ z ∈ es.map (shake1 n), hasTopNested z = true := by
      rcases unwrapGroup_cases .and (es.map (shake1 n)) with ⟨z, hz, hu⟩ | ⟨hl, hu⟩
      · rw [hu] at hm; exact ⟨z, by rw [hz]; simp, hm⟩
      · rw [hu] at hm; exact (hasTopNestedL_iff _).mp (by simpa [hasTopNested] using hm)
    obtain ⟨z, hz, hzt⟩ := this
    rw [hLnn z hz] at hzt; cases hzt
  · intro hng; exact absurd rfl (hng .and es)

theorem good_or (E : RegexEngine) (K : IdentK) (n : Nat) (ih : ∀ e, e1OK e = true → Good E K n e)
    (es : List Expr) (h : e1OK (.group .or es) = true) : Good E K (n + 1) (.group .or es) := by
  have hmem := e1OK_group_mem _ es h
  have hLok : ∀ x ∈ es.map (shake1 n), e1OK x = true := by
    intro x hx
    obtain ⟨y, hy, rfl⟩ := List.mem_map.mp hx
    exact (ih y (hmem y hy)).1
  have hLval : ∀ d, (es.map (shake1 n)).map (solveG E K d) = es.map (solveG E K d) := by
    intro d
    rw [List.map_map]
    apply List.map_congr_left
    intro y hy
    exact (ih y (hmem y hy)).2.1 d
  have hne : es ≠ [] := by
    simp only [e1OK, Bool.and_eq_true, Bool.not_eq_true', List.isEmpty_eq_false_iff] at h
    exact h.1
  have hm' : ∀ x ∈ es.map (shake1 n), memberOK x = true := fun x hx => e1OK_memberOK x (hLok x hx)
  have hS : OrS (es.map (shake1 n)) ((es.map (shake1 n)).foldl orClassify {}) := by
    simpa using orS_fold (es.map (shake1 n)) hm' [] {} orS_empty
  have hout_ok := out_e1OK E K n ih _ hLok _ hS
  have hval := fun d => orOut_value E K d n ih _ hLok
  have hout_ne := out_ne_nil n _ (by simpa using hne) _ hS
  generalize hst : (es.map (shake1 n)).foldl orClassify {} = st at hS hout_ok hval hout_ne
  have hgo : e1OK (.group .or (orOut n st)) = true := by
    simp only [e1OK, Bool.and_eq_true, Bool.not_eq_true', List.isEmpty_eq_false_iff]
    exact ⟨hout_ne, (e1OKL_iff _).mpr hout_ok⟩
  have hr : e1OK (shake1 (n + 1) (.group .or es)) = true ∧
      (∀ d, solveG E K d (shake1 (n + 1) (.group .or es)) = Tri.or ((orOut n st).map (solveG E K d))) ∧
      (mayBecomeMatch (shake1 (n + 1) (.group .or es)) = true →
        ∃ z, orOut n st = [z] ∧ mayBecomeMatch z = true) ∧
      (hasTopNested (shake1 (n + 1) (.group .or es)) = true → hasTopNestedL (orOut n st) = true) := by
    rw [shake1_or, hst]
    split
    · have G := ih _ hgo
      refine ⟨G.1, fun d => by rw [G.2.1 d, group_or_value], fun hm => mbm_group2 _ _ (G.2.2.1 hm),
        fun hm => by simpa [hasTopNested] using G.2.2.2.1 hm⟩
    · rcases unwrapGroup_cases .or (orOut n st) with ⟨z, hz, hu⟩ | ⟨hl, hu⟩
      · rw [hu]
        refine ⟨hout_ok z (by rw [hz]; simp), fun d => by rw [hz]; simp [or_single'],
          fun hm => ⟨z, hz, hm⟩, fun hm => by rw [hz]; simp [hasTopNestedL, hm]⟩
      · rw [hu]
        refine ⟨hgo, fun d => group_or_value E K d _, fun hm => mbm_group2 _ _ hm,
          fun hm => by simpa [hasTopNested] using hm⟩
  obtain ⟨r1, r2, r3, r4⟩ := hr
  refine ⟨r1, ?_, ?_, ?_, ?_⟩
  · intro d
    rw [r2 d, hval d, hLval d, group_or_value]
  · intro hm
    obtain ⟨z, hz, hzm⟩ := r3 hm
    have hL1 := out_single n _ st hS z hz
      (by intro s f c hh; rw [hh] at hzm; cases hzm)
      (by intro f b hh; rw [hh] at hzm; cases hzm)
    obtain ⟨y, hes, hy⟩ := map_eq_single _ _ _ hL1
    rw [← hy] at hzm
    have := (ih y (hmem y (by rw [hes]; simp))).2.2.1 hzm
    rw [hes]; simpa [mayBecomeMatch] using this
  · intro hm
    obtain ⟨z, hz, hzt⟩ := (hasTopNestedL_iff _).mp (r4 hm)
    have back : ∀ w ∈ es.map (shake1 n), hasTopNested w = true → hasTopNested (.group .or es) = true := by
      intro w hw hwt
      obtain ⟨y, hy, rfl⟩ := List.mem_map.mp hw
      simp only [hasTopNested]
      exact (hasTopNestedL_iff es).mpr ⟨y, hy, (ih y (hmem y hy)).2.2.2.1 hwt⟩
    rcases (mem_orOut n st z).mp hz with h' | h' | h' | h' | h'
    · obtain ⟨f, c, rfl⟩ := hS.any z h'; cases hzt
    · obtain ⟨q, _, rfl⟩ := List.mem_map.mp h'
      obtain ⟨s, hs, _⟩ := buildNeedle_form q
      rw [hs] at hzt; cases hzt
    · obtain ⟨q, _, rfl⟩ := List.mem_map.mp h'
      obtain ⟨s, f, c, hs⟩ := buildPattern_search q
      rw [hs] at hzt; cases hzt
    · exact back z (hS.rest z h') hzt
    · obtain ⟨q, hq, rfl⟩ := List.mem_map.mp h'
      have hqne := hS.nestedNe q hq
      obtain ⟨f, xs⟩ := q
      cases xs with
      | nil => exact absurd rfl hqne
      | cons b bs => exact back _ (hS.nested (f, b :: bs) hq b (by simp)) rfl
  · intro hng; exact absurd rfl (hng .or es)

theorem shake1_good (E : RegexEngine) (K : IdentK) : ∀ fuel e, e1OK e = true → Good E K fuel e := by
  intro fuel
  induction fuel with
  | zero => intro e h; exact ⟨h, fun _ => rfl, id, id, fun _ _ => Sim.refl e⟩
  | succ n ih =>
    intro e h
    cases e with
    | group op es =>
      cases op with
      | and => exact good_and E K n ih es h
      | or => exact good_or E K n ih es h
      | _ => simp only [e1OK] at h; cases h
    | bin l op r =>
      have hbool : ∀ (o : BoolSym), (o = .and ∨ o = .or) → e1OK l = true → e1OK r = true →
          (∀ d, solveG E K d (.bin (shake1 n l) o (shake1 n r)) = solveG E K d (.bin l o r)) := by
        intro o ho hl hr d
        rcases ho with rfl | rfl <;> simp only [solveG, (ih l hl).2.1 d, (ih r hr).2.1 d]
      have hform : shake1 (n + 1) (.bin l op r) = .bin (shake1 n l) op (shake1 n r) := rfl
      cases op with
      | and =>
        simp only [e1OK, Bool.and_eq_true] at h
        refine ⟨by simp only [shake1, e1OK, (ih l h.1).1, (ih r h.2).1, Bool.and_self],
          hbool .and (Or.inl rfl) h.1 h.2, (fun hm => by cases hm), (fun hm => by cases hm),
          (fun _ hm => by cases hm)⟩
      | or =>
        simp only [e1OK, Bool.and_eq_true] at h
        refine ⟨by simp only [shake1, e1OK, (ih l h.1).1, (ih r h.2).1, Bool.and_self],
          hbool .or (Or.inr rfl) h.1 h.2, (fun hm => by cases hm), (fun hm => by cases hm),
          (fun _ hm => by cases hm)⟩
      | _ =>
        simp only [e1OK, Bool.and_eq_true] at h
        rw [Good, hform, shake1_leaf _ _ h.1, shake1_leaf _ _ h.2]
        exact ⟨by simp only [e1OK, h.1, h.2, Bool.and_self], fun _ => rfl, id, id, fun _ _ => Sim.refl _⟩
    | «match» k x =>
      have h' := h
      simp only [e1OK, Bool.and_eq_true] at h'
      have S := argSim E K n ih x h'.2 h'.1
      rw [Good, shake1_match]
      refine ⟨?_, fun d => sim_match E K x _ S k d, fun _ => rfl, (fun hm => by cases hm),
        fun _ _ => Sim.match k x _ S⟩
      simp only [e1OK, Bool.and_eq_true]
      refine ⟨sim_matchChildOK E K x _ S h'.1, ?_⟩
      cases x with
      | group op es =>
        have hmem := e1OK_group_mem op es h'.2
        have hLok : ∀ x ∈ es.map (shake1 n), e1OK x = true := by
          intro x hx
          obtain ⟨y, hy, rfl⟩ := List.mem_map.mp hx
          exact (ih y (hmem y hy)).1
        simp only [shake1Arg]
        cases op with
        | and =>
          have h2 := h'.2
          simp only [e1OK, Bool.and_eq_true, Bool.not_eq_true', List.isEmpty_eq_false_iff] at h2 ⊢
          refine ⟨⟨by simpa using h2.1.1, (e1OKL_iff _).mpr hLok⟩, ?_⟩
          cases hh : hasTopNestedL (es.map (shake1 n)) with
          | false => rfl
          | true =>
            obtain ⟨z, hz, hzt⟩ := (hasTopNestedL_iff _).mp hh
            obtain ⟨y, hy, rfl⟩ := List.mem_map.mp hz
            have := (hasTopNestedL_iff es).mpr ⟨y, hy, (ih y (hmem y hy)).2.2.2.1 hzt⟩
            rw [this] at h2; cases h2.2
        | or =>
          have h2 := h'.2
          simp only [e1OK, Bool.and_eq_true, Bool.not_eq_true', List.isEmpty_eq_false_iff] at h2 ⊢
          exact ⟨by simpa using h2.1, (e1OKL_iff _).mpr hLok⟩
        | _ => simp [e1OK] at h'
      | _ => exact (ih _ h'.2).1
    | negate x =>
      simp only [e1OK] at h
      have G := ih x h
      have hv : ∀ d, solveG E K d (.negate (shake1 n x)) = solveG E K d (.negate x) := by
        intro d; simp only [solveG, G.2.1 d]
      exact ⟨by simpa [shake1, e1OK] using G.1, hv, (fun hm => by cases hm), (fun hm => by cases hm),
        fun _ _ => Sim.gen _ _ rfl rfl hv⟩
    | nested f x =>
      obtain ⟨h1, h2, h3⟩ := nested_facts f x h
      have G := ih x h1
      obtain ⟨n1, n2⟩ := nestedBody_ok E K n x G h2 h3
      have hv := nested_generic_congr E K f x (shake1 n x) h3 n1 G.2.1
      exact ⟨by simp [shake1, e1OK, n1, n2, G.1], hv, (fun hm => by cases hm), fun _ => rfl,
        fun _ _ => Sim.gen _ _ rfl rfl hv⟩
    | _ => exact ⟨h, fun _ => rfl, id, id, fun _ _ => Sim.refl _⟩


end Tau
