import Tau.Proofs.PrattFuel
/-
  Round trip of the condition grammar: printing a condition AST with exactly the parentheses the
  binding powers require (not 95 > or 80 > and 70, both left-associative) and parsing it back
  yields the AST.
-/
set_option linter.unusedSimpArgs false
namespace Tau

/-- The operands of a comparison: a cast field or a numeric literal. -/
inductive CmpArg where
  | cast (f : Str) (m : ModSym)
  | int (i : Int)
  | flt (bits : Nat)

def CmpArg.toExpr : CmpArg → Expr
  | .cast f m => .cast f m
  | .int i => .int i
  | .flt b => .float b

def CmpArg.pp : CmpArg → List Token
  | .cast f m => [.modifier m, .lparen, .ident f, .rparen]
  | .int i => [.int i]
  | .flt b => [.float b]

/-- Condition ASTs over identifiers and comparisons (only the operand combinations `parse_led`
    accepts can be built: the constructor carries that check). -/
inductive Cond where
  | id (i : Str)
  | cmp (l : CmpArg) (op : BoolSym) (r : CmpArg)
      (ok : ledCheck op l.toExpr r.toExpr = .ok () ∧ op ≠ .and ∧ op ≠ .or)
  | all (i : Str)
  | of (i : Str) (n : Nat)
  | not (c : Cond)
  | and (a b : Cond)
  | or (a b : Cond)
  | par (c : Cond)          -- a redundant pair of parentheses written by the author

def Cond.toExpr : Cond → Expr
  | .id i => .ident i
  | .cmp l op r _ => .bin l.toExpr op r.toExpr
  | .all i => .match .all (.ident i)
  | .of i n => .match (.of n) (.ident i)
  | .not c => .negate c.toExpr
  | .and a b => .bin a.toExpr .and b.toExpr
  | .or a b => .bin a.toExpr .or b.toExpr
  | .par c => c.toExpr

/-- Precedence of the top construct. -/
def Cond.prec : Cond → Nat
  | .and _ _ => 70
  | .or _ _ => 80
  | .cmp _ _ _ _ => 90
  | .not _ => 95
  | _ => 100

def paren (ts : List Token) : List Token := Token.lparen :: ts ++ [Token.rparen]

/-- Minimal printing: an operand is parenthesised exactly when its precedence is too low for its
    position (left operands and the operand of `not`: lower than the operator; right operands:
    not higher — that asymmetry is left associativity). -/
def Cond.pp : Cond → List Token
  | .id i => [.ident i]
  | .cmp l op r _ => l.pp ++ .op op :: r.pp
  | .all i => [.matchAll, .lparen, .ident i, .rparen]
  | .of i n => [.matchOf, .lparen, .ident i, .comma, .int n, .rparen]
  | .not c => .miscNot :: (if c.prec ≥ 95 then c.pp else paren c.pp)
  | .and a b => (if a.prec ≥ 70 then a.pp else paren a.pp) ++ .op .and :: (if b.prec > 70 then b.pp else paren b.pp)
  | .or a b => (if a.prec ≥ 80 then a.pp else paren a.pp) ++ .op .or :: (if b.prec > 80 then b.pp else paren b.pp)
  | .par c => paren c.pp

def headBp : List Token → Nat
  | [] => 0
  | t :: _ => t.bp

theorem bp_le_95 (t : Token) : t.bp ≤ 95 := by
  cases t <;> simp [Token.bp]
  rename_i o; cases o <;> simp [Token.bp]

/-- Every conversion of a condition is solvable and negatable. -/
theorem Cond.toExpr_solvable (c : Cond) : c.toExpr.isSolvable = true := by
  induction c <;> first | rfl | assumption
theorem Cond.toExpr_negatable (c : Cond) : negatable c.toExpr = true := by
  induction c <;> first | rfl | assumption

/-! ### Parenthesis collection on balanced token lists -/

/-- `ts` is balanced: scanning it at any depth ≥ 1 consumes it entirely and keeps the depth. -/
def Bal (ts : List Token) : Prop :=
  ∀ d ys acc, 1 ≤ d → collectParen d (ts ++ ys) acc = collectParen d ys (ts.reverse ++ acc)

theorem Bal.nil : Bal [] := by intro d ys acc _; simp

theorem Bal.single (t : Token) (h1 : t ≠ .lparen) (h2 : t ≠ .rparen) : Bal [t] := by
  intro d ys acc _
  simp [collectParen, h1, h2]

theorem Bal.append {a b : List Token} (ha : Bal a) (hb : Bal b) : Bal (a ++ b) := by
  intro d ys acc hd
  rw [List.append_assoc, ha d (b ++ ys) acc hd, hb d ys _ hd]
  simp

theorem Bal.wrap {ts : List Token} (h : Bal ts) : Bal (paren ts) := by
  intro d ys acc hd
  have e1 : paren ts ++ ys = Token.lparen :: (ts ++ (Token.rparen :: ys)) := by simp [paren]
  rw [e1]
  have step1 : collectParen d (Token.lparen :: (ts ++ (Token.rparen :: ys))) acc =
      collectParen (d + 1) (ts ++ (Token.rparen :: ys)) (Token.lparen :: acc) := by
    simp [collectParen]
  rw [step1, h (d + 1) _ _ (by omega)]
  have step2 : collectParen (d + 1) (Token.rparen :: ys) (ts.reverse ++ Token.lparen :: acc) =
      collectParen d ys (Token.rparen :: (ts.reverse ++ Token.lparen :: acc)) := by
    have hne : d ≠ 0 := by omega
    simp [collectParen, hne]
  rw [step2]
  simp [paren]

theorem Cond.pp_bal (c : Cond) : Bal c.pp := by
  induction c with
  | id i => exact Bal.single _ (by simp) (by simp)
  | cmp l op r _ =>
    have hop : ∀ o : CmpArg, Bal o.pp := by
      intro o
      cases o with
      | cast f m =>
        have : [Token.modifier m, .lparen, .ident f, .rparen] = [Token.modifier m] ++ paren [.ident f] := rfl
        rw [CmpArg.pp, this]
        exact Bal.append (Bal.single _ (by simp) (by simp)) (Bal.wrap (Bal.single _ (by simp) (by simp)))
      | int i => exact Bal.single _ (by simp) (by simp)
      | flt b => exact Bal.single _ (by simp) (by simp)
    simp only [Cond.pp]
    exact Bal.append (hop l) (Bal.append (a := [Token.op op]) (Bal.single _ (by simp) (by simp)) (hop r))
  | all i =>
    have : [Token.matchAll, .lparen, .ident i, .rparen] = [Token.matchAll] ++ paren [.ident i] := rfl
    rw [Cond.pp, this]
    exact Bal.append (Bal.single _ (by simp) (by simp)) (Bal.wrap (Bal.single _ (by simp) (by simp)))
  | of i n =>
    have : [Token.matchOf, .lparen, .ident i, .comma, .int n, .rparen] =
        [Token.matchOf] ++ paren ([.ident i] ++ ([.comma] ++ [.int n])) := rfl
    rw [Cond.pp, this]
    exact Bal.append (Bal.single _ (by simp) (by simp))
      (Bal.wrap (Bal.append (Bal.single _ (by simp) (by simp))
        (Bal.append (Bal.single _ (by simp) (by simp)) (Bal.single _ (by simp) (by simp)))))
  | not c ih =>
    simp only [Cond.pp]
    have : ∀ ts, Bal ts → Bal (Token.miscNot :: ts) := fun ts h =>
      Bal.append (a := [Token.miscNot]) (Bal.single _ (by simp) (by simp)) h
    split
    · exact this _ ih
    · exact this _ (Bal.wrap ih)
  | and a b iha ihb =>
    simp only [Cond.pp]
    have hop : Bal [Token.op .and] := Bal.single _ (by simp) (by simp)
    have ha : Bal (if a.prec ≥ 70 then a.pp else paren a.pp) := by split; exact iha; exact Bal.wrap iha
    have hb : Bal (if b.prec > 70 then b.pp else paren b.pp) := by split; exact ihb; exact Bal.wrap ihb
    exact Bal.append ha (Bal.append (a := [Token.op .and]) hop hb)
  | or a b iha ihb =>
    simp only [Cond.pp]
    have hop : Bal [Token.op .or] := Bal.single _ (by simp) (by simp)
    have ha : Bal (if a.prec ≥ 80 then a.pp else paren a.pp) := by split; exact iha; exact Bal.wrap iha
    have hb : Bal (if b.prec > 80 then b.pp else paren b.pp) := by split; exact ihb; exact Bal.wrap ihb
    exact Bal.append ha (Bal.append (a := [Token.op .or]) hop hb)
  | par c ih => exact Bal.wrap ih

/-- The parenthesis NUD collects exactly the balanced contents. -/
theorem collect_paren (ts rest : List Token) (h : Bal ts) :
    collectParen 1 (ts ++ Token.rparen :: rest) [] = (ts, rest) := by
  rw [h 1 _ [] (Nat.le_refl _)]
  simp [collectParen]

end Tau

namespace Tau

/-- The loop stops when the next token does not bind tighter than the context. -/
theorem loop_stop (f : Nat) (rbp : Nat) (left : Expr) (rest : List Token) (h : headBp rest ≤ rbp) :
    parseLoop (f + 1) rbp left rest = .ok (left, rest) := by
  cases rest with
  | nil => simp [parseLoop]
  | cons t ts =>
    simp only [headBp] at h
    simp [parseLoop, h]

theorem loop95 (f : Nat) (left : Expr) (rest : List Token) :
    parseLoop (f + 1) 95 left rest = .ok (left, rest) :=
  loop_stop f 95 left rest (by cases rest <;> simp [headBp, bp_le_95])

/-- One LED step of the loop for a boolean operator that binds tighter than the context. -/
theorem loop_led (f rbp : Nat) (left right : Expr) (sym : BoolSym) (ts rest : List Token) (r : Expr × List Token)
    (hbp : rbp < (Token.op sym).bp)
    (hright : parseExpr f (Token.op sym).bp ts = .ok (right, rest))
    (hchk : ledCheck sym left right = .ok ())
    (hcont : parseLoop f rbp (.bin left sym right) rest = .ok r) :
    parseLoop (f + 1) rbp left (Token.op sym :: ts) = .ok r := by
  have hnot : ¬ (rbp ≥ (Token.op sym).bp) := by omega
  simp only [parseLoop, hnot, if_false, hright, hchk]
  exact hcont

def Fits (rbp : Nat) : Cond → Prop
  | .and _ _ => rbp < 70
  | .or _ _ => rbp < 80
  | .cmp _ _ _ _ => rbp < 90
  | _ => True

def Tail (rest : List Token) : Cond → Prop
  | .and _ _ => headBp rest ≤ 70
  | .or _ _ => headBp rest ≤ 80
  | .cmp _ _ _ _ => headBp rest ≤ 90
  | _ => True

/-- Fuel that suffices to parse the printing of `c`. -/
def need : Cond → Nat
  | .id _ => 2
  | .cmp _ _ _ _ => 6
  | .all _ => 2
  | .of _ _ => 2
  | .not c => need c + 6
  | .and a b => need a + need b + 10
  | .or a b => need a + need b + 10
  | .par c => need c + 4

/-- The statement proved by induction on the condition. -/
def RoundTrip (c : Cond) : Prop :=
  ∀ f rbp rest r, Fits rbp c → Tail rest c → parseLoop f rbp c.toExpr rest = .ok r →
    parseExpr (f + need c) rbp (c.pp ++ rest) = .ok r

/-- A parenthesised operand is a primary: its NUD yields the operand. -/
theorem nud_paren (c : Cond) (h : RoundTrip c) (f : Nat) (rest : List Token) :
    parseNud (f + need c + 3) (paren c.pp ++ rest) = .ok (c.toExpr, rest) := by
  have e1 : paren c.pp ++ rest = Token.lparen :: (c.pp ++ Token.rparen :: rest) := by simp [paren]
  rw [e1]
  have hexpr : parseExpr (1 + need c) 0 (c.pp ++ []) = .ok (c.toExpr, []) :=
    h 1 0 [] (c.toExpr, []) (by cases c <;> simp [Fits]) (by cases c <;> simp [Tail, headBp])
      (by simp [parseLoop])
  have hall : parseAll (f + need c + 2) c.pp = .ok c.toExpr := by
    have : parseExpr (f + need c + 1) 0 c.pp = .ok (c.toExpr, []) := by
      simpa using parseExpr_mono (by omega) hexpr
    show parseAll ((f + need c + 1) + 1) c.pp = _
    simp [parseAll, this]
  show parseNud ((f + need c + 2) + 1) (Token.lparen :: (c.pp ++ Token.rparen :: rest)) = _
  simp only [parseNud, collect_paren c.pp rest c.pp_bal, hall]

/-- An operand in a position that demands precedence above `k` (strictly, for right operands) or at
    least `k` (left operands, `not`): printed bare when it is tight enough, else parenthesised.
    Either way, parsing it at `rbp` continues with the loop on the operand's tree. -/
theorem operand_parse (c : Cond) (h : RoundTrip c) (bare : Bool) (f rbp : Nat) (rest : List Token)
    (r : Expr × List Token)
    (hfit : bare = true → Fits rbp c ∧ Tail rest c)
    (hloop : parseLoop f rbp c.toExpr rest = .ok r) :
    parseExpr (f + need c + 4) rbp ((if bare then c.pp else paren c.pp) ++ rest) = .ok r := by
  cases bare with
  | true =>
    simp only [if_true]
    have := h f rbp rest r (hfit rfl).1 (hfit rfl).2 hloop
    exact parseExpr_mono (by omega) this
  | false =>
    simp only [Bool.false_eq_true, if_false]
    show parseExpr ((f + need c + 3) + 1) rbp _ = _
    simp only [parseExpr, nud_paren c h f rest]
    exact parseLoop_mono (by omega) hloop

end Tau

namespace Tau

theorem loop_pos {f rbp : Nat} {left : Expr} {rest : List Token} {r : Expr × List Token}
    (h : parseLoop f rbp left rest = .ok r) : 1 ≤ f := by
  cases f with
  | zero => simp [parseLoop] at h
  | succ n => omega

/-- The binary case, for both operators at once (`k` = the operator's binding power). -/
theorem binary_case (a b : Cond) (sym : BoolSym) (k : Nat) (hk : (Token.op sym).bp = k)
    (hsym : sym = .and ∨ sym = .or)
    (ha : RoundTrip a) (hb : RoundTrip b)
    (hfa : a.prec ≥ k → ∀ rbp rest, rbp < k → headBp rest = k → Fits rbp a ∧ Tail rest a)
    (hfb : b.prec > k → ∀ rest, headBp rest ≤ k → Fits k b ∧ Tail rest b)
    (f rbp : Nat) (rest : List Token) (r : Expr × List Token)
    (hrbp : rbp < k) (htail : headBp rest ≤ k)
    (hloop : parseLoop f rbp (.bin a.toExpr sym b.toExpr) rest = .ok r) :
    parseExpr (f + (need a + need b + 10)) rbp
      ((if a.prec ≥ k then a.pp else paren a.pp) ++ Token.op sym :: (if b.prec > k then b.pp else paren b.pp) ++ rest)
      = .ok r := by
  have hf := loop_pos hloop
  -- right operand at level k
  have hright : parseExpr (f + need b + 5) k ((if b.prec > k then b.pp else paren b.pp) ++ rest) = .ok (b.toExpr, rest) := by
    have := operand_parse b hb (decide (b.prec > k)) (f + 1) k rest (b.toExpr, rest)
      (fun hbare => hfb (by simpa using hbare) rest htail) (loop_stop f k _ rest htail)
    simp only [decide_eq_true_eq] at this
    exact parseExpr_mono (by omega) this
  have hchk : ledCheck sym a.toExpr b.toExpr = .ok () := by
    rcases hsym with rfl | rfl <;> simp [ledCheck, ledCheckBool, Cond.toExpr_solvable]
  -- the loop after the left operand
  have hafter : parseLoop (f + need b + 6) rbp a.toExpr
      (Token.op sym :: ((if b.prec > k then b.pp else paren b.pp) ++ rest)) = .ok r := by
    apply loop_led (f + need b + 5) rbp a.toExpr b.toExpr sym _ rest r (by omega)
    · rw [hk]; exact hright
    · exact hchk
    · exact parseLoop_mono (by omega) hloop
  -- left operand at the outer level
  have := operand_parse a ha (decide (a.prec ≥ k)) (f + need b + 6) rbp
    (Token.op sym :: ((if b.prec > k then b.pp else paren b.pp) ++ rest)) r
    (fun hbare => hfa (by simpa using hbare) rbp _ hrbp (by simp [headBp, hk])) hafter
  simp only [decide_eq_true_eq] at this
  have e : ((if a.prec ≥ k then a.pp else paren a.pp) ++ Token.op sym :: (if b.prec > k then b.pp else paren b.pp) ++ rest)
      = (if a.prec ≥ k then a.pp else paren a.pp) ++ (Token.op sym :: ((if b.prec > k then b.pp else paren b.pp) ++ rest)) := by
    simp
  rw [e]
  exact parseExpr_mono (by omega) this

/-- **Round trip**, by induction on the condition. -/
theorem roundTrip : ∀ c : Cond, RoundTrip c := by
  intro c
  induction c with
  | id i =>
    intro f rbp rest r _ _ hloop
    show parseExpr ((f + 1) + 1) rbp (Token.ident i :: rest) = _
    simp only [parseExpr, parseNud]
    exact parseLoop_mono (by omega) hloop
  | cmp l op r ok =>
    intro f rbp rest r' hfit htail hloop
    simp only [Fits] at hfit
    simp only [Tail] at htail
    have hf := loop_pos hloop
    have hbp : (Token.op op).bp = 90 := by
      have h1 := ok.2.1
      have h2 := ok.2.2
      cases op <;> first | rfl | exact absurd rfl h1 | exact absurd rfl h2
    have hnud : ∀ (o : CmpArg) (k : Nat) (ts : List Token), parseNud (k + 1) (o.pp ++ ts) = .ok (o.toExpr, ts) := by
      intro o k ts
      cases o with
      | cast f' m => simp [CmpArg.pp, CmpArg.toExpr, parseNud, parseParenIdent]
      | int i => simp [CmpArg.pp, CmpArg.toExpr, parseNud]
      | flt b => simp [CmpArg.pp, CmpArg.toExpr, parseNud]
    have hright : parseExpr (f + 3) (Token.op op).bp (r.pp ++ rest) = .ok (r.toExpr, rest) := by
      show parseExpr ((f + 2) + 1) _ _ = _
      simp only [parseExpr, hnud r (f + 1) rest]
      exact loop_stop (f + 1) _ _ rest (by rw [hbp]; exact htail)
    have hafter : parseLoop (f + 4) rbp l.toExpr (Token.op op :: (r.pp ++ rest)) = .ok r' := by
      apply loop_led (f + 3) rbp l.toExpr r.toExpr op _ rest r' (by omega) hright ok.1
      exact parseLoop_mono (by omega) hloop
    show parseExpr ((f + 5) + 1) rbp ((l.pp ++ Token.op op :: r.pp) ++ rest) = _
    have e : (l.pp ++ Token.op op :: r.pp) ++ rest = l.pp ++ (Token.op op :: (r.pp ++ rest)) := by simp
    rw [e]
    simp only [parseExpr, hnud l (f + 4) _]
    exact parseLoop_mono (by omega) hafter
  | all i =>
    intro f rbp rest r _ _ hloop
    show parseExpr ((f + 1) + 1) rbp (Token.matchAll :: Token.lparen :: Token.ident i :: Token.rparen :: rest) = _
    simp only [parseExpr, parseNud, parseParenIdent]
    simp only [ne_eq, not_true_eq_false, if_false]
    exact parseLoop_mono (by omega) hloop
  | of i n =>
    intro f rbp rest r _ _ hloop
    show parseExpr ((f + 1) + 1) rbp
      (Token.matchOf :: Token.lparen :: Token.ident i :: Token.comma :: Token.int n :: Token.rparen :: rest) = _
    simp only [parseExpr, parseNud, parseOfArgs]
    have hn : ¬ ((n : Int) < 0) := by omega
    simp only [ne_eq, not_true_eq_false, if_false, hn, Int.toNat_natCast]
    exact parseLoop_mono (by omega) hloop
  | not c ih =>
    intro f rbp rest r _ _ hloop
    have hf := loop_pos hloop
    have hop : parseExpr (f + need c + 4) 95 ((if c.prec ≥ 95 then c.pp else paren c.pp) ++ rest) = .ok (c.toExpr, rest) := by
      have := operand_parse c ih (decide (c.prec ≥ 95)) 1 95 rest (c.toExpr, rest)
        (fun hbare => by
          have hp : c.prec ≥ 95 := by simpa using hbare
          cases c <;> simp [Cond.prec] at hp <;> simp [Fits, Tail])
        (loop95 0 _ rest)
      simp only [decide_eq_true_eq] at this
      exact parseExpr_mono (by omega) this
    show parseExpr ((f + need c + 5) + 1) rbp (Token.miscNot :: ((if c.prec ≥ 95 then c.pp else paren c.pp) ++ rest)) = _
    have hnud : parseNud ((f + need c + 4) + 1) (Token.miscNot :: ((if c.prec ≥ 95 then c.pp else paren c.pp) ++ rest))
        = .ok (.negate c.toExpr, rest) := by
      simp only [parseNud, hop, Cond.toExpr_negatable, if_true]
    simp only [parseExpr, hnud]
    exact parseLoop_mono (by omega) hloop
  | and a b iha ihb =>
    intro f rbp rest r hfit htail hloop
    simp only [Fits] at hfit
    simp only [Tail] at htail
    have := binary_case a b .and 70 rfl (Or.inl rfl) iha ihb
      (fun hp rbp' rest' hr hh => by
        cases a <;> simp [Cond.prec] at hp <;> simp [Fits, Tail] <;> omega)
      (fun hp rest' hh => by
        cases b <;> simp [Cond.prec] at hp <;> simp [Fits, Tail] <;> omega)
      f rbp rest r hfit htail hloop
    simpa [Cond.pp, need, Cond.toExpr] using this
  | or a b iha ihb =>
    intro f rbp rest r hfit htail hloop
    simp only [Fits] at hfit
    simp only [Tail] at htail
    have := binary_case a b .or 80 rfl (Or.inr rfl) iha ihb
      (fun hp rbp' rest' hr hh => by
        cases a <;> simp [Cond.prec] at hp <;> simp [Fits, Tail] <;> omega)
      (fun hp rest' hh => by
        cases b <;> simp [Cond.prec] at hp <;> simp [Fits, Tail] <;> omega)
      f rbp rest r hfit htail hloop
    simpa [Cond.pp, need, Cond.toExpr] using this
  | par c ih =>
    intro f rbp rest r _ _ hloop
    show parseExpr ((f + need c + 3) + 1) rbp (paren c.pp ++ rest) = _
    simp only [parseExpr, nud_paren c ih f rest]
    exact parseLoop_mono (by omega) hloop

theorem need_le (c : Cond) : need c ≤ 10 * c.pp.length := by
  induction c with
  | id i => simp [need, Cond.pp]
  | cmp l op r _ => simp [need, Cond.pp]; omega
  | all i => simp [need, Cond.pp]
  | of i n => simp [need, Cond.pp]
  | not c ih =>
    simp only [need, Cond.pp]
    split <;> simp [paren] <;> omega
  | and a b iha ihb =>
    simp only [need, Cond.pp]
    split <;> split <;> simp [paren] <;> omega
  | or a b iha ihb =>
    simp only [need, Cond.pp]
    split <;> split <;> simp [paren] <;> omega
  | par c ih => simp [need, Cond.pp, paren]; omega

/-- **parse ∘ print = id.** Printing a condition with the parentheses the grammar requires (plus any
    redundant ones the author added, `Cond.par`) and parsing it yields exactly its tree: `not`
    applies to the single operand that follows, `or` binds tighter than `and`, equal operators
    associate to the left, parentheses override, redundant parentheses change nothing. -/
theorem parse_pp (c : Cond) : parse c.pp = .ok c.toExpr := by
  have h := roundTrip c 1 0 [] (c.toExpr, []) (by cases c <;> simp [Fits]) (by cases c <;> simp [Tail, headBp])
    (by simp [parseLoop])
  have hexpr : parseExpr (parseFuel c.pp - 1) 0 c.pp = .ok (c.toExpr, []) := by
    have := need_le c
    have h' : parseExpr (1 + need c) 0 c.pp = .ok (c.toExpr, []) := by simpa using h
    exact parseExpr_mono (by simp [parseFuel]; omega) h'
  unfold parse
  have : parseFuel c.pp = (parseFuel c.pp - 1) + 1 := by simp [parseFuel]
  rw [this]
  simp [parseAll, hexpr]

end Tau
