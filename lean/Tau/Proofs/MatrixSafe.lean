import Tau.Proofs.Shake1Safe
/-
  `matrix` keeps a tree inside `safe` (the new matrix node is well-formed: fewer than 0xD800
  columns, rows as wide as the columns, every cell keyed by the synthetic key of its column).
-/
set_option linter.unusedSimpArgs false
namespace Tau

/-- What re-keying needs from a member: a safe member with a column. -/
theorem rekey_cell (defd : Str → Bool) (i : Nat) (x e : Expr) (hs : safe defd x = true)
    (hf : (memberField x).isSome = true) (h : rekey (colKey i) x = some e) :
    cellKeyOk i e = true ∧ safe defd e = true := by
  cases x with
  | nested f y =>
    simp only [rekey, Option.some.injEq] at h; subst h
    simp only [safe] at hs
    exact ⟨by simp [cellKeyOk], by simpa [safe] using hs⟩
  | search s f c =>
    simp only [rekey, Option.some.injEq] at h; subst h
    exact ⟨by simp [cellKeyOk], by simp [safe]⟩
  | bin l op r =>
    cases l with
    | cast f kind =>
      simp only [rekey, Option.some.injEq] at h; subst h
      have hlit : isLiteral r = true := by
        simp only [memberField, cmpField] at hf
        split at hf <;> simp_all
      have hop : op ≠ .and ∧ op ≠ .or := by
        constructor <;> intro ho <;> subst ho <;> simp [safe] at hs
      refine ⟨by simp [cellKeyOk, hlit, hop.1, hop.2], ?_⟩
      cases op <;> simp_all [safe]
    | field f =>
      simp only [rekey, Option.some.injEq] at h; subst h
      have hlit : isLiteral r = true := by
        simp only [memberField, cmpField] at hf
        split at hf <;> simp_all
      have hop : op ≠ .and ∧ op ≠ .or := by
        constructor <;> intro ho <;> subst ho <;> simp [safe] at hs
      refine ⟨by simp [cellKeyOk, hlit, hop.1, hop.2], ?_⟩
      cases op <;> simp_all [safe]
    | _ => simp [rekey] at h
  | _ => simp [rekey] at h

/-- A row built cell by cell over the column indices is a safe row. -/
theorem safeRow_range (defd : Str → Bool) (g : Nat → Option Expr) :
    ∀ (n i : Nat), (∀ j e, g j = some e → cellKeyOk j e = true ∧ safe defd e = true) →
      safeRow defd ((List.range' i n).map g) i = true
  | 0, i, _ => by simp [safeRow]
  | n + 1, i, h => by
    simp only [List.range'_succ, List.map_cons]
    cases hg : g i with
    | none => simp only [safeRow]; exact safeRow_range defd g n (i + 1) h
    | some e =>
      obtain ⟨h1, h2⟩ := h i e hg
      simp only [safeRow, h1, h2, Bool.true_and]
      exact safeRow_range defd g n (i + 1) h


theorem singleRow_safe (defd : Str → Bool) (cols : List Str) (f : Str) (x : Expr)
    (hs : safe defd x = true) (hf : (memberField x).isSome = true) :
    (singleRow cols f x).length = cols.length ∧ safeRow defd (singleRow cols f x) 0 = true := by
  unfold singleRow
  refine ⟨by simp, ?_⟩
  rw [List.range_eq_range']
  apply safeRow_range
  intro j e hj
  split at hj
  · exact rekey_cell defd j x e hs hf hj
  · cases hj

theorem rowOfMembers_safe (defd : Str → Bool) (cols : List Str) (es : List Expr) (row : List (Option Expr))
    (hs : ∀ x ∈ es, safe defd x = true) (h : rowOfMembers cols es = some row) :
    row.length = cols.length ∧ safeRow defd row 0 = true := by
  unfold rowOfMembers at h
  simp only at h
  split at h
  · cases h
  · rename_i hnone
    split at h
    · cases h
    · simp only [Option.some.injEq] at h
      subst h
      refine ⟨by simp, ?_⟩
      rw [List.range_eq_range']
      apply safeRow_range
      intro j e hj
      split at hj
      · rename_i x hx
        have hmem := List.mem_of_find?_eq_some hx
        have hf : (memberField x).isSome = true := by
          have : ¬ (es.map memberField).any Option.isNone = true := hnone
          simp only [List.any_map, List.any_eq_true, not_exists, not_and] at this
          have := this x hmem
          cases hmf : memberField x with
          | none => simp [hmf] at this
          | some _ => rfl
        exact rekey_cell defd j x e (hs x hmem) hf hj
      · cases hj


theorem safeRows_of (defd : Str → Bool) (w : Nat) (rows : List (List (Option Expr)))
    (h : ∀ row ∈ rows, row.length = w ∧ safeRow defd row 0 = true) : safeRows defd w rows = true := by
  induction rows with
  | nil => rfl
  | cons r rs ih =>
    obtain ⟨h1, h2⟩ := h r (by simp)
    simp only [safeRows, Bool.and_eq_true, decide_eq_true_eq]
    exact ⟨⟨by omega, h2⟩, ih (fun row hr => h row (by simp [hr]))⟩

theorem classify_inl (defd : Str → Bool) (cols : List Str) (y : Expr) (r : List (Option Expr))
    (hs : safe defd y = true) (h : matrixClassify cols y = .inl r) :
    r.length = cols.length ∧ safeRow defd r 0 = true := by
  unfold matrixClassify at h
  split at h
  · rename_i ms
    split at h
    · rename_i row hrow
      cases h
      simp only [safe, Bool.and_eq_true] at hs
      exact rowOfMembers_safe defd cols ms r ((safeL_iff defd ms).mp hs.2) hrow
    · cases h
  · rename_i f m op r'
    split at h
    · rename_i hl
      cases h
      exact singleRow_safe defd cols f _ hs (by simp [memberField, cmpField, hl])
    · cases h
  · rename_i f op r'
    split at h
    · rename_i hl
      cases h
      exact singleRow_safe defd cols f _ hs (by simp [memberField, cmpField, hl])
    · cases h
  · cases h; exact singleRow_safe defd cols _ _ hs (by simp [memberField])
  · cases h; exact singleRow_safe defd cols _ _ hs (by simp [memberField])
  · cases h

theorem classify_inr (cols : List Str) (y z : Expr) (h : matrixClassify cols y = .inr z) : z = y := by
  unfold matrixClassify at h
  split at h
  · split at h <;> cases h <;> rfl
  · split at h <;> cases h <;> rfl
  · split at h <;> cases h <;> rfl
  · cases h
  · cases h
  · cases h; rfl

/-- `matrix` keeps a tree inside `safe`. -/
theorem matrix_safe (defd : Str → Bool) : ∀ (fuel : Nat) (e : Expr),
    safe defd e = true → safe defd (matrix fuel e) = true := by
  intro fuel
  induction fuel with
  | zero => intro e h; exact h
  | succ n ih =>
    intro e h
    cases e with
    | group op es =>
      simp only [safe, Bool.and_eq_true] at h
      have hmem : ∀ x ∈ es.map (matrix n), safe defd x = true := by
        intro x hx
        obtain ⟨y, hy, rfl⟩ := List.mem_map.mp hx
        exact ih y ((safeL_iff defd es).mp h.2 y hy)
      cases op with
      | and =>
        simp only [matrix, safe, Bool.and_eq_true]
        exact ⟨by simp, safeL_of_mem defd _ hmem⟩
      | or =>
        simp only [matrix]
        split
        · rename_i hguard
          simp only [Bool.and_eq_true, decide_eq_true_eq] at hguard
          apply unwrapGroup_safe defd .or _ rfl
          apply safeL_of_mem
          intro x hx
          rcases List.mem_append.mp hx with hx | hx
          · -- the matrix node
            split at hx
            · cases hx
            · simp only [List.mem_singleton] at hx
              subst hx
              simp only [safe, Bool.and_eq_true, decide_eq_true_eq, List.length_map]
              refine ⟨by rw [(stableSort_perm _ _).length_eq]; exact hguard.2, ?_⟩
              apply safeRows_of
              intro row hrow
              obtain ⟨c, hc, hcr⟩ := List.mem_filterMap.mp hrow
              obtain ⟨y, hy, rfl⟩ := List.mem_map.mp hc
              have hys := hmem y hy
              cases hcl : matrixClassify _ y with
              | inl r =>
                rw [hcl] at hcr
                simp only [Option.some.injEq] at hcr
                subst hcr
                have := classify_inl defd _ y r hys hcl
                simpa using this
              | inr z => rw [hcl] at hcr; cases hcr
          · obtain ⟨c, hc, hcr⟩ := List.mem_filterMap.mp hx
            obtain ⟨y, hy, rfl⟩ := List.mem_map.mp hc
            cases hcl : matrixClassify _ y with
            | inl r => rw [hcl] at hcr; cases hcr
            | inr z =>
              rw [hcl] at hcr
              simp only [Option.some.injEq] at hcr
              subst hcr
              rw [classify_inr _ y z hcl]
              exact hmem y hy
        · simp only [safe, Bool.and_eq_true]
          exact ⟨by simp, safeL_of_mem defd _ hmem⟩
      | _ => simp at h
    | bin l op r =>
      simp only [matrix]
      cases op <;> simp only [safe, Bool.and_eq_true] at h ⊢ <;>
        first | exact ⟨ih l h.1, ih r h.2⟩ | trivial
    | «match» k x =>
      cases x with
      | group op es =>
        simp only [matrix, safe] at h ⊢
        apply safeL_of_mem
        intro y hy
        obtain ⟨z, hz, rfl⟩ := List.mem_map.mp hy
        exact shake1_safe defd _ z ((safeL_iff defd es).mp h z hz)
      | ident i => simpa [matrix, shake1_leafish] using h
      | search s f c => simp [matrix, shake1_leafish, safe]
      | matrix cols rows => simpa [matrix, shake1_leafish] using h
      | bin l op r =>
        simp only [matrix]
        exact safe_match_of_safe defd k _ (shake1_safe defd _ _ (by simpa [safe] using h))
      | negate y =>
        simp only [matrix]
        exact safe_match_of_safe defd k _ (shake1_safe defd _ _ (by simpa [safe] using h))
      | nested f y =>
        simp only [matrix]
        exact safe_match_of_safe defd k _ (shake1_safe defd _ _ (by simpa [safe] using h))
      | «match» k2 y =>
        simp only [matrix]
        exact safe_match_of_safe defd k _ (shake1_safe defd _ _ (by simpa [safe] using h))
      | _ => simp [safe] at h
    | negate x => simp only [matrix, safe] at h ⊢; exact ih x h
    | nested f x => simp only [matrix, safe] at h ⊢; exact ih x h
    | _ => exact h

end Tau
