import Tau.Solver
import Tau.Optimiser
/-
  Frame lemmas: the solver's result depends on the document only through `find` at the keys the
  expression names at its own level (`keysOf`).
-/
set_option linter.unusedSimpArgs false
namespace Tau

/-- Field named by a comparison operand. -/
def operandField : Expr → List Str
  | .field f => [f]
  | .cast f _ => [f]
  | _ => []

mutual
/-- The keys an expression asks of the document it is evaluated against (not of nested objects). -/
def keysOf : Expr → List Str
  | .group _ es => keysOfL es
  | .bin l .and r => keysOf l ++ keysOf r
  | .bin l .or r => keysOf l ++ keysOf r
  | .bin l _ r => operandField l ++ operandField r
  | .match _ e => keysOf e
  | .matrix cols _ => cols
  | .negate e => keysOf e
  | .nested f _ => [f]
  | .search _ f _ => [f]
  | _ => []
def keysOfL : List Expr → List Str
  | [] => []
  | e :: es => keysOf e ++ keysOfL es
end

/-- Two documents agree on a set of keys. -/
def Agree (d d' : Doc) (ks : List Str) : Prop := ∀ k ∈ ks, d.find k = d'.find k

theorem Agree.mono {d d' : Doc} {ks ks' : List Str} (h : Agree d d' ks) (hs : ∀ k ∈ ks', k ∈ ks) :
    Agree d d' ks' := fun k hk => h k (hs k hk)

theorem keysOfL_mem (es : List Expr) (e : Expr) (he : e ∈ es) : ∀ k ∈ keysOf e, k ∈ keysOfL es := by
  induction es with
  | nil => cases he
  | cons x xs ih =>
    intro k hk
    simp only [keysOfL, List.mem_append]
    rcases List.mem_cons.mp he with rfl | h
    · exact Or.inl hk
    · exact Or.inr (ih h k hk)

theorem operand_congr (d d' : Doc) (e : Expr) (h : Agree d d' (operandField e)) :
    operand d e = operand d' e := by
  cases e <;> simp [operand]
  case field f => rw [h f (by simp [operandField])]
  case cast f m =>
    have := h f (by simp [operandField])
    cases m <;> simp [operand, this]

theorem solveCmp_congr (d d' : Doc) (l : Expr) (op : BoolSym) (r : Expr)
    (h : Agree d d' (operandField l ++ operandField r)) : solveCmp d l op r = solveCmp d' l op r := by
  have hl : Agree d d' (operandField l) := h.mono (by simp; intros; left; assumption)
  have hr : Agree d d' (operandField r) := h.mono (by simp; intros; right; assumption)
  unfold solveCmp
  split
  · rename_i lf rf
    rw [hl lf (by simp [operandField]), hr rf (by simp [operandField])]
  · rename_i lf b
    rw [hl lf (by simp [operandField])]
  · rename_i lf
    rw [hl lf (by simp [operandField])]
  · rw [operand_congr d d' l hl, operand_congr d d' r hr]

theorem andG_congr (E : RegexEngine) (K : IdentK) (d d' : Doc) (es : List Expr)
    (h : ∀ e ∈ es, solveG E K d e = solveG E K d' e) : andG E K d es = andG E K d' es := by
  induction es with
  | nil => simp [andG]
  | cons x xs ih =>
    simp only [andG]
    rw [h x (by simp), ih (fun e he => h e (by simp [he]))]

theorem orG_congr (E : RegexEngine) (K : IdentK) (d d' : Doc) (es : List Expr)
    (h : ∀ e ∈ es, solveG E K d e = solveG E K d' e) : orG E K d es = orG E K d' es := by
  induction es with
  | nil => simp [orG]
  | cons x xs ih =>
    simp only [orG]
    rw [h x (by simp), ih (fun e he => h e (by simp [he]))]

theorem listG_congr (E : RegexEngine) (K : IdentK) (d d' : Doc) (es : List Expr)
    (h : ∀ e ∈ es, solveG E K d e = solveG E K d' e) : listG E K d es = listG E K d' es := by
  induction es with
  | nil => simp [listG]
  | cons x xs ih =>
    simp only [listG]
    rw [h x (by simp), ih (fun e he => h e (by simp [he]))]

theorem rowG_congr (E : RegexEngine) (K : IdentK) (d d' : Doc) (cols : List Str)
    (h : Agree d d' cols) :
    ∀ (row : List (Option Expr)) (i : Nat) (cache : List (Option Value)),
      rowG E K d cols row i cache = rowG E K d' cols row i cache
  | [], _, _ => by simp [rowG]
  | none :: cells, i, cache => by simp only [rowG]; exact rowG_congr E K d d' cols h cells (i + 1) cache
  | some e :: cells, i, cache => by
    simp only [rowG]
    have hf : ∀ col, cols[i]? = some col → d.find col = d'.find col :=
      fun col hc => h col (List.mem_of_getElem? hc)
    cases hc : cols[i]? with
    | none =>
      simp only []
      split
      · rfl
      · split
        · exact rowG_congr E K d d' cols h cells (i + 1) _
        · rfl
    | some col =>
      simp only [hf col hc]
      split
      · rfl
      · split
        · exact rowG_congr E K d d' cols h cells (i + 1) _
        · rfl

theorem rowsG_congr (E : RegexEngine) (K : IdentK) (d d' : Doc) (cols : List Str)
    (h : Agree d d' cols) :
    ∀ (rows : List (List (Option Expr))) (cache : List (Option Value)),
      rowsG E K d cols rows cache = rowsG E K d' cols rows cache
  | [], _ => by simp [rowsG]
  | row :: rows, cache => by
    simp only [rowsG]
    rw [rowG_congr E K d d' cols h row 0 cache, rowsG_congr E K d d' cols h rows _]

end Tau

namespace Tau

theorem size_mem_lt (es : List Expr) (e : Expr) (h : e ∈ es) : e.size ≤ Expr.size.sizeL es := by
  induction es with
  | nil => cases h
  | cons x xs ih =>
    simp only [Expr.size.sizeL]
    rcases List.mem_cons.mp h with rfl | h'
    · omega
    · have := ih h'; omega

/-- A nested block depends on the outer document only through the value found under its key. -/
theorem nested_congr (E : RegexEngine) (K : IdentK) (d d' : Doc) (f : Str) (e : Expr)
    (h : d.find f = d'.find f) : solveG E K d (.nested f e) = solveG E K d' (.nested f e) := by
  cases e with
  | «match» k x =>
    cases k with
    | all =>
      cases x with
      | group op es => cases op <;> simp only [solveG, h]
      | matrix cols rows => simp only [solveG, h]
      | _ => simp only [solveG, h]
    | of n => simp only [solveG, h]
  | _ => simp only [solveG, h]

end Tau

namespace Tau

theorem solveSearch_congr (E : RegexEngine) (d d' : Doc) (s : Search) (f : Str) (c : Bool)
    (h : d.find f = d'.find f) : solveSearch E d s f c = solveSearch E d' s f c := by
  simp [solveSearch, h]

/-- **Frame theorem.** If two documents agree on the keys an expression names at its own level,
    the expression has the same three-valued result on both. `K` is any identifier continuation
    that itself gives the same results on the two documents. -/
theorem frame (E : RegexEngine) (K : IdentK) (d d' : Doc)
    (hKi : ∀ i, K.ident i d = K.ident i d') (hKm : ∀ k i, K.match k i d = K.match k i d') :
    ∀ (n : Nat) (e : Expr), e.size ≤ n → Agree d d' (keysOf e) → solveG E K d e = solveG E K d' e := by
  intro n
  induction n with
  | zero =>
    intro e hs
    cases e <;> simp [Expr.size] at hs
  | succ n ih =>
    intro e hs ha
    have members : ∀ (es : List Expr), Expr.size.sizeL es ≤ n → Agree d d' (keysOfL es) →
        ∀ x ∈ es, solveG E K d x = solveG E K d' x := by
      intro es hsz hag x hx
      exact ih x (by have := size_mem_lt es x hx; omega) (hag.mono (keysOfL_mem es x hx))
    cases e with
    | group op es =>
      simp only [Expr.size] at hs
      simp only [keysOf] at ha
      have hm := members es (by omega) ha
      cases op <;> simp only [solveG]
      · exact andG_congr E K d d' es hm
      · exact orG_congr E K d d' es hm
    | bin l op r =>
      simp only [Expr.size] at hs
      cases op
      case and =>
        simp only [keysOf] at ha
        simp only [solveG]
        rw [ih l (by omega) (ha.mono (by simp; intros; left; assumption)),
            ih r (by omega) (ha.mono (by simp; intros; right; assumption))]
      case or =>
        simp only [keysOf] at ha
        simp only [solveG]
        rw [ih l (by omega) (ha.mono (by simp; intros; left; assumption)),
            ih r (by omega) (ha.mono (by simp; intros; right; assumption))]
      all_goals
        simp only [keysOf] at ha
        simp only [solveG]
        exact solveCmp_congr d d' l _ r ha
    | ident i => simp only [solveG]; exact hKi i
    | «match» k x =>
      simp only [Expr.size] at hs
      simp only [keysOf] at ha
      cases k with
      | all =>
        cases x with
        | ident i => simp only [solveG]; exact hKm _ i
        | group op es =>
          simp only [Expr.size] at hs
          simp only [keysOf] at ha
          simp only [solveG]
          exact andG_congr E K d d' es (members es (by omega) ha)
        | search s f c =>
          simp only [keysOf] at ha
          have hf := ha f (by simp)
          cases s <;> simp only [solveG, allAc, allSet, solveSearch, hf]
        | matrix cols rows =>
          simp only [keysOf] at ha
          simp only [solveG]
          rw [rowsG_congr E K d d' cols ha rows _]
        | _ =>
          have hx := ih _ (by simp only [Expr.size] at hs ⊢; omega) ha
          (simp only [solveG] at hx ⊢) <;> (first | rfl | exact hx | rw [hx] | simp [hx])
      | of c =>
        cases x with
        | ident i => simp only [solveG]; exact hKm _ i
        | group op es =>
          simp only [Expr.size] at hs
          simp only [keysOf] at ha
          simp only [solveG]
          rw [listG_congr E K d d' es (members es (by omega) ha)]
        | search s f cst =>
          simp only [keysOf] at ha
          have hf := ha f (by simp)
          cases s <;> simp only [solveG, ofAc, ofSet, solveSearch, hf]
        | matrix cols rows =>
          simp only [keysOf] at ha
          simp only [solveG]
          rw [rowsG_congr E K d d' cols ha rows _]
        | _ =>
          have hx := ih _ (by simp only [Expr.size] at hs ⊢; omega) ha
          (simp only [solveG] at hx ⊢) <;> (first | rfl | rw [hx] | simp [hx])
    | matrix cols rows =>
      simp only [keysOf] at ha
      simp only [solveG]
      rw [rowsG_congr E K d d' cols ha rows _]
    | negate x =>
      simp only [Expr.size] at hs
      simp only [keysOf] at ha
      simp only [solveG]
      rw [ih x (by omega) ha]
    | nested f x =>
      simp only [keysOf] at ha
      exact nested_congr E K d d' f x (ha f (by simp))
    | search s f c =>
      simp only [keysOf] at ha
      simp only [solveG]
      exact solveSearch_congr E d d' s f c (ha f (by simp))
    | _ => simp only [solveG]

end Tau
