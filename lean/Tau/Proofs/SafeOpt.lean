import Tau.Proofs.Shake0
import Tau.Proofs.Safe
import Tau.Proofs.MappingSafe
/-
  The optimiser passes `coalesce`, `shake_0` and `rewrite` keep a tree inside `safe`: an optimised
  rule (with those passes) reaches no panic site either.
-/
set_option linter.unusedSimpArgs false
namespace Tau

theorem safeL_iff (defd : Str → Bool) (es : List Expr) :
    safeL defd es = true ↔ ∀ e ∈ es, safe defd e = true := by
  induction es with
  | nil => simp [safeL]
  | cons x xs ih => simp [safeL, ih]

theorem safeL_append (defd : Str → Bool) (a b : List Expr) :
    safeL defd (a ++ b) = (safeL defd a && safeL defd b) := by
  induction a with
  | nil => simp [safeL]
  | cons x xs ih => simp [safeL, ih, Bool.and_assoc]

/-- Coalescing a safe condition over safe bodies gives a safe closed tree. -/
theorem coalesce_safe (ids : Ids) (c : Expr) (h : PShape c) (hs : c.isSolvable = true)
    (hd : ∀ i ∈ condIdents c, (lookupId ids i).isSome = true)
    (hb : ∀ i b, lookupId ids i = some b → safe nod b = true) : safe nod (coalesce ids c) = true := by
  induction h with
  | ident i =>
    have := hd i (by simp [condIdents])
    cases hl : lookupId ids i with
    | none => simp [hl] at this
    | some b => simpa [coalesce, hl] using hb i b hl
  | matchIdent k i =>
    have := hd i (by simp [condIdents])
    cases hl : lookupId ids i with
    | none => simp [hl] at this
    | some b =>
      simp only [coalesce, hl]
      exact safe_match_of_safe _ k b (hb i b hl)
  | litFloat b => simp [Expr.isSolvable] at hs
  | litInt i => simp [Expr.isSolvable] at hs
  | litCast f m => simp [Expr.isSolvable] at hs
  | negate hp hn ih =>
    simp only [coalesce, safe]
    exact ih (PShape.negatable_solvable hp hn) (fun i hi => hd i (by simpa [condIdents] using hi))
  | binBool op hop _ _ hls hrs ihl ihr =>
    have h1 := ihl hls (fun i hi => hd i (by simp [condIdents, hi]))
    have h2 := ihr hrs (fun i hi => hd i (by simp [condIdents, hi]))
    rcases hop with rfl | rfl <;> simp [coalesce, safe, h1, h2]
  | cmp l op r h1 h2 _ _ => cases op <;> simp_all [coalesce, safe]

mutual
/-- `rewrite` touches only the contents of searches. -/
theorem rewrite_safe (E : RegexEngine) (defd : Str → Bool) :
    ∀ (e : Expr), safe defd e = true → safe defd (rewrite E e) = true
  | .group op es, h => by
    simp only [rewrite, safe, Bool.and_eq_true] at h ⊢
    exact ⟨h.1, rewriteL_safe E defd es h.2⟩
  | .bin l op r, h => by
    cases op <;> simp only [rewrite, safe, Bool.and_eq_true] at h ⊢ <;>
      first | exact ⟨rewrite_safe E defd l h.1, rewrite_safe E defd r h.2⟩ | trivial
  | .match k x, h => by
    cases x with
    | group op es => simp only [rewrite, safe] at h ⊢; exact rewriteL_safe E defd es h
    | ident i => simpa [rewrite, safe] using h
    | search s f c => simp [rewrite, safe]
    | matrix cols rows => simpa [rewrite, safe] using h
    | bin l op r =>
      have := rewrite_safe E defd (.bin l op r) (by simpa [safe] using h)
      simpa [rewrite, safe] using this
    | negate y =>
      have := rewrite_safe E defd (.negate y) (by simpa [safe] using h)
      simpa [rewrite, safe] using this
    | nested f y =>
      have := rewrite_safe E defd (.nested f y) (by simpa [safe] using h)
      simpa [rewrite, safe] using this
    | «match» k2 y =>
      have := rewrite_safe E defd (.match k2 y) (by simpa [safe] using h)
      simpa [rewrite, safe] using this
    | _ => simp [safe] at h
  | .negate x, h => by
    simp only [rewrite, safe] at h ⊢; exact rewrite_safe E defd x h
  | .nested f x, h => by
    simp only [rewrite, safe] at h ⊢; exact rewrite_safe E defd x h
  | .search s f c, _ => by simp [rewrite, safe]
  | .ident i, h => by simpa [rewrite] using h
  | .matrix cols rows, h => by simpa [rewrite] using h
  | .bool _, h => by simp [safe] at h
  | .cast _ _, h => by simp [safe] at h
  | .field _, h => by simp [safe] at h
  | .float _, h => by simp [safe] at h
  | .int _, h => by simp [safe] at h
  | .null, h => by simp [safe] at h
theorem rewriteL_safe (E : RegexEngine) (defd : Str → Bool) :
    ∀ (es : List Expr), safeL defd es = true → safeL defd (rewriteL E es) = true
  | [], _ => rfl
  | e :: es, h => by
    simp only [rewriteL, safeL, Bool.and_eq_true] at h ⊢
    exact ⟨rewrite_safe E defd e h.1, rewriteL_safe E defd es h.2⟩
end


theorem binRegroup_safe (defd : Str → Bool) (l r : Expr) (op sym : BoolSym) (xs : List Expr)
    (h : binRegroup l op r = some (sym, xs)) (hl : safe defd l = true) (hr : safe defd r = true) :
    boolOp sym = true ∧ safeL defd xs = true := by
  unfold binRegroup at h
  split at h <;> simp only [Option.some.injEq, Prod.mk.injEq, reduceCtorEq] at h
  all_goals obtain ⟨rfl, rfl⟩ := h
  all_goals refine ⟨rfl, ?_⟩
  all_goals simp [safe, safeL, safeL_append] at hl hr ⊢
  all_goals simp [*]

theorem unwrapGroup_safe (defd : Str → Bool) (op : BoolSym) (es : List Expr) (hop : boolOp op = true)
    (h : safeL defd es = true) : safe defd (unwrapGroup op es) = true := by
  unfold unwrapGroup
  split
  · simpa [safeL] using h
  · cases op <;> simp [boolOp] at hop <;> simp [safe, h]

theorem map_shake0_safe (defd : Str → Bool) (fuel : Nat)
    (ih : ∀ e, safe defd e = true → safe defd (shake0F fuel e).1 = true) (es : List Expr)
    (h : safeL defd es = true) : safeL defd ((es.map (shake0F fuel)).map (·.1)) = true := by
  induction es with
  | nil => rfl
  | cons x xs ihl =>
    simp only [safeL, Bool.and_eq_true, List.map_cons] at h ⊢
    exact ⟨ih x h.1, ihl h.2⟩

/-- `shake_0` keeps a tree inside `safe` (whatever it does to its meaning); the second component
    is the same statement underneath an all()/of(). -/
theorem shake0_safe_aux (defd : Str → Bool) : ∀ (fuel : Nat),
    (∀ e, safe defd e = true → safe defd (shake0F fuel e).1 = true) ∧
    (∀ k x, safe defd (.match k x) = true → safe defd (.match k (shake0F fuel x).1) = true) := by
  intro fuel
  induction fuel with
  | zero => exact ⟨fun e h => h, fun k x h => h⟩
  | succ n ihn =>
    obtain ⟨ih, ihm⟩ := ihn
    have first : ∀ e, safe defd e = true → safe defd (shake0F (n + 1) e).1 = true := by
      intro e h
      cases e with
      | group op es =>
        have hres : (shake0F (n + 1) (.group op es)).1 = unwrapGroup op ((es.map (shake0F n)).map (·.1)) := rfl
        rw [hres]
        simp only [safe, Bool.and_eq_true] at h
        have hop : boolOp op = true := by
          cases op <;> simp at h <;> rfl
        exact unwrapGroup_safe defd op _ hop (map_shake0_safe defd n ih es h.2)
      | bin l op r =>
        have hres : (shake0F (n + 1) (.bin l op r)).1 =
            (match binRegroup (shake0F n l).1 op (shake0F n r).1 with
             | some (sym, xs) => (shake0F n (.group sym xs)).1
             | none => .bin (shake0F n l).1 op (shake0F n r).1) := by
          show (match binRegroup (shake0F n l).1 op (shake0F n r).1 with
             | some (sym, xs) =>
               ((shake0F n (.group sym xs)).1, ((shake0F n l).2 || (shake0F n r).2) || (shake0F n (.group sym xs)).2)
             | none => (Expr.bin (shake0F n l).1 op (shake0F n r).1, (shake0F n l).2 || (shake0F n r).2)).1 = _
          cases binRegroup (shake0F n l).1 op (shake0F n r).1 with
          | none => rfl
          | some p => rfl
        rw [hres]
        by_cases hb : boolOp op = true
        · have hlr : safe defd l = true ∧ safe defd r = true := by
            cases op <;> simp [boolOp] at hb <;> simpa [safe] using h
          have hl' := ih l hlr.1
          have hr' := ih r hlr.2
          cases hbr : binRegroup (shake0F n l).1 op (shake0F n r).1 with
          | none =>
            simp only []
            cases op <;> simp [boolOp] at hb <;> simp [safe, hl', hr']
          | some p =>
            obtain ⟨sym, xs⟩ := p
            simp only []
            obtain ⟨hs, hx⟩ := binRegroup_safe defd _ _ op sym xs hbr hl' hr'
            apply ih
            cases sym <;> simp [boolOp] at hs <;> simp [safe, hx]
        · have hb' : boolOp op = false := by simpa using hb
          rw [binRegroup_cmp _ _ op hb']
          cases op <;> simp [boolOp] at hb' <;> simp [safe]
      | «match» k x =>
        have hres : (shake0F (n + 1) (.match k x)).1 = .match k (shake0F n x).1 := rfl
        rw [hres]
        exact ihm k x h
      | negate x =>
        have hres : (shake0F (n + 1) (.negate x)).1 =
            (match unNeg (shake0F n x).1 with
             | some inner => (shake0F n inner).1
             | none => .negate (shake0F n x).1) := by
          show (match unNeg (shake0F n x).1 with
             | some inner => ((shake0F n inner).1, true)
             | none => (Expr.negate (shake0F n x).1, (shake0F n x).2)).1 = _
          cases unNeg (shake0F n x).1 <;> rfl
        rw [hres]
        simp only [safe] at h
        have hx := ih x h
        cases hu : unNeg (shake0F n x).1 with
        | none => simpa [safe] using hx
        | some inner =>
          simp only []
          apply ih
          cases hxe : (shake0F n x).1 <;> simp [hxe, unNeg] at hu
          subst hu
          simpa [hxe, safe] using hx
      | nested f x =>
        have hres : (shake0F (n + 1) (.nested f x)).1 = .nested f (shake0F n x).1 := rfl
        rw [hres]
        simp only [safe] at h ⊢
        exact ih x h
      | _ => exact h
    refine ⟨first, fun k x h => ?_⟩
    cases x with
    | group op es =>
      have hres : (shake0F (n + 1) (.group op es)).1 = unwrapGroup op ((es.map (shake0F n)).map (·.1)) := rfl
      rw [hres]
      simp only [safe] at h
      have hm := map_shake0_safe defd n ih es h
      generalize (es.map (shake0F n)).map (·.1) = es' at hm
      unfold unwrapGroup
      split
      · exact safe_match_of_safe defd k _ (by simpa [safeL] using hm)
      · simpa [safe] using hm
    | ident i => exact h
    | search s f c => exact h
    | matrix cols rows => exact h
    | bin l op r => exact safe_match_of_safe defd k _ (first _ (by simpa [safe] using h))
    | negate y => exact safe_match_of_safe defd k _ (first _ (by simpa [safe] using h))
    | nested f y => exact safe_match_of_safe defd k _ (first _ (by simpa [safe] using h))
    | «match» k2 y => exact safe_match_of_safe defd k _ (first _ (by simpa [safe] using h))
    | _ => simp [safe] at h

theorem shake0_safe (defd : Str → Bool) (fuel : Nat) (e : Expr) (h : safe defd e = true) :
    safe defd (shake0 fuel e) = true := (shake0_safe_aux defd fuel).1 e h

end Tau
