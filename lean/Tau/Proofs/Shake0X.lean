import Tau.Proofs.Shake1Exact
/-
  `shake_0` takes `shakeOK ∧ xOK` trees to `e1OK` trees (no double negation eliminated), so the two
  halves of `shake` compose under purely syntactic side conditions on the input.
-/
set_option linter.unusedSimpArgs false
namespace Tau

mutual
/-- Could shake_0 leave a nested mapping at the top of (a group made from) this operand? -/
def topN : Expr → Bool
  | .nested _ _ => true
  | .group _ es => topNL es
  | .bin l .and r => topN l || topN r
  | .bin l .or r => topN l || topN r
  | _ => false
def topNL : List Expr → Bool
  | [] => false
  | e :: es => topN e || topNL es
end

mutual
/-- The side conditions of `e1OK` that are not already in `shakeOK`, in a form shake_0 preserves:
    no nested mapping among the operands of an `and` (chain or group), no nested mapping directly
    on an all()-list, no empty automaton / regex set. -/
def xOK : Expr → Bool
  | .group .and es => xOKL es && !topNL es
  | .group _ es => xOKL es
  | .bin l .and r => xOK l && xOK r && !topN l && !topN r
  | .bin l _ r => xOK l && xOK r
  | .match _ x => xOK x
  | .negate x => xOK x
  | .nested _ x => !nestedSpecial x && xOK x
  | .search (.ac ctx _) _ _ => !ctx.isEmpty
  | .search (.regexSet ps _) _ _ => !ps.isEmpty
  | _ => true
def xOKL : List Expr → Bool
  | [] => true
  | e :: es => xOK e && xOKL es
end

theorem topNL_iff (l : List Expr) : topNL l = true ↔ ∃ x ∈ l, topN x = true := by
  induction l with
  | nil => simp [topNL]
  | cons x xs ih => simp [topNL, ih]

theorem topNL_append (a b : List Expr) : topNL (a ++ b) = (topNL a || topNL b) := by
  induction a with
  | nil => simp [topNL]
  | cons x xs ih => simp [topNL, ih, Bool.or_assoc]

theorem xOKL_iff (l : List Expr) : xOKL l = true ↔ ∀ x ∈ l, xOK x = true := by
  induction l with
  | nil => simp [xOKL]
  | cons x xs ih => simp [xOKL, ih]

theorem xOKL_append (a b : List Expr) : xOKL (a ++ b) = (xOKL a && xOKL b) := by
  induction a with
  | nil => simp [xOKL]
  | cons x xs ih => simp [xOKL, ih, Bool.and_assoc]

mutual
theorem hasTopNested_topN : ∀ (e : Expr), hasTopNested e = true → topN e = true
  | .nested _ _, _ => rfl
  | .group _ es, h => by
    simp only [hasTopNested] at h; simp only [topN]; exact hasTopNestedL_topNL es h
  | .bin _ _ _, h => by simp [hasTopNested] at h
  | .match _ _, h => by simp [hasTopNested] at h
  | .negate _, h => by simp [hasTopNested] at h
  | .ident _, h => by simp [hasTopNested] at h
  | .search _ _ _, h => by simp [hasTopNested] at h
  | .matrix _ _, h => by simp [hasTopNested] at h
  | .bool _, h => by simp [hasTopNested] at h
  | .cast _ _, h => by simp [hasTopNested] at h
  | .field _, h => by simp [hasTopNested] at h
  | .float _, h => by simp [hasTopNested] at h
  | .int _, h => by simp [hasTopNested] at h
  | .null, h => by simp [hasTopNested] at h
theorem hasTopNestedL_topNL : ∀ (es : List Expr), hasTopNestedL es = true → topNL es = true
  | [], h => by simp [hasTopNestedL] at h
  | e :: es, h => by
    simp only [hasTopNestedL, Bool.or_eq_true] at h
    simp only [topNL, Bool.or_eq_true]
    rcases h with h | h
    · exact Or.inl (hasTopNested_topN e h)
    · exact Or.inr (hasTopNestedL_topNL es h)
end

/-- The regrouped members have a nested mapping on top only if an operand had. -/
theorem binRegroup_topN (l r : Expr) (op sym : BoolSym) (xs : List Expr)
    (h : binRegroup l op r = some (sym, xs)) (ht : topNL xs = true) : topN l = true ∨ topN r = true := by
  unfold binRegroup at h
  split at h <;> simp only [Option.some.injEq, Prod.mk.injEq, reduceCtorEq] at h
  all_goals obtain ⟨rfl, rfl⟩ := h
  all_goals simp [topN, topNL, topNL_append] at ht ⊢
  all_goals grind

theorem binRegroup_xOK (l r : Expr) (op sym : BoolSym) (xs : List Expr)
    (h : binRegroup l op r = some (sym, xs)) (hl : xOK l = true) (hr : xOK r = true)
    (hn : op = .and → topN l = false ∧ topN r = false) : xOK (.group sym xs) = true := by
  unfold binRegroup at h
  split at h <;> simp only [Option.some.injEq, Prod.mk.injEq, reduceCtorEq] at h
  all_goals obtain ⟨rfl, rfl⟩ := h
  all_goals simp [xOK, xOKL, xOKL_append, topN, topNL, topNL_append] at hl hr hn ⊢
  all_goals grind

theorem unwrapGroup_topN (op : BoolSym) (es : List Expr) (h : topN (unwrapGroup op es) = true) :
    topNL es = true := by
  rcases unwrapGroup_cases op es with ⟨z, hz, hu⟩ | ⟨_, hu⟩
  · rw [hu] at h; rw [hz]; simp [topNL, h]
  · rw [hu] at h; simpa [topN] using h

/-- With no double negation eliminated, shake_0 leaves a nested mapping on top only where the
    input had one (as an operand of the same and/or structure). -/
theorem shake0_topN : ∀ (fuel : Nat) (e : Expr), (shake0F fuel e).2 = false →
    topN (shake0F fuel e).1 = true → topN e = true := by
  intro fuel
  induction fuel with
  | zero => intro e _ h; exact h
  | succ n ih =>
    intro e hfl ht
    cases e with
    | group op es =>
      have hres : shake0F (n + 1) (.group op es) =
          (unwrapGroup op ((es.map (shake0F n)).map (·.1)), (es.map (shake0F n)).any (·.2)) := rfl
      rw [hres] at hfl ht
      simp only at hfl ht
      obtain ⟨z, hz, hzt⟩ := (topNL_iff _).mp (unwrapGroup_topN _ _ ht)
      simp only [List.map_map, List.mem_map, Function.comp] at hz
      obtain ⟨y, hy, rfl⟩ := hz
      have hfy : (shake0F n y).2 = false := by
        cases hh : (shake0F n y).2 with
        | false => rfl
        | true =>
          have : (es.map (shake0F n)).any (·.2) = true :=
            List.any_eq_true.mpr ⟨shake0F n y, List.mem_map.mpr ⟨y, hy, rfl⟩, hh⟩
          rw [this] at hfl; cases hfl
      simp only [topN]
      exact (topNL_iff es).mpr ⟨y, hy, ih y hfy hzt⟩
    | bin l op r =>
      have hres : shake0F (n + 1) (.bin l op r) =
          (match binRegroup (shake0F n l).1 op (shake0F n r).1 with
           | some (sym, xs) =>
             ((shake0F n (.group sym xs)).1, ((shake0F n l).2 || (shake0F n r).2) || (shake0F n (.group sym xs)).2)
           | none => (.bin (shake0F n l).1 op (shake0F n r).1, (shake0F n l).2 || (shake0F n r).2)) := rfl
      rw [hres] at hfl ht
      cases hbr : binRegroup (shake0F n l).1 op (shake0F n r).1 with
      | none =>
        simp only [hbr, Bool.or_eq_false_iff] at hfl ht
        cases op <;> simp only [topN, Bool.or_eq_true] at ht ⊢ <;>
          first
            | (rcases ht with ht | ht
               · exact Or.inl (ih l hfl.1 ht)
               · exact Or.inr (ih r hfl.2 ht))
            | cases ht
      | some p =>
        obtain ⟨sym, xs⟩ := p
        simp only [hbr, Bool.or_eq_false_iff] at hfl ht
        obtain ⟨⟨hfl1, hfl2⟩, hfg⟩ := hfl
        have h1 := ih (.group sym xs) hfg ht
        simp only [topN] at h1
        have hso : sym = op ∧ boolOp sym = true := by
          obtain ⟨a, b, _, _⟩ := binRegroup_spec ⟨fun _ _ => false, fun _ _ _ => false⟩ closedK _ _ op sym xs hbr
          exact ⟨b, a⟩
        rcases binRegroup_topN _ _ op sym xs hbr h1 with h2 | h2
        · have := ih l hfl1 h2
          obtain ⟨rfl, hb⟩ := hso
          cases sym <;> simp [boolOp] at hb <;> simp [topN, this]
        · have := ih r hfl2 h2
          obtain ⟨rfl, hb⟩ := hso
          cases sym <;> simp [boolOp] at hb <;> simp [topN, this]
    | «match» k x =>
      have hres : shake0F (n + 1) (.match k x) = (.match k (shake0F n x).1, (shake0F n x).2) := rfl
      rw [hres] at ht; cases ht
    | negate x =>
      have hres : shake0F (n + 1) (.negate x) =
          (match unNeg (shake0F n x).1 with
           | some inner => ((shake0F n inner).1, true)
           | none => (.negate (shake0F n x).1, (shake0F n x).2)) := rfl
      rw [hres] at hfl ht
      cases hu : unNeg (shake0F n x).1 with
      | some inner => simp [hu] at hfl
      | none => simp only [hu] at ht; cases ht
    | nested f x => rfl
    | _ => exact ht

theorem sim_special (E : RegexEngine) (K : IdentK) (x x' : Expr) (h : Sim E K x x') :
    nestedSpecial x' = nestedSpecial x := by
  cases h with
  | refl => rfl
  | group => rfl
  | «match» k y y' hy =>
    cases hy with
    | refl => rfl
    | group op es es' _ _ => cases k <;> cases op <;> rfl
    | «match» => cases k <;> rfl
    | gen _ _ h1 h2 _ =>
      cases y <;> simp [genericCls] at h1 <;> cases y' <;> simp [genericCls] at h2 <;> cases k <;> rfl
  | gen _ _ h1 h2 _ =>
    cases x <;> simp [genericCls] at h1 <;> cases x' <;> simp [genericCls] at h2 <;> rfl

theorem nonspecial_shake0 (E : RegexEngine) (K : IdentK) (fuel : Nat) (x : Expr) (hok : shakeOK x = true)
    (hfl : (shake0F fuel x).2 = false) (hc : nestedChildOK x = true) (hs : nestedSpecial x = false) :
    nestedSpecial (shake0F fuel x).1 = false := by
  obtain ⟨_, _, xM, _, xB⟩ := shake0_ok E K fuel x hok hfl
  cases hm : mayBecomeMatch x with
  | false => exact (notMBM_ok _ (xB hm)).1
  | true =>
    cases x with
    | «match» k y => rw [sim_special E K _ _ (xM rfl)]; exact hs
    | group op es =>
      match es, hc, hm with
      | [], _, hm => simp [mayBecomeMatch] at hm
      | [y], hc, hm => simp [nestedChildOK, mayBecomeMatch] at hc hm; rw [hm] at hc; cases hc
      | _ :: _ :: _, _, hm => simp [mayBecomeMatch] at hm
    | _ => simp [mayBecomeMatch] at hm

theorem shakeOKL_iff (l : List Expr) : shakeOKL l = true ↔ ∀ x ∈ l, shakeOK x = true := by
  induction l with
  | nil => simp [shakeOKL]
  | cons x xs ih => simp [shakeOKL, ih]

/-- shake_0 keeps a tree inside `xOK` (given `shakeOK` and no double negation eliminated). -/
theorem shake0_xOK : ∀ (fuel : Nat) (e : Expr), shakeOK e = true → (shake0F fuel e).2 = false →
    xOK e = true → xOK (shake0F fuel e).1 = true := by
  intro fuel
  induction fuel with
  | zero => intro e _ _ h; exact h
  | succ n ih =>
    intro e hok hfl hx
    cases e with
    | group op es =>
      have hres : shake0F (n + 1) (.group op es) =
          (unwrapGroup op ((es.map (shake0F n)).map (·.1)), (es.map (shake0F n)).any (·.2)) := rfl
      rw [hres] at hfl ⊢
      simp only at hfl ⊢
      simp only [shakeOK, Bool.and_eq_true] at hok
      have hsm := (shakeOKL_iff es).mp hok.2
      have hfy : ∀ y ∈ es, (shake0F n y).2 = false := by
        intro y hy
        cases hh : (shake0F n y).2 with
        | false => rfl
        | true =>
          have : (es.map (shake0F n)).any (·.2) = true :=
            List.any_eq_true.mpr ⟨shake0F n y, List.mem_map.mpr ⟨y, hy, rfl⟩, hh⟩
          rw [this] at hfl; cases hfl
      have hxm : ∀ y ∈ es, xOK y = true := by
        cases op <;> simp only [xOK, Bool.and_eq_true] at hx <;>
          first | exact (xOKL_iff es).mp hx.1 | exact (xOKL_iff es).mp hx
      have hmem : ∀ z ∈ (es.map (shake0F n)).map (·.1), xOK z = true := by
        intro z hz
        simp only [List.map_map, List.mem_map, Function.comp] at hz
        obtain ⟨y, hy, rfl⟩ := hz
        exact ih y (hsm y hy) (hfy y hy) (hxm y hy)
      have htop : topNL es = false → topNL ((es.map (shake0F n)).map (·.1)) = false := by
        intro h0
        cases hh : topNL ((es.map (shake0F n)).map (·.1)) with
        | false => rfl
        | true =>
          obtain ⟨z, hz, hzt⟩ := (topNL_iff _).mp hh
          simp only [List.map_map, List.mem_map, Function.comp] at hz
          obtain ⟨y, hy, rfl⟩ := hz
          have := (topNL_iff es).mpr ⟨y, hy, shake0_topN n y (hfy y hy) hzt⟩
          rw [this] at h0; cases h0
      rcases unwrapGroup_cases op ((es.map (shake0F n)).map (·.1)) with ⟨z, hz, hu⟩ | ⟨_, hu⟩
      · rw [hu]; exact hmem z (by rw [hz]; simp)
      · rw [hu]
        cases op <;> simp only [xOK, Bool.and_eq_true, Bool.not_eq_true'] at hx ⊢ <;>
          first
            | exact ⟨(xOKL_iff _).mpr hmem, htop hx.2⟩
            | exact (xOKL_iff _).mpr hmem
    | bin l op r =>
      have hres : shake0F (n + 1) (.bin l op r) =
          (match binRegroup (shake0F n l).1 op (shake0F n r).1 with
           | some (sym, xs) =>
             ((shake0F n (.group sym xs)).1, ((shake0F n l).2 || (shake0F n r).2) || (shake0F n (.group sym xs)).2)
           | none => (.bin (shake0F n l).1 op (shake0F n r).1, (shake0F n l).2 || (shake0F n r).2)) := rfl
      rw [hres] at hfl ⊢
      by_cases hb : boolOp op = true
      · have hlr : shakeOK l = true ∧ shakeOK r = true := by
          cases op <;> simp [boolOp] at hb <;> simpa [shakeOK] using hok
        have hxlr : xOK l = true ∧ xOK r = true ∧ (op = .and → topN l = false ∧ topN r = false) := by
          cases op <;> simp [boolOp] at hb <;> simp only [xOK, Bool.and_eq_true, Bool.not_eq_true'] at hx
          · exact ⟨hx.1.1.1, hx.1.1.2, fun _ => ⟨hx.1.2, hx.2⟩⟩
          · exact ⟨hx.1, hx.2, fun h => by cases h⟩
        cases hbr : binRegroup (shake0F n l).1 op (shake0F n r).1 with
        | none =>
          simp only [hbr, Bool.or_eq_false_iff] at hfl ⊢
          have xl := ih l hlr.1 hfl.1 hxlr.1
          have xr := ih r hlr.2 hfl.2 hxlr.2.1
          have tl : op = .and → topN (shake0F n l).1 = false ∧ topN (shake0F n r).1 = false := by
            intro ho
            obtain ⟨a, b⟩ := hxlr.2.2 ho
            constructor
            · cases hh : topN (shake0F n l).1 with
              | false => rfl
              | true => rw [shake0_topN n l hfl.1 hh] at a; cases a
            · cases hh : topN (shake0F n r).1 with
              | false => rfl
              | true => rw [shake0_topN n r hfl.2 hh] at b; cases b
          cases op <;> simp [boolOp] at hb
          · simp only [xOK, xl, xr, (tl rfl).1, (tl rfl).2, Bool.and_self, Bool.not_false]
          · simp only [xOK, xl, xr, Bool.and_self]
        | some p =>
          obtain ⟨sym, xs⟩ := p
          simp only [hbr, Bool.or_eq_false_iff] at hfl ⊢
          obtain ⟨⟨hfl1, hfl2⟩, hfg⟩ := hfl
          have xl := ih l hlr.1 hfl1 hxlr.1
          have xr := ih r hlr.2 hfl2 hxlr.2.1
          obtain ⟨lS, _⟩ := shake0_ok ⟨fun _ _ => false, fun _ _ _ => false⟩ closedK n l hlr.1 hfl1
          obtain ⟨rS, _⟩ := shake0_ok ⟨fun _ _ => false, fun _ _ _ => false⟩ closedK n r hlr.2 hfl2
          obtain ⟨hsym, hso, _, hgok⟩ :=
            binRegroup_spec ⟨fun _ _ => false, fun _ _ _ => false⟩ closedK _ _ op sym xs hbr
          obtain ⟨hxs, hlen⟩ := hgok lS rS
          have hne : xs ≠ [] := by intro h; rw [h] at hlen; simp at hlen
          have hgS : shakeOK (.group sym xs) = true := by simp [shakeOK, hsym, hxs, hne]
          apply ih (.group sym xs) hgS hfg
          apply binRegroup_xOK _ _ op sym xs hbr xl xr
          intro ho
          obtain ⟨a, b⟩ := hxlr.2.2 ho
          constructor
          · cases hh : topN (shake0F n l).1 with
            | false => rfl
            | true => rw [shake0_topN n l hfl1 hh] at a; cases a
          · cases hh : topN (shake0F n r).1 with
            | false => rfl
            | true => rw [shake0_topN n r hfl2 hh] at b; cases b
      · have hb' : boolOp op = false := by simpa using hb
        have hlr : isLeafE l = true ∧ isLeafE r = true := by
          cases op <;> simp [boolOp] at hb' <;> simpa [shakeOK] using hok
        rw [shake0F_leaf n l hlr.1, shake0F_leaf n r hlr.2, binRegroup_cmp l r op hb']
        exact hx
    | «match» k x =>
      have hres : shake0F (n + 1) (.match k x) = (.match k (shake0F n x).1, (shake0F n x).2) := rfl
      rw [hres] at hfl ⊢
      simp only [shakeOK, Bool.and_eq_true] at hok
      simp only [xOK] at hx ⊢
      exact ih x hok.2 hfl hx
    | negate x =>
      have hres : shake0F (n + 1) (.negate x) =
          (match unNeg (shake0F n x).1 with
           | some inner => ((shake0F n inner).1, true)
           | none => (.negate (shake0F n x).1, (shake0F n x).2)) := rfl
      rw [hres] at hfl ⊢
      cases hu : unNeg (shake0F n x).1 with
      | some inner => simp [hu] at hfl
      | none =>
        simp only [hu] at hfl ⊢
        simp only [shakeOK] at hok
        simp only [xOK] at hx ⊢
        exact ih x hok hfl hx
    | nested f x =>
      have hres : shake0F (n + 1) (.nested f x) = (.nested f (shake0F n x).1, (shake0F n x).2) := rfl
      rw [hres] at hfl ⊢
      simp only [shakeOK, Bool.and_eq_true] at hok
      simp only [xOK, Bool.and_eq_true, Bool.not_eq_true'] at hx ⊢
      exact ⟨nonspecial_shake0 ⟨fun _ _ => false, fun _ _ _ => false⟩ closedK n x hok.2 hfl hok.1 hx.1,
        ih x hok.2 hfl hx.2⟩
    | _ => exact hx

mutual
/-- `shakeOK` and `xOK` together are the class of `shake1_exact`. -/
theorem e1OK_of : ∀ (e : Expr), shakeOK e = true → xOK e = true → e1OK e = true
  | .group op es, hs, hx => by
    simp only [shakeOK, Bool.and_eq_true, Bool.not_eq_true', List.isEmpty_eq_false_iff] at hs
    cases op <;> simp [boolOp] at hs
    · simp only [xOK, Bool.and_eq_true, Bool.not_eq_true'] at hx
      simp only [e1OK, Bool.and_eq_true, Bool.not_eq_true', List.isEmpty_eq_false_iff]
      refine ⟨⟨hs.1, e1OKL_of es hs.2 hx.1⟩, ?_⟩
      cases hh : hasTopNestedL es with
      | false => rfl
      | true => rw [hasTopNestedL_topNL es hh] at hx; cases hx.2
    · simp only [xOK] at hx
      simp only [e1OK, Bool.and_eq_true, Bool.not_eq_true', List.isEmpty_eq_false_iff]
      exact ⟨hs.1, e1OKL_of es hs.2 hx⟩
  | .bin l op r, hs, hx => by
    cases op <;> simp only [shakeOK, xOK, e1OK, Bool.and_eq_true] at hs hx ⊢ <;>
      first
        | exact ⟨e1OK_of l hs.1 hx.1.1.1, e1OK_of r hs.2 hx.1.1.2⟩
        | exact ⟨e1OK_of l hs.1 hx.1, e1OK_of r hs.2 hx.2⟩
        | exact hs
  | .match k x, hs, hx => by
    simp only [shakeOK, xOK, e1OK, Bool.and_eq_true] at hs hx ⊢
    exact ⟨hs.1, e1OK_of x hs.2 hx⟩
  | .negate x, hs, hx => by
    simp only [shakeOK, xOK, e1OK] at hs hx ⊢
    exact e1OK_of x hs hx
  | .nested f x, hs, hx => by
    simp only [shakeOK, xOK, e1OK, Bool.and_eq_true, Bool.not_eq_true'] at hs hx ⊢
    exact ⟨⟨hs.1, hx.1⟩, e1OK_of x hs.2 hx.2⟩
  | .search s f c, _, hx => by
    cases s <;> first | rfl | (simpa [xOK, e1OK] using hx)
  | .ident _, _, _ => rfl
  | .matrix _ _, _, _ => rfl
  | .bool _, _, _ => rfl
  | .cast _ _, _, _ => rfl
  | .field _, _, _ => rfl
  | .float _, _, _ => rfl
  | .int _, _, _ => rfl
  | .null, _, _ => rfl
theorem e1OKL_of : ∀ (es : List Expr), shakeOKL es = true → xOKL es = true → e1OKL es = true
  | [], _, _ => rfl
  | e :: es, hs, hx => by
    simp only [shakeOKL, xOKL, e1OKL, Bool.and_eq_true] at hs hx ⊢
    exact ⟨e1OK_of e hs.1 hx.1, e1OKL_of es hs.2 hx.2⟩
end


end Tau
