import Tau.Rule
import Tau.Proofs.Safe
/-
  The loader's identifier-existence scan (rule.rs:104-125) works on TOKEN POSITIONS: every
  identifier token must name a defined identifier, except one that stands two places behind a
  modifier token (`int ( f`), which is a field.  The solver's `unreachable!()` for an undefined
  identifier is about the TREE the Pratt parser builds.  This file proves the link: every identifier
  a successfully parsed condition mentions is an identifier token that the scan does not skip.

  `scan m2 m1 ts` is the scan as a recursive function with a two-token look-back (`m2`: the token two
  back is a modifier, `m1`: the previous token is one).  `parse_scan_aux` follows the four mutually
  recursive parser functions: each consumes a prefix `pre` of its input, the look-back after `pre` is
  again (false, false) — a modifier is always consumed together with `( ident )` — and the identifiers
  of the result are among `scan false false pre`.
-/
set_option linter.unusedSimpArgs false
set_option linter.unusedVariables false
namespace Tau

def Token.isMod : Token → Bool
  | .modifier _ => true
  | _ => false

/-- The identifier tokens the loader's scan checks, given the look-back. -/
def scan : Bool → Bool → List Token → List Str
  | _, _, [] => []
  | m2, m1, t :: ts =>
    (match t with
     | .ident s => if m2 then [] else [s]
     | _ => []) ++ scan m1 t.isMod ts

/-- The look-back after consuming a list of tokens. -/
def adv : Bool × Bool → List Token → Bool × Bool
  | c, [] => c
  | c, t :: ts => adv (c.2, t.isMod) ts

theorem adv_append (c : Bool × Bool) (a b : List Token) : adv c (a ++ b) = adv (adv c a) b := by
  induction a generalizing c with
  | nil => rfl
  | cons t a ih => simp only [List.cons_append, adv]; exact ih _

theorem scan_append (m2 m1 : Bool) (a b : List Token) :
    scan m2 m1 (a ++ b) = scan m2 m1 a ++ scan (adv (m2, m1) a).1 (adv (m2, m1) a).2 b := by
  induction a generalizing m2 m1 with
  | nil => simp [scan, adv]
  | cons t a ih => simp only [List.cons_append, scan, adv, ih, List.append_assoc]

/-- What `collectParen` returns, as a decomposition of its input. -/
theorem collectParen_split : ∀ (ts : List Token) (d : Nat) (acc inner rest : List Token),
    collectParen d ts acc = (inner, rest) →
    ∃ body closing, inner = acc.reverse ++ body ∧ ts = body ++ closing ++ rest ∧
      (closing = [] ∨ closing = [Token.rparen]) := by
  intro ts
  induction ts with
  | nil =>
    intro d acc inner rest h
    simp only [collectParen] at h
    cases h
    exact ⟨[], [], by simp, by simp, Or.inl rfl⟩
  | cons t ts ih =>
    intro d acc inner rest h
    simp only [collectParen] at h
    split at h
    · obtain ⟨body, closing, h1, h2, h3⟩ := ih _ _ _ _ h
      exact ⟨t :: body, closing, by simp [h1], by simp [h2], h3⟩
    · split at h
      · rename_i _ hr
        split at h
        · cases h
          exact ⟨[], [Token.rparen], by simp, by simp [hr], Or.inr rfl⟩
        · obtain ⟨body, closing, h1, h2, h3⟩ := ih _ _ _ _ h
          exact ⟨t :: body, closing, by simp [h1], by simp [h2], h3⟩
      · obtain ⟨body, closing, h1, h2, h3⟩ := ih _ _ _ _ h
        exact ⟨t :: body, closing, by simp [h1], by simp [h2], h3⟩

theorem parseParenIdent_shape (ts : List Token) (s : Str) (rest : List Token)
    (h : parseParenIdent ts = .ok (s, rest)) : ts = .lparen :: .ident s :: .rparen :: rest := by
  unfold parseParenIdent at h
  split at h
  · cases h
  · rename_i t0 ts1
    split at h
    · cases h
    · rename_i h0
      split at h
      · cases h
      · rename_i tok ts2
        split at h
        · cases h
        · rename_i t2 ts3
          split at h
          · cases h
          · rename_i h2
            split at h
            · cases h
              have h0' : t0 = Token.lparen := by simpa using h0
              have h2' : t2 = Token.rparen := by simpa using h2
              subst h0' h2'; rfl
            · cases h

theorem parseOfArgs_shape (ts : List Token) (s : Str) (n : Nat) (rest : List Token)
    (h : parseOfArgs ts = .ok (s, n, rest)) :
    ∃ c : Int, ts = .lparen :: .ident s :: .comma :: .int c :: .rparen :: rest := by
  unfold parseOfArgs at h
  split at h
  · cases h
  · rename_i t0 ts1
    split at h
    · cases h
    · rename_i h0
      split at h
      · cases h
      · rename_i tok ts2
        split at h
        · cases h
        · rename_i t2 ts3
          split at h
          · cases h
          · rename_i h2
            split at h
            · cases h
            · rename_i t3 ts4
              split at h
              · rename_i c
                split at h
                · cases h
                · split at h
                  · cases h
                  · rename_i t4 ts5
                    split at h
                    · cases h
                    · rename_i h4
                      split at h
                      · cases h
                        have h0' : t0 = Token.lparen := by simpa using h0
                        have h2' : t2 = Token.comma := by simpa using h2
                        have h4' : t4 = Token.rparen := by simpa using h4
                        subst h0' h2' h4'
                        exact ⟨c, rfl⟩
                      · cases h
              · cases h

/-- What one parser function did: it consumed `pre`, left the look-back clean, and every identifier
    of the result beyond those of `base` is a checked identifier token of `pre`. -/
def Consumed (base : List Str) (ts : List Token) (e : Expr) (rest : List Token) : Prop :=
  ∃ pre, ts = pre ++ rest ∧ adv (false, false) pre = (false, false) ∧
    ∀ i ∈ condIdents e, i ∈ base ∨ i ∈ scan false false pre

theorem parse_scan_aux : ∀ (fuel : Nat),
    (∀ ts e, parseAll fuel ts = .ok e → Consumed [] ts e []) ∧
    (∀ rbp ts e rest, parseExpr fuel rbp ts = .ok (e, rest) → Consumed [] ts e rest) ∧
    (∀ rbp left ts e rest, parseLoop fuel rbp left ts = .ok (e, rest) →
        Consumed (condIdents left) ts e rest) ∧
    (∀ ts e rest, parseNud fuel ts = .ok (e, rest) → Consumed [] ts e rest) := by
  intro fuel
  induction fuel with
  | zero =>
    refine ⟨?_, ?_, ?_, ?_⟩ <;> intros <;> simp_all [parseAll, parseExpr, parseLoop, parseNud]
  | succ n ih =>
    obtain ⟨ihAll, ihExpr, ihLoop, ihNud⟩ := ih
    refine ⟨?_, ?_, ?_, ?_⟩
    · intro ts e h
      simp only [parseAll] at h
      split at h
      · cases h
      · rename_i e' rest heq
        split at h
        · rename_i hemp
          cases h
          have hr : rest = [] := by simpa using hemp
          subst hr
          exact ihExpr _ _ _ _ heq
        · cases h
    · intro rbp ts e rest h
      simp only [parseExpr] at h
      split at h
      · cases h
      · rename_i left rest' heq
        obtain ⟨p1, hts, hadv1, hid1⟩ := ihNud _ _ _ heq
        obtain ⟨p2, hts2, hadv2, hid2⟩ := ihLoop _ _ _ _ _ h
        refine ⟨p1 ++ p2, by simp [hts, hts2], by rw [adv_append, hadv1, hadv2], ?_⟩
        intro i hi
        right
        rw [scan_append, hadv1]
        rcases hid2 i hi with hb | hs
        · rcases hid1 i hb with hb' | hs'
          · cases hb'
          · exact List.mem_append_left _ hs'
        · exact List.mem_append_right _ hs
    · intro rbp left ts e rest h
      cases ts with
      | nil =>
        simp only [parseLoop] at h; cases h
        exact ⟨[], rfl, rfl, fun i hi => Or.inl hi⟩
      | cons next ts' =>
        simp only [parseLoop] at h
        split at h
        · cases h
          exact ⟨[], rfl, rfl, fun i hi => Or.inl hi⟩
        · split at h
          · rename_i sym _
            split at h
            · cases h
            · rename_i right rest' heq
              split at h
              · cases h
              · rename_i hchk
                obtain ⟨p1, hts, hadv1, hid1⟩ := ihExpr _ _ _ _ heq
                obtain ⟨p2, hts2, hadv2, hid2⟩ := ihLoop _ _ _ _ _ h
                refine ⟨Token.op sym :: (p1 ++ p2), by simp [hts, hts2], ?_, ?_⟩
                · simp only [adv, Token.isMod]
                  rw [adv_append, hadv1, hadv2]
                · intro i hi
                  rcases hid2 i hi with hb | hs
                  · simp only [condIdents, List.mem_append] at hb
                    rcases hb with hl | hr
                    · exact Or.inl hl
                    · right
                      simp only [scan, Token.isMod, List.nil_append]
                      rw [scan_append, hadv1]
                      rcases hid1 i hr with hb' | hs'
                      · cases hb'
                      · exact List.mem_append_left _ hs'
                  · right
                    simp only [scan, Token.isMod, List.nil_append]
                    rw [scan_append, hadv1]
                    exact List.mem_append_right _ hs
          · cases h
    · intro ts e rest h
      cases ts with
      | nil => simp [parseNud] at h
      | cons t ts' =>
        simp only [parseNud] at h
        split at h
        · -- lparen
          split at h
          · cases h
          · rename_i e' heq
            cases h
            obtain ⟨body, closing, hin, hts, hcl⟩ :=
              collectParen_split ts' 1 [] (collectParen 1 ts' []).fst (collectParen 1 ts' []).snd rfl
            generalize (collectParen 1 ts' []).fst = inner at *
            generalize (collectParen 1 ts' []).snd = rest' at *
            simp only [List.reverse_nil, List.nil_append] at hin
            subst hin
            obtain ⟨p, hp, hadv, hid⟩ := ihAll _ _ heq
            simp only [List.append_nil] at hp
            subst hp
            refine ⟨Token.lparen :: (inner ++ closing), by simp [hts], ?_, ?_⟩
            · simp only [adv, Token.isMod]
              rw [adv_append, hadv]
              rcases hcl with rfl | rfl <;> rfl
            · intro i hi
              right
              simp only [scan, Token.isMod, List.nil_append]
              rw [scan_append]
              rcases hid i hi with hb | hs
              · cases hb
              · exact List.mem_append_left _ hs
        · cases h
        · cases h
        · cases h; exact ⟨[Token.float _], rfl, rfl, fun i hi => by simp [condIdents] at hi⟩
        · rename_i nm
          cases h
          exact ⟨[Token.ident nm], rfl, rfl, fun i hi => by
            simp only [condIdents, List.mem_singleton] at hi
            subst hi; right; simp [scan]⟩
        · cases h; exact ⟨[Token.int _], rfl, rfl, fun i hi => by simp [condIdents] at hi⟩
        · -- not
          split at h
          · cases h
          · rename_i right rest' heq
            split at h
            · cases h
              obtain ⟨p, hp, hadv, hid⟩ := ihExpr _ _ _ _ heq
              refine ⟨Token.miscNot :: p, by simp [hp], ?_, ?_⟩
              · simp only [adv, Token.isMod]; exact hadv
              · intro i hi
                simp only [condIdents] at hi
                right
                simp only [scan, Token.isMod, List.nil_append]
                rcases hid i hi with hb | hs
                · cases hb
                · exact hs
            · cases h
        · -- modifier
          split at h
          · cases h
          · rename_i s rest' heq
            cases h
            have hsh := parseParenIdent_shape _ _ _ heq
            subst hsh
            exact ⟨[Token.modifier _, Token.lparen, Token.ident s, Token.rparen], rfl, rfl,
              fun i hi => by simp [condIdents] at hi⟩
        · split at h
          · cases h
          · rename_i s rest' heq
            cases h
            have hsh := parseParenIdent_shape _ _ _ heq
            subst hsh
            exact ⟨[Token.matchAll, Token.lparen, Token.ident s, Token.rparen], rfl, rfl,
              fun i hi => by
                simp only [condIdents, List.mem_singleton] at hi
                subst hi; right; simp [scan, Token.isMod]⟩
        · split at h
          · cases h
          · rename_i s k rest' heq
            cases h
            obtain ⟨c, hsh⟩ := parseOfArgs_shape _ _ _ _ heq
            subst hsh
            exact ⟨[Token.matchOf, Token.lparen, Token.ident s, Token.comma, Token.int c, Token.rparen], rfl, rfl,
              fun i hi => by
                simp only [condIdents, List.mem_singleton] at hi
                subst hi; right; simp [scan, Token.isMod]⟩
        · cases h

/-- Every identifier of a parsed condition is an identifier token the scan checks. -/
theorem parse_idents_scanned (ts : List Token) (e : Expr) (h : parse ts = .ok e) :
    ∀ i ∈ condIdents e, i ∈ scan false false ts := by
  obtain ⟨pre, hp, _, hid⟩ := (parse_scan_aux (parseFuel ts)).1 ts e h
  simp only [List.append_nil] at hp
  subst hp
  intro i hi
  rcases hid i hi with hb | hs
  · cases hb
  · exact hs

/-- A member of `scan` sits at a position the index-based scan of the loader does not skip. -/
theorem scan_index : ∀ (l : List Token) (m2 m1 : Bool) (s : Str), s ∈ scan m2 m1 l →
    ∃ j, l[j]? = some (.ident s) ∧ (j = 0 → m2 = false) ∧ (j = 1 → m1 = false) ∧
      (2 ≤ j → ∀ m, l[j - 2]? ≠ some (.modifier m)) := by
  intro l
  induction l with
  | nil => intro m2 m1 s h; simp [scan] at h
  | cons t ts ih =>
    intro m2 m1 s h
    simp only [scan, List.mem_append] at h
    rcases h with h | h
    · cases t <;> simp at h
      rename_i nm
      obtain ⟨hm, rfl⟩ := h
      exact ⟨0, by simp, fun _ => by simpa using hm, by simp, by omega⟩
    · obtain ⟨j, hj, h0, h1, h2⟩ := ih _ _ _ h
      refine ⟨j + 1, by simpa using hj, by simp, ?_, ?_⟩
      · intro hj1
        have : j = 0 := by omega
        exact h0 this
      · intro hge m
        by_cases hj1 : j = 1
        · subst hj1
          have := h1 rfl
          simp only [Nat.add_one_sub_one] at *
          show (t :: ts)[0]? ≠ _
          intro hc
          simp at hc
          subst hc
          simp [Token.isMod] at this
        · have hj2 : 2 ≤ j := by omega
          have hm := h2 hj2 m
          have e : j + 1 - 2 = (j - 2) + 1 := by omega
          rw [e]
          simpa using hm

/-- The loader's scan, as written (by index), implies that every scanned identifier is defined. -/
theorem identsPresent_scan (ids : Ids) (ts : List Token) (h : identsPresent ids ts = true) :
    ∀ s ∈ scan false false ts, (lookupId ids s).isSome = true := by
  intro s hs
  obtain ⟨j, hj, _, _, h2⟩ := scan_index ts false false s hs
  unfold identsPresent at h
  rw [List.all_eq_true] at h
  have hlt : j < ts.length := by
    rcases Nat.lt_or_ge j ts.length with hlt | hge
    · exact hlt
    · rw [List.getElem?_eq_none hge] at hj; cases hj
  have hjr := h j (List.mem_range.mpr hlt)
  simp only [hj, Bool.or_eq_true, Bool.and_eq_true, decide_eq_true_eq] at hjr
  rcases hjr with ⟨hgt, hmod⟩ | hdef
  · exfalso
    have := h2 (by omega)
    revert hmod
    cases hq : ts[j - 2]? with
    | none => simp
    | some tk =>
      cases tk <;> simp
      rename_i m
      exact this m hq
  · exact hdef

end Tau
