import Tau.Trace
import Tau.Proofs.Frame
/-
  Every key the solver asks of the document is one of the keys the expression names (`keysOf`).
-/
set_option linter.unusedSimpArgs false
namespace Tau

theorem operandKeys_sub (e : Expr) : ∀ k ∈ operandKeys e, k ∈ operandField e := by
  cases e <;> simp [operandKeys, operandField]
  rename_i f m
  cases m <;> simp [operandKeys]

theorem cmpKeys_sub (d : Doc) (l : Expr) (op : BoolSym) (r : Expr) :
    ∀ k ∈ cmpKeys d l op r, k ∈ operandField l ++ operandField r := by
  intro k hk
  unfold cmpKeys at hk
  split at hk
  · rename_i lf rf
    simp only [operandField, List.mem_append, List.mem_singleton]
    split at hk
    · simp at hk; exact Or.inl hk
    · split at hk <;> simp at hk
      · rcases hk with rfl | rfl <;> simp
      · exact Or.inl hk
  · simp at hk; subst hk; simp [operandField]
  · simp at hk; subst hk; simp [operandField]
  · split at hk
    · exact List.mem_append_left _ (operandKeys_sub l k hk)
    · rcases List.mem_append.mp hk with h | h
      · exact List.mem_append_left _ (operandKeys_sub l k h)
      · exact List.mem_append_right _ (operandKeys_sub r k h)

/-- The cache fills of one row ask only for column names. -/
theorem rowT_sub (d : Doc) (cols : List Str) (ev : List (Option Value) → Expr → Tri) :
    ∀ (row : List (Option Expr)) (i : Nat) (cache : List (Option Value)),
      ∀ k ∈ rowT d cols row i cache ev, k ∈ cols
  | [], _, _, k, hk => by simp [rowT] at hk
  | none :: cells, i, cache, k, hk => by
    simp only [rowT] at hk
    exact rowT_sub d cols ev cells (i + 1) cache k hk
  | some e :: cells, i, cache, k, hk => by
    simp only [rowT] at hk
    split at hk
    · split at hk
      · exact rowT_sub d cols ev cells (i + 1) cache k hk
      · simp at hk
    · split at hk
      · simp at hk
      · rename_i col hcol
        have hmem : col ∈ cols := List.mem_of_getElem? hcol
        split at hk
        · simp at hk; subst hk; exact hmem
        · split at hk
          · rcases List.mem_cons.mp hk with rfl | h'
            · exact hmem
            · exact rowT_sub d cols ev cells (i + 1) _ k h'
          · simp at hk; subst hk; exact hmem

theorem rowsT_sub (E : RegexEngine) (K : IdentK) (d : Doc) (cols : List Str) (stop : Tri → Bool) :
    ∀ (rows : List (List (Option Expr))) (cache : List (Option Value)),
      ∀ k ∈ (rowsT E K d cols rows cache stop).1, k ∈ cols
  | [], _, k, hk => by simp [rowsT] at hk
  | row :: rows, cache, k, hk => by
    simp only [rowsT] at hk
    split at hk
    · exact rowT_sub d cols _ row 0 cache k hk
    · rcases List.mem_append.mp hk with h | h
      · exact rowT_sub d cols _ row 0 cache k h
      · exact rowsT_sub E K d cols stop rows _ k h

theorem rowsOfT_sub (E : RegexEngine) (K : IdentK) (d : Doc) (cols : List Str) (c : Nat) :
    ∀ (rows : List (List (Option Expr))) (cache : List (Option Value)) (hits : Nat),
      ∀ k ∈ rowsOfT E K d cols rows cache c hits, k ∈ cols
  | [], _, _, k, hk => by simp [rowsOfT] at hk
  | row :: rows, cache, hits, k, hk => by
    simp only [rowsOfT] at hk
    split at hk
    · split at hk
      · exact rowT_sub d cols _ row 0 cache k hk
      · rcases List.mem_append.mp hk with h | h
        · exact rowT_sub d cols _ row 0 cache k h
        · exact rowsOfT_sub E K d cols c rows _ _ k h
    · rcases List.mem_append.mp hk with h | h
      · exact rowT_sub d cols _ row 0 cache k h
      · exact rowsOfT_sub E K d cols c rows _ _ k h

end Tau

namespace Tau

theorem andT_sub (E : RegexEngine) (K : IdentK) (T : TraceK) (d : Doc) (extra : List Str) (es : List Expr)
    (h : ∀ e ∈ es, ∀ k ∈ traceG E K T d e, k ∈ keysOf e ∨ k ∈ extra) :
    ∀ k ∈ andT E K T d es, k ∈ keysOfL es ∨ k ∈ extra := by
  induction es with
  | nil => intro k hk; simp [andT] at hk
  | cons x xs ih =>
    intro k hk
    simp only [andT, List.mem_append] at hk
    simp only [keysOfL, List.mem_append]
    rcases hk with hk | hk
    · rcases h x (by simp) k hk with h1 | h1
      · exact Or.inl (Or.inl h1)
      · exact Or.inr h1
    · split at hk
      · rcases ih (fun e he => h e (by simp [he])) k hk with h1 | h1
        · exact Or.inl (Or.inr h1)
        · exact Or.inr h1
      · simp at hk

theorem orT_sub (E : RegexEngine) (K : IdentK) (T : TraceK) (d : Doc) (extra : List Str) (es : List Expr)
    (h : ∀ e ∈ es, ∀ k ∈ traceG E K T d e, k ∈ keysOf e ∨ k ∈ extra) :
    ∀ k ∈ orT E K T d es, k ∈ keysOfL es ∨ k ∈ extra := by
  induction es with
  | nil => intro k hk; simp [orT] at hk
  | cons x xs ih =>
    intro k hk
    simp only [orT, List.mem_append] at hk
    simp only [keysOfL, List.mem_append]
    rcases hk with hk | hk
    · rcases h x (by simp) k hk with h1 | h1
      · exact Or.inl (Or.inl h1)
      · exact Or.inr h1
    · split at hk
      · simp at hk
      · rcases ih (fun e he => h e (by simp [he])) k hk with h1 | h1
        · exact Or.inl (Or.inr h1)
        · exact Or.inr h1

theorem ofT_sub (E : RegexEngine) (K : IdentK) (T : TraceK) (d : Doc) (extra : List Str) (c : Nat) (es : List Expr)
    (h : ∀ e ∈ es, ∀ k ∈ traceG E K T d e, k ∈ keysOf e ∨ k ∈ extra) :
    ∀ count, ∀ k ∈ ofT E K T d c count es, k ∈ keysOfL es ∨ k ∈ extra := by
  induction es with
  | nil => intro _ k hk; simp [ofT] at hk
  | cons x xs ih =>
    intro count k hk
    have ih' := ih (fun e he => h e (by simp [he]))
    have lift : ∀ cnt, k ∈ ofT E K T d c cnt xs → (k ∈ keysOf x ∨ k ∈ keysOfL xs) ∨ k ∈ extra := by
      intro cnt hk'
      rcases ih' cnt k hk' with h1 | h1
      · exact Or.inl (Or.inr h1)
      · exact Or.inr h1
    simp only [ofT, List.mem_append] at hk
    simp only [keysOfL, List.mem_append]
    rcases hk with hk | hk
    · rcases h x (by simp) k hk with h1 | h1
      · exact Or.inl (Or.inl h1)
      · exact Or.inr h1
    · split at hk
      · split at hk
        · simp at hk
        · split at hk
          · simp at hk
          · exact lift _ hk
      · exact lift _ hk

/-- **Trace ⊆ named keys.** Every key asked of the document while evaluating `e` is one of
    `keysOf e`, or one the identifier continuation asks for (`extra`). -/
theorem trace_sub (E : RegexEngine) (K : IdentK) (T : TraceK) (d : Doc) (extra : List Str)
    (hTi : ∀ i, ∀ k ∈ T.ident i d, k ∈ extra) (hTm : ∀ m i, ∀ k ∈ T.match m i d, k ∈ extra) :
    ∀ (n : Nat) (e : Expr), e.size ≤ n → ∀ k ∈ traceG E K T d e, k ∈ keysOf e ∨ k ∈ extra := by
  intro n
  induction n with
  | zero => intro e hs; cases e <;> simp [Expr.size] at hs
  | succ n ih =>
    intro e hs k hk
    have members : ∀ (es : List Expr), Expr.size.sizeL es ≤ n →
        ∀ x ∈ es, ∀ k ∈ traceG E K T d x, k ∈ keysOf x ∨ k ∈ extra :=
      fun es hsz x hx k hk => ih x (by have := size_mem_lt es x hx; omega) k hk
    cases e with
    | group op es =>
      simp only [Expr.size] at hs
      have hm := members es (by omega)
      cases op <;> simp only [traceG] at hk
      · simpa [keysOf] using andT_sub E K T d extra es hm k hk
      · simp at hk
      · simp at hk
      · simp at hk
      · simp at hk
      · simp at hk
      · simpa [keysOf] using orT_sub E K T d extra es hm k hk
    | bin l op r =>
      simp only [Expr.size] at hs
      cases op
      case and =>
        simp only [traceG, List.mem_append] at hk
        simp only [keysOf, List.mem_append]
        rcases hk with hk | hk
        · rcases ih l (by omega) k hk with h1 | h1
          · exact Or.inl (Or.inl h1)
          · exact Or.inr h1
        · split at hk
          · rcases ih r (by omega) k hk with h1 | h1
            · exact Or.inl (Or.inr h1)
            · exact Or.inr h1
          · simp at hk
      case or =>
        simp only [traceG, List.mem_append] at hk
        simp only [keysOf, List.mem_append]
        rcases hk with hk | hk
        · rcases ih l (by omega) k hk with h1 | h1
          · exact Or.inl (Or.inl h1)
          · exact Or.inr h1
        · split at hk
          · simp at hk
          · rcases ih r (by omega) k hk with h1 | h1
            · exact Or.inl (Or.inr h1)
            · exact Or.inr h1
      all_goals
        simp only [traceG] at hk
        simp only [keysOf]
        exact Or.inl (cmpKeys_sub d l _ r k hk)
    | ident i => simp only [traceG] at hk; exact Or.inr (hTi i k hk)
    | «match» m x =>
      simp only [Expr.size] at hs
      have hgen : ∀ k ∈ traceG E K T d x, k ∈ keysOf x ∨ k ∈ extra := fun k hk => ih x (by omega) k hk
      cases x with
      | ident i => cases m <;> (simp only [traceG] at hk; exact Or.inr (hTm _ i k hk))
      | group op es =>
        simp only [Expr.size] at hs
        have hm := members es (by omega)
        cases m <;> simp only [traceG] at hk
        · simpa [keysOf] using andT_sub E K T d extra es hm k hk
        · simpa [keysOf] using ofT_sub E K T d extra _ es hm 0 k hk
      | search s f c =>
        cases m <;> cases s <;> simp [traceG] at hk <;> simp [keysOf, hk]
      | matrix cols rows =>
        cases m with
        | all => simp only [traceG] at hk; exact Or.inl (by simpa [keysOf] using rowsT_sub E K d cols _ rows _ k hk)
        | of c =>
          simp only [traceG] at hk
          split at hk
          · exact Or.inl (by simpa [keysOf] using rowsT_sub E K d cols _ rows _ k hk)
          · exact Or.inl (by simpa [keysOf] using rowsOfT_sub E K d cols c rows _ 0 k hk)
      | _ =>
        cases m <;>
        · simp only [traceG] at hk hgen
          simpa [keysOf] using hgen k (by simpa [traceG] using hk)
    | matrix cols rows =>
      simp only [traceG] at hk
      exact Or.inl (by simpa [keysOf] using rowsT_sub E K d cols _ rows _ k hk)
    | negate x =>
      simp only [Expr.size] at hs
      simp only [traceG] at hk
      simpa [keysOf] using ih x (by omega) k hk
    | nested f x => simp [traceG] at hk; simp [keysOf, hk]
    | search s f c => simp [traceG] at hk; simp [keysOf, hk]
    | _ => simp [traceG] at hk

end Tau
