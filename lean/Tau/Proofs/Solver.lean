import Tau.Solver
import Tau.Proofs.Tri
/-
  Helper lemmas: the group loops of the solver are the declarative tables applied to the list of
  member results.
-/
namespace Tau

theorem orG_eq (E : RegexEngine) (K : IdentK) (d : Doc) (es : List Expr) :
    orG E K d es = Tri.or (listG E K d es) := by
  induction es with
  | nil => simp [orG, listG]
  | cons e es ih =>
    simp only [orG, listG, Tri.or_cons]
    cases h : solveG E K d e <;> simp [ih]
    cases Tri.or (listG E K d es) <;> rfl

theorem andG_eq (E : RegexEngine) (K : IdentK) (d : Doc) (es : List Expr) :
    andG E K d es = Tri.and (listG E K d es) := by
  induction es with
  | nil => simp [andG, listG]
  | cons e es ih =>
    simp only [andG, listG, Tri.and_cons]
    cases h : solveG E K d e <;> simp [ih]

theorem listG_eq_map (E : RegexEngine) (K : IdentK) (d : Doc) (es : List Expr) :
    listG E K d es = es.map (solveG E K d) := by
  induction es with
  | nil => simp [listG]
  | cons e es ih => simp [listG, ih]

theorem binAnd_eq (x y : Tri) : binAnd x y = Tri.and [x, y] := by
  cases x <;> cases y <;> rfl

theorem binOr_eq (x y : Tri) : binOr x y = Tri.or [x, y] := by
  cases x <;> cases y <;> rfl

end Tau
