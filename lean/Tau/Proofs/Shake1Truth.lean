import Tau.Proofs.Shake1Exact
import Tau.Proofs.MatrixTruth
/-
  `shake_1` keeps every verdict (true / not true) on negation-free trees, including and-groups that
  hold nested mappings (which the pass merges per field and moves behind the other conjuncts).
-/
set_option linter.unusedSimpArgs false
namespace Tau

def matrixSpecial : Expr → Bool
  | .match .all (.matrix _ _) => true
  | _ => false

def orSpecial : Expr → Bool
  | .match .all (.group .or _) => true
  | _ => false

theorem special_split (x : Expr) : nestedSpecial x = (orSpecial x || matrixSpecial x) := by
  cases x with
  | «match» k y =>
    cases k with
    | of c => rfl
    | all => cases y <;> first | rfl | (rename_i op es; cases op <;> rfl)
  | _ => rfl

def isNestedE : Expr → Bool
  | .nested _ _ => true
  | _ => false

/-- Members of an and-group: nested mappings, or things that cannot become one. -/
def andMem : List Expr → Bool
  | [] => true
  | e :: es => (isNestedE e || !hasTopNested e) && andMem es

theorem andMem_iff (l : List Expr) : andMem l = true ↔ ∀ x ∈ l, isNestedE x = true ∨ hasTopNested x = false := by
  induction l with
  | nil => simp [andMem]
  | cons x xs ih => simp [andMem, ih]

mutual
/-- Negation-free trees on which `shake_1` keeps every verdict. -/
def e2OK : Expr → Bool
  | .group .and es => !es.isEmpty && e2OKL es && andMem es
  | .group .or es => !es.isEmpty && e2OKL es
  | .group _ _ => false
  | .bin l .and r => e2OK l && e2OK r
  | .bin l .or r => e2OK l && e2OK r
  | .bin l _ r => isLeafE l && isLeafE r
  | .match k x => (k != .of 0) && matchChildOK x && e2OK x
  | .negate _ => false
  | .nested _ x => nestedChildOK x && !matrixSpecial x && e2OK x
  | .search (.ac ctx _) _ _ => !ctx.isEmpty
  | .search (.regexSet ps _) _ _ => !ps.isEmpty
  | _ => true
def e2OKL : List Expr → Bool
  | [] => true
  | e :: es => e2OK e && e2OKL es
end

theorem e2OKL_iff (l : List Expr) : e2OKL l = true ↔ ∀ x ∈ l, e2OK x = true := by
  induction l with
  | nil => simp [e2OKL]
  | cons x xs ih => simp [e2OKL, ih]

abbrev TEq (a b : Tri) : Prop := a = .t ↔ b = .t

theorem TEq.refl (a : Tri) : TEq a a := Iff.rfl
theorem TEq.trans {a b c : Tri} (h1 : TEq a b) (h2 : TEq b c) : TEq a c := Iff.trans h1 h2
theorem TEq.symm {a b : Tri} (h : TEq a b) : TEq b a := Iff.symm h

/-- "Holds under field `f`": on an object the block holds, on an array it holds for some element. -/
def NT (E : RegexEngine) (K : IdentK) (f : Str) (x : Expr) (d : Doc) : Prop :=
  match d.find f with
  | some (.obj kvs) => solveG E K (.obj kvs) x = .t
  | some (.arr a) => ∃ kvs ∈ elemObjs a, solveG E K (.obj kvs) x = .t
  | _ => False

theorem nested_plain_truth (E : RegexEngine) (K : IdentK) (d : Doc) (f : Str) (x : Expr)
    (hx : nestedSpecial x = false) : solveG E K d (.nested f x) = .t ↔ NT E K f x d := by
  rw [nested_generic E K d f x hx]
  unfold NT
  cases d.find f with
  | none => simp
  | some v =>
    cases v with
    | obj kvs => exact Iff.rfl
    | arr a =>
      simp only [Tri.ofBool]
      cases h : (elemObjs a).any (fun kvs => solveG E K (.obj kvs) x == .t) with
      | true =>
        simp only [if_true, true_iff]
        obtain ⟨kvs, hk, ht⟩ := List.any_eq_true.mp h
        exact ⟨kvs, hk, by simpa using ht⟩
      | false =>
        simp only [Bool.false_eq_true, if_false]
        constructor
        · intro h'; cases h'
        · rintro ⟨kvs, hk, ht⟩
          have : (elemObjs a).any (fun kvs => solveG E K (.obj kvs) x == .t) = true :=
            List.any_eq_true.mpr ⟨kvs, hk, by simp [ht]⟩
          rw [this] at h; cases h
    | _ => simp

theorem nested_special_truth (E : RegexEngine) (K : IdentK) (d : Doc) (f : Str) (ms : List Expr) (hne : ms ≠ []) :
    solveG E K d (.nested f (.match .all (.group .or ms))) = .t ↔ ∀ m ∈ ms, NT E K f m d := by
  simp only [solveG]
  unfold NT
  cases d.find f with
  | none =>
    constructor
    · intro h'; cases h'
    · intro h
      cases ms with
      | nil => exact absurd rfl hne
      | cons m _ => exact (h m (by simp)).elim
  | some v =>
    cases v with
    | obj kvs =>
      simp only []
      rw [andG_eq, listG_eq_map, Tri.and_eq_t_iff]
      simp only [List.mem_map, forall_exists_index, and_imp, forall_apply_eq_imp_iff₂]
    | arr a =>
      simp only []
      rw [nestedAllOrG_eq, Tri.and_eq_t_iff]
      simp only [List.mem_map, forall_exists_index, and_imp, forall_apply_eq_imp_iff₂]
      constructor
      · intro h m hm
        have := h m hm
        simp only [Tri.ofBool] at this
        split at this
        · rename_i hany
          obtain ⟨kvs, hk, ht⟩ := List.any_eq_true.mp hany
          exact ⟨kvs, hk, by simpa using ht⟩
        · cases this
      · intro h m hm
        obtain ⟨kvs, hk, ht⟩ := h m hm
        have : (elemObjs a).any (fun kvs => solveG E K (.obj kvs) m == .t) = true :=
          List.any_eq_true.mpr ⟨kvs, hk, by simp [ht]⟩
        simp [Tri.ofBool, this]
    | _ =>
      constructor
      · intro h'; cases h'
      · intro h
        cases ms with
        | nil => exact absurd rfl hne
        | cons m _ => exact (h m (by simp)).elim

/-- `NT` only looks at the block through its truth on the sub-documents. -/
theorem NT_congr (E : RegexEngine) (K : IdentK) (f : Str) (x x' : Expr)
    (h : ∀ d, TEq (solveG E K d x') (solveG E K d x)) (d : Doc) : NT E K f x' d ↔ NT E K f x d := by
  unfold NT
  cases d.find f with
  | none => exact Iff.rfl
  | some v =>
    cases v with
    | obj kvs => exact h _
    | arr a =>
      constructor
      · rintro ⟨kvs, hk, ht⟩; exact ⟨kvs, hk, (h _).mp ht⟩
      · rintro ⟨kvs, hk, ht⟩; exact ⟨kvs, hk, (h _).mpr ht⟩
    | _ => exact Iff.rfl


/-! ### Truth-level simulation for the Match and Nested arms -/

theorem group_truth_map (E : RegexEngine) (K : IdentK) (d : Doc) (op : BoolSym) (es : List Expr) (g : Expr → Expr)
    (hop : op = .and ∨ op = .or) (h : ∀ y ∈ es, TEq (solveG E K d (g y)) (solveG E K d y)) :
    TEq (solveG E K d (.group op (es.map g))) (solveG E K d (.group op es)) := by
  rcases hop with rfl | rfl
  · unfold TEq
    rw [and_group_true, and_group_true]
    constructor
    · intro hall y hy; exact (h y hy).mp (hall _ (List.mem_map.mpr ⟨y, hy, rfl⟩))
    · intro hall x hx
      obtain ⟨y, hy, rfl⟩ := List.mem_map.mp hx
      exact (h y hy).mpr (hall y hy)
  · unfold TEq
    rw [or_group_true, or_group_true]
    constructor
    · rintro ⟨x, hx, ht⟩
      obtain ⟨y, hy, rfl⟩ := List.mem_map.mp hx
      exact ⟨y, hy, (h y hy).mp ht⟩
    · rintro ⟨y, hy, ht⟩
      exact ⟨g y, List.mem_map.mpr ⟨y, hy, rfl⟩, (h y hy).mpr ht⟩

theorem count_map_truth (E : RegexEngine) (K : IdentK) (d : Doc) (es : List Expr) (g : Expr → Expr)
    (h : ∀ y ∈ es, TEq (solveG E K d (g y)) (solveG E K d y)) :
    Tri.count ((es.map g).map (solveG E K d)) = Tri.count (es.map (solveG E K d)) := by
  induction es with
  | nil => rfl
  | cons y ys ih =>
    have hy := h y (by simp)
    have := ih (fun z hz => h z (by simp [hz]))
    simp only [Tri.count, List.map_cons, List.countP_cons] at this ⊢
    rw [this]
    unfold TEq at hy
    cases h1 : solveG E K d (g y) <;> cases h2 : solveG E K d y <;> simp_all

theorem ofN_pos_truth (c : Nat) (hc : c ≠ 0) (xs : List Tri) : Tri.ofN c xs = .t ↔ c ≤ Tri.count xs := by
  unfold Tri.ofN
  simp only [hc, if_false]
  split
  · simp [*]
  · rename_i h
    simp only [h, iff_false]
    split <;> simp

inductive SimT (E : RegexEngine) (K : IdentK) : Expr → Expr → Prop
  | refl (x : Expr) : SimT E K x x
  | group (op : BoolSym) (es : List Expr) (g : Expr → Expr) (hop : op = .and ∨ op = .or)
      (h : ∀ d, ∀ y ∈ es, TEq (solveG E K d (g y)) (solveG E K d y)) :
      SimT E K (.group op es) (.group op (es.map g))
  | «match» (k : MatchK) (hk : k ≠ .of 0) (y y' : Expr) (h : SimT E K y y') : SimT E K (.match k y) (.match k y')
  | gen (x x' : Expr) (hx : genericCls x = true) (hx' : genericCls x' = true)
      (h : ∀ d, TEq (solveG E K d x') (solveG E K d x)) : SimT E K x x'

theorem ofSingle_truth (c : Nat) (hc : c ≠ 0) (a b : Tri) (h : TEq a b) : TEq (ofSingle c a) (ofSingle c b) := by
  unfold TEq at *
  unfold ofSingle
  simp only [hc, if_false]
  cases a <;> cases b <;> simp_all

theorem simT_match (E : RegexEngine) (K : IdentK) (x x' : Expr) (h : SimT E K x x') :
    ∀ k, k ≠ .of 0 → ∀ d, TEq (solveG E K d (.match k x')) (solveG E K d (.match k x)) := by
  induction h with
  | refl x => intros; exact Iff.rfl
  | group op es g hop h =>
    intro k hk d
    cases k with
    | all =>
      have := group_truth_map E K d .and es g (Or.inl rfl) (h d)
      simpa only [solveG] using this
    | of c =>
      have hc : c ≠ 0 := by intro h0; subst h0; exact hk rfl
      unfold TEq
      simp only [solveG]
      rw [listG_eq_map, listG_eq_map, ofN_pos_truth c hc, ofN_pos_truth c hc, count_map_truth E K d es g (h d)]
  | «match» k2 hk2 y y' _ ih =>
    intro k hk d
    rw [match_match, match_match]
    cases k with
    | all => exact ih k2 hk2 d
    | of c =>
      have hc : c ≠ 0 := by intro h0; subst h0; exact hk rfl
      exact ofSingle_truth c hc _ _ (ih k2 hk2 d)
  | gen x x' hx hx' h =>
    intro k hk d
    rw [match_generic E K d k x hx, match_generic E K d k x' hx']
    cases k with
    | all => exact h d
    | of c =>
      have hc : c ≠ 0 := by intro h0; subst h0; exact hk rfl
      exact ofSingle_truth c hc _ _ (h d)

theorem simT_value (E : RegexEngine) (K : IdentK) (x x' : Expr) (h : SimT E K x x') :
    ∀ d, TEq (solveG E K d x') (solveG E K d x) := by
  cases h with
  | refl => intros; exact Iff.rfl
  | group op es g hop h => intro d; exact group_truth_map E K d op es g hop (h d)
  | «match» k hk y y' h => intro d; exact simT_match E K y y' h k hk d
  | gen _ _ _ _ h => exact h

theorem nested_truth_of (E : RegexEngine) (K : IdentK) (f : Str) (x x' : Expr)
    (hx : nestedSpecial x = false) (hx' : nestedSpecial x' = false)
    (h : ∀ d, TEq (solveG E K d x') (solveG E K d x)) :
    ∀ d, TEq (solveG E K d (.nested f x')) (solveG E K d (.nested f x)) := by
  intro d
  unfold TEq
  rw [nested_plain_truth E K d f x hx, nested_plain_truth E K d f x' hx']
  exact NT_congr E K f x x' h d

/-- The Nested arm under a truth-level simulation (the all()-list arm included). -/
theorem simT_nested (E : RegexEngine) (K : IdentK) (x x' : Expr) (h : SimT E K x x')
    (hm : matrixSpecial x = false) :
    ∀ f d, TEq (solveG E K d (.nested f x')) (solveG E K d (.nested f x)) := by
  intro f
  cases h with
  | refl => intro d; exact Iff.rfl
  | group op es g hop h =>
    refine nested_truth_of E K f _ _ rfl rfl (fun d => group_truth_map E K d op es g hop (h d))
  | «match» k hk y y' hy =>
    cases hy with
    | refl => intro d; exact Iff.rfl
    | group op es g hop h =>
      by_cases hsp : k = .all ∧ op = .or
      · obtain ⟨rfl, rfl⟩ := hsp
        intro d
        by_cases hne : es = []
        · subst hne; exact Iff.rfl
        · unfold TEq
          rw [nested_special_truth E K d f es hne,
            nested_special_truth E K d f (es.map g) (by simpa using hne)]
          constructor
          · intro hall m hm'
            exact (NT_congr E K f m (g m) (fun dd => h dd m hm') d).mp (hall _ (List.mem_map.mpr ⟨m, hm', rfl⟩))
          · intro hall m' hm'
            obtain ⟨m, hm'', rfl⟩ := List.mem_map.mp hm'
            exact (NT_congr E K f m (g m) (fun dd => h dd m hm'') d).mpr (hall m hm'')
      · have n1 : nestedSpecial (.match k (.group op es)) = false := by
          cases k <;> cases op <;> first | rfl | (exfalso; exact hsp ⟨rfl, rfl⟩)
        have n2 : nestedSpecial (.match k (.group op (es.map g))) = false := by
          cases k <;> cases op <;> first | rfl | (exfalso; exact hsp ⟨rfl, rfl⟩)
        exact nested_truth_of E K f _ _ n1 n2
          (simT_match E K _ _ (SimT.group op es g hop h) k hk)
    | «match» k2 hk2 z z' hz =>
      have n1 : nestedSpecial (.match k (.match k2 z)) = false := by cases k <;> rfl
      have n2 : nestedSpecial (.match k (.match k2 z')) = false := by cases k <;> rfl
      exact nested_truth_of E K f _ _ n1 n2 (simT_match E K _ _ (SimT.match k2 hk2 z z' hz) k hk)
    | gen y y' h1 h2 hv =>
      have n1 : nestedSpecial (.match k y) = false := by
        cases y <;> simp [genericCls] at h1 <;> cases k <;> rfl
      have n2 : nestedSpecial (.match k y') = false := by
        cases y' <;> simp [genericCls] at h2 <;> cases k <;> rfl
      exact nested_truth_of E K f _ _ n1 n2 (simT_match E K _ _ (SimT.gen y y' h1 h2 hv) k hk)
  | gen _ _ h1 h2 hv =>
    have n1 : nestedSpecial x = false := by cases x <;> simp [genericCls] at h1 <;> rfl
    have n2 : nestedSpecial x' = false := by cases x' <;> simp [genericCls] at h2 <;> rfl
    exact nested_truth_of E K f _ _ n1 n2 hv


/-! ### The statement carried through the induction -/

def GoodT (E : RegexEngine) (K : IdentK) (fuel : Nat) (e : Expr) : Prop :=
  e2OK (shake1 fuel e) = true ∧ (∀ d, TEq (solveG E K d (shake1 fuel e)) (solveG E K d e)) ∧
  (mayBecomeMatch (shake1 fuel e) = true → mayBecomeMatch e = true) ∧
  (hasTopNested (shake1 fuel e) = true → hasTopNested e = true) ∧
  ((∀ op es, e ≠ .group op es) → matchChildOK e = true → SimT E K e (shake1 fuel e))

theorem simT_matchChildOK (E : RegexEngine) (K : IdentK) (x x' : Expr) (h : SimT E K x x')
    (hx : matchChildOK x = true) : matchChildOK x' = true := by
  cases h with
  | refl => exact hx
  | group op es g _ _ => simpa [matchChildOK] using hx
  | «match» => rfl
  | gen _ _ _ hx' _ => cases x' <;> simp [genericCls] at hx' <;> rfl

/-- `nestedBody_ok` from the one fact it needs. -/
theorem nestedBody_ok' (fuel : Nat) (x : Expr)
    (hmb : mayBecomeMatch (shake1 fuel x) = true → mayBecomeMatch x = true)
    (h1 : nestedChildOK x = true) (h2 : nestedSpecial x = false) :
    nestedSpecial (shake1 fuel x) = false ∧ nestedChildOK (shake1 fuel x) = true := by
  have key : mayBecomeMatch (shake1 fuel x) = true → ∃ k y, x = .match k y := by
    intro hm
    have := hmb hm
    cases x with
    | «match» k y => exact ⟨k, y, rfl⟩
    | group op es =>
      match es, h1, this with
      | [], _, this => simp [mayBecomeMatch] at this
      | [y], h1, this => simp [nestedChildOK, mayBecomeMatch] at h1 this; rw [this] at h1; cases h1
      | _ :: _ :: _, _, this => simp [mayBecomeMatch] at this
    | _ => simp [mayBecomeMatch] at this
  constructor
  · cases hs : nestedSpecial (shake1 fuel x) with
    | false => rfl
    | true =>
      obtain ⟨k, y, rfl⟩ := key (special_is_match _ hs)
      obtain ⟨y', he, hsp, _⟩ := shake1_match_form fuel k y
      rw [he, hsp, h2] at hs; cases hs
  · cases hc : nestedChildOK (shake1 fuel x) with
    | true => rfl
    | false =>
      have hm : mayBecomeMatch (shake1 fuel x) = true := by
        generalize shake1 fuel x = r at hc
        cases r with
        | group op es =>
          match es, hc with
          | [], hc => simp [nestedChildOK] at hc
          | [y], hc => simpa [nestedChildOK, mayBecomeMatch] using hc
          | _ :: _ :: _, hc => simp [nestedChildOK] at hc
        | _ => simp [nestedChildOK] at hc
      obtain ⟨k, y, rfl⟩ := key hm
      obtain ⟨y', he, _, _⟩ := shake1_match_form fuel k y
      rw [he] at hc; simp [nestedChildOK] at hc

theorem e2OK_search (s : Search) (f : Str) (c : Bool) : e2OK (.search s f c) = e1OK (.search s f c) := by
  cases s <;> rfl

theorem e2OK_memberOK (x : Expr) (h : e2OK x = true) : memberOK x = true := by
  cases x with
  | search s f c => rw [e2OK_search] at h; exact e1OK_memberOK _ h
  | _ => rfl

theorem e2OK_group_mem (op : BoolSym) (es : List Expr) (h : e2OK (.group op es) = true) :
    ∀ y ∈ es, e2OK y = true := by
  cases op <;> simp only [e2OK, Bool.and_eq_true] at h <;>
    first | exact (e2OKL_iff es).mp h.1.2 | exact (e2OKL_iff es).mp h.2 | cases h

theorem e2OK_group_op (op : BoolSym) (es : List Expr) (h : e2OK (.group op es) = true) :
    (op = .and ∨ op = .or) ∧ es ≠ [] := by
  cases op <;> simp only [e2OK, Bool.and_eq_true, Bool.not_eq_true', List.isEmpty_eq_false_iff] at h <;>
    first | exact ⟨Or.inl rfl, h.1.1⟩ | exact ⟨Or.inr rfl, h.1⟩ | cases h

/-- What a nested member of a tree in the class looks like. -/
theorem nested_factsT (f : Str) (b : Expr) (h : e2OK (.nested f b) = true) :
    e2OK b = true ∧ nestedChildOK b = true ∧ matrixSpecial b = false := by
  simp only [e2OK, Bool.and_eq_true, Bool.not_eq_true'] at h
  exact ⟨h.2, h.1.1, h.1.2⟩

theorem orSpecial_form (b : Expr) (h : orSpecial b = true) : ∃ ms, b = .match .all (.group .or ms) := by
  cases b with
  | «match» k y =>
    cases k with
    | of c => simp [orSpecial] at h
    | all =>
      cases y with
      | group op es => cases op <;> first | exact ⟨es, rfl⟩ | simp [orSpecial] at h
      | _ => simp [orSpecial] at h
  | _ => simp [orSpecial] at h

/-- In the class an all()-list under a nested mapping has at least two members. -/
theorem special_two (ms : List Expr) (h : e2OK (.match .all (.group .or ms)) = true) :
    ∃ m1 m2 rest, ms = m1 :: m2 :: rest := by
  simp only [e2OK, Bool.and_eq_true, matchChildOK, decide_eq_true_eq] at h
  match ms, h with
  | m1 :: m2 :: rest, _ => exact ⟨m1, m2, rest, rfl⟩
  | [], h => have := h.1.2; simp at this
  | [_], h => have := h.1.2; simp at this


/-! ### The and-arm: nested members collected per field -/

/-- Where an entry of a grouped list comes from. -/
theorem groupInsert_cases {κ α} (cmp : κ → κ → Ordering) (hc : ∀ a b, cmp a b = .eq → a = b)
    (k : κ) (v : List α) (l : List (κ × List α)) (q : κ × List α) (hq : q ∈ groupInsert cmp k v l) :
    q = (k, v) ∨ (∃ vs, (k, vs) ∈ l ∧ q = (k, vs ++ v)) ∨ q ∈ l := by
  induction l with
  | nil => simp [groupInsert] at hq; exact Or.inl hq
  | cons p ps ih =>
    obtain ⟨k', vs⟩ := p
    simp only [groupInsert] at hq
    split at hq
    · rcases List.mem_cons.mp hq with rfl | hq
      · exact Or.inl rfl
      · exact Or.inr (Or.inr hq)
    · rename_i heq
      have := hc _ _ heq; subst this
      rcases List.mem_cons.mp hq with rfl | hq
      · exact Or.inr (Or.inl ⟨vs, by simp, rfl⟩)
      · exact Or.inr (Or.inr (by simp [hq]))
    · rcases List.mem_cons.mp hq with rfl | hq
      · exact Or.inr (Or.inr (by simp))
      · rcases ih hq with h | ⟨ws, hw, h⟩ | h
        · exact Or.inl h
        · exact Or.inr (Or.inl ⟨ws, by simp [hw], h⟩)
        · exact Or.inr (Or.inr (by simp [h]))

/-- A body that is not one of the solver's special cases, in the class. -/
def plainBody (x : Expr) : Prop := e2OK x = true ∧ nestedChildOK x = true ∧ nestedSpecial x = false

/-- The collected lists: members in the class, never empty, and a lone member is a plain body. -/
def AndInv (N : List (Str × List Expr)) : Prop :=
  ∀ q ∈ N, (∀ x ∈ q.2, e2OK x = true) ∧ q.2 ≠ [] ∧ (∀ x, q.2 = [x] → plainBody x)

theorem andInv_insert (N : List (Str × List Expr)) (hN : AndInv N) (f : Str) (v : List Expr)
    (hv : ∀ x ∈ v, e2OK x = true) (hne : v ≠ []) (hone : ∀ x, v = [x] → plainBody x) :
    AndInv (groupInsert strCmp f v N) := by
  intro q hq
  rcases groupInsert_cases strCmp strCmp_eq f v N q hq with rfl | ⟨vs, hvs, rfl⟩ | h
  · exact ⟨hv, hne, hone⟩
  · obtain ⟨a, b, _⟩ := hN (f, vs) hvs
    refine ⟨?_, by simp [b], ?_⟩
    · intro x hx
      rcases List.mem_append.mp hx with hx | hx
      · exact a x hx
      · exact hv x hx
    · intro x hx
      exfalso
      have hlen := congrArg List.length hx
      simp only [List.length_append, List.length_singleton] at hlen
      have l1 : 0 < vs.length := List.length_pos_iff.mpr b
      have l2 : 0 < v.length := List.length_pos_iff.mpr hne
      omega
  · exact hN q h

/-- What a nested member of an and-group contributes, and what it means. -/
theorem andStep_spec (E : RegexEngine) (K : IdentK) (d : Doc) (acc : List (Str × List Expr)) (y : Expr)
    (hy : e2OK y = true) (hacc : AndInv acc) :
    AndInv (andNestedStep acc y) ∧
    ((∀ q ∈ andNestedStep acc y, ∀ x ∈ q.2, NT E K q.1 x d) ↔
      ((∀ q ∈ acc, ∀ x ∈ q.2, NT E K q.1 x d) ∧ (isNestedE y = true → solveG E K d y = .t))) := by
  cases y with
  | nested f b =>
    obtain ⟨hb, hc, hm⟩ := nested_factsT f b hy
    cases hos : orSpecial b with
    | true =>
      obtain ⟨ms, rfl⟩ := orSpecial_form b hos
      obtain ⟨m1, m2, rest, rfl⟩ := special_two _ hb
      have hms : ∀ x ∈ m1 :: m2 :: rest, e2OK x = true := by
        have : e2OK (.group .or (m1 :: m2 :: rest)) = true := by
          simp only [e2OK, Bool.and_eq_true] at hb ⊢; exact hb.2
        exact e2OK_group_mem _ _ this
      have hstep : andNestedStep acc (.nested f (.match .all (.group .or (m1 :: m2 :: rest)))) =
          groupInsert strCmp f (m1 :: m2 :: rest) acc := rfl
      rw [hstep]
      refine ⟨andInv_insert acc hacc f _ hms (by simp) (by intro x hx; simp at hx), ?_⟩
      rw [groupInsert_all strCmp strCmp_eq f _ acc (fun k x => NT E K k x d)]
      rw [nested_special_truth E K d f (m1 :: m2 :: rest) (by simp)]
      constructor
      · rintro ⟨a, b⟩; exact ⟨b, fun _ => a⟩
      · rintro ⟨a, b⟩; exact ⟨b rfl, a⟩
    | false =>
      have hns : nestedSpecial b = false := by rw [special_split, hos, hm]; rfl
      have hstep : andNestedStep acc (.nested f b) = groupInsert strCmp f [b] acc := by
        unfold andNestedStep
        split
        · rename_i heq
          simp only [Expr.nested.injEq] at heq
          rw [heq.2] at hos; simp [orSpecial] at hos
        · rename_i heq; simp only [Expr.nested.injEq] at heq; rw [heq.1, heq.2]
        · rename_i _ hno; exact absurd rfl (hno f b)
      rw [hstep]
      refine ⟨andInv_insert acc hacc f [b] (by simpa using hb) (by simp)
        (by intro x hx; simp at hx; subst hx; exact ⟨hb, hc, hns⟩), ?_⟩
      rw [groupInsert_all strCmp strCmp_eq f _ acc (fun k x => NT E K k x d)]
      rw [nested_plain_truth E K d f b hns]
      constructor
      · rintro ⟨a, b'⟩; exact ⟨b', fun _ => a b (by simp)⟩
      · rintro ⟨a, b'⟩; exact ⟨by intro x hx; simp at hx; subst hx; exact b' rfl, a⟩
  | _ =>
    refine ⟨hacc, ?_⟩
    simp [andNestedStep, isNestedE]

theorem andFold_spec (E : RegexEngine) (K : IdentK) (d : Doc) (L : List Expr) (hL : ∀ y ∈ L, e2OK y = true) :
    ∀ acc, AndInv acc →
      AndInv (L.foldl andNestedStep acc) ∧
      ((∀ q ∈ L.foldl andNestedStep acc, ∀ x ∈ q.2, NT E K q.1 x d) ↔
        ((∀ q ∈ acc, ∀ x ∈ q.2, NT E K q.1 x d) ∧ ∀ y ∈ L, isNestedE y = true → solveG E K d y = .t)) := by
  induction L with
  | nil => intro acc h; exact ⟨h, by simp⟩
  | cons y ys ih =>
    intro acc h
    simp only [List.foldl_cons]
    obtain ⟨i1, i2⟩ := andStep_spec E K d acc y (hL y (by simp)) h
    obtain ⟨j1, j2⟩ := ih (fun z hz => hL z (by simp [hz])) _ i1
    refine ⟨j1, ?_⟩
    rw [j2, i2]
    simp only [List.mem_cons, forall_eq_or_imp]
    constructor
    · rintro ⟨⟨a, b⟩, c⟩; exact ⟨a, b, c⟩
    · rintro ⟨a, b, c⟩; exact ⟨⟨a, b⟩, c⟩


theorem matrixSpecial_of (x : Expr) (h : nestedSpecial x = false) : matrixSpecial x = false := by
  rw [special_split] at h
  cases hm : matrixSpecial x with
  | false => rfl
  | true => rw [hm] at h; simp at h

theorem shake1_allOr (n : Nat) (xs : List Expr) :
    ∃ xs', shake1 n (.match .all (.group .or xs)) = .match .all (.group .or xs') := by
  cases n with
  | zero => exact ⟨xs, rfl⟩
  | succ m => exact ⟨xs.map (shake1 m), rfl⟩

/-- The merged block of one field in the and-arm means: every collected member holds under the field. -/
theorem buildAndNested_spec (E : RegexEngine) (K : IdentK) (n : Nat)
    (ih : ∀ e, e2OK e = true → GoodT E K n e) (f : Str) (xs : List Expr)
    (hx : ∀ x ∈ xs, e2OK x = true) (hne : xs ≠ []) (hone : ∀ x, xs = [x] → plainBody x) :
    e2OK (buildAndNested n (f, xs)) = true ∧
    ∀ d, (solveG E K d (buildAndNested n (f, xs)) = .t ↔ ∀ x ∈ xs, NT E K f x d) := by
  match xs, hne, hx, hone with
  | [x], _, _, hone =>
    obtain ⟨h1, h2, h3⟩ := hone x rfl
    have G := ih x h1
    obtain ⟨n1, n2⟩ := nestedBody_ok' n x G.2.2.1 h2 h3
    constructor
    · simp [buildAndNested, e2OK, n2, matrixSpecial_of _ n1, G.1]
    · intro d
      simp only [buildAndNested]
      refine Iff.trans (nested_truth_of E K f x (shake1 n x) h3 n1 G.2.1 d) ?_
      rw [nested_plain_truth E K d f x h3]
      simp
  | x :: y :: rest, _, hx, _ =>
    have hM : e2OK (.match .all (.group .or (x :: y :: rest))) = true := by
      simp only [e2OK, Bool.and_eq_true, matchChildOK, decide_eq_true_eq, List.isEmpty_cons,
        Bool.not_false, Bool.true_and]
      exact ⟨⟨by decide, by simp⟩, (e2OKL_iff _).mpr hx⟩
    have G := ih _ hM
    have S := G.2.2.2.2 (by intro op es h; cases h) rfl
    obtain ⟨xs', hxs'⟩ := shake1_allOr n (x :: y :: rest)
    constructor
    · simp only [buildAndNested, e2OK, Bool.and_eq_true, Bool.not_eq_true']
      refine ⟨⟨by rw [hxs']; rfl, by rw [hxs']; rfl⟩, G.1⟩
    · intro d
      simp only [buildAndNested]
      refine Iff.trans (simT_nested E K _ _ S rfl f d) ?_
      rw [nested_special_truth E K d f _ (by simp)]


/-! ### The or-arm at truth level -/

def NestedPlain (st : OrSt) : Prop := ∀ q ∈ st.nested, ∀ b ∈ q.2, orSpecial b = false

theorem nestedPlain_step (st : OrSt) (x : Expr) (h : NestedPlain st) : NestedPlain (orClassify st x) := by
  unfold orClassify
  split
  · exact h
  · rename_i f b hno
    unfold NestedPlain
    simp only
    rw [groupInsert_all strCmp strCmp_eq f [b] st.nested (fun _ y => orSpecial y = false)]
    refine ⟨?_, h⟩
    intro m hm
    simp at hm; subst hm
    cases hos : orSpecial m with
    | false => rfl
    | true =>
      obtain ⟨ms, rfl⟩ := orSpecial_form m hos
      exact absurd rfl (hno ms)
  all_goals exact h

theorem nestedPlain_fold (L : List Expr) : ∀ st, NestedPlain st → NestedPlain (L.foldl orClassify st) := by
  induction L with
  | nil => intro st h; exact h
  | cons x xs ih => intro st h; exact ih _ (nestedPlain_step st x h)

theorem buildNested_specT (E : RegexEngine) (K : IdentK) (fuel : Nat)
    (IH : ∀ e, e2OK e = true → GoodT E K fuel e) (f : Str) (xs : List Expr) (hne : xs ≠ [])
    (hb : ∀ b ∈ xs, plainBody b) :
    e2OK (buildNested fuel (f, xs)) = true ∧
    ∀ d, (solveG E K d (buildNested fuel (f, xs)) = .t ↔ ∃ b ∈ xs, solveG E K d (.nested f b) = .t) := by
  match xs, hne, hb with
  | [x], _, hb =>
    obtain ⟨h1, h2, h3⟩ := hb x (by simp)
    have G := IH x h1
    obtain ⟨n1, n2⟩ := nestedBody_ok' fuel x G.2.2.1 h2 h3
    constructor
    · simp [buildNested, e2OK, n2, matrixSpecial_of _ n1, G.1]
    · intro d
      simp only [buildNested]
      simpa using nested_truth_of E K f x (shake1 fuel x) h3 n1 G.2.1 d
  | x :: y :: rest, _, hb =>
    have hg : e2OK (.group .or (x :: y :: rest)) = true := by
      simp only [e2OK, List.isEmpty_cons, Bool.not_false, Bool.true_and]
      exact (e2OKL_iff _).mpr (fun b hb' => (hb b hb').1)
    have hG := IH _ hg
    have nm : mayBecomeMatch (shake1 fuel (.group .or (x :: y :: rest))) = false := by
      cases hm : mayBecomeMatch (shake1 fuel (.group .or (x :: y :: rest))) with
      | false => rfl
      | true =>
        obtain ⟨z, hz, _⟩ := mbm_group2 _ _ (hG.2.2.1 hm)
        simp at hz
    have n1 : nestedSpecial (shake1 fuel (.group .or (x :: y :: rest))) = false := by
      cases hs : nestedSpecial (shake1 fuel (.group .or (x :: y :: rest))) with
      | false => rfl
      | true => rw [special_is_match _ hs] at nm; cases nm
    have n2 : nestedChildOK (shake1 fuel (.group .or (x :: y :: rest))) = true := by
      generalize shake1 fuel (.group .or (x :: y :: rest)) = r at nm
      cases r with
      | group op es =>
        match es, nm with
        | [], _ => rfl
        | [w], nm => simpa [nestedChildOK, mayBecomeMatch] using nm
        | _ :: _ :: _, _ => rfl
      | _ => rfl
    constructor
    · simp [buildNested, e2OK, n1, n2, matrixSpecial_of _ n1, hG.1]
    · intro d
      simp only [buildNested]
      refine Iff.trans (nested_truth_of E K f (.group .or (x :: y :: rest)) _ rfl n1 hG.2.1 d) ?_
      rw [nested_or_merge E K d f (x :: y :: rest) (by simp) (fun b hb' => (hb b hb').2.2), Tri.or_eq_t_iff]
      simp only [List.mem_map]

/-- Bodies in the nested bucket are plain: they come from nested members of the class that are not
    all()-lists. -/
theorem bucket_plain (L : List Expr) (hL : ∀ x ∈ L, e2OK x = true) (st : OrSt) (hS : OrS L st)
    (hP : NestedPlain st) : ∀ q ∈ st.nested, ∀ b ∈ q.2, plainBody b := by
  intro q hq b hb
  obtain ⟨h1, h2, h3⟩ := nested_factsT q.1 b (hL _ (hS.nested q hq b hb))
  refine ⟨h1, h2, ?_⟩
  rw [special_split, hP q hq b hb, h3]; rfl

theorem orOut_truth (E : RegexEngine) (K : IdentK) (d : Doc) (fuel : Nat)
    (IH : ∀ e, e2OK e = true → GoodT E K fuel e) (L : List Expr) (hL : ∀ x ∈ L, e2OK x = true) :
    (∃ x ∈ orOut fuel (L.foldl orClassify {}), solveG E K d x = .t) ↔ ∃ x ∈ L, solveG E K d x = .t := by
  have hm : ∀ x ∈ L, memberOK x = true := fun x hx => e2OK_memberOK x (hL x hx)
  have hS : OrS L (L.foldl orClassify {}) := by simpa using orS_fold L hm [] {} orS_empty
  have hP : NestedPlain (L.foldl orClassify {}) := nestedPlain_fold L {} (by intro q hq; simp at hq)
  have hU := fold_U E K d (· = .t) dist_t L hm {}
  generalize L.foldl orClassify {} = st at hS hP hU
  have hbp := bucket_plain L hL st hS hP
  -- the rebuilt group, bucket by bucket
  have h1 : (∃ x ∈ orOut fuel st, solveG E K d x = .t) ↔ U E K d (· = .t) st := by
    unfold U
    have e : (∃ x ∈ orOut fuel st, solveG E K d x = .t) ↔
        (Ex E K d (· = .t) st.any ∨ Ex E K d (· = .t) (st.needles.map buildNeedle) ∨
         Ex E K d (· = .t) (st.patterns.map buildPattern) ∨ Ex E K d (· = .t) st.rest ∨
         Ex E K d (· = .t) (st.nested.map (buildNested fuel))) := by
      unfold Ex
      constructor
      · rintro ⟨x, hx, hp⟩
        rcases (mem_orOut fuel st x).mp hx with h | h | h | h | h
        · exact Or.inl ⟨x, h, hp⟩
        · exact Or.inr (Or.inl ⟨x, h, hp⟩)
        · exact Or.inr (Or.inr (Or.inl ⟨x, h, hp⟩))
        · exact Or.inr (Or.inr (Or.inr (Or.inl ⟨x, h, hp⟩)))
        · exact Or.inr (Or.inr (Or.inr (Or.inr ⟨x, h, hp⟩)))
      · rintro (⟨x, h, hp⟩ | ⟨x, h, hp⟩ | ⟨x, h, hp⟩ | ⟨x, h, hp⟩ | ⟨x, h, hp⟩)
        · exact ⟨x, (mem_orOut fuel st x).mpr (Or.inl h), hp⟩
        · exact ⟨x, (mem_orOut fuel st x).mpr (Or.inr (Or.inl h)), hp⟩
        · exact ⟨x, (mem_orOut fuel st x).mpr (Or.inr (Or.inr (Or.inl h))), hp⟩
        · exact ⟨x, (mem_orOut fuel st x).mpr (Or.inr (Or.inr (Or.inr (Or.inl h)))), hp⟩
        · exact ⟨x, (mem_orOut fuel st x).mpr (Or.inr (Or.inr (Or.inr (Or.inr h)))), hp⟩
    rw [e]
    have h2 : Ex E K d (· = .t) (st.needles.map buildNeedle) ↔ UN E d (· = .t) st.needles :=
      Ex_map_iff E K d (· = .t) _ _ _ (fun q hq => (buildNeedle_spec E K d (· = .t) dist_t q (hS.needles q hq)).2)
    have h3 : Ex E K d (· = .t) (st.patterns.map buildPattern) ↔ UP E d (· = .t) st.patterns :=
      Ex_map_iff E K d (· = .t) _ _ _ (fun q hq => (buildPattern_spec E K d (· = .t) dist_t q (hS.patterns q hq)).2)
    have h4 : Ex E K d (· = .t) (st.nested.map (buildNested fuel)) ↔ UNest E K d (· = .t) st.nested := by
      show _ ↔ ∃ q ∈ st.nested, ∃ b ∈ q.2, solveG E K d (.nested q.1 b) = .t
      apply Ex_map_iff E K d (· = .t) st.nested (buildNested fuel)
        (fun (q : Str × List Expr) => ∃ b ∈ q.2, solveG E K d (.nested q.1 b) = .t)
      intro q hq
      obtain ⟨f, xs⟩ := q
      exact (buildNested_specT E K fuel IH f xs (hS.nestedNe (f, xs) hq) (hbp (f, xs) hq)).2 d
    rw [h2, h3, h4]
  rw [h1, hU]
  simp [U_empty, Ex]

theorem out_e2OK (E : RegexEngine) (K : IdentK) (fuel : Nat) (IH : ∀ e, e2OK e = true → GoodT E K fuel e)
    (L : List Expr) (hL : ∀ x ∈ L, e2OK x = true) (st : OrSt) (hS : OrS L st) (hP : NestedPlain st) :
    ∀ x ∈ orOut fuel st, e2OK x = true := by
  intro x hx
  rcases (mem_orOut fuel st x).mp hx with h | h | h | h | h
  · obtain ⟨f, c, rfl⟩ := hS.any x h; rfl
  · obtain ⟨q, hq, rfl⟩ := List.mem_map.mp h
    obtain ⟨s, hs, _⟩ := buildNeedle_form q
    have := (buildNeedle_spec E K (.obj []) (· = .t) dist_t q (hS.needles q hq)).1
    rw [hs] at this ⊢; rw [e2OK_search]; exact this
  · obtain ⟨q, hq, rfl⟩ := List.mem_map.mp h
    obtain ⟨s, f, c, hs⟩ := buildPattern_search q
    have := (buildPattern_spec E K (.obj []) (· = .t) dist_t q (hS.patterns q hq)).1
    rw [hs] at this ⊢; rw [e2OK_search]; exact this
  · exact hL x (hS.rest x h)
  · obtain ⟨q, hq, rfl⟩ := List.mem_map.mp h
    obtain ⟨f, xs⟩ := q
    exact (buildNested_specT E K fuel IH f xs (hS.nestedNe (f, xs) hq) (bucket_plain L hL st hS hP (f, xs) hq)).1


/-! ### The induction -/

theorem shake1_nested_form (fuel : Nat) (f : Str) (b : Expr) : ∃ b', shake1 fuel (.nested f b) = .nested f b' := by
  cases fuel with
  | zero => exact ⟨b, rfl⟩
  | succ n => exact ⟨shake1 n b, rfl⟩

theorem buildAndNested_nested (n : Nat) (q : Str × List Expr) : ∃ f b, buildAndNested n q = .nested f b := by
  obtain ⟨f, xs⟩ := q
  simp only [buildAndNested]; split <;> exact ⟨_, _, rfl⟩

theorem notNested_iff (x : Expr) : notNested x = true ↔ isNestedE x = false := by
  cases x <;> simp [notNested, isNestedE]

theorem andStep_ne (acc : List (Str × List Expr)) (y : Expr) (h : acc ≠ [] ∨ isNestedE y = true) :
    andNestedStep acc y ≠ [] := by
  unfold andNestedStep
  split
  · exact groupInsert_ne_nil _ _ _ _
  · exact groupInsert_ne_nil _ _ _ _
  · rename_i h1 h2
    rcases h with h | h
    · exact h
    · cases y <;> simp [isNestedE] at h
      rename_i f b
      exact absurd rfl (h2 f b)

theorem andFold_ne (L : List Expr) : ∀ acc, (acc ≠ [] ∨ ∃ y ∈ L, isNestedE y = true) →
    L.foldl andNestedStep acc ≠ [] := by
  induction L with
  | nil => intro acc h; rcases h with h | ⟨y, hy, _⟩; exact h; simp at hy
  | cons x xs ih =>
    intro acc h
    simp only [List.foldl_cons]
    apply ih
    rcases h with h | ⟨y, hy, hn⟩
    · exact Or.inl (andStep_ne acc x (Or.inl h))
    · rcases List.mem_cons.mp hy with rfl | hy
      · exact Or.inl (andStep_ne acc y (Or.inr hn))
      · exact Or.inr ⟨y, hy, hn⟩

theorem binAnd_t' (x y : Tri) : binAnd x y = .t ↔ x = .t ∧ y = .t := by cases x <;> cases y <;> simp [binAnd]
theorem binOr_t' (x y : Tri) : binOr x y = .t ↔ x = .t ∨ y = .t := by cases x <;> cases y <;> simp [binOr]

theorem teq_and_groups (E : RegexEngine) (K : IdentK) (d : Doc) (a b : List Expr)
    (h : (∀ z ∈ a, solveG E K d z = .t) ↔ ∀ e ∈ b, solveG E K d e = .t) :
    TEq (solveG E K d (.group .and a)) (solveG E K d (.group .and b)) := by
  show _ = Tri.t ↔ _ = Tri.t
  rw [and_group_true, and_group_true]; exact h

theorem teq_or_groups (E : RegexEngine) (K : IdentK) (d : Doc) (a b : List Expr)
    (h : (∃ z ∈ a, solveG E K d z = .t) ↔ ∃ e ∈ b, solveG E K d e = .t) :
    TEq (solveG E K d (.group .or a)) (solveG E K d (.group .or b)) := by
  show _ = Tri.t ↔ _ = Tri.t
  rw [or_group_true, or_group_true]; exact h

theorem good_andT (E : RegexEngine) (K : IdentK) (n : Nat) (ih : ∀ e, e2OK e = true → GoodT E K n e)
    (es : List Expr) (h : e2OK (.group .and es) = true) : GoodT E K (n + 1) (.group .and es) := by
  have hmem := e2OK_group_mem _ es h
  have hne : es ≠ [] := (e2OK_group_op _ es h).2
  have hand : ∀ x ∈ es, isNestedE x = true ∨ hasTopNested x = false := by
    simp only [e2OK, Bool.and_eq_true] at h
    exact (andMem_iff es).mp h.2
  have hLok : ∀ x ∈ es.map (shake1 n), e2OK x = true := by
    intro x hx
    obtain ⟨y, hy, rfl⟩ := List.mem_map.mp hx
    exact (ih y (hmem y hy)).1
  -- members of the shaken list that are not nested cannot become nested
  have hLand : ∀ x ∈ es.map (shake1 n), isNestedE x = true ∨ hasTopNested x = false := by
    intro x hx
    obtain ⟨y, hy, rfl⟩ := List.mem_map.mp hx
    rcases hand y hy with hn | hn
    · left
      cases y <;> simp [isNestedE] at hn
      rename_i f b
      obtain ⟨b', hb'⟩ := shake1_nested_form n f b
      rw [hb']; rfl
    · right
      cases hh : hasTopNested (shake1 n y) with
      | false => rfl
      | true => rw [(ih y (hmem y hy)).2.2.2.1 hh] at hn; cases hn
  generalize hL : es.map (shake1 n) = L at hLok hLand
  have hlen : L.length = es.length := by rw [← hL]; simp
  have hLt : ∀ d, (∀ y ∈ L, solveG E K d y = .t) ↔ ∀ e ∈ es, solveG E K d e = .t := by
    intro d
    rw [← hL]
    constructor
    · intro hall e he
      exact ((ih e (hmem e he)).2.1 d).mp (hall _ (List.mem_map.mpr ⟨e, he, rfl⟩))
    · intro hall x hx
      obtain ⟨y, hy, rfl⟩ := List.mem_map.mp hx
      exact ((ih y (hmem y hy)).2.1 d).mpr (hall y hy)
  have hinv : AndInv (andNestedFold L) :=
    (andFold_spec E K (.obj []) L hLok [] (by intro q hq; simp at hq)).1
  have hNt : ∀ d, (∀ q ∈ andNestedFold L, ∀ x ∈ q.2, NT E K q.1 x d) ↔
      ∀ y ∈ L, isNestedE y = true → solveG E K d y = .t := by
    intro d
    have := (andFold_spec E K d L hLok [] (by intro q hq; simp at hq)).2
    simpa [andNestedFold] using this
  have hbuild : ∀ q ∈ andNestedFold L, e2OK (buildAndNested n q) = true ∧
      ∀ d, (solveG E K d (buildAndNested n q) = .t ↔ ∀ x ∈ q.2, NT E K q.1 x d) := by
    intro q hq
    obtain ⟨a, b, c⟩ := hinv q hq
    obtain ⟨f, xs⟩ := q
    exact buildAndNested_spec E K n ih f xs a b c
  generalize hN : andNestedFold L = N at hinv hNt hbuild
  have hform : shake1 (n + 1) (.group .and es) =
      (if (L.filter notNested ++ N.map (buildAndNested n)).length != es.length
       then shake1 n (.group .and (L.filter notNested ++ N.map (buildAndNested n)))
       else unwrapGroup .and (L.filter notNested ++ N.map (buildAndNested n))) := by
    rw [shake1_and, hL, hN]
  generalize hsc : L.filter notNested ++ N.map (buildAndNested n) = scratch at hform
  have hsmem : ∀ z ∈ scratch, (z ∈ L ∧ isNestedE z = false) ∨ (∃ q ∈ N, z = buildAndNested n q) := by
    intro z hz
    rw [← hsc] at hz
    rcases List.mem_append.mp hz with hz | hz
    · obtain ⟨a, b⟩ := List.mem_filter.mp hz
      exact Or.inl ⟨a, (notNested_iff z).mp b⟩
    · obtain ⟨q, hq, rfl⟩ := List.mem_map.mp hz
      exact Or.inr ⟨q, hq, rfl⟩
  have hsok : ∀ z ∈ scratch, e2OK z = true := by
    intro z hz
    rcases hsmem z hz with ⟨a, _⟩ | ⟨q, hq, rfl⟩
    · exact hLok z a
    · exact (hbuild q hq).1
  have hsand : ∀ z ∈ scratch, isNestedE z = true ∨ hasTopNested z = false := by
    intro z hz
    rcases hsmem z hz with ⟨a, b⟩ | ⟨q, hq, rfl⟩
    · rcases hLand z a with h1 | h1
      · rw [h1] at b; cases b
      · exact Or.inr h1
    · obtain ⟨f, b, hb⟩ := buildAndNested_nested n q
      rw [hb]; exact Or.inl rfl
  have hNne : (∃ y ∈ L, isNestedE y = true) → N ≠ [] := by
    intro hy; rw [← hN]; exact andFold_ne L [] (Or.inr hy)
  have hNnil : (∀ y ∈ L, isNestedE y = false) → N = [] ∧ L.filter notNested = L := by
    intro hy
    have := andFold_none L (fun x hx => (notNested_iff x).mpr (hy x hx))
    rw [hN] at this; exact this
  have hsne : scratch ≠ [] := by
    intro hnil
    rw [← hsc] at hnil
    have h1 : L.filter notNested = [] := (List.append_eq_nil_iff.mp hnil).1
    have h2 : N = [] := by simpa using (List.append_eq_nil_iff.mp hnil).2
    by_cases hy : ∃ y ∈ L, isNestedE y = true
    · exact hNne hy h2
    · have hall : ∀ y ∈ L, isNestedE y = false := by
        intro y hyL
        cases hh : isNestedE y with
        | false => rfl
        | true => exact absurd ⟨y, hyL, hh⟩ hy
      rw [(hNnil hall).2] at h1
      rw [h1] at hlen
      cases es with
      | nil => exact hne rfl
      | cons _ _ => simp at hlen
  have hst : ∀ d, (∀ z ∈ scratch, solveG E K d z = .t) ↔ ∀ e ∈ es, solveG E K d e = .t := by
    intro d
    rw [← hLt d]
    constructor
    · intro hall y hy
      cases hn : isNestedE y with
      | false =>
        exact hall y (by rw [← hsc]; exact List.mem_append.mpr (Or.inl (List.mem_filter.mpr ⟨hy, (notNested_iff y).mpr hn⟩)))
      | true =>
        have hall' : ∀ q ∈ N, ∀ x ∈ q.2, NT E K q.1 x d := by
          intro q hq
          exact ((hbuild q hq).2 d).mp (hall _ (by rw [← hsc]; exact List.mem_append.mpr (Or.inr (List.mem_map.mpr ⟨q, hq, rfl⟩))))
        exact (hNt d).mp hall' y hy hn
    · intro hall z hz
      rcases hsmem z hz with ⟨a, _⟩ | ⟨q, hq, rfl⟩
      · exact hall z a
      · exact ((hbuild q hq).2 d).mpr ((hNt d).mpr (fun y hy _ => hall y hy) q hq)
  have hgs : e2OK (.group .and scratch) = true := by
    simp only [e2OK, Bool.and_eq_true, Bool.not_eq_true', List.isEmpty_eq_false_iff]
    exact ⟨⟨hsne, (e2OKL_iff _).mpr hsok⟩, (andMem_iff _).mpr hsand⟩
  -- a lone all()/of() left over means the group had that lone member
  have hlone : ∀ z, scratch = [z] → mayBecomeMatch z = true → mayBecomeMatch (.group .and es) = true := by
    intro z hz hzm
    have hzin : z ∈ scratch := by rw [hz]; simp
    rcases hsmem z hzin with ⟨a, b⟩ | ⟨q, hq, rfl⟩
    · have hNe : N = [] := by
        cases hNc : N with
        | nil => rfl
        | cons q qs =>
          exfalso
          have h1 : (L.filter notNested ++ (q :: qs).map (buildAndNested n)).length = 1 := by
            rw [← hNc, hsc, hz]; rfl
          have : z ∈ L.filter notNested := List.mem_filter.mpr ⟨a, (notNested_iff z).mpr b⟩
          have l1 : 0 < (L.filter notNested).length := List.length_pos_iff.mpr (List.ne_nil_of_mem this)
          simp only [List.length_append, List.length_map, List.length_cons] at h1
          omega
      have hall : ∀ y ∈ L, isNestedE y = false := by
        intro y hy
        cases hh : isNestedE y with
        | false => rfl
        | true => exact absurd hNe (hNne ⟨y, hy, hh⟩)
      have hLz : L = [z] := by
        have := (hNnil hall).2
        rw [← hsc, hNe, this] at hz
        simpa using hz
      rw [← hL] at hLz
      obtain ⟨y, hes, hy⟩ := map_eq_single _ _ _ hLz
      rw [← hy] at hzm
      have := (ih y (hmem y (by rw [hes]; simp))).2.2.1 hzm
      rw [hes]; simpa [mayBecomeMatch] using this
    · obtain ⟨f, b, hb⟩ := buildAndNested_nested n q
      rw [hb] at hzm; cases hzm
  have htop : (∃ z ∈ scratch, hasTopNested z = true) → hasTopNested (.group .and es) = true := by
    rintro ⟨z, hz, hzt⟩
    simp only [hasTopNested]
    have back : ∀ w ∈ L, hasTopNested w = true → hasTopNestedL es = true := by
      intro w hw hwt
      rw [← hL] at hw
      obtain ⟨y, hy, rfl⟩ := List.mem_map.mp hw
      exact (hasTopNestedL_iff es).mpr ⟨y, hy, (ih y (hmem y hy)).2.2.2.1 hwt⟩
    rcases hsmem z hz with ⟨a, _⟩ | ⟨q, hq, rfl⟩
    · exact back z a hzt
    · have hNne' : N ≠ [] := List.ne_nil_of_mem hq
      by_cases hy : ∃ y ∈ L, isNestedE y = true
      · obtain ⟨y, hyL, hyn⟩ := hy
        apply back y hyL
        cases y <;> simp [isNestedE] at hyn
        rfl
      · exfalso
        have hall : ∀ y ∈ L, isNestedE y = false := by
          intro y hyL
          cases hh : isNestedE y with
          | false => rfl
          | true => exact absurd ⟨y, hyL, hh⟩ hy
        exact hNne' (hNnil hall).1
  rw [GoodT, hform]
  split
  · have G := ih _ hgs
    refine ⟨G.1, fun d => ?_, fun hm => ?_, fun hm => ?_, fun hng => absurd rfl (hng .and es)⟩
    · exact (G.2.1 d).trans (teq_and_groups E K d _ _ (hst d))
    · obtain ⟨z, hz, hzm⟩ := mbm_group2 _ _ (G.2.2.1 hm)
      exact hlone z hz hzm
    · have := G.2.2.2.1 hm
      simp only [hasTopNested] at this
      exact htop ((hasTopNestedL_iff _).mp this)
  · rcases unwrapGroup_cases .and scratch with ⟨z, hz, hu⟩ | ⟨hl, hu⟩
    · rw [hu]
      refine ⟨hsok z (by rw [hz]; simp), fun d => ?_, fun hm => hlone z hz hm,
        fun hm => htop ⟨z, by rw [hz]; simp, hm⟩, fun hng => absurd rfl (hng .and es)⟩
      have := hst d
      rw [hz] at this
      show _ = Tri.t ↔ _ = Tri.t
      rw [and_group_true]
      simpa using this
    · rw [hu]
      refine ⟨hgs, fun d => teq_and_groups E K d _ _ (hst d), fun hm => ?_, fun hm => ?_,
        fun hng => absurd rfl (hng .and es)⟩
      · obtain ⟨z, hz, hzm⟩ := mbm_group2 _ _ hm
        exact hlone z hz hzm
      · simp only [hasTopNested] at hm
        exact htop ((hasTopNestedL_iff _).mp hm)


theorem good_orT (E : RegexEngine) (K : IdentK) (n : Nat) (ih : ∀ e, e2OK e = true → GoodT E K n e)
    (es : List Expr) (h : e2OK (.group .or es) = true) : GoodT E K (n + 1) (.group .or es) := by
  have hmem := e2OK_group_mem _ es h
  have hne : es ≠ [] := (e2OK_group_op _ es h).2
  have hLok : ∀ x ∈ es.map (shake1 n), e2OK x = true := by
    intro x hx
    obtain ⟨y, hy, rfl⟩ := List.mem_map.mp hx
    exact (ih y (hmem y hy)).1
  have hLt : ∀ d, (∃ x ∈ es.map (shake1 n), solveG E K d x = .t) ↔ ∃ y ∈ es, solveG E K d y = .t := by
    intro d
    constructor
    · rintro ⟨x, hx, ht⟩
      obtain ⟨y, hy, rfl⟩ := List.mem_map.mp hx
      exact ⟨y, hy, ((ih y (hmem y hy)).2.1 d).mp ht⟩
    · rintro ⟨y, hy, ht⟩
      exact ⟨shake1 n y, List.mem_map.mpr ⟨y, hy, rfl⟩, ((ih y (hmem y hy)).2.1 d).mpr ht⟩
  have hm' : ∀ x ∈ es.map (shake1 n), memberOK x = true := fun x hx => e2OK_memberOK x (hLok x hx)
  have hS : OrS (es.map (shake1 n)) ((es.map (shake1 n)).foldl orClassify {}) := by
    simpa using orS_fold (es.map (shake1 n)) hm' [] {} orS_empty
  have hP : NestedPlain ((es.map (shake1 n)).foldl orClassify {}) :=
    nestedPlain_fold _ {} (by intro q hq; simp at hq)
  have hout_ok := out_e2OK E K n ih _ hLok _ hS hP
  have hval := fun d => orOut_truth E K d n ih _ hLok
  have hout_ne := out_ne_nil n _ (by simpa using hne) _ hS
  generalize hst : (es.map (shake1 n)).foldl orClassify {} = st at hS hout_ok hval hout_ne
  have hgo : e2OK (.group .or (orOut n st)) = true := by
    simp only [e2OK, Bool.and_eq_true, Bool.not_eq_true', List.isEmpty_eq_false_iff]
    exact ⟨hout_ne, (e2OKL_iff _).mpr hout_ok⟩
  have hr : e2OK (shake1 (n + 1) (.group .or es)) = true ∧
      (∀ d, solveG E K d (shake1 (n + 1) (.group .or es)) = .t ↔ ∃ x ∈ orOut n st, solveG E K d x = .t) ∧
      (mayBecomeMatch (shake1 (n + 1) (.group .or es)) = true →
        ∃ z, orOut n st = [z] ∧ mayBecomeMatch z = true) ∧
      (hasTopNested (shake1 (n + 1) (.group .or es)) = true → hasTopNestedL (orOut n st) = true) := by
    rw [shake1_or, hst]
    split
    · have G := ih _ hgo
      refine ⟨G.1, fun d => Iff.trans (G.2.1 d) (or_group_true E K d _), fun hm => mbm_group2 _ _ (G.2.2.1 hm),
        fun hm => by simpa [hasTopNested] using G.2.2.2.1 hm⟩
    · rcases unwrapGroup_cases .or (orOut n st) with ⟨z, hz, hu⟩ | ⟨hl, hu⟩
      · rw [hu]
        refine ⟨hout_ok z (by rw [hz]; simp), fun d => by rw [hz]; simp,
          fun hm => ⟨z, hz, hm⟩, fun hm => by rw [hz]; simp [hasTopNestedL, hm]⟩
      · rw [hu]
        refine ⟨hgo, fun d => or_group_true E K d _, fun hm => mbm_group2 _ _ hm,
          fun hm => by simpa [hasTopNested] using hm⟩
  obtain ⟨r1, r2, r3, r4⟩ := hr
  refine ⟨r1, ?_, ?_, ?_, ?_⟩
  · intro d
    show _ = Tri.t ↔ _ = Tri.t
    rw [r2 d, hval d, hLt d, or_group_true]
  · intro hm
    obtain ⟨z, hz, hzm⟩ := r3 hm
    have hL1 := out_single n _ st hS z hz
      (by intro s f c hh; rw [hh] at hzm; cases hzm)
      (by intro f b hh; rw [hh] at hzm; cases hzm)
    obtain ⟨y, hes, hy⟩ := map_eq_single _ _ _ hL1
    rw [← hy] at hzm
    have := (ih y (hmem y (by rw [hes]; simp))).2.2.1 hzm
    rw [hes]; simpa [mayBecomeMatch] using this
  · intro hm
    obtain ⟨z, hz, hzt⟩ := (hasTopNestedL_iff _).mp (r4 hm)
    have back : ∀ w ∈ es.map (shake1 n), hasTopNested w = true → hasTopNested (.group .or es) = true := by
      intro w hw hwt
      obtain ⟨y, hy, rfl⟩ := List.mem_map.mp hw
      simp only [hasTopNested]
      exact (hasTopNestedL_iff es).mpr ⟨y, hy, (ih y (hmem y hy)).2.2.2.1 hwt⟩
    rcases (mem_orOut n st z).mp hz with h' | h' | h' | h' | h'
    · obtain ⟨f, c, rfl⟩ := hS.any z h'; cases hzt
    · obtain ⟨q, _, rfl⟩ := List.mem_map.mp h'
      obtain ⟨s, hs, _⟩ := buildNeedle_form q
      rw [hs] at hzt; cases hzt
    · obtain ⟨q, _, rfl⟩ := List.mem_map.mp h'
      obtain ⟨s, f, c, hs⟩ := buildPattern_search q
      rw [hs] at hzt; cases hzt
    · exact back z (hS.rest z h') hzt
    · obtain ⟨q, hq, rfl⟩ := List.mem_map.mp h'
      have hqne := hS.nestedNe q hq
      obtain ⟨f, xs⟩ := q
      cases xs with
      | nil => exact absurd rfl hqne
      | cons b bs => exact back _ (hS.nested (f, b :: bs) hq b (by simp)) rfl
  · intro hng; exact absurd rfl (hng .or es)

theorem andMem_map (n : Nat) (E : RegexEngine) (K : IdentK) (ih : ∀ e, e2OK e = true → GoodT E K n e)
    (es : List Expr) (hmem : ∀ y ∈ es, e2OK y = true) (h : andMem es = true) :
    andMem (es.map (shake1 n)) = true := by
  rw [andMem_iff] at h ⊢
  intro x hx
  obtain ⟨y, hy, rfl⟩ := List.mem_map.mp hx
  rcases h y hy with hn | hn
  · left
    cases y <;> simp [isNestedE] at hn
    rename_i f b
    obtain ⟨b', hb'⟩ := shake1_nested_form n f b
    rw [hb']; rfl
  · right
    cases hh : hasTopNested (shake1 n y) with
    | false => rfl
    | true => rw [(ih y (hmem y hy)).2.2.2.1 hh] at hn; cases hn

theorem argSimT (E : RegexEngine) (K : IdentK) (n : Nat) (ih : ∀ e, e2OK e = true → GoodT E K n e)
    (x : Expr) (h : e2OK x = true) (hm : matchChildOK x = true) : SimT E K x (shake1Arg n x) := by
  cases x with
  | group op es =>
    simp only [shake1Arg]
    exact SimT.group op es (shake1 n) (e2OK_group_op op es h).1
      (fun d y hy => (ih y (e2OK_group_mem op es h y hy)).2.1 d)
  | _ => exact (ih _ h).2.2.2.2 (by intro op es h'; cases h') hm

/-- **shake_1 keeps every verdict** on the negation-free class `e2OK`. -/
theorem shake1_goodT (E : RegexEngine) (K : IdentK) : ∀ fuel e, e2OK e = true → GoodT E K fuel e := by
  intro fuel
  induction fuel with
  | zero => intro e h; exact ⟨h, fun _ => Iff.rfl, id, id, fun _ _ => SimT.refl e⟩
  | succ n ih =>
    intro e h
    cases e with
    | group op es =>
      cases op with
      | and => exact good_andT E K n ih es h
      | or => exact good_orT E K n ih es h
      | _ => simp only [e2OK] at h; cases h
    | bin l op r =>
      have hform : shake1 (n + 1) (.bin l op r) = .bin (shake1 n l) op (shake1 n r) := rfl
      cases op with
      | and =>
        simp only [e2OK, Bool.and_eq_true] at h
        refine ⟨by simp only [shake1, e2OK, (ih l h.1).1, (ih r h.2).1, Bool.and_self], fun d => ?_,
          (fun hm => by cases hm), (fun hm => by cases hm), (fun _ hm => by cases hm)⟩
        show _ = Tri.t ↔ _ = Tri.t
        rw [hform]
        simp only [solveG, binAnd_t']
        have hl : _ = Tri.t ↔ _ = Tri.t := (ih l h.1).2.1 d
        have hr : _ = Tri.t ↔ _ = Tri.t := (ih r h.2).2.1 d
        rw [hl, hr]
      | or =>
        simp only [e2OK, Bool.and_eq_true] at h
        refine ⟨by simp only [shake1, e2OK, (ih l h.1).1, (ih r h.2).1, Bool.and_self], fun d => ?_,
          (fun hm => by cases hm), (fun hm => by cases hm), (fun _ hm => by cases hm)⟩
        show _ = Tri.t ↔ _ = Tri.t
        rw [hform]
        simp only [solveG, binOr_t']
        have hl : _ = Tri.t ↔ _ = Tri.t := (ih l h.1).2.1 d
        have hr : _ = Tri.t ↔ _ = Tri.t := (ih r h.2).2.1 d
        rw [hl, hr]
      | _ =>
        simp only [e2OK, Bool.and_eq_true] at h
        rw [GoodT, hform, shake1_leaf _ _ h.1, shake1_leaf _ _ h.2]
        exact ⟨by simp only [e2OK, h.1, h.2, Bool.and_self], fun _ => Iff.rfl, id, id, fun _ _ => SimT.refl _⟩
    | «match» k x =>
      have h' := h
      simp only [e2OK, Bool.and_eq_true, bne_iff_ne, ne_eq] at h'
      obtain ⟨⟨hk, hmc⟩, hx⟩ := h'
      have S := argSimT E K n ih x hx hmc
      rw [GoodT, shake1_match]
      refine ⟨?_, fun d => simT_match E K x _ S k hk d, fun _ => rfl, (fun hm => by cases hm),
        fun _ _ => SimT.match k hk x _ S⟩
      simp only [e2OK, Bool.and_eq_true, bne_iff_ne, ne_eq]
      refine ⟨⟨hk, simT_matchChildOK E K x _ S hmc⟩, ?_⟩
      cases x with
      | group op es =>
        have hmem := e2OK_group_mem op es hx
        have hLok : ∀ x ∈ es.map (shake1 n), e2OK x = true := by
          intro x hx'
          obtain ⟨y, hy, rfl⟩ := List.mem_map.mp hx'
          exact (ih y (hmem y hy)).1
        simp only [shake1Arg]
        cases op with
        | and =>
          have h2 := hx
          simp only [e2OK, Bool.and_eq_true, Bool.not_eq_true', List.isEmpty_eq_false_iff] at h2 ⊢
          exact ⟨⟨by simpa using h2.1.1, (e2OKL_iff _).mpr hLok⟩, andMem_map n E K ih es hmem h2.2⟩
        | or =>
          have h2 := hx
          simp only [e2OK, Bool.and_eq_true, Bool.not_eq_true', List.isEmpty_eq_false_iff] at h2 ⊢
          exact ⟨by simpa using h2.1, (e2OKL_iff _).mpr hLok⟩
        | _ => simp [e2OK] at hx
      | _ => exact (ih _ hx).1
    | negate x => simp only [e2OK] at h; cases h
    | nested f x =>
      obtain ⟨h1, h2, h3⟩ := nested_factsT f x h
      have G := ih x h1
      have hform : shake1 (n + 1) (.nested f x) = .nested f (shake1 n x) := rfl
      rw [GoodT, hform]
      cases hos : orSpecial x with
      | false =>
        have hns : nestedSpecial x = false := by rw [special_split, hos, h3]; rfl
        obtain ⟨n1, n2⟩ := nestedBody_ok' n x G.2.2.1 h2 hns
        have hv := nested_truth_of E K f x (shake1 n x) hns n1 G.2.1
        exact ⟨by simp [e2OK, n2, matrixSpecial_of _ n1, G.1], hv, (fun hm => by cases hm), fun _ => rfl,
          fun _ _ => SimT.gen _ _ rfl rfl hv⟩
      | true =>
        obtain ⟨ms, rfl⟩ := orSpecial_form x hos
        have S := G.2.2.2.2 (by intro op es h'; cases h') rfl
        have hv := simT_nested E K _ _ S rfl f
        obtain ⟨xs', hxs'⟩ := shake1_allOr n ms
        refine ⟨?_, hv, (fun hm => by cases hm), fun _ => rfl, fun _ _ => SimT.gen _ _ rfl rfl hv⟩
        simp only [e2OK, Bool.and_eq_true, Bool.not_eq_true']
        exact ⟨⟨by rw [hxs']; rfl, by rw [hxs']; rfl⟩, G.1⟩
    | _ => exact ⟨h, fun _ => Iff.rfl, id, id, fun _ _ => SimT.refl _⟩

end Tau
