import Tau.Proofs.Frame
/-
  `rewrite` (optimiser.rs:453) is exact, given what the engine assumes of the regex crate when it
  strips a leading / trailing `.*` from an unanchored search.
-/
set_option linter.unusedSimpArgs false
namespace Tau

/-- The assumption `rewrite` makes about the regex engine (an external crate): if the stripped
    pattern compiles, it matches exactly the strings the original matches (unanchored search). -/
def StripLaw (E : RegexEngine) : Prop :=
  ∀ p ci h, E.compiles (stripDotStar p) ci = true → E.isMatch (stripDotStar p) ci h = E.isMatch p ci h

theorem rewriteL_eq_map (E : RegexEngine) (es : List Expr) : rewriteL E es = es.map (rewrite E) := by
  induction es with
  | nil => simp [rewriteL]
  | cons x xs ih => simp [rewriteL, ih]

theorem any_strip (E : RegexEngine) (hL : StripLaw E) (ci : Bool) (h : Str) (ps : List Str)
    (hall : (ps.map stripDotStar).all (fun p => E.compiles p ci) = true) :
    (ps.map stripDotStar).any (fun p => E.isMatch p ci h) = ps.any (fun p => E.isMatch p ci h) := by
  induction ps with
  | nil => rfl
  | cons p ps ih =>
    simp only [List.map_cons, List.all_cons, Bool.and_eq_true] at hall
    simp only [List.map_cons, List.any_cons, hL p ci h hall.1, ih hall.2]

theorem count_strip (E : RegexEngine) (hL : StripLaw E) (ci : Bool) (h : Str) (ps : List Str)
    (hall : (ps.map stripDotStar).all (fun p => E.compiles p ci) = true) :
    setHits E (ps.map stripDotStar) ci h = setHits E ps ci h := by
  unfold setHits
  induction ps with
  | nil => rfl
  | cons p ps ih =>
    simp only [List.map_cons, List.all_cons, Bool.and_eq_true] at hall
    simp only [List.map_cons, List.countP_cons, hL p ci h hall.1, ih hall.2]

theorem searchStr_rewrite (E : RegexEngine) (hL : StripLaw E) (s : Search) (h : Str) :
    searchStr E (rewriteSearch E s) h = searchStr E s h := by
  cases s with
  | regex p ci =>
    simp only [rewriteSearch]
    split
    · rename_i hc; simp only [searchStr]; exact hL p ci h hc
    · rfl
  | regexSet ps ci =>
    simp only [rewriteSearch]
    split
    · rename_i hall; simp only [searchStr]; exact any_strip E hL ci h ps hall
    · rfl
  | _ => rfl

theorem solveSearch_rewrite (E : RegexEngine) (hL : StripLaw E) (d : Doc) (s : Search) (f : Str) (c : Bool) :
    solveSearch E d (rewriteSearch E s) f c = solveSearch E d s f c := by
  unfold solveSearch
  have : searchStr E (rewriteSearch E s) = searchStr E s := funext (searchStr_rewrite E hL s)
  rw [this]

theorem operand_rewrite (E : RegexEngine) (d : Doc) (x : Expr) : operand d (rewrite E x) = operand d x := by
  cases x <;> simp [rewrite, operand]

theorem solveCmp_rewrite (E : RegexEngine) (d : Doc) (l : Expr) (op : BoolSym) (r : Expr) :
    solveCmp d (rewrite E l) op (rewrite E r) = solveCmp d l op r := by
  cases l <;> cases r <;> simp [rewrite, solveCmp, operand]

theorem andG_map (E : RegexEngine) (K : IdentK) (d : Doc) (φ : Expr → Expr) (es : List Expr)
    (h : ∀ e ∈ es, solveG E K d (φ e) = solveG E K d e) : andG E K d (es.map φ) = andG E K d es := by
  induction es with
  | nil => simp [andG]
  | cons x xs ih =>
    simp only [List.map_cons, andG]
    rw [h x (by simp), ih (fun e he => h e (by simp [he]))]

theorem orG_map (E : RegexEngine) (K : IdentK) (d : Doc) (φ : Expr → Expr) (es : List Expr)
    (h : ∀ e ∈ es, solveG E K d (φ e) = solveG E K d e) : orG E K d (es.map φ) = orG E K d es := by
  induction es with
  | nil => simp [orG]
  | cons x xs ih =>
    simp only [List.map_cons, orG]
    rw [h x (by simp), ih (fun e he => h e (by simp [he]))]

theorem listG_map (E : RegexEngine) (K : IdentK) (d : Doc) (φ : Expr → Expr) (es : List Expr)
    (h : ∀ e ∈ es, solveG E K d (φ e) = solveG E K d e) : listG E K d (es.map φ) = listG E K d es := by
  induction es with
  | nil => simp [listG]
  | cons x xs ih =>
    simp only [List.map_cons, listG]
    rw [h x (by simp), ih (fun e he => h e (by simp [he]))]

theorem nestedAllOrG_map (E : RegexEngine) (K : IdentK) (objs : List (List (Str × Value))) (φ : Expr → Expr)
    (es : List Expr) (h : ∀ e ∈ es, ∀ d, solveG E K d (φ e) = solveG E K d e) :
    nestedAllOrG E K objs (es.map φ) = nestedAllOrG E K objs es := by
  induction es with
  | nil => simp [nestedAllOrG]
  | cons x xs ih =>
    simp only [List.map_cons, nestedAllOrG]
    have : (objs.map fun kvs => solveG E K (.obj kvs) (φ x)) = objs.map fun kvs => solveG E K (.obj kvs) x := by
      apply List.map_congr_left; intro kvs _; exact h x (by simp) _
    rw [this, ih (fun e he => h e (by simp [he]))]

end Tau

namespace Tau

/-- **rewrite is exact.** -/
theorem rewrite_sound_aux (E : RegexEngine) (hL : StripLaw E) (K : IdentK) :
    ∀ (n : Nat) (e : Expr), e.size ≤ n → ∀ d, solveG E K d (rewrite E e) = solveG E K d e := by
  intro n
  induction n with
  | zero => intro e hs; cases e <;> simp [Expr.size] at hs
  | succ n ih =>
    intro e hs d
    have members : ∀ (es : List Expr), Expr.size.sizeL es ≤ n →
        ∀ x ∈ es, ∀ d, solveG E K d (rewrite E x) = solveG E K d x := by
      intro es hsz x hx d
      exact ih x (by have := size_mem_lt es x hx; omega) d
    cases e with
    | group op es =>
      simp only [Expr.size] at hs
      have hm := members es (by omega)
      simp only [rewrite, rewriteL_eq_map]
      cases op <;> simp only [solveG]
      · exact andG_map E K d _ es (fun x hx => hm x hx d)
      · exact orG_map E K d _ es (fun x hx => hm x hx d)
    | bin l op r =>
      simp only [Expr.size] at hs
      simp only [rewrite]
      cases op
      case and => simp only [solveG]; rw [ih l (by omega) d, ih r (by omega) d]
      case or => simp only [solveG]; rw [ih l (by omega) d, ih r (by omega) d]
      all_goals
        simp only [solveG]
        exact solveCmp_rewrite E d l _ r
    | «match» k x =>
      simp only [Expr.size] at hs
      have hx := ih x (by omega)
      simp only [rewrite]
      cases k with
      | all =>
        cases x with
        | group op es =>
          simp only [Expr.size] at hs
          simp only [rewrite, rewriteL_eq_map, solveG]
          exact andG_map E K d _ es (fun y hy => members es (by omega) y hy d)
        | search s f c =>
          cases s with
          | regex p ci =>
            simp only [rewrite, rewriteSearch]
            split
            · rename_i hc
              have hfun : searchStr E (Search.regex (stripDotStar p) ci) = searchStr E (Search.regex p ci) :=
                funext (fun h => by simp only [searchStr]; exact hL p ci h hc)
              simp only [solveG, solveSearch, hfun]
            · rfl
          | regexSet ps ci =>
            simp only [rewrite, rewriteSearch]
            split
            · rename_i hall
              simp only [solveG, allSet, List.length_map]
              have : (fun x => setHits E (ps.map stripDotStar) ci x == ps.length) =
                  (fun x => setHits E ps ci x == ps.length) :=
                funext (fun x => by rw [count_strip E hL ci x ps hall])
              simp only [this]
            · rfl
          | _ => rfl
        | _ =>
          have hx' := hx d
          first
            | rfl
            | ((simp only [rewrite, rewriteL_eq_map, solveG] at hx' ⊢) <;> (first | rfl | exact hx' | rw [hx'] | simp [hx']))
      | of c =>
        cases x with
        | group op es =>
          simp only [Expr.size] at hs
          simp only [rewrite, rewriteL_eq_map, solveG]
          rw [listG_map E K d _ es (fun y hy => members es (by omega) y hy d)]
        | search s f cst =>
          cases s with
          | regex p ci =>
            simp only [rewrite, rewriteSearch]
            split
            · rename_i hc
              have hfun : searchStr E (Search.regex (stripDotStar p) ci) = searchStr E (Search.regex p ci) :=
                funext (fun h => by simp only [searchStr]; exact hL p ci h hc)
              simp only [solveG, solveSearch, hfun]
            · rfl
          | regexSet ps ci =>
            simp only [rewrite, rewriteSearch]
            split
            · rename_i hall
              have h1 : (fun x => decide (c ≤ setHits E (ps.map stripDotStar) ci x)) =
                  (fun x => decide (c ≤ setHits E ps ci x)) :=
                funext (fun x => by rw [count_strip E hL ci x ps hall])
              have h3 : searchStr E (Search.regexSet (ps.map stripDotStar) ci) = searchStr E (Search.regexSet ps ci) :=
                funext (fun h => by simp only [searchStr]; exact any_strip E hL ci h ps hall)
              simp only [solveG, ofSet, solveSearch, h1, h3]
            · rfl
          | _ => rfl
        | _ =>
          have hx' := hx d
          first
            | rfl
            | ((simp only [rewrite, rewriteL_eq_map, solveG] at hx' ⊢) <;> (first | rfl | rw [hx'] | simp [hx']))
    | negate x =>
      simp only [Expr.size] at hs
      simp only [rewrite, solveG]
      rw [ih x (by omega) d]
    | nested f x =>
      simp only [Expr.size] at hs
      have hx := ih x (by omega)
      cases x with
      | «match» k y =>
        cases k with
        | all =>
          cases y with
          | group op es =>
            simp only [Expr.size] at hs
            have hm := members es (by omega)
            cases op
            case or =>
              simp only [rewrite, rewriteL_eq_map, solveG]
              cases d.find f with
              | none => rfl
              | some v =>
                cases v <;> simp only []
                · exact nestedAllOrG_map E K _ _ es (fun z hz dd => hm z hz dd)
                · exact andG_map E K _ _ es (fun z hz => hm z hz _)
            all_goals
              (simp only [rewrite, rewriteL_eq_map, solveG] at hx ⊢) <;> (first | rfl | simp only [hx])
          | matrix cols rows => rfl
          | _ =>
            first
              | rfl
              | ((simp only [rewrite, rewriteL_eq_map, solveG] at hx ⊢) <;> (first | rfl | simp only [hx]))
        | of c =>
          first
            | rfl
            | ((simp only [rewrite, rewriteL_eq_map, solveG] at hx ⊢) <;> (first | rfl | simp only [hx]))
      | _ =>
        first
          | rfl
          | ((simp only [rewrite, rewriteL_eq_map, solveG] at hx ⊢) <;> (first | rfl | simp only [hx]))
    | search s f c =>
      simp only [rewrite, solveG]
      exact solveSearch_rewrite E hL d s f c
    | _ => simp only [rewrite, solveG]

end Tau
