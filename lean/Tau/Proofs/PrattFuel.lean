import Tau.Pratt
/-
  Fuel monotonicity of the Pratt parser: a successful parse stays the same with more fuel.
-/
set_option linter.unusedSimpArgs false
namespace Tau

theorem parse_mono_aux : ∀ (f : Nat),
    (∀ f' ts e, f ≤ f' → parseAll f ts = .ok e → parseAll f' ts = .ok e) ∧
    (∀ f' rbp ts r, f ≤ f' → parseExpr f rbp ts = .ok r → parseExpr f' rbp ts = .ok r) ∧
    (∀ f' rbp left ts r, f ≤ f' → parseLoop f rbp left ts = .ok r → parseLoop f' rbp left ts = .ok r) ∧
    (∀ f' ts r, f ≤ f' → parseNud f ts = .ok r → parseNud f' ts = .ok r) := by
  intro f
  induction f with
  | zero => refine ⟨?_, ?_, ?_, ?_⟩ <;> intros <;> simp_all [parseAll, parseExpr, parseLoop, parseNud]
  | succ n ih =>
    obtain ⟨ihAll, ihExpr, ihLoop, ihNud⟩ := ih
    refine ⟨?_, ?_, ?_, ?_⟩
    · intro f' ts e hle h
      obtain ⟨m, rfl⟩ : ∃ m, f' = m + 1 := ⟨f' - 1, by omega⟩
      simp only [parseAll] at h ⊢
      split at h
      · cases h
      · rename_i e' rest heq
        rw [ihExpr m 0 ts (e', rest) (by omega) heq]
        exact h
    · intro f' rbp ts r hle h
      obtain ⟨m, rfl⟩ : ∃ m, f' = m + 1 := ⟨f' - 1, by omega⟩
      simp only [parseExpr] at h ⊢
      split at h
      · cases h
      · rename_i left rest heq
        rw [ihNud m ts (left, rest) (by omega) heq]
        exact ihLoop m rbp left rest r (by omega) h
    · intro f' rbp left ts r hle h
      obtain ⟨m, rfl⟩ : ∃ m, f' = m + 1 := ⟨f' - 1, by omega⟩
      cases ts with
      | nil => simp only [parseLoop] at h ⊢; exact h
      | cons next ts' =>
        simp only [parseLoop] at h ⊢
        split at h
        · rename_i hc; simp only [hc, if_true]; exact h
        · rename_i hc
          simp only [hc, if_false]
          split at h
          · rename_i sym
            split at h
            · cases h
            · rename_i right rest heq
              rw [ihExpr m _ ts' (right, rest) (by omega) heq]
              split at h
              · cases h
              · rename_i hchk
                simp only [hchk]
                exact ihLoop m rbp _ rest r (by omega) h
          · cases h
    · intro f' ts r hle h
      obtain ⟨m, rfl⟩ : ∃ m, f' = m + 1 := ⟨f' - 1, by omega⟩
      cases ts with
      | nil => simp [parseNud] at h
      | cons t ts' =>
        simp only [parseNud] at h ⊢
        split at h
        · split at h
          · cases h
          · rename_i e' heq
            rw [ihAll m _ e' (by omega) heq]
            exact h
        · cases h
        · cases h
        · exact h
        · exact h
        · exact h
        · split at h
          · cases h
          · rename_i right rest heq
            rw [ihExpr m 95 ts' (right, rest) (by omega) heq]
            exact h
        · exact h
        · exact h
        · exact h
        · cases h

theorem parseExpr_mono {f f' : Nat} (h : f ≤ f') {rbp ts r} (hp : parseExpr f rbp ts = .ok r) :
    parseExpr f' rbp ts = .ok r := (parse_mono_aux f).2.1 f' rbp ts r h hp
theorem parseLoop_mono {f f' : Nat} (h : f ≤ f') {rbp left ts r} (hp : parseLoop f rbp left ts = .ok r) :
    parseLoop f' rbp left ts = .ok r := (parse_mono_aux f).2.2.1 f' rbp left ts r h hp
theorem parseNud_mono {f f' : Nat} (h : f ≤ f') {ts r} (hp : parseNud f ts = .ok r) :
    parseNud f' ts = .ok r := (parse_mono_aux f).2.2.2 f' ts r h hp
theorem parseAll_mono {f f' : Nat} (h : f ≤ f') {ts e} (hp : parseAll f ts = .ok e) :
    parseAll f' ts = .ok e := (parse_mono_aux f).1 f' ts e h hp

end Tau
