import Tau.Mapping
import Tau.Proofs.Safe
/-
  Everything `parse_mapping` builds is a safe closed tree: identifier bodies never contain
  identifiers, literals in predicate position, or groups with a non-boolean symbol.
-/
set_option linter.unusedSimpArgs false
set_option linter.unnecessarySimpa false
namespace Tau

abbrev nod : Str → Bool := fun _ => false

def SafeAll (es : List Expr) : Prop := ∀ e ∈ es, safe nod e = true

theorem safeL_of_all (es : List Expr) (h : SafeAll es) : safeL nod es = true := by
  induction es with
  | nil => rfl
  | cons x xs ih =>
    simp only [safeL, Bool.and_eq_true]
    exact ⟨h x (by simp), ih (fun e he => h e (by simp [he]))⟩

theorem safeAll_append {a b : List Expr} (ha : SafeAll a) (hb : SafeAll b) : SafeAll (a ++ b) := by
  intro e he
  rcases List.mem_append.mp he with h | h
  · exact ha e h
  · exact hb e h

theorem safe_wrapNot (misc : Option ModSym) (x : Expr) (h : safe nod x = true) : safe nod (wrapNot misc x) = true := by
  unfold wrapNot; split <;> simp [safe, h]

theorem safe_cmp (l : Expr) (op : BoolSym) (r : Expr) (h : op ≠ .and ∧ op ≠ .or) : safe nod (.bin l op r) = true := by
  cases op <;> simp_all [safe]

theorem numExpr_safe (lhs : Expr) (p : Pattern) (x : Expr) (h : numExpr lhs p = some x)
    (hop : ∀ op i, p = .cmpI op i → op ≠ .and ∧ op ≠ .or) (hopf : ∀ op b, p = .cmpF op b → op ≠ .and ∧ op ≠ .or) :
    safe nod x = true := by
  cases p <;> simp [numExpr] at h
  · subst h; exact safe_cmp _ _ _ (hop _ _ rfl)
  · subst h; exact safe_cmp _ _ _ (hopf _ _ rfl)

/-- Numeric patterns only carry comparison operators. -/
theorem parseNumPat_op (op : BoolSym) (s : Str) (p : Pattern) (h : parseNumPat op s = .ok p) :
    (∀ op' i, p = .cmpI op' i → op' = op) ∧ (∀ op' b, p = .cmpF op' b → op' = op) := by
  unfold parseNumPat at h
  split at h <;> split at h <;> cases h <;> simp

theorem literalPattern_not_numeric (ci : Bool) (s : Str) : (literalPattern ci s).isNumeric = false := by
  unfold literalPattern
  repeat' split
  all_goals rfl

theorem patternOf_ops (E : RegexEngine) (ci : Bool) (s : Str) (p : Pattern) (h : patternOf E ci s = .ok p) :
    (∀ op i, p = .cmpI op i → op ≠ .and ∧ op ≠ .or) ∧ (∀ op b, p = .cmpF op b → op ≠ .and ∧ op ≠ .or) := by
  unfold patternOf at h
  split at h
  · split at h <;> cases h <;> simp
  all_goals first
    | (have := parseNumPat_op _ _ _ h
       constructor
       · intro op i hp; have := this.1 op i hp; subst this; simp
       · intro op b hp; have := this.2 op b hp; subst this; simp)
    | (cases h
       have hn := literalPattern_not_numeric ci s
       constructor
       · intro op i hp; rw [hp] at hn; simp [Pattern.isNumeric] at hn
       · intro op b hp; rw [hp] at hn; simp [Pattern.isNumeric] at hn)

theorem intoIdentifier_ops (E : RegexEngine) (ic : Bool) (s : Str) (i : Ident) (h : intoIdentifier E ic s = .ok i) :
    (∀ op n, i.pat = .cmpI op n → op ≠ .and ∧ op ≠ .or) ∧ (∀ op b, i.pat = .cmpF op b → op ≠ .and ∧ op ≠ .or) := by
  unfold intoIdentifier at h
  split at h
  · rename_i p hp
    cases h
    exact patternOf_ops E _ _ p hp
  · cases h

end Tau

namespace Tau

theorem finishMapping_safe (r : Except Err (List Expr)) (x : Expr)
    (h : finishMapping r = .ok x) (hr : ∀ es, r = .ok es → SafeAll es) : safe nod x = true := by
  cases r with
  | error e => simp [finishMapping] at h
  | ok es =>
    have hall := hr es rfl
    cases es with
    | nil => simp [finishMapping] at h
    | cons a rest =>
      cases rest with
      | nil => simp [finishMapping] at h; subst h; exact hall a (by simp)
      | cons b rest' =>
        simp [finishMapping] at h; subst h
        simp only [safe, Bool.and_eq_true]
        exact ⟨by simp, safeL_of_all _ hall⟩

theorem shapeGroup_safe (e g : Expr) (gs : List Expr) (multiple : Bool) (h : SafeAll (g :: gs)) :
    safe nod (shapeGroup e g gs multiple) = true := by
  have hg : safe nod g = true := h g (by simp)
  have hl : safeL nod (g :: gs) = true := safeL_of_all _ h
  unfold shapeGroup
  split
  · split
    · exact safe_match_of_safe _ _ g hg
    · simpa [safe] using hl
  · split
    · exact hg
    · split
      · exact safe_match_of_safe _ _ g hg
      · simpa [safe] using hl
  · split
    · exact hg
    · simp only [safe, Bool.and_eq_true]; exact ⟨by simp, hl⟩

theorem shapeSeq_safe (e : Expr) (misc : Option ModSym) (st : SeqSt) (group : List Expr) (multiple : Bool)
    (x : Expr) (h : shapeSeq e misc st group multiple = .ok x) (hg : SafeAll group) : safe nod x = true := by
  unfold shapeSeq at h
  split at h
  · cases h
  · split at h
    · cases h
    · cases h
      exact safe_wrapNot _ _ (shapeGroup_safe e _ _ multiple hg)

theorem searchOfPattern_safe (ci : Bool) (p : Pattern) (s : Search) (f : Str) (c : Bool)
    (_h : searchOfPattern ci p = some s) : safe nod (.search s f c) = true := by simp [safe]

theorem batchMembers_safe (st : SeqSt) (f : Str) (h : SafeAll st.rest) : SafeAll (batchMembers st f).1 := by
  unfold batchMembers
  simp only
  intro e he
  simp only [List.mem_append] at he
  rcases he with ((((he | he) | he) | he) | he) | he
  · simp at he; obtain ⟨_, _, rfl⟩ := he; simp [safe]
  · unfold litBlock at he; split at he <;> simp at he <;> subst he <;> simp [safe]
  · unfold ilitBlock at he; split at he <;> simp at he; subst he; simp [safe]
  · unfold rxBlock at he; split at he <;> simp at he <;> subst he <;> simp [safe]
  · unfold rxBlock at he; split at he <;> simp at he <;> subst he <;> simp [safe]
  · exact h e he

mutual
theorem entries_safe (E : RegexEngine) (ic : Bool) : ∀ (kvs : List (Yaml × Yaml)) (es : List Expr),
    parseEntries E ic kvs = .ok es → SafeAll es
  | [], es, h => by simp [parseEntries] at h; subst h; intro e he; cases he
  | p :: rest, es, h => by
    simp only [parseEntries] at h
    split at h
    · cases h
    · rename_i x hx
      split at h
      · cases h
      · rename_i xs hxs
        cases h
        intro e he
        rcases List.mem_cons.mp he with rfl | he'
        · exact pair_safe E ic p _ hx
        · exact entries_safe E ic rest xs hxs e he'

theorem pair_safe (E : RegexEngine) (ic : Bool) : ∀ (p : Yaml × Yaml) (x : Expr),
    parsePair E ic p = .ok x → safe nod x = true
  | (k, v), x, h => by
    simp only [parsePair] at h
    split at h
    · cases h
    · rename_i e f misc _
      exact val_safe E ic e f misc v x h

theorem val_safe (E : RegexEngine) (ic : Bool) (e : Expr) (f : Str) (misc : Option ModSym) :
    ∀ (v : Yaml) (x : Expr), parseVal E ic e f misc v = .ok x → safe nod x = true
  | .null, x, h => by
    simp only [parseVal] at h; cases h
    exact safe_wrapNot _ _ (safe_cmp _ _ _ (by simp))
  | .bool b, x, h => by
    simp only [parseVal] at h; cases h
    apply safe_wrapNot
    split
    · exact safe_cmp _ _ _ (by simp)
    · split
      · simp [safe]
      · exact safe_cmp _ _ _ (by simp)
  | .num n, x, h => by
    cases n with
    | int i =>
      simp only [parseVal] at h; cases h
      apply safe_wrapNot
      split
      · simp [safe]
      · exact safe_cmp _ _ _ (by simp)
    | big a b c =>
      simp only [parseVal] at h
      split at h
      · cases h
      · split at h <;> cases h <;> apply safe_wrapNot
        · simp [safe]
        · exact safe_cmp _ _ _ (by simp)
    | flt b c =>
      simp only [parseVal] at h
      split at h
      · cases h
      · split at h <;> cases h <;> apply safe_wrapNot
        · simp [safe]
        · exact safe_cmp _ _ _ (by simp)
  | .tagged _, x, h => by simp [parseVal] at h
  | .str s, x, h => by
    simp only [parseVal] at h
    split at h
    · cases h
    · rename_i ident hid
      have hops := intoIdentifier_ops E ic s ident hid
      split at h
      · cases h
      · split at h
        · rename_i y hy
          cases h
          exact safe_wrapNot _ _ (numExpr_safe e ident.pat y hy hops.1 hops.2)
        · split at h
          · cases h; exact safe_wrapNot _ _ (by simp [safe])
          · cases h
  | .map m, x, h => by
    simp only [parseVal] at h
    split at h
    · cases h
    · split at h
      · cases h
      · rename_i y hy
        cases h
        apply safe_wrapNot
        simp only [safe]
        exact finishMapping_safe _ y hy (fun es hes => entries_safe E ic m es hes)
  | .seq s, x, h => by
    simp only [parseVal] at h
    split at h
    · cases h
    · rename_i st hst
      have hrest : SafeAll st.rest := members_safe E ic f misc _ s _ st hst (by intro e he; cases he)
      exact shapeSeq_safe e misc st _ _ x h (batchMembers_safe st f hrest)

theorem members_safe (E : RegexEngine) (ic : Bool) (f : Str) (misc : Option ModSym) (lhs : Expr) :
    ∀ (vs : List Yaml) (st st' : SeqSt), parseMembers E ic f misc lhs vs st = .ok st' →
      SafeAll st.rest → SafeAll st'.rest
  | [], st, st', h, hs => by simp [parseMembers] at h; subst h; exact hs
  | v :: vs, st, st', h, hs => by
    have cmpOk : ∀ op r, op ≠ BoolSym.and ∧ op ≠ BoolSym.or → SafeAll (st.rest ++ [Expr.bin lhs op r]) :=
      fun op r hop => safeAll_append hs (by intro e he; simp at he; subst he; exact safe_cmp _ _ _ hop)
    cases v with
    | null =>
      simp only [parseMembers] at h
      exact members_safe E ic f misc lhs vs _ st' h (cmpOk _ _ (by simp))
    | bool b =>
      simp only [parseMembers] at h
      split at h
      · exact members_safe E ic f misc lhs vs _ st' h (cmpOk _ _ (by simp))
      · split at h
        · exact members_safe E ic f misc lhs vs _ st' h hs
        · exact members_safe E ic f misc lhs vs _ st' h (cmpOk _ _ (by simp))
    | num n =>
      cases n with
      | int i =>
        simp only [parseMembers] at h
        split at h
        · exact members_safe E ic f misc lhs vs _ st' h hs
        · exact members_safe E ic f misc lhs vs _ st' h (cmpOk _ _ (by simp))
      | big a b c =>
        simp only [parseMembers] at h
        split at h
        · cases h
        · split at h
          · exact members_safe E ic f misc lhs vs _ st' h hs
          · exact members_safe E ic f misc lhs vs _ st' h (cmpOk _ _ (by simp))
      | flt b c =>
        simp only [parseMembers] at h
        split at h
        · cases h
        · split at h
          · exact members_safe E ic f misc lhs vs _ st' h hs
          · exact members_safe E ic f misc lhs vs _ st' h (cmpOk _ _ (by simp))
    | tagged => simp [parseMembers] at h
    | seq xs => simp [parseMembers] at h
    | str s =>
      simp only [parseMembers] at h
      split at h
      · cases h
      · rename_i ident hid
        have hops := intoIdentifier_ops E ic s ident hid
        split at h
        · cases h
        · revert h
          cases hp : ident.pat with
          | exact _ => simp only []; intro h; exact members_safe E ic f misc lhs vs _ st' h (by split <;> exact hs)
          | startsWith _ => simp only []; intro h; exact members_safe E ic f misc lhs vs _ st' h (by split <;> exact hs)
          | endsWith _ => simp only []; intro h; exact members_safe E ic f misc lhs vs _ st' h (by split <;> exact hs)
          | contains _ => simp only []; intro h; exact members_safe E ic f misc lhs vs _ st' h (by split <;> exact hs)
          | regex _ => simp only []; intro h; exact members_safe E ic f misc lhs vs _ st' h (by split <;> exact hs)
          | any =>
            simp only []; intro h
            refine members_safe E ic f misc lhs vs _ st' h ?_
            have hany : ∀ c, SafeAll [Expr.search Search.any f c] := by
              intro c e he; simp at he; subst he; simp [safe]
            split <;> exact safeAll_append hs (hany _)
          | cmpI op i =>
            simp only []; intro h
            refine members_safe E ic f misc lhs vs _ st' h ?_
            have hop := hops.1 op i hp
            split <;> exact safeAll_append hs (by intro e he; simp at he; subst he; exact safe_cmp _ _ _ hop)
          | cmpF op b =>
            simp only []; intro h
            refine members_safe E ic f misc lhs vs _ st' h ?_
            have hop := hops.2 op b hp
            split <;> exact safeAll_append hs (by intro e he; simp at he; subst he; exact safe_cmp _ _ _ hop)
    | map m =>
      simp only [parseMembers] at h
      split at h
      · cases h
      · split at h
        · cases h
        · rename_i y hy
          refine members_safe E ic f misc lhs vs _ st' h (safeAll_append hs ?_)
          intro e he; simp at he; subst he
          simp only [safe]
          exact finishMapping_safe _ y hy (fun es hes => entries_safe E ic m es hes)
end

/-- **Identifier bodies are safe closed trees.** -/
theorem parseMapping_safe (E : RegexEngine) (ic : Bool) (kvs : List (Yaml × Yaml)) (e : Expr)
    (h : parseMapping E ic kvs = .ok e) : safe nod e = true :=
  finishMapping_safe _ e h (fun es hes => entries_safe E ic kvs es hes)

end Tau

namespace Tau

theorem parseIdentifier_go_safe (E : RegexEngine) (ic : Bool) :
    ∀ (ys : List Yaml) (es : List Expr), parseIdentifier.go E ic ys = .ok es → SafeAll es
  | [], es, h => by simp [parseIdentifier.go] at h; subst h; intro e he; cases he
  | y :: rest, es, h => by
    cases y with
    | map m =>
      simp only [parseIdentifier.go] at h
      split at h
      · cases h
      · rename_i x hx
        split at h
        · cases h
        · rename_i xs hxs
          cases h
          intro e he
          rcases List.mem_cons.mp he with rfl | he'
          · exact parseMapping_safe E ic m _ hx
          · exact parseIdentifier_go_safe E ic rest xs hxs e he'
    | _ => simp [parseIdentifier.go] at h

/-- Every identifier body the loader builds is a safe closed tree. -/
theorem parseIdentifier_safe (E : RegexEngine) (ic : Bool) (y : Yaml) (e : Expr)
    (h : parseIdentifier E ic y = .ok e) : safe nod e = true := by
  cases y with
  | map m => exact parseMapping_safe E ic m e (by simpa [parseIdentifier] using h)
  | seq xs =>
    cases xs with
    | nil => simp [parseIdentifier] at h
    | cons x rest =>
      simp only [parseIdentifier] at h
      split at h
      · cases h
      · rename_i es hes
        cases h
        simp only [safe, Bool.and_eq_true]
        exact ⟨by simp, safeL_of_all _ (parseIdentifier_go_safe E ic _ es hes)⟩
  | _ => simp [parseIdentifier] at h

end Tau
