import Tau.Proofs.SafeOpt
/-
  `shake_1` keeps a tree inside `safe`; with `shake0_safe`: `shake` does.
-/
set_option linter.unusedSimpArgs false
namespace Tau

theorem insertSorted_perm {α} (le : α → α → Bool) (x : α) (l : List α) :
    (insertSorted le x l).Perm (x :: l) := by
  induction l with
  | nil => exact List.Perm.refl _
  | cons y ys ih =>
    simp only [insertSorted]
    split
    · exact (List.Perm.cons y ih).trans (List.Perm.swap x y ys)
    · exact List.Perm.refl _

theorem stableSort_perm {α} (le : α → α → Bool) (l : List α) : (stableSort le l).Perm l := by
  unfold stableSort
  have : ∀ (acc : List α), (l.foldl (fun acc x => insertSorted le x acc) acc).Perm (l.reverse ++ acc) := by
    induction l with
    | nil => intro acc; exact List.Perm.refl _
    | cons x xs ih =>
      intro acc
      simp only [List.foldl_cons, List.reverse_cons, List.append_assoc, List.singleton_append]
      exact (ih _).trans ((insertSorted_perm le x acc).append_left _)
  have h := this []
  simp only [List.append_nil] at h
  exact h.trans (List.reverse_perm l)

theorem mem_stableSort {α} (le : α → α → Bool) (l : List α) (x : α) :
    x ∈ stableSort le l ↔ x ∈ l := (stableSort_perm le l).mem_iff

theorem mem_groupInsert {κ α} (cmp : κ → κ → Ordering) (k : κ) (v : List α) (l : List (κ × List α))
    (p : κ × List α) (hp : p ∈ groupInsert cmp k v l) :
    ∀ x ∈ p.2, x ∈ v ∨ ∃ q ∈ l, x ∈ q.2 := by
  induction l with
  | nil =>
    simp only [groupInsert, List.mem_singleton] at hp
    subst hp
    intro x hx; exact Or.inl hx
  | cons q qs ih =>
    obtain ⟨k', vs⟩ := q
    simp only [groupInsert] at hp
    split at hp
    · rcases List.mem_cons.mp hp with rfl | hp'
      · intro x hx; exact Or.inl hx
      · intro x hx; exact Or.inr ⟨p, hp', hx⟩
    · rcases List.mem_cons.mp hp with rfl | hp'
      · intro x hx
        rcases List.mem_append.mp hx with h | h
        · exact Or.inr ⟨(k', vs), by simp, h⟩
        · exact Or.inl h
      · intro x hx; exact Or.inr ⟨p, List.mem_cons_of_mem _ hp', hx⟩
    · rcases List.mem_cons.mp hp with rfl | hp'
      · intro x hx; exact Or.inr ⟨(k', vs), by simp, hx⟩
      · intro x hx
        rcases ih hp' x hx with h | ⟨q, hq, hxq⟩
        · exact Or.inl h
        · exact Or.inr ⟨q, List.mem_cons_of_mem _ hq, hxq⟩


section
variable (defd : Str → Bool)

def BodiesSafe (l : List (Str × List Expr)) : Prop := ∀ p ∈ l, ∀ x ∈ p.2, safe defd x = true

theorem bodiesSafe_insert (f : Str) (b : Expr) (l : List (Str × List Expr)) (hb : safe defd b = true)
    (hl : BodiesSafe defd l) : BodiesSafe defd (groupInsert strCmp f [b] l) := by
  intro p hp x hx
  rcases mem_groupInsert strCmp f [b] l p hp x hx with h | ⟨q, hq, hxq⟩
  · simp at h; subst h; exact hb
  · exact hl q hq x hxq

theorem bodiesSafe_insertL (f : Str) (bs : List Expr) (l : List (Str × List Expr))
    (hb : ∀ b ∈ bs, safe defd b = true)
    (hl : BodiesSafe defd l) : BodiesSafe defd (groupInsert strCmp f bs l) := by
  intro p hp x hx
  rcases mem_groupInsert strCmp f bs l p hp x hx with h | ⟨q, hq, hxq⟩
  · exact hb x h
  · exact hl q hq x hxq

theorem andStep_safe (acc : List (Str × List Expr)) (x : Expr) (hx : safe defd x = true)
    (h : BodiesSafe defd acc) : BodiesSafe defd (andNestedStep acc x) := by
  unfold andNestedStep
  split
  · rename_i f m1 m2 ms
    simp only [safe] at hx
    exact bodiesSafe_insertL defd f (m1 :: m2 :: ms) acc ((safeL_iff defd _).mp hx) h
  · rename_i f b _
    simp only [safe] at hx
    exact bodiesSafe_insert defd f b acc hx h
  · exact h

theorem andFold_safe (shaken : List Expr) (hs : ∀ x ∈ shaken, safe defd x = true) :
    ∀ acc, BodiesSafe defd acc → BodiesSafe defd (shaken.foldl andNestedStep acc) := by
  induction shaken with
  | nil => intro acc h; exact h
  | cons x xs ih =>
    intro acc h
    simp only [List.foldl_cons]
    exact ih (fun y hy => hs y (by simp [hy])) _ (andStep_safe defd acc x (hs x (by simp)) h)

structure OrInv (st : OrSt) : Prop where
  any : ∀ x ∈ st.any, safe defd x = true
  rest : ∀ x ∈ st.rest, safe defd x = true
  nested : BodiesSafe defd st.nested

theorem orClassify_inv (st : OrSt) (x : Expr) (hx : safe defd x = true) (h : OrInv defd st) :
    OrInv defd (orClassify st x) := by
  unfold orClassify
  split
  · refine ⟨h.any, fun y hy => ?_, h.nested⟩
    rcases List.mem_append.mp hy with hy | hy
    · exact h.rest y hy
    · simp at hy; subst hy; exact hx
  · rename_i f b _
    simp only [safe] at hx
    exact ⟨h.any, h.rest, bodiesSafe_insert defd f b _ hx h.nested⟩
  all_goals first
    | exact ⟨h.any, h.rest, h.nested⟩
    | (refine ⟨fun y hy => ?_, h.rest, h.nested⟩
       rcases List.mem_append.mp hy with hy | hy
       · exact h.any y hy
       · simp at hy; subst hy; exact hx)
    | (refine ⟨h.any, fun y hy => ?_, h.nested⟩
       rcases List.mem_append.mp hy with hy | hy
       · exact h.rest y hy
       · simp at hy; subst hy; exact hx)

theorem orFold_inv (xs : List Expr) (hs : ∀ x ∈ xs, safe defd x = true) :
    ∀ st, OrInv defd st → OrInv defd (xs.foldl orClassify st) := by
  induction xs with
  | nil => intro st h; exact h
  | cons x rest ih =>
    intro st h
    simp only [List.foldl_cons]
    exact ih (fun y hy => hs y (by simp [hy])) _ (orClassify_inv defd st x (hs x (by simp)) h)

end

theorem safeL_of_mem (defd : Str → Bool) (l : List Expr) (h : ∀ x ∈ l, safe defd x = true) :
    safeL defd l = true := (safeL_iff defd l).mpr h

theorem shake1_leafish (fuel : Nat) (e : Expr)
    (h : match e with | .ident _ | .search _ _ _ | .matrix _ _ => True | _ => False) :
    shake1 fuel e = e := by
  cases fuel <;> cases e <;> first | rfl | exact h.elim

/-- `shake_1` keeps a tree inside `safe`. -/
theorem shake1_safe (defd : Str → Bool) : ∀ (fuel : Nat) (e : Expr),
    safe defd e = true → safe defd (shake1 fuel e) = true := by
  intro fuel
  induction fuel with
  | zero => intro e h; exact h
  | succ n ih =>
    have keyG : ∀ (op : BoolSym) (len : Nat) (out : List Expr), boolOp op = true →
        (∀ x ∈ out, safe defd x = true) →
        safe defd (if out.length != len then shake1 n (.group op out) else unwrapGroup op out) = true := by
      intro op len out hop hout
      have hL := safeL_of_mem defd out hout
      split
      · apply ih
        cases op <;> simp [boolOp] at hop <;> simp [safe, hL]
      · exact unwrapGroup_safe defd op out hop hL
    intro e h
    cases e with
    | group op es =>
      simp only [safe, Bool.and_eq_true] at h
      have hmem : ∀ x ∈ es.map (shake1 n), safe defd x = true := by
        intro x hx
        obtain ⟨y, hy, rfl⟩ := List.mem_map.mp hx
        exact ih y ((safeL_iff defd es).mp h.2 y hy)
      cases op with
      | and =>
        simp only [shake1]
        apply keyG .and _ _ rfl
        intro x hx
        rcases List.mem_append.mp hx with hx | hx
        · exact hmem x (List.mem_filter.mp hx).1
        · obtain ⟨p, hp, rfl⟩ := List.mem_map.mp hx
          have hb := andFold_safe defd (es.map (shake1 n)) hmem [] (fun q hq => absurd hq (by simp)) p hp
          obtain ⟨f, xs⟩ := p
          have multi : xs.length ≠ 1 → safe defd (Expr.nested f (shake1 n (.match .all (.group .or xs)))) = true := by
            intro _
            simp only [safe]
            apply ih
            simp only [safe]
            exact safeL_of_mem defd xs hb
          match xs, hb, multi with
          | [], _, multi => exact multi (by simp)
          | [y], hb, _ =>
            simp only [safe]
            exact ih y (hb y (by simp))
          | _ :: _ :: _, _, multi => exact multi (by simp)
      | or =>
        simp only [shake1]
        have hinv := orFold_inv defd (es.map (shake1 n)) hmem {} ⟨fun x hx => absurd hx (by simp), fun x hx => absurd hx (by simp), fun q hq => absurd hq (by simp)⟩
        apply keyG .or _ _ rfl
        intro x hx
        simp only [List.mem_append] at hx
        have hmap : ∀ {β : Type} (g : β → Expr) (l : List β) (le : Expr → Expr → Bool) (p : Expr → Bool),
            (∀ q, ∃ s f c, g q = Expr.search s f c) →
            x ∈ stableSort le ((l.map g).filter p) → safe defd x = true := by
          intro β g l le p hg hx'
          obtain ⟨q, _, rfl⟩ := List.mem_map.mp (List.mem_filter.mp ((mem_stableSort le _ x).mp hx')).1
          obtain ⟨s, f, c, hq⟩ := hg q
          rw [hq]; simp [safe]
        rcases hx with ((((((((hx | hx) | hx) | hx) | hx) | hx) | hx) | hx) | hx) | hx
        · exact hinv.any x hx
        · exact hmap _ _ _ _ (fun q => by split <;> exact ⟨_, _, _, rfl⟩) hx
        · exact hmap _ _ _ _ (fun q => by split <;> exact ⟨_, _, _, rfl⟩) hx
        · exact hmap _ _ _ _ (fun q => by split <;> exact ⟨_, _, _, rfl⟩) hx
        · exact hmap _ _ _ _ (fun q => by split <;> exact ⟨_, _, _, rfl⟩) hx
        · exact hmap _ _ _ _ (fun q => by split <;> exact ⟨_, _, _, rfl⟩) hx
        · exact hmap _ _ _ _ (fun q => by split <;> exact ⟨_, _, _, rfl⟩) hx
        · exact hmap _ _ _ _ (fun q => by split <;> exact ⟨_, _, _, rfl⟩) hx
        · exact hinv.rest x hx
        · obtain ⟨p, hp, rfl⟩ := List.mem_map.mp hx
          have hb := hinv.nested p hp
          obtain ⟨f, xs⟩ := p
          have multi : xs ≠ [] → safe defd (Expr.nested f (shake1 n (.group .or xs))) = true := by
            intro _
            simp only [safe]
            apply ih
            simp only [safe]
            simp [safeL_of_mem defd xs hb]
          match xs, hb, multi with
          | [], _, _ =>
            simp only [safe]
            apply ih
            simp [safe, safeL]
          | [y], hb, _ =>
            simp only [safe]
            exact ih y (hb y (by simp))
          | _ :: _ :: _, _, multi => exact multi (by simp)
      | _ => simp at h
    | bin l op r =>
      simp only [shake1]
      cases op <;> simp only [safe, Bool.and_eq_true] at h ⊢ <;>
        first | exact ⟨ih l h.1, ih r h.2⟩ | trivial
    | «match» k x =>
      cases x with
      | group op es =>
        simp only [shake1, safe] at h ⊢
        apply safeL_of_mem
        intro y hy
        obtain ⟨z, hz, rfl⟩ := List.mem_map.mp hy
        exact ih z ((safeL_iff defd es).mp h z hz)
      | ident i => simpa [shake1, shake1_leafish] using h
      | search s f c => simp [shake1, shake1_leafish, safe]
      | matrix cols rows => simpa [shake1, shake1_leafish] using h
      | bin l op r =>
        simp only [shake1]
        exact safe_match_of_safe defd k _ (ih _ (by simpa [safe] using h))
      | negate y =>
        simp only [shake1]
        exact safe_match_of_safe defd k _ (ih _ (by simpa [safe] using h))
      | nested f y =>
        simp only [shake1]
        exact safe_match_of_safe defd k _ (ih _ (by simpa [safe] using h))
      | «match» k2 y =>
        simp only [shake1]
        exact safe_match_of_safe defd k _ (ih _ (by simpa [safe] using h))
      | _ => simp [safe] at h
    | negate x => simp only [shake1, safe] at h ⊢; exact ih x h
    | nested f x => simp only [shake1, safe] at h ⊢; exact ih x h
    | _ => exact h

end Tau

namespace Tau

/-- `shake` (both halves) keeps a tree inside `safe`. -/
theorem shake_safe (defd : Str → Bool) (e : Expr) (h : safe defd e = true) : safe defd (shake e) = true := by
  unfold shake
  exact shake1_safe defd _ _ (shake0_safe defd _ e h)

theorem lookup_map (ids : Ids) (g : Expr → Expr) (i : Str) :
    lookupId (ids.map (fun (p : Str × Expr) => (p.1, g p.2))) i = (lookupId ids i).map g := by
  induction ids with
  | nil => rfl
  | cons x xs ih =>
    obtain ⟨k, v⟩ := x
    simp only [List.map_cons, lookupId]
    split
    · rfl
    · exact ih

end Tau
