import Tau.Tokeniser
set_option linter.unusedSimpArgs false
/-
  Fuel sufficiency for the tokeniser: every step consumes at least one character or returns.
-/
namespace Tau

theorem takeWhile_dropWhile_length {α} (p : α → Bool) (s : List α) :
    (s.takeWhile p).length + (s.dropWhile p).length = s.length := by
  induction s with
  | nil => simp
  | cons x xs ih =>
    by_cases h : p x
    · simp [List.takeWhile_cons, List.dropWhile_cons, h]; omega
    · simp [List.takeWhile_cons, List.dropWhile_cons, h]

theorem dropWhile_length_le {α} (p : α → Bool) (s : List α) : (s.dropWhile p).length ≤ s.length := by
  have := takeWhile_dropWhile_length p s; omega

theorem parseI64_nil : parseI64 [] = none := by rfl
theorem f64parse_not_contains (s : Str) (h : s = []) : s.contains '.' = false := by subst h; rfl

/-- One step of the tokeniser loop strictly shortens the input. -/
theorem tokStep_progress (c : Char) (cs : Str) (t : Option Token) (rest : Str)
    (h : tokStep c cs = .ok (t, rest)) : rest.length ≤ cs.length := by
  unfold tokStep at h
  simp only at h
  split at h
  · -- number
    rename_i hnum
    have hlen := takeWhile_dropWhile_length isNumChar (c :: cs)
    have hne : (List.takeWhile isNumChar (c :: cs)) ≠ [] := by
      intro hnil
      rw [hnil] at h
      simp [parseI64_nil] at h
    have : 0 < (List.takeWhile isNumChar (c :: cs)).length := List.length_pos_iff.mpr hne
    split at h
    · split at h
      · cases h; simp at hlen ⊢; omega
      · cases h
    · split at h
      · cases h; simp at hlen ⊢; omega
      · cases h
  · split at h
    · -- keyword or identifier
      rename_i hal
      split at h
      · rename_i tk n hk
        cases h
        -- every keyword consumes at least two characters
        have hn : 2 ≤ n := by
          unfold findKeyword at hk
          split at hk
          · rename_i kw tk' n' hf
            cases hk
            have := List.mem_of_find?_eq_some hf
            simp [keywords] at this
            rcases this with h | h | h | h | h | h | h | h | h | h <;> (cases h; omega)
          · cases hk
        simp [List.length_drop]; omega
      · cases h
        have hlen := takeWhile_dropWhile_length isIdentChar (c :: cs)
        have hc : isIdentChar c = true := by
          simp only [Bool.or_eq_true] at hal
          rcases hal with hal | hal
          · simp [isIdentChar, isAlphanumeric, hal]
          · have : c = '#' := by simpa using hal
            subst this; decide
        simp [List.takeWhile_cons, List.dropWhile_cons, hc] at hlen ⊢
        have := dropWhile_length_le isIdentChar cs
        omega
    · split at h
      · cases h; simp
      · split at h
        · split at h
          · cases h; simp
          · cases h
        · split at h
          · split at h <;> (cases h; simp)
          · split at h
            · split at h <;> (cases h; simp)
            · split at h
              · cases h; simp
              · split at h
                · cases h; simp
                · split at h
                  · cases h; simp
                  · cases h

/-- With fuel above the input length the loop never runs out of fuel. -/
theorem tokLoop_no_panic (fuel : Nat) (s : Str) (acc : List Token) (h : s.length < fuel) :
    ∀ site, tokLoop fuel s acc ≠ .error (.panic site) := by
  induction fuel generalizing s acc with
  | zero => omega
  | succ n ih =>
    intro site
    cases s with
    | nil => simp [tokLoop]
    | cons c cs =>
      simp only [tokLoop]
      cases hstep : tokStep c cs with
      | error e =>
        simp only []
        intro hcontra
        cases hcontra
        -- tokStep never produces a panic value
        unfold tokStep at hstep
        simp only at hstep
        repeat' (split at hstep)
        all_goals (first | cases hstep | skip)
      | ok r =>
        obtain ⟨t, rest⟩ := r
        have hp := tokStep_progress c cs t rest hstep
        simp at h
        cases t with
        | none => exact ih rest acc (by omega) site
        | some tk => exact ih rest (tk :: acc) (by omega) site

end Tau
