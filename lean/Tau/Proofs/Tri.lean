import Tau.Base
/-
  Helper lemmas about the three-valued tables (no model dependencies).
-/
namespace Tau
namespace Tri

@[simp] theorem or_nil : Tri.or [] = .m := rfl
@[simp] theorem and_nil : Tri.and [] = .t := rfl

theorem or_cons (x : Tri) (xs : List Tri) :
    Tri.or (x :: xs) =
      match x with
      | .t => .t
      | .f => (match Tri.or xs with | .t => .t | _ => .f)
      | .m => Tri.or xs := by
  cases x <;> simp [Tri.or, List.any_cons]
  by_cases h1 : Tri.t ∈ xs <;> by_cases h2 : Tri.f ∈ xs <;> simp [h1, h2]

theorem and_cons (x : Tri) (xs : List Tri) :
    Tri.and (x :: xs) = match x with | .t => Tri.and xs | r => r := by
  cases x <;> simp [Tri.and]

theorem or_eq_t_iff (xs : List Tri) : Tri.or xs = .t ↔ .t ∈ xs := by
  unfold Tri.or
  by_cases h : xs.any (· == .t)
  · simp [h]; simpa [List.any_eq_true] using h
  · simp [h]
    constructor
    · intro h2; split at h2 <;> simp at h2
    · intro h2; exact absurd (List.any_eq_true.mpr ⟨_, h2, by simp⟩) h

theorem and_eq_t_iff (xs : List Tri) : Tri.and xs = .t ↔ ∀ x ∈ xs, x = .t := by
  induction xs with
  | nil => simp
  | cons x xs ih =>
    rw [and_cons]
    cases x <;> simp [ih]

/-- `or` does not depend on the order of its operands (exactly, as a three-valued result). -/
theorem or_perm {xs ys : List Tri} (h : xs.Perm ys) : Tri.or xs = Tri.or ys := by
  unfold Tri.or
  rw [h.any_eq, h.any_eq]

/-- Whether an `and` is true does not depend on the order of its operands. -/
theorem and_t_perm {xs ys : List Tri} (h : xs.Perm ys) : (Tri.and xs = .t) ↔ (Tri.and ys = .t) := by
  rw [and_eq_t_iff, and_eq_t_iff]
  constructor
  · intro hx y hy; exact hx y (h.mem_iff.mpr hy)
  · intro hy x hx; exact hy x (h.mem_iff.mp hx)

theorem count_perm {xs ys : List Tri} (h : xs.Perm ys) : Tri.count xs = Tri.count ys := by
  unfold Tri.count; exact h.countP_eq _

/-- `of(.., n)` does not depend on the order of its operands. -/
theorem ofN_perm (n : Nat) {xs ys : List Tri} (h : xs.Perm ys) : Tri.ofN n xs = Tri.ofN n ys := by
  unfold Tri.ofN
  rw [h.any_eq, h.any_eq, count_perm h]

theorem not_not_of_ne_m (x : Tri) (h : x ≠ .m) : x.not.not = x := by
  cases x <;> simp_all [Tri.not]

end Tri
end Tau

namespace List
/-- Pointwise "true exactly when" relation between two operand-result lists. -/
inductive Forall₂' : List Tau.Tri → List Tau.Tri → Prop where
  | nil : Forall₂' [] []
  | cons {x y xs ys} : ((x = Tau.Tri.t) ↔ (y = Tau.Tri.t)) → Forall₂' xs ys → Forall₂' (x :: xs) (y :: ys)
end List
