import Tau.Tokeniser
import Tau.Proofs.Tokeniser
import Tau.Proofs.PrattPP
/-
  The tokeniser half of the condition round trip: the text of a token list, written with one blank
  after every token (none between a keyword such as `all` / `int` and its parenthesis), tokenises
  back to exactly that token list.
-/
set_option linter.unusedSimpArgs false
namespace Tau

def opText : BoolSym → Str
  | .and => "and".toList | .or => "or".toList | .eq => "==".toList
  | .gt => ">".toList | .ge => ">=".toList | .lt => "<".toList | .le => "<=".toList

def modText : ModSym → Str
  | .int => "int".toList | .flt => "flt".toList | .str => "str".toList | .not => "not".toList

/-- The text of one token (`num` = the decimal text chosen for an integer literal). -/
def tokText (num : Int → Str) : Token → Str
  | .ident s => s ++ [' ']
  | .op o => opText o ++ [' ']
  | .miscNot => "not ".toList
  | .lparen => "( ".toList
  | .rparen => ") ".toList
  | .comma => ", ".toList
  | .matchAll => "all".toList
  | .matchOf => "of".toList
  | .modifier m => modText m
  | .int i => num i ++ [' ']
  | .float _ => []

def render (num : Int → Str) : List Token → Str
  | [] => []
  | t :: ts => tokText num t ++ render num ts

/-- A name the tokeniser reads back as one identifier. -/
def goodName (s : Str) : Prop :=
  (∃ c cs, s = c :: cs ∧ isAsciiAlpha c = true) ∧ (∀ c ∈ s, isIdentChar c = true) ∧
  s ≠ "and".toList ∧ s ≠ "or".toList ∧ s ≠ "not".toList

theorem span_takeWhile {α} (p : α → Bool) (a : List α) (b : α) (r : List α) (ha : ∀ c ∈ a, p c = true)
    (hb : p b = false) : (a ++ b :: r).takeWhile p = a ∧ (a ++ b :: r).dropWhile p = b :: r := by
  induction a with
  | nil => simp [List.takeWhile, List.dropWhile, hb]
  | cons x xs ih =>
    have hx := ha x (by simp)
    have := ih (fun c hc => ha c (by simp [hc]))
    simp [List.takeWhile, List.dropWhile, hx, this.1, this.2]

theorem isIdentChar_space : isIdentChar ' ' = false := by decide
theorem isIdentChar_lparen : isIdentChar '(' = false := by decide

/-- A keyword ending in `(` never matches text that continues an identifier with a blank. -/
theorem no_prefix_paren (w name rest : Str) (hn : ∀ c ∈ name, isIdentChar c = true)
    (hw : ∀ c ∈ w, c ≠ ' ') : (w ++ ['(']).isPrefixOf (name ++ ' ' :: rest) = false := by
  induction w generalizing name with
  | nil =>
    cases name with
    | nil => simp [List.isPrefixOf]
    | cons c cs =>
      have hc := hn c (by simp)
      simp only [List.nil_append, List.cons_append, List.isPrefixOf, Bool.and_eq_false_imp]
      intro h
      have : c = '(' := by have := h; simp at this; exact this.symm
      subst this
      exact absurd hc (by decide)
  | cons a w ih =>
    cases name with
    | nil =>
      have ha := hw a (by simp)
      simp only [List.nil_append, List.cons_append, List.isPrefixOf, Bool.and_eq_false_imp]
      intro h
      exact absurd (by simpa using h) ha
    | cons c cs =>
      simp only [List.cons_append, List.isPrefixOf, Bool.and_eq_false_imp]
      intro _
      exact ih cs (fun x hx => hn x (by simp [hx])) (fun x hx => hw x (by simp [hx]))

/-- A keyword ending in a blank matches such text only if the name is the keyword word itself. -/
theorem prefix_space (w name rest : Str) (hn : ∀ c ∈ name, isIdentChar c = true)
    (hw : ∀ c ∈ w, c ≠ ' ')
    (h : (w ++ [' ']).isPrefixOf (name ++ ' ' :: rest) = true) : name = w := by
  induction w generalizing name with
  | nil =>
    cases name with
    | nil => rfl
    | cons c cs =>
      simp only [List.nil_append, List.cons_append, List.isPrefixOf, Bool.and_eq_true] at h
      have : c = ' ' := by have := h.1; simp at this; exact this.symm
      subst this
      exact absurd (hn ' ' (by simp)) (by decide)
  | cons a w ih =>
    cases name with
    | nil =>
      simp only [List.nil_append, List.cons_append, List.isPrefixOf, Bool.and_eq_true] at h
      exact absurd (by simpa using h.1) (hw a (by simp))
    | cons c cs =>
      simp only [List.cons_append, List.isPrefixOf, Bool.and_eq_true] at h
      have hac : a = c := by simpa using h.1
      rw [hac, ih cs (fun x hx => hn x (by simp [hx])) (fun x hx => hw x (by simp [hx])) h.2]


theorem findKeyword_goodName (name rest : Str) (hn : ∀ c ∈ name, isIdentChar c = true)
    (h1 : name ≠ "and".toList) (h2 : name ≠ "or".toList) (h3 : name ≠ "not".toList) :
    findKeyword (name ++ ' ' :: rest) = none := by
  have P : ∀ w : Str, (∀ c ∈ w, c ≠ ' ') → matchAhead (name ++ ' ' :: rest) (w ++ ['(']) = false :=
    fun w hw => no_prefix_paren w name rest hn hw
  have S : ∀ w : Str, (∀ c ∈ w, c ≠ ' ') → name ≠ w → matchAhead (name ++ ' ' :: rest) (w ++ [' ']) = false := by
    intro w hw hne
    cases h : matchAhead (name ++ ' ' :: rest) (w ++ [' ']) with
    | false => rfl
    | true => exact absurd (prefix_space w name rest hn hw h) hne
  have k1 := P "flt".toList (by decide)
  have k2 := P "int".toList (by decide)
  have k3 := P "string".toList (by decide)
  have k4 := P "str".toList (by decide)
  have k5 := S "and".toList (by decide) h1
  have k6 := S "or".toList (by decide) h2
  have k7 := S "not".toList (by decide) h3
  have k8 := P "not".toList (by decide)
  have k9 := P "all".toList (by decide)
  have k10 := P "of".toList (by decide)
  have e1 : "flt(".toList = "flt".toList ++ ['('] := by decide
  have e2 : "int(".toList = "int".toList ++ ['('] := by decide
  have e3 : "string(".toList = "string".toList ++ ['('] := by decide
  have e4 : "str(".toList = "str".toList ++ ['('] := by decide
  have e5 : "and ".toList = "and".toList ++ [' '] := by decide
  have e6 : "or ".toList = "or".toList ++ [' '] := by decide
  have e7 : "not ".toList = "not".toList ++ [' '] := by decide
  have e8 : "not(".toList = "not".toList ++ ['('] := by decide
  have e9 : "all(".toList = "all".toList ++ ['('] := by decide
  have e10 : "of(".toList = "of".toList ++ ['('] := by decide
  simp only [findKeyword, keywords, List.find?, e1, e2, e3, e4, e5, e6, e7, e8, e9, e10,
    k1, k2, k3, k4, k5, k6, k7, k8, k9, k10]

/-- An identifier followed by a blank is read back as that identifier. -/
theorem tokStep_ident (c : Char) (cs rest : Str) (hg : goodName (c :: cs)) :
    tokStep c (cs ++ ' ' :: rest) = .ok (some (.ident (c :: cs)), ' ' :: rest) := by
  obtain ⟨⟨c', cs', he, ha⟩, hn, h1, h2, h3⟩ := hg
  cases he
  have hfk := findKeyword_goodName (c :: cs) rest hn h1 h2 h3
  have hsp := span_takeWhile isIdentChar (c :: cs) ' ' rest hn isIdentChar_space
  simp only [List.cons_append] at hfk hsp
  have hnd : (c == '.' || c == '-' || isAsciiDigit c) = false := by
    simp only [isAsciiAlpha, isAsciiLower, isAsciiUpper, Bool.or_eq_true, Bool.and_eq_true, decide_eq_true_eq] at ha
    simp only [isAsciiDigit, Bool.or_eq_false_iff, Bool.and_eq_false_imp, beq_eq_false_iff_ne, ne_eq, decide_eq_true_eq, decide_eq_false_iff_not, Char.not_le]
    rcases ha with ⟨h1, h2⟩ | ⟨h1, h2⟩
    · refine ⟨⟨?_, ?_⟩, fun _ => ?_⟩
      · intro h; subst h; exact absurd h1 (by decide)
      · intro h; subst h; exact absurd h1 (by decide)
      · exact Char.lt_def.mpr (UInt32.lt_of_lt_of_le (by decide) (Char.le_def.mp h1))
    · refine ⟨⟨?_, ?_⟩, fun _ => ?_⟩
      · intro h; subst h; exact absurd h1 (by decide)
      · intro h; subst h; exact absurd h1 (by decide)
      · exact Char.lt_def.mpr (UInt32.lt_of_lt_of_le (by decide) (Char.le_def.mp h1))
  unfold tokStep
  simp only [hnd, Bool.false_eq_true, if_false, ha, Bool.true_or, if_true, hfk, hsp.1, hsp.2]


/-- The decimal text chosen for an integer literal reads back as that integer. -/
def numOK (num : Int → Str) (i : Int) : Prop :=
  (∃ d ds, num i = d :: ds ∧ isAsciiDigit d = true) ∧ (∀ c ∈ num i, isAsciiDigit c = true) ∧
  parseI64 (num i) = some i

theorem digit_isNumChar (c : Char) (h : isAsciiDigit c = true) : isNumChar c = true := by
  simp [isNumChar, isNumeric, h]

theorem digit_ne_dot (c : Char) (h : isAsciiDigit c = true) : c ≠ '.' := by
  intro hc; subst hc; exact absurd h (by decide)

theorem tokStep_int (num : Int → Str) (i : Int) (h : numOK num i) (d : Char) (ds rest : Str)
    (hd : num i = d :: ds) : tokStep d (ds ++ ' ' :: rest) = .ok (some (.int i), ' ' :: rest) := by
  obtain ⟨⟨d', ds', he, hdig⟩, hall, hparse⟩ := h
  rw [hd] at he hall hparse
  cases he
  have hsp := span_takeWhile isNumChar (d :: ds) ' ' rest (fun c hc => digit_isNumChar c (hall c hc)) (by decide)
  simp only [List.cons_append] at hsp
  have hnodot : (d :: ds).contains '.' = false := by
    rw [List.contains_eq_any_beq, List.any_eq_false]
    intro c hc
    have := digit_ne_dot c (hall c hc)
    cases hb : ('.' == c) with
    | false => simp
    | true => exact absurd (by simpa using hb : '.' = c).symm this
  unfold tokStep
  simp only [hdig, Bool.or_true, if_true, hsp.1, hsp.2, hnodot, Bool.false_eq_true, if_false, hparse]

theorem tokStep_space (rest : Str) : tokStep ' ' rest = .ok (none, rest) := by
  simp [tokStep, isAsciiDigit, isAsciiAlpha, isAsciiLower, isAsciiUpper, isTokWs]

theorem tokLoop_space (fuel : Nat) (rest : Str) (acc : List Token) :
    tokLoop (fuel + 1) (' ' :: rest) acc = tokLoop fuel rest acc := by
  simp only [tokLoop, tokStep_space]

theorem tokLoop_step (fuel : Nat) (c : Char) (cs rest : Str) (t : Token) (acc : List Token)
    (h : tokStep c cs = .ok (some t, rest)) :
    tokLoop (fuel + 1) (c :: cs) acc = tokLoop fuel rest (t :: acc) := by
  simp only [tokLoop, h]


theorem tokStep_lparen (rest : Str) : tokStep '(' rest = .ok (some .lparen, rest) := by
  simp [tokStep, isAsciiDigit, isAsciiAlpha, isAsciiLower, isAsciiUpper, isTokWs]
theorem tokStep_rparen (rest : Str) : tokStep ')' rest = .ok (some .rparen, rest) := by
  simp [tokStep, isAsciiDigit, isAsciiAlpha, isAsciiLower, isAsciiUpper, isTokWs]
theorem tokStep_comma (rest : Str) : tokStep ',' rest = .ok (some .comma, rest) := by
  simp [tokStep, isAsciiDigit, isAsciiAlpha, isAsciiLower, isAsciiUpper, isTokWs]

theorem tokStep_eq (rest : Str) : tokStep '=' ('=' :: rest) = .ok (some (.op .eq), rest) := by
  simp [tokStep, isAsciiDigit, isAsciiAlpha, isAsciiLower, isAsciiUpper, isTokWs]
theorem tokStep_ge (rest : Str) : tokStep '>' ('=' :: rest) = .ok (some (.op .ge), rest) := by
  simp [tokStep, isAsciiDigit, isAsciiAlpha, isAsciiLower, isAsciiUpper, isTokWs]
theorem tokStep_le (rest : Str) : tokStep '<' ('=' :: rest) = .ok (some (.op .le), rest) := by
  simp [tokStep, isAsciiDigit, isAsciiAlpha, isAsciiLower, isAsciiUpper, isTokWs]
theorem tokStep_gt (rest : Str) : tokStep '>' (' ' :: rest) = .ok (some (.op .gt), ' ' :: rest) := by
  simp [tokStep, isAsciiDigit, isAsciiAlpha, isAsciiLower, isAsciiUpper, isTokWs]
theorem tokStep_lt (rest : Str) : tokStep '<' (' ' :: rest) = .ok (some (.op .lt), ' ' :: rest) := by
  simp [tokStep, isAsciiDigit, isAsciiAlpha, isAsciiLower, isAsciiUpper, isTokWs]

theorem tokStep_and (rest : Str) : tokStep 'a' ('n' :: 'd' :: ' ' :: rest) = .ok (some (.op .and), ' ' :: rest) := by
  simp [tokStep, isAsciiDigit, isAsciiAlpha, isAsciiLower, isAsciiUpper, findKeyword, keywords, matchAhead, List.find?, List.isPrefixOf]
theorem tokStep_or (rest : Str) : tokStep 'o' ('r' :: ' ' :: rest) = .ok (some (.op .or), ' ' :: rest) := by
  simp [tokStep, isAsciiDigit, isAsciiAlpha, isAsciiLower, isAsciiUpper, findKeyword, keywords, matchAhead, List.find?, List.isPrefixOf]
theorem tokStep_not (rest : Str) : tokStep 'n' ('o' :: 't' :: ' ' :: rest) = .ok (some .miscNot, ' ' :: rest) := by
  simp [tokStep, isAsciiDigit, isAsciiAlpha, isAsciiLower, isAsciiUpper, findKeyword, keywords, matchAhead, List.find?, List.isPrefixOf]
theorem tokStep_all (rest : Str) : tokStep 'a' ('l' :: 'l' :: '(' :: rest) = .ok (some .matchAll, '(' :: rest) := by
  simp [tokStep, isAsciiDigit, isAsciiAlpha, isAsciiLower, isAsciiUpper, findKeyword, keywords, matchAhead, List.find?, List.isPrefixOf]
theorem tokStep_of (rest : Str) : tokStep 'o' ('f' :: '(' :: rest) = .ok (some .matchOf, '(' :: rest) := by
  simp [tokStep, isAsciiDigit, isAsciiAlpha, isAsciiLower, isAsciiUpper, findKeyword, keywords, matchAhead, List.find?, List.isPrefixOf]
theorem tokStep_mod (m : ModSym) (rest : Str) :
    ∃ c cs, modText m = c :: cs ∧ tokStep c (cs ++ '(' :: rest) = .ok (some (.modifier m), '(' :: rest) := by
  cases m with
  | int => exact ⟨'i', ['n', 't'], rfl, by simp [tokStep, isAsciiDigit, isAsciiAlpha, isAsciiLower, isAsciiUpper, findKeyword, keywords, matchAhead, List.find?, List.isPrefixOf]⟩
  | not => exact ⟨'n', ['o', 't'], rfl, by simp [tokStep, isAsciiDigit, isAsciiAlpha, isAsciiLower, isAsciiUpper, findKeyword, keywords, matchAhead, List.find?, List.isPrefixOf]⟩
  | flt => exact ⟨'f', ['l', 't'], rfl, by simp [tokStep, isAsciiDigit, isAsciiAlpha, isAsciiLower, isAsciiUpper, findKeyword, keywords, matchAhead, List.find?, List.isPrefixOf]⟩
  | str => exact ⟨'s', ['t', 'r'], rfl, by simp [tokStep, isAsciiDigit, isAsciiAlpha, isAsciiLower, isAsciiUpper, findKeyword, keywords, matchAhead, List.find?, List.isPrefixOf]⟩


/-- Token lists whose text is unambiguous: good identifier names, integer literals with a decimal
    text, and every keyword token (`all`, `of`, `int`, …) directly followed by its parenthesis. -/
inductive Renderable (num : Int → Str) : List Token → Prop
  | nil : Renderable num []
  | ident (s ts) : goodName s → Renderable num ts → Renderable num (.ident s :: ts)
  | op (o ts) : Renderable num ts → Renderable num (.op o :: ts)
  | miscNot (ts) : Renderable num ts → Renderable num (.miscNot :: ts)
  | lparen (ts) : Renderable num ts → Renderable num (.lparen :: ts)
  | rparen (ts) : Renderable num ts → Renderable num (.rparen :: ts)
  | comma (ts) : Renderable num ts → Renderable num (.comma :: ts)
  | int (i ts) : numOK num i → Renderable num ts → Renderable num (.int i :: ts)
  | matchAll (ts) : Renderable num (.lparen :: ts) → Renderable num (.matchAll :: .lparen :: ts)
  | matchOf (ts) : Renderable num (.lparen :: ts) → Renderable num (.matchOf :: .lparen :: ts)
  | modifier (m ts) : Renderable num (.lparen :: ts) → Renderable num (.modifier m :: .lparen :: ts)

theorem tokLoop_render (num : Int → Str) (ts : List Token) (h : Renderable num ts) :
    ∀ (fuel : Nat) (acc : List Token), 2 * ts.length + 1 ≤ fuel →
      tokLoop fuel (render num ts) acc = .ok (acc.reverse ++ ts) := by
  induction h with
  | nil =>
    intro fuel acc hf
    obtain ⟨f, rfl⟩ : ∃ f, fuel = f + 1 := ⟨fuel - 1, by omega⟩
    simp [render, tokLoop]
  | ident s ts hg _ ih =>
    intro fuel acc hf
    obtain ⟨f, rfl⟩ : ∃ f, fuel = f + 2 := ⟨fuel - 2, by simp at hf; omega⟩
    obtain ⟨⟨c, cs, rfl, _⟩, _⟩ := id hg
    have e : render num (.ident (c :: cs) :: ts) = c :: (cs ++ ' ' :: render num ts) := by
      simp [render, tokText]
    rw [e, tokLoop_step (f + 1) c _ _ _ acc (tokStep_ident c cs (render num ts) hg), tokLoop_space,
      ih f _ (by simp at hf; omega)]
    simp
  | op o ts _ ih =>
    intro fuel acc hf
    obtain ⟨f, rfl⟩ : ∃ f, fuel = f + 2 := ⟨fuel - 2, by simp at hf; omega⟩
    have hih := ih f (.op o :: acc) (by simp at hf; omega)
    cases o with
    | and =>
      have e : render num (.op .and :: ts) = 'a' :: 'n' :: 'd' :: ' ' :: render num ts := rfl
      rw [e, tokLoop_step (f + 1) _ _ _ _ acc (tokStep_and _), tokLoop_space, hih]; simp
    | or =>
      have e : render num (.op .or :: ts) = 'o' :: 'r' :: ' ' :: render num ts := rfl
      rw [e, tokLoop_step (f + 1) _ _ _ _ acc (tokStep_or _), tokLoop_space, hih]; simp
    | eq =>
      have e : render num (.op .eq :: ts) = '=' :: '=' :: ' ' :: render num ts := rfl
      rw [e, tokLoop_step (f + 1) _ _ _ _ acc (tokStep_eq _), tokLoop_space, hih]; simp
    | gt =>
      have e : render num (.op .gt :: ts) = '>' :: ' ' :: render num ts := rfl
      rw [e, tokLoop_step (f + 1) _ _ _ _ acc (tokStep_gt _), tokLoop_space, hih]; simp
    | ge =>
      have e : render num (.op .ge :: ts) = '>' :: '=' :: ' ' :: render num ts := rfl
      rw [e, tokLoop_step (f + 1) _ _ _ _ acc (tokStep_ge _), tokLoop_space, hih]; simp
    | lt =>
      have e : render num (.op .lt :: ts) = '<' :: ' ' :: render num ts := rfl
      rw [e, tokLoop_step (f + 1) _ _ _ _ acc (tokStep_lt _), tokLoop_space, hih]; simp
    | le =>
      have e : render num (.op .le :: ts) = '<' :: '=' :: ' ' :: render num ts := rfl
      rw [e, tokLoop_step (f + 1) _ _ _ _ acc (tokStep_le _), tokLoop_space, hih]; simp
  | miscNot ts _ ih =>
    intro fuel acc hf
    obtain ⟨f, rfl⟩ : ∃ f, fuel = f + 2 := ⟨fuel - 2, by simp at hf; omega⟩
    have e : render num (.miscNot :: ts) = 'n' :: 'o' :: 't' :: ' ' :: render num ts := rfl
    rw [e, tokLoop_step (f + 1) _ _ _ _ acc (tokStep_not _), tokLoop_space, ih f _ (by simp at hf; omega)]; simp
  | lparen ts _ ih =>
    intro fuel acc hf
    obtain ⟨f, rfl⟩ : ∃ f, fuel = f + 2 := ⟨fuel - 2, by simp at hf; omega⟩
    have e : render num (.lparen :: ts) = '(' :: ' ' :: render num ts := rfl
    rw [e, tokLoop_step (f + 1) _ _ _ _ acc (tokStep_lparen _), tokLoop_space, ih f _ (by simp at hf; omega)]; simp
  | rparen ts _ ih =>
    intro fuel acc hf
    obtain ⟨f, rfl⟩ : ∃ f, fuel = f + 2 := ⟨fuel - 2, by simp at hf; omega⟩
    have e : render num (.rparen :: ts) = ')' :: ' ' :: render num ts := rfl
    rw [e, tokLoop_step (f + 1) _ _ _ _ acc (tokStep_rparen _), tokLoop_space, ih f _ (by simp at hf; omega)]; simp
  | comma ts _ ih =>
    intro fuel acc hf
    obtain ⟨f, rfl⟩ : ∃ f, fuel = f + 2 := ⟨fuel - 2, by simp at hf; omega⟩
    have e : render num (.comma :: ts) = ',' :: ' ' :: render num ts := rfl
    rw [e, tokLoop_step (f + 1) _ _ _ _ acc (tokStep_comma _), tokLoop_space, ih f _ (by simp at hf; omega)]; simp
  | int i ts hn _ ih =>
    intro fuel acc hf
    obtain ⟨f, rfl⟩ : ∃ f, fuel = f + 2 := ⟨fuel - 2, by simp at hf; omega⟩
    obtain ⟨⟨d, ds, hd, _⟩, _⟩ := id hn
    have e : render num (.int i :: ts) = d :: (ds ++ ' ' :: render num ts) := by
      simp [render, tokText, hd]
    rw [e, tokLoop_step (f + 1) d _ _ _ acc (tokStep_int num i hn d ds (render num ts) hd), tokLoop_space,
      ih f _ (by simp at hf; omega)]
    simp
  | matchAll ts _ ih =>
    intro fuel acc hf
    obtain ⟨f, rfl⟩ : ∃ f, fuel = f + 1 := ⟨fuel - 1, by simp at hf; omega⟩
    have e : render num (.matchAll :: .lparen :: ts) = 'a' :: 'l' :: 'l' :: '(' :: ' ' :: render num ts := rfl
    have e2 : render num (.lparen :: ts) = '(' :: ' ' :: render num ts := rfl
    rw [e, tokLoop_step f _ _ _ _ acc (tokStep_all _), ← e2, ih f _ (by simp at hf ⊢; omega)]; simp
  | matchOf ts _ ih =>
    intro fuel acc hf
    obtain ⟨f, rfl⟩ : ∃ f, fuel = f + 1 := ⟨fuel - 1, by simp at hf; omega⟩
    have e : render num (.matchOf :: .lparen :: ts) = 'o' :: 'f' :: '(' :: ' ' :: render num ts := rfl
    have e2 : render num (.lparen :: ts) = '(' :: ' ' :: render num ts := rfl
    rw [e, tokLoop_step f _ _ _ _ acc (tokStep_of _), ← e2, ih f _ (by simp at hf ⊢; omega)]; simp
  | modifier m ts _ ih =>
    intro fuel acc hf
    obtain ⟨f, rfl⟩ : ∃ f, fuel = f + 1 := ⟨fuel - 1, by simp at hf; omega⟩
    obtain ⟨c, cs, hm, hstep⟩ := tokStep_mod m (' ' :: render num ts)
    have e : render num (.modifier m :: .lparen :: ts) = c :: (cs ++ '(' :: ' ' :: render num ts) := by
      simp [render, tokText, hm]
    have e2 : render num (.lparen :: ts) = '(' :: ' ' :: render num ts := rfl
    rw [e, tokLoop_step f _ _ _ _ acc hstep, ← e2, ih f _ (by simp at hf ⊢; omega)]; simp


theorem render_len (num : Int → Str) (ts : List Token) (h : Renderable num ts) :
    2 * ts.length ≤ (render num ts).length := by
  induction h with
  | nil => simp [render]
  | ident s ts hg _ ih =>
    obtain ⟨⟨c, cs, rfl, _⟩, _⟩ := hg
    simp [render, tokText] at ih ⊢; omega
  | op o ts _ ih => cases o <;> simp [render, tokText, opText] at ih ⊢ <;> omega
  | miscNot ts _ ih => simp [render, tokText] at ih ⊢; omega
  | lparen ts _ ih => simp [render, tokText] at ih ⊢; omega
  | rparen ts _ ih => simp [render, tokText] at ih ⊢; omega
  | comma ts _ ih => simp [render, tokText] at ih ⊢; omega
  | int i ts hn _ ih =>
    obtain ⟨⟨d, ds, hd, _⟩, _⟩ := hn
    simp [render, tokText, hd] at ih ⊢; omega
  | matchAll ts _ ih => simp [render, tokText] at ih ⊢; omega
  | matchOf ts _ ih => simp [render, tokText] at ih ⊢; omega
  | modifier m ts _ ih => cases m <;> simp [render, tokText, modText] at ih ⊢ <;> omega

/-- **Text ↦ tokens.** The text of a renderable token list tokenises back to it. -/
theorem tokenise_render (num : Int → Str) (ts : List Token) (h : Renderable num ts) :
    tokenise (render num ts) = .ok ts := by
  unfold tokenise
  have := tokLoop_render num ts h ((render num ts).length + 1) [] (by have := render_len num ts h; omega)
  simpa using this

theorem Renderable.append {num : Int → Str} {a b : List Token} (ha : Renderable num a) (hb : Renderable num b) :
    Renderable num (a ++ b) := by
  induction ha with
  | nil => exact hb
  | ident s ts hg _ ih => exact .ident s _ hg ih
  | op o ts _ ih => exact .op o _ ih
  | miscNot ts _ ih => exact .miscNot _ ih
  | lparen ts _ ih => exact .lparen _ ih
  | rparen ts _ ih => exact .rparen _ ih
  | comma ts _ ih => exact .comma _ ih
  | int i ts hn _ ih => exact .int i _ hn ih
  | matchAll ts _ ih => exact .matchAll _ ih
  | matchOf ts _ ih => exact .matchOf _ ih
  | modifier m ts _ ih => exact .modifier m _ ih

theorem Renderable.paren {num : Int → Str} {a : List Token} (ha : Renderable num a) :
    Renderable num (paren a) := by
  unfold Tau.paren
  exact .lparen _ (ha.append (.rparen _ .nil))

/-- Conditions whose text is unambiguous: good names, integer literals with a decimal text, no
    float literal (its text is the float printer's business). -/
def CmpArg.good (num : Int → Str) : CmpArg → Prop
  | .cast f _ => goodName f
  | .int i => numOK num i
  | .flt _ => False

def Cond.good (num : Int → Str) : Cond → Prop
  | .id i => goodName i
  | .cmp l _ r _ => l.good num ∧ r.good num
  | .all i => goodName i
  | .of i n => goodName i ∧ numOK num n
  | .not c => c.good num
  | .and a b => a.good num ∧ b.good num
  | .or a b => a.good num ∧ b.good num
  | .par c => c.good num

theorem CmpArg.pp_renderable (num : Int → Str) (a : CmpArg) (h : a.good num) : Renderable num a.pp := by
  cases a with
  | cast f m => exact .modifier m _ (.lparen _ (.ident f _ h (.rparen _ .nil)))
  | int i => exact .int i _ h .nil
  | flt b => exact h.elim

theorem Cond.pp_renderable (num : Int → Str) (c : Cond) (h : c.good num) : Renderable num c.pp := by
  induction c with
  | id i => exact .ident i _ h .nil
  | cmp l op r ok =>
    simp only [Cond.pp]
    exact (CmpArg.pp_renderable num l h.1).append (.op op _ (CmpArg.pp_renderable num r h.2))
  | all i => exact .matchAll _ (.lparen _ (.ident i _ h (.rparen _ .nil)))
  | of i n => exact .matchOf _ (.lparen _ (.ident i _ h.1 (.comma _ (.int n _ h.2 (.rparen _ .nil)))))
  | not c ih =>
    simp only [Cond.pp]
    refine .miscNot _ ?_
    split
    · exact ih h
    · exact (ih h).paren
  | and a b iha ihb =>
    simp only [Cond.pp]
    have ha : Renderable num (if a.prec ≥ 70 then a.pp else paren a.pp) := by
      split; exact iha h.1; exact (iha h.1).paren
    have hb : Renderable num (if b.prec > 70 then b.pp else paren b.pp) := by
      split; exact ihb h.2; exact (ihb h.2).paren
    exact ha.append (.op .and _ hb)
  | or a b iha ihb =>
    simp only [Cond.pp]
    have ha : Renderable num (if a.prec ≥ 80 then a.pp else paren a.pp) := by
      split; exact iha h.1; exact (iha h.1).paren
    have hb : Renderable num (if b.prec > 80 then b.pp else paren b.pp) := by
      split; exact ihb h.2; exact (ihb h.2).paren
    exact ha.append (.op .or _ hb)
  | par c ih => exact (ih h).paren

/-- **Condition text round trip.** The text of a condition — written with the parentheses the
    grammar requires, any redundant ones, and one blank after every token — tokenises and parses
    back to exactly the condition's tree. -/
theorem cond_text_round_trip (num : Int → Str) (c : Cond) (h : c.good num) :
    (match tokenise (render num c.pp) with
     | .ok ts => parse ts
     | .error e => .error e) = .ok c.toExpr := by
  rw [tokenise_render num c.pp (Cond.pp_renderable num c h)]
  exact parse_pp c

end Tau
