import Tau.Solver
import Tau.Optimiser
import Tau.Proofs.Frame
/-
  Signedness independence.  The adapters hand a non-negative integer over as `Value::UInt` (YAML,
  JSON, u8 … u64) or as `Value::Int` (i8 … i64, isize), depending on the Rust type that held it.
  `normV` rewrites every `UInt n` with n ≤ i64::MAX into `Int n`, at every depth; `normDoc` does it
  to whatever a document answers.  `norm_invariant`: no expression can tell a document from its
  normal form — every solver arm (searches through casts, comparisons and casts, the str()==str()
  edge case, nested blocks over objects and arrays, all()/of(), the matrix cache and the
  pass-through documents) gives the same three-valued result.  Hence two documents that differ only
  in the signedness of the integers they hold get the same verdict from every rule.
-/
set_option linter.unusedSimpArgs false
set_option linter.unusedVariables false
namespace Tau

mutual
def normV : Value → Value
  | .uint n => if (n : Int) ≤ i64Max then .int n else .uint n
  | .arr xs => .arr (normVs xs)
  | .obj kvs => .obj (normKvs kvs)
  | .null => .null
  | .bool b => .bool b
  | .flt b s => .flt b s
  | .int i => .int i
  | .str s => .str s
def normVs : List Value → List Value
  | [] => []
  | v :: vs => normV v :: normVs vs
def normKvs : List (Str × Value) → List (Str × Value)
  | [] => []
  | (k, v) :: rest => (k, normV v) :: normKvs rest
end

def normCache (c : List (Option Value)) : List (Option Value) := c.map (fun o => o.map normV)

def normDoc : Doc → Doc
  | .obj kvs => .obj (normKvs kvs)
  | .user f => .user (fun k => (f k).map normV)
  | .cache cells => .cache (normCache cells)
  | .pass v => .pass (v.map normV)

theorem normV_uint (n : Nat) :
    normV (.uint n) = if (n : Int) ≤ i64Max then .int n else .uint n := by simp [normV]

theorem normVs_eq_map (xs : List Value) : normVs xs = xs.map normV := by
  induction xs with
  | nil => rfl
  | cons x xs ih => simp [normVs, ih]

/-! ### find commutes with the normal form -/

theorem getKey_norm (kvs : List (Str × Value)) (k : Str) :
    getKey (normKvs kvs) k = (getKey kvs k).map normV := by
  induction kvs with
  | nil => rfl
  | cons x xs ih =>
    obtain ⟨k', v⟩ := x
    simp only [normKvs, getKey]
    split
    · rfl
    · exact ih

theorem findStep_norm (kvs : List (Str × Value)) (seg : Str) :
    findStep (normKvs kvs) seg = (findStep kvs seg).map normV := by
  unfold findStep
  cases hsi : segIndex seg with
  | none => simp only []; exact getKey_norm kvs seg
  | some p =>
    obtain ⟨name, idx⟩ := p
    cases idx with
    | none => rfl
    | some i =>
      simp only [getKey_norm]
      cases hg : getKey kvs name with
      | none => rfl
      | some v =>
        cases v with
        | uint n => rw [Option.map_some, normV_uint]; by_cases h : (n : Int) ≤ i64Max <;> simp [h]
        | arr a => simp only [Option.map_some, normV, normVs_eq_map, List.getElem?_map]
        | _ => simp [normV]

theorem findSegs_norm : ∀ (segs : List Str) (v : Value),
    findSegs (normV v) segs = (findSegs v segs).map normV := by
  intro segs
  induction segs with
  | nil => intro v; simp [findSegs]
  | cons seg rest ih =>
    intro v
    cases v <;> (try (simp only [normV, findSegs, Option.map_none]; done))
    case uint n => rw [normV_uint]; by_cases h : (n : Int) ≤ i64Max <;> simp [h, findSegs]
    case obj kvs =>
      simp only [normV, findSegs]
      rw [findStep_norm]
      cases hs : findStep kvs seg with
      | none => rfl
      | some w => simp only [Option.map_some]; exact ih w

theorem objFind_norm (kvs : List (Str × Value)) (key : Str) :
    objFind (normKvs kvs) key = (objFind kvs key).map normV := by
  unfold objFind
  have := findSegs_norm (splitOn '.' key) (.obj kvs)
  simpa [normV] using this

theorem find_norm (d : Doc) (k : Str) : (normDoc d).find k = (d.find k).map normV := by
  cases d with
  | obj kvs => exact objFind_norm kvs k
  | user f => rfl
  | cache cells =>
    cases k with
    | nil => rfl
    | cons c rest =>
      simp only [normDoc, Doc.find, normCache, List.getElem?_map]
      cases cells[c.toNat]? with
      | none => rfl
      | some o => cases o <;> rfl
  | pass v => rfl

/-! ### leaves -/

theorem intToStr_ofNat (n : Nat) : intToStr (n : Int) = natToStr n := by
  unfold intToStr natToStr
  rfl

theorem scalarText_norm (v : Value) : scalarText (normV v) = scalarText v := by
  cases v <;> (try (simp only [normV, scalarText]; done))
  case uint n => rw [normV_uint]; by_cases h : (n : Int) ≤ i64Max <;> simp [h, scalarText, intToStr_ofNat]

theorem valueToString_norm (v : Value) : valueToString (normV v) = valueToString v := by
  cases v <;> (try (simp only [normV, valueToString, scalarText]; done))
  case uint n => rw [normV_uint]; by_cases h : (n : Int) ≤ i64Max <;> simp [h, valueToString, scalarText, intToStr_ofNat]

theorem elemText_norm (c : Bool) (v : Value) : elemText c (normV v) = elemText c v := by
  cases v <;> (try (simp only [normV, elemText, scalarText]; done))
  case uint n => rw [normV_uint]; by_cases h : (n : Int) ≤ i64Max <;> simp [h, elemText, scalarText, intToStr_ofNat]

theorem onFieldValue_norm (c : Bool) (p : Str → Bool) (v : Value) :
    onFieldValue c p (normV v) = onFieldValue c p v := by
  cases v <;> (try (simp only [normV, onFieldValue, scalarText]; done))
  case uint n => rw [normV_uint]; by_cases h : (n : Int) ≤ i64Max <;> simp [h, onFieldValue, scalarText, intToStr_ofNat]
  case arr a =>
    simp only [normV, onFieldValue]
    rw [normVs_eq_map]
    simp only [List.any_map, Option.some.injEq]
    congr 1
    funext v
    simp only [Function.comp, elemText_norm]

theorem solveSearch_norm (E : RegexEngine) (d : Doc) (s : Search) (f : Str) (c : Bool) :
    solveSearch E (normDoc d) s f c = solveSearch E d s f c := by
  unfold solveSearch
  rw [find_norm]
  cases d.find f with
  | none => rfl
  | some v => simp only [Option.map_some, onFieldValue_norm]

theorem allAc_norm (d : Doc) (ctx : List MatchType) (ci : Bool) (f : Str) (c : Bool) :
    allAc (normDoc d) ctx ci f c = allAc d ctx ci f c := by
  unfold allAc
  rw [find_norm]
  cases d.find f with
  | none => rfl
  | some v => simp only [Option.map_some, onFieldValue_norm]

theorem allSet_norm (E : RegexEngine) (d : Doc) (ps : List Str) (ci : Bool) (f : Str) (c : Bool) :
    allSet E (normDoc d) ps ci f c = allSet E d ps ci f c := by
  unfold allSet
  rw [find_norm]
  cases d.find f with
  | none => rfl
  | some v => simp only [Option.map_some, onFieldValue_norm]

theorem ofAc_norm (E : RegexEngine) (d : Doc) (n : Nat) (ctx : List MatchType) (ci : Bool) (f : Str) (c : Bool) :
    ofAc E (normDoc d) n ctx ci f c = ofAc E d n ctx ci f c := by
  unfold ofAc
  rw [find_norm, solveSearch_norm]
  cases d.find f with
  | none => rfl
  | some v => simp only [Option.map_some, onFieldValue_norm]

theorem ofSet_norm (E : RegexEngine) (d : Doc) (n : Nat) (ps : List Str) (ci : Bool) (f : Str) (c : Bool) :
    ofSet E (normDoc d) n ps ci f c = ofSet E d n ps ci f c := by
  unfold ofSet
  rw [find_norm, solveSearch_norm]
  cases d.find f with
  | none => rfl
  | some v => simp only [Option.map_some, onFieldValue_norm]

/-! ### comparisons -/

def normO : Operand → Operand
  | .u n => if (n : Int) ≤ i64Max then .i n else .u n
  | .b x => .b x
  | .f x => .f x
  | .i x => .i x

theorem normO_u (n : Nat) : normO (.u n) = if (n : Int) ≤ i64Max then .i n else .u n := rfl

theorem toInt_normO (x : Operand) : (normO x).toInt? = x.toInt? := by
  cases x with
  | u n => rw [normO_u]; by_cases h : (n : Int) ≤ i64Max <;> simp [h, Operand.toInt?]
  | _ => rfl

theorem compareOp_normO (x y : Operand) (op : BoolSym) :
    compareOp (normO x) op (normO y) = compareOp x op y := by
  cases x with
  | u n =>
    cases y with
    | u m =>
      rw [normO_u, normO_u]
      by_cases h1 : (n : Int) ≤ i64Max <;> by_cases h2 : (m : Int) ≤ i64Max <;>
        simp [h1, h2, compareOp, Operand.toInt?]
    | _ => rw [normO_u]; by_cases h1 : (n : Int) ≤ i64Max <;> simp [h1, normO, compareOp, Operand.toInt?]
  | _ =>
    cases y with
    | u m => rw [normO_u]; by_cases h2 : (m : Int) ≤ i64Max <;> simp [h2, normO, compareOp, Operand.toInt?]
    | _ => rfl

theorem operand_norm (d : Doc) (e : Expr) :
    operand (normDoc d) e = (match operand d e with | .ok x => .ok (normO x) | .error r => .error r) := by
  cases e with
  | field f =>
    simp only [operand, find_norm]
    cases d.find f with
    | none => rfl
    | some v =>
      cases v with
      | uint n =>
        simp only [Option.map_some]; rw [normV_uint]
        by_cases h : (n : Int) ≤ i64Max <;> simp [h, normO]
      | _ => simp [normV, normO]
  | cast f m =>
    cases m with
    | int =>
      simp only [operand, find_norm]
      cases d.find f with
      | none => rfl
      | some v =>
        cases v with
        | uint n =>
          simp only [Option.map_some]; rw [normV_uint]
          by_cases h : (n : Int) ≤ i64Max <;> simp [h, normO]
        | flt b s =>
          simp only [Option.map_some, normV]
          by_cases h1 : (F64.isNaN b || F64.expo b == 2047) = true
          · simp [h1]
          · by_cases h2 : (decide (i64Min ≤ F64.roundToI64Exact b) && decide (F64.roundToI64Exact b ≤ i64Max)) = true <;>
              simp [h1, h2, normO]
        | str s => simp only [Option.map_some, normV]; cases parseI64 s <;> simp [normO]
        | bool b => simp [normV, normO]
        | _ => simp [normV, normO]
    | flt =>
      simp only [operand, find_norm]
      cases d.find f with
      | none => rfl
      | some v =>
        cases v with
        | uint n =>
          simp only [Option.map_some]; rw [normV_uint]
          by_cases h : (n : Int) ≤ i64Max <;> simp [h, normO]
        | str s => simp only [Option.map_some, normV]; cases F64.parse s <;> simp [normO]
        | _ => simp [normV, normO]
    | _ => simp [operand]
  | bool b => simp [operand, normO]
  | float b => simp [operand, normO]
  | int i => simp [operand, normO]
  | _ => simp [operand]

theorem solveCmp_norm (d : Doc) (l : Expr) (op : BoolSym) (r : Expr) :
    solveCmp (normDoc d) l op r = solveCmp d l op r := by
  unfold solveCmp
  split
  · rename_i lf rf
    simp only [find_norm]
    cases d.find lf with
    | none => rfl
    | some x =>
      simp only [Option.map_some, valueToString_norm]
      cases valueToString x with
      | none => rfl
      | some xs =>
        cases d.find rf with
        | none => rfl
        | some y => simp only [Option.map_some, valueToString_norm]
  · rename_i lf b
    simp only [find_norm]
    cases d.find lf with
    | none => rfl
    | some x =>
      cases x with
      | uint n => simp only [Option.map_some]; rw [normV_uint]; by_cases h : (n : Int) ≤ i64Max <;> simp [h]
      | _ => simp [normV]
  · rename_i lf
    simp only [find_norm]
    cases d.find lf with
    | none => rfl
    | some x =>
      cases x with
      | uint n => simp only [Option.map_some]; rw [normV_uint]; by_cases h : (n : Int) ≤ i64Max <;> simp [h]
      | _ => simp [normV]
  · simp only [operand_norm]
    cases operand d l with
    | error e => rfl
    | ok x =>
      cases operand d r with
      | error e => rfl
      | ok y => simp only [compareOp_normO]

/-! ### array elements, cache -/

theorem elemObjs_norm (a : List Value) : elemObjs (normVs a) = (elemObjs a).map normKvs := by
  induction a with
  | nil => rfl
  | cons v vs ih =>
    have hstep : ∀ w, (∀ kvs, w ≠ Value.obj kvs) → elemObjs (w :: normVs vs) = elemObjs (normVs vs) := by
      intro w hw
      cases w <;> simp [elemObjs] at hw ⊢
    have hstep' : ∀ w, (∀ kvs, w ≠ Value.obj kvs) → elemObjs (w :: vs) = elemObjs vs := by
      intro w hw
      cases w <;> simp [elemObjs] at hw ⊢
    cases v with
    | obj kvs => simp only [normVs, normV, elemObjs, List.filterMap_cons, List.map_cons] at ih ⊢; rw [ih]
    | uint n =>
      simp only [normVs]
      rw [normV_uint]
      by_cases h : (n : Int) ≤ i64Max
      · simp only [h, if_true]
        rw [hstep _ (by intro kvs hc; cases hc), hstep' _ (by intro kvs hc; cases hc)]; exact ih
      · simp only [h, if_false]
        rw [hstep _ (by intro kvs hc; cases hc), hstep' _ (by intro kvs hc; cases hc)]; exact ih
    | _ =>
      simp only [normVs, normV]
      rw [hstep _ (by intro kvs hc; cases hc), hstep' _ (by intro kvs hc; cases hc)]; exact ih

theorem cacheSet_norm (c : List (Option Value)) (i : Nat) (v : Value) :
    normCache (cacheSet c i v) = cacheSet (normCache c) i (normV v) := by
  unfold normCache cacheSet
  rw [List.map_set]
  rfl

theorem emptyCache_norm (cols : List Str) : normCache (emptyCache cols) = emptyCache cols := by
  unfold normCache emptyCache
  simp

/-- What the induction needs of the members: every strictly smaller expression is invariant on
    every document. -/
def InvBelow (E : RegexEngine) (K : IdentK) (n : Nat) : Prop :=
  ∀ (e : Expr), e.size ≤ n → ∀ d : Doc, solveG E K (normDoc d) e = solveG E K d e

theorem rowG_norm (E : RegexEngine) (K : IdentK) (n : Nat) (ih : InvBelow E K n) (d : Doc) (cols : List Str) :
    ∀ (row : List (Option Expr)) (i : Nat) (cache : List (Option Value)), Expr.size.sizeRow row ≤ n →
      rowG E K (normDoc d) cols row i (normCache cache) =
        ((rowG E K d cols row i cache).1, normCache (rowG E K d cols row i cache).2)
  | [], _, _, _ => by simp [rowG]
  | none :: cells, i, cache, hs => by
    simp only [rowG]
    exact rowG_norm E K n ih d cols cells (i + 1) cache (by simp only [Expr.size.sizeRow] at hs; omega)
  | some e :: cells, i, cache, hs => by
    simp only [Expr.size.sizeRow] at hs
    have he : e.size ≤ n := by omega
    have hc : Expr.size.sizeRow cells ≤ n := by omega
    simp only [rowG]
    have hci : ((normCache cache)[i]?).join = ((cache[i]?).join).map normV := by
      simp only [normCache, List.getElem?_map]
      cases cache[i]? with
      | none => rfl
      | some o => cases o <;> rfl
    rw [hci]
    cases hj : (cache[i]?).join with
    | some v0 =>
      simp only [Option.map_some]
      have := ih e he (.cache cache)
      simp only [normDoc] at this
      rw [this]
      cases solveG E K (.cache cache) e with
      | t => exact rowG_norm E K n ih d cols cells (i + 1) cache hc
      | f => rfl
      | m => rfl
    | none =>
      simp only [Option.map_none]
      cases cols[i]? with
      | none => rfl
      | some col =>
        simp only [find_norm]
        cases d.find col with
        | none => rfl
        | some v =>
          simp only [Option.map_some]
          rw [← cacheSet_norm]
          have := ih e he (.cache (cacheSet cache i v))
          simp only [normDoc] at this
          rw [this]
          cases solveG E K (.cache (cacheSet cache i v)) e with
          | t => exact rowG_norm E K n ih d cols cells (i + 1) _ hc
          | f => rfl
          | m => rfl

theorem rowsG_norm (E : RegexEngine) (K : IdentK) (n : Nat) (ih : InvBelow E K n) (d : Doc) (cols : List Str) :
    ∀ (rows : List (List (Option Expr))) (cache : List (Option Value)), Expr.size.sizeRows rows ≤ n →
      rowsG E K (normDoc d) cols rows (normCache cache) =
        ((rowsG E K d cols rows cache).1, normCache (rowsG E K d cols rows cache).2)
  | [], _, _ => by simp [rowsG]
  | row :: rows, cache, hs => by
    simp only [Expr.size.sizeRows] at hs
    simp only [rowsG]
    rw [rowG_norm E K n ih d cols row 0 cache (by omega)]
    simp only []
    rw [rowsG_norm E K n ih d cols rows _ (by omega)]

theorem rowsG_norm_fst (E : RegexEngine) (K : IdentK) (n : Nat) (ih : InvBelow E K n) (d : Doc) (cols : List Str)
    (rows : List (List (Option Expr))) (hs : Expr.size.sizeRows rows ≤ n) :
    (rowsG E K (normDoc d) cols rows (emptyCache cols)).1 = (rowsG E K d cols rows (emptyCache cols)).1 := by
  have := rowsG_norm E K n ih d cols rows (emptyCache cols) hs
  rw [emptyCache_norm] at this
  rw [this]

theorem passRowG_norm (E : RegexEngine) (K : IdentK) (n : Nat) (ih : InvBelow E K n) (v : Value) (cols : List Str) :
    ∀ (row : List (Option Expr)) (i : Nat), Expr.size.sizeRow row ≤ n →
      passRowG E K (normV v) cols row i = passRowG E K v cols row i
  | [], _, _ => by simp [passRowG]
  | none :: cells, i, hs => by
    simp only [passRowG]
    exact passRowG_norm E K n ih v cols cells (i + 1) (by simp only [Expr.size.sizeRow] at hs; omega)
  | some e :: cells, i, hs => by
    simp only [Expr.size.sizeRow] at hs
    have hrec := passRowG_norm E K n ih v cols cells (i + 1) (by omega)
    cases v with
    | obj kvs =>
      simp only [normV, passRowG] at hrec ⊢
      have hp : (cols[i]?).bind (objFind (normKvs kvs)) = ((cols[i]?).bind (objFind kvs)).map normV := by
        cases cols[i]? with
        | none => rfl
        | some c => simp only [Option.bind_some, objFind_norm]
      rw [hp]
      have := ih e (by omega) (.pass ((cols[i]?).bind (objFind kvs)))
      simp only [normDoc] at this
      rw [this]
      cases solveG E K (.pass ((cols[i]?).bind (objFind kvs))) e with
      | t => exact hrec
      | f => rfl
      | m => rfl
    | uint u =>
      rw [normV_uint] at hrec ⊢
      by_cases h : (u : Int) ≤ i64Max
      · simp only [h, if_true, passRowG] at hrec ⊢; exact hrec
      · simp only [h, if_false, passRowG] at hrec ⊢
    | _ => simp only [normV, passRowG] at hrec ⊢ <;> (first | done | exact hrec)

theorem nestedAllMatrixG_norm (E : RegexEngine) (K : IdentK) (n : Nat) (ih : InvBelow E K n) (a : List Value) (cols : List Str) :
    ∀ (rows : List (List (Option Expr))), Expr.size.sizeRows rows ≤ n →
      nestedAllMatrixG E K (normVs a) cols rows = nestedAllMatrixG E K a cols rows
  | [], _ => by simp [nestedAllMatrixG]
  | row :: rows, hs => by
    simp only [Expr.size.sizeRows] at hs
    simp only [nestedAllMatrixG]
    have : (normVs a).any (fun v => passRowG E K v cols row 0 == .t) = a.any (fun v => passRowG E K v cols row 0 == .t) := by
      rw [normVs_eq_map, List.any_map]
      congr 1
      funext v
      simp only [Function.comp, passRowG_norm E K n ih v cols row 0 (by omega)]
    rw [this, nestedAllMatrixG_norm E K n ih a cols rows (by omega)]

theorem nestedAllOrG_norm (E : RegexEngine) (K : IdentK) (n : Nat) (ih : InvBelow E K n) (objs : List (List (Str × Value))) :
    ∀ (es : List Expr), Expr.size.sizeL es ≤ n →
      nestedAllOrG E K (objs.map normKvs) es = nestedAllOrG E K objs es
  | [], _ => by simp [nestedAllOrG]
  | e :: es, hs => by
    simp only [Expr.size.sizeL] at hs
    simp only [nestedAllOrG, List.map_map]
    have : (objs.map ((fun kvs => solveG E K (.obj kvs) e) ∘ normKvs)) = objs.map (fun kvs => solveG E K (.obj kvs) e) := by
      congr 1
      funext kvs
      have := ih e (by omega) (.obj kvs)
      simpa [normDoc] using this
    rw [this, nestedAllOrG_norm E K n ih objs es (by omega)]

/-- The operands for which `Match` has a special arm. -/
def matchOwnArm : Expr → Bool
  | .ident _ | .group _ _ | .matrix _ _ => true
  | .search (.ac _ _) _ _ | .search (.regexSet _ _) _ _ => true
  | _ => false

theorem matchAll_ft (E : RegexEngine) (K : IdentK) (d : Doc) (x : Expr) (h : matchOwnArm x = false) :
    solveG E K d (.match .all x) = solveG E K d x := by
  cases x <;> simp [matchOwnArm] at h <;> (try (simp only [solveG]; done))
  rename_i s f c
  cases s <;> simp [matchOwnArm] at h <;> simp only [solveG]

theorem matchOf_ft (E : RegexEngine) (K : IdentK) (d : Doc) (c : Nat) (x : Expr) (h : matchOwnArm x = false) :
    solveG E K d (.match (.of c) x) = ofSingle c (solveG E K d x) := by
  cases x <;> simp [matchOwnArm] at h <;> (try (simp only [solveG]; done))
  rename_i s f cs
  cases s <;> simp [matchOwnArm] at h <;> simp only [solveG]

/-- The two forms of a nested block that have their own arm. -/
def nestedOwnArm : Expr → Bool
  | .match .all (.group .or _) => true
  | .match .all (.matrix _ _) => true
  | _ => false

theorem nested_otherwise (E : RegexEngine) (K : IdentK) (d : Doc) (f : Str) (x : Expr)
    (h : nestedOwnArm x = false) :
    solveG E K d (.nested f x) =
      (match d.find f with
        | none => Tri.m
        | some (.obj kvs) => solveG E K (.obj kvs) x
        | some (.arr a) => Tri.ofBool ((elemObjs a).any (fun kvs => solveG E K (.obj kvs) x == Tri.t))
        | some _ => Tri.f) := by
  cases x with
  | «match» k y =>
    cases k with
    | all =>
      cases y with
      | group op es => cases op <;> simp [nestedOwnArm] at h <;> simp only [solveG] <;> rfl
      | matrix cols rows => simp [nestedOwnArm] at h
      | _ => simp only [solveG] <;> rfl
    | of n => simp only [solveG] <;> rfl
  | _ => simp only [solveG] <;> rfl

/-- **Signedness independence of the solver.** -/
theorem norm_invariant (E : RegexEngine) (K : IdentK)
    (hKi : ∀ i d, K.ident i (normDoc d) = K.ident i d)
    (hKm : ∀ k i d, K.match k i (normDoc d) = K.match k i d) :
    ∀ (n : Nat), InvBelow E K n := by
  intro n
  induction n with
  | zero =>
    intro e hs
    cases e <;> simp [Expr.size] at hs
  | succ n ih =>
    intro e hs d
    have members : ∀ (es : List Expr), Expr.size.sizeL es ≤ n →
        ∀ x ∈ es, solveG E K (normDoc d) x = solveG E K d x := by
      intro es hsz x hx
      exact ih x (by have := size_mem_lt es x hx; omega) d
    cases e with
    | group op es =>
      simp only [Expr.size] at hs
      have hm := members es (by omega)
      cases op <;> simp only [solveG]
      · exact andG_congr E K _ _ es hm
      · exact orG_congr E K _ _ es hm
    | bin l op r =>
      simp only [Expr.size] at hs
      cases op
      case and => simp only [solveG]; rw [ih l (by omega) d, ih r (by omega) d]
      case or => simp only [solveG]; rw [ih l (by omega) d, ih r (by omega) d]
      all_goals
        simp only [solveG]
        exact solveCmp_norm d l _ r
    | ident i => simp only [solveG]; exact hKi i d
    | «match» k x =>
      simp only [Expr.size] at hs
      cases k with
      | all =>
        cases x with
        | ident i => simp only [solveG]; exact hKm _ i d
        | group op es =>
          simp only [Expr.size] at hs
          simp only [solveG]
          exact andG_congr E K _ _ es (members es (by omega))
        | search s f c =>
          cases s <;> simp only [solveG, allAc_norm, allSet_norm, solveSearch_norm]
        | matrix cols rows =>
          simp only [Expr.size] at hs
          simp only [solveG]
          rw [rowsG_norm_fst E K n ih d cols rows (by omega)]
        | _ =>
          rw [matchAll_ft E K (normDoc d) _ rfl, matchAll_ft E K d _ rfl]
          exact ih _ (by simp only [Expr.size] at hs ⊢; omega) d
      | of c =>
        cases x with
        | ident i => simp only [solveG]; exact hKm _ i d
        | group op es =>
          simp only [Expr.size] at hs
          simp only [solveG]
          rw [listG_congr E K _ _ es (members es (by omega))]
        | search s f cst =>
          cases s <;> simp only [solveG, ofAc_norm, ofSet_norm, solveSearch_norm]
        | matrix cols rows =>
          simp only [Expr.size] at hs
          simp only [solveG]
          rw [rowsG_norm_fst E K n ih d cols rows (by omega)]
        | _ =>
          rw [matchOf_ft E K (normDoc d) _ _ rfl, matchOf_ft E K d _ _ rfl]
          rw [ih _ (by simp only [Expr.size] at hs ⊢; omega) d]
    | matrix cols rows =>
      simp only [Expr.size] at hs
      simp only [solveG]
      rw [rowsG_norm_fst E K n ih d cols rows (by omega)]
    | negate x =>
      simp only [Expr.size] at hs
      simp only [solveG]
      rw [ih x (by omega) d]
    | nested f x =>
      simp only [Expr.size] at hs
      -- the value found under `f`, and what the block does with an object / an array
      have hobj : ∀ (y : Expr) (kvs : List (Str × Value)), y.size ≤ n →
          solveG E K (.obj (normKvs kvs)) y = solveG E K (.obj kvs) y := by
        intro y kvs hy
        have := ih y hy (.obj kvs)
        simpa [normDoc] using this
      have generic : ∀ (y : Expr), y.size ≤ n →
          (match (normDoc d).find f with
            | none => Tri.m
            | some (.obj kvs) => solveG E K (.obj kvs) y
            | some (.arr a) => Tri.ofBool ((elemObjs a).any (fun kvs => solveG E K (.obj kvs) y == Tri.t))
            | some _ => Tri.f) =
          (match d.find f with
            | none => Tri.m
            | some (.obj kvs) => solveG E K (.obj kvs) y
            | some (.arr a) => Tri.ofBool ((elemObjs a).any (fun kvs => solveG E K (.obj kvs) y == Tri.t))
            | some _ => Tri.f) := by
        intro y hy
        rw [find_norm]
        cases d.find f with
        | none => rfl
        | some v =>
          cases v <;> simp only [Option.map_some, normV]
          case uint u => by_cases h : (u : Int) ≤ i64Max <;> simp [h]
          case obj kvs => exact hobj y kvs hy
          case arr a =>
            rw [elemObjs_norm, List.any_map]
            congr 2
            funext kvs
            simp only [Function.comp, hobj y kvs hy]
      by_cases hsp : nestedOwnArm x = true
      · cases x with
        | «match» k y =>
          cases k with
          | all =>
            cases y with
            | group op es =>
              cases op with
              | or =>
                simp only [Expr.size] at hs
                simp only [solveG, find_norm]
                cases d.find f with
                | none => rfl
                | some v =>
                  cases v <;> simp only [Option.map_some, normV]
                  case uint u => by_cases h : (u : Int) ≤ i64Max <;> simp [h]
                  case obj kvs =>
                    exact andG_congr E K _ _ es (fun x hx => hobj x kvs (by have := size_mem_lt es x hx; omega))
                  case arr a =>
                    rw [elemObjs_norm]
                    exact nestedAllOrG_norm E K n ih (elemObjs a) es (by omega)
              | _ => simp [nestedOwnArm] at hsp
            | matrix cols rows =>
              simp only [Expr.size] at hs
              simp only [solveG, find_norm]
              cases d.find f with
              | none => rfl
              | some v =>
                cases v <;> simp only [Option.map_some, normV]
                case uint u => by_cases h : (u : Int) ≤ i64Max <;> simp [h]
                case obj kvs =>
                  have := rowsG_norm_fst E K n ih (.obj kvs) cols rows (by omega)
                  simp only [normDoc] at this
                  rw [this]
                case arr a => exact nestedAllMatrixG_norm E K n ih a cols rows (by omega)
            | _ => simp [nestedOwnArm] at hsp
          | of c => simp [nestedOwnArm] at hsp
        | _ => simp [nestedOwnArm] at hsp
      · have hsp' : nestedOwnArm x = false := by simpa using hsp
        rw [nested_otherwise E K (normDoc d) f x hsp', nested_otherwise E K d f x hsp']
        exact generic x (by omega)
    | search s f c =>
      simp only [solveG]
      exact solveSearch_norm E d s f c
    | _ => simp only [solveG]

theorem closed_norm (E : RegexEngine) (d : Doc) (e : Expr) :
    solveClosed E (normDoc d) e = solveClosed E d e :=
  norm_invariant E closedK (fun _ _ => rfl) (fun _ _ _ => rfl) e.size e (Nat.le_refl _) d

theorem top_norm (E : RegexEngine) (ids : Ids) (d : Doc) (e : Expr) :
    solveTop E ids (normDoc d) e = solveTop E ids d e := by
  unfold solveTop
  refine norm_invariant E (topK E ids) ?_ ?_ e.size e (Nat.le_refl _) d
  · intro i d
    simp only [topK]
    cases lookupId ids i with
    | none => rfl
    | some b => exact closed_norm E d b
  · intro k i d
    simp only [topK]
    cases lookupId ids i with
    | none => rfl
    | some b => exact closed_norm E d (.match k b)

end Tau
