import Tau.Mapping
import Tau.Solver
import Tau.Proofs.Solver
/-
  Batching is invisible: a batched automaton / regex set is the three-valued `or` of its members
  evaluated one by one, and the group `parse_mapping` builds for a list is the `or` of the
  un-batched members.
-/
set_option linter.unusedSimpArgs false
namespace Tau

theorem triOfOpt_some (b : Bool) : triOfOpt (some b) = Tri.ofBool b := by cases b <;> rfl

theorem or_map_const_m {α} (xs : List α) : Tri.or (xs.map (fun _ => Tri.m)) = .m := by
  induction xs with
  | nil => rfl
  | cons x xs ih => rw [List.map_cons, Tri.or_cons]; exact ih

theorem or_map_bool {α} (xs : List α) (g : α → Bool) (hne : xs ≠ []) :
    Tri.or (xs.map (fun x => Tri.ofBool (g x))) = Tri.ofBool (xs.any g) := by
  induction xs with
  | nil => exact absurd rfl hne
  | cons x xs ih =>
    rw [List.map_cons, Tri.or_cons, List.any_cons]
    cases xs with
    | nil => cases g x <;> simp [Tri.ofBool]
    | cons y ys =>
      have := ih (by simp)
      rw [this]
      cases g x <;> cases (y :: ys).any g <;> rfl

theorem any_any_comm {α β} (a : List α) (qs : List β) (F : β → α → Bool) :
    a.any (fun v => qs.any (fun q => F q v)) = qs.any (fun q => a.any (fun v => F q v)) := by
  rw [Bool.eq_iff_iff]
  simp only [List.any_eq_true]
  constructor
  · rintro ⟨v, hv, q, hq, h⟩; exact ⟨q, hq, v, hv, h⟩
  · rintro ⟨q, hq, v, hv, h⟩; exact ⟨v, hv, q, hq, h⟩

/-- The shared field-value walk distributes over a disjunction of string tests. -/
theorem onFieldValue_any (c : Bool) (qs : List (Str → Bool)) (hne : qs ≠ []) (v : Value) :
    triOfOpt (onFieldValue c (fun h => qs.any (fun q => q h)) v) =
      Tri.or (qs.map (fun q => triOfOpt (onFieldValue c q v))) := by
  have text : ∀ x : Str, triOfOpt (some (qs.any (fun q => q x))) =
      Tri.or (qs.map (fun q => triOfOpt (some (q x)))) := fun x => by
    simp only [triOfOpt_some]; exact (or_map_bool qs (fun q => q x) hne).symm
  have none' : triOfOpt none = Tri.or (qs.map (fun _ => triOfOpt none)) := (or_map_const_m qs).symm
  cases v with
  | str x => exact text x
  | arr a =>
    simp only [onFieldValue, triOfOpt_some]
    have h1 := or_map_bool qs (fun q => a.any (fun v => match elemText c v with | some x => q x | none => false)) hne
    refine Eq.trans ?_ h1.symm
    congr 1
    rw [← any_any_comm]
    congr 1
    funext v
    cases elemText c v <;> simp
  | _ =>
    simp only [onFieldValue]
    cases c
    · simp only [Bool.false_eq_true, if_false]; exact none'
    · simp only [if_true]
      split
      · exact text _
      · exact none'


/-- A search whose string test is the disjunction of the tests of `ss` evaluates to the `or` of
    the searches `ss` on the same field (three-valued: missing field, wrong kind, arrays). -/
theorem search_any_or (E : RegexEngine) (d : Doc) (s : Search) (ss : List Search) (hne : ss ≠ [])
    (f : Str) (c : Bool) (hs : ∀ h, searchStr E s h = ss.any (fun s' => searchStr E s' h)) :
    solveSearch E d s f c = Tri.or (ss.map (fun s' => solveSearch E d s' f c)) := by
  unfold solveSearch
  cases d.find f with
  | none => exact (or_map_const_m ss).symm
  | some v =>
    simp only []
    have h1 : searchStr E s = fun h => (ss.map (searchStr E)).any (fun q => q h) := by
      funext h; rw [hs h, List.any_map]; rfl
    rw [h1, onFieldValue_any c (ss.map (searchStr E)) (by simpa using hne) v, List.map_map]
    rfl

theorem foldCase_false (s : Str) : foldCase false s = s := rfl

theorem relMT_false (mt : MatchType) (E : RegexEngine) (h : Str) :
    relMT false mt h = searchStr E (searchOfMatchType mt) h := by
  cases mt <;> rfl

/-- A case-sensitive automaton is the `or` of its members as single searches. -/
theorem ac_or (E : RegexEngine) (d : Doc) (ctx : List MatchType) (hne : ctx ≠ []) (f : Str) (c : Bool) :
    solveSearch E d (.ac ctx false) f c =
      Tri.or (ctx.map (fun mt => solveSearch E d (searchOfMatchType mt) f c)) := by
  rw [search_any_or E d (.ac ctx false) (ctx.map searchOfMatchType) (by simpa using hne) f c, List.map_map]
  · rfl
  · intro h
    simp only [searchStr, List.any_map]
    congr 1; funext mt; exact relMT_false mt E h

/-- A case-insensitive automaton is the `or` of the one-needle automatons of its members. -/
theorem iac_or (E : RegexEngine) (d : Doc) (ctx : List MatchType) (hne : ctx ≠ []) (f : Str) (c : Bool) :
    solveSearch E d (.ac ctx true) f c =
      Tri.or (ctx.map (fun mt => solveSearch E d (.ac [mt] true) f c)) := by
  rw [search_any_or E d (.ac ctx true) (ctx.map (fun mt => Search.ac [mt] true)) (by simpa using hne) f c,
    List.map_map]
  · rfl
  · intro h
    simp only [searchStr, List.any_map]
    congr 1; funext mt; simp

/-- A regex set is the `or` of its members as single regexes. -/
theorem set_or (E : RegexEngine) (d : Doc) (ps : List Str) (ci : Bool) (hne : ps ≠ []) (f : Str) (c : Bool) :
    solveSearch E d (.regexSet ps ci) f c =
      Tri.or (ps.map (fun p => solveSearch E d (.regex p ci) f c)) := by
  rw [search_any_or E d (.regexSet ps ci) (ps.map (fun p => Search.regex p ci)) (by simpa using hne) f c,
    List.map_map]
  · rfl
  · intro h
    simp only [searchStr, List.any_map]
    rfl


/-! ### The group built for a list -/

/-- One string member on its own: what `parse_mapping` builds for `f: <that string>`. -/
def unbatchOne (f : Str) (cast : Bool) (i : Ident) : Option Expr :=
  (searchOfPattern i.ci i.pat).map (fun s => Expr.search s f cast)

/-- The members of a list evaluated one by one, with no batching. -/
def unbatched (st : SeqSt) (f : Str) : List Expr :=
  (st.startsWith ++ st.contains ++ st.endsWith ++ st.exact ++ st.regex).filterMap (unbatchOne f st.cast)
    ++ st.rest

/-- Each bucket of the member loop holds patterns of its own kind only. -/
structure SeqSt.WF (st : SeqSt) : Prop where
  exact : ∀ i ∈ st.exact, ∃ s, i.pat = .exact s
  startsWith : ∀ i ∈ st.startsWith, ∃ s, i.pat = .startsWith s
  endsWith : ∀ i ∈ st.endsWith, ∃ s, i.pat = .endsWith s
  contains : ∀ i ∈ st.contains, ∃ s, i.pat = .contains s
  regex : ∀ i ∈ st.regex, ∃ p, i.pat = .regex p

section
variable (E : RegexEngine) (K : IdentK) (d : Doc)

/-- The `or` of the results of a list of members. -/
def V (es : List Expr) : Tri := Tri.or (es.map (solveG E K d))

theorem V_append (a b : List Expr) : V E K d (a ++ b) = binOr (V E K d a) (V E K d b) := by
  unfold V; rw [List.map_append]
  induction a.map (solveG E K d) with
  | nil => cases h : Tri.or (b.map (solveG E K d)) <;> simp [binOr, h]
  | cons x xs ih =>
    rw [List.cons_append, Tri.or_cons, Tri.or_cons x xs, ih]
    cases x <;> cases Tri.or xs <;> cases Tri.or (b.map (solveG E K d)) <;> rfl

theorem V_single_search (s : Search) (f : Str) (c : Bool) :
    V E K d [.search s f c] = solveSearch E d s f c := by
  unfold V; simp only [List.map_cons, List.map_nil, solveG]
  cases solveSearch E d s f c <;> rfl

theorem V_map_search {α} (xs : List α) (g : α → Search) (f : Str) (c : Bool) :
    V E K d (xs.map (fun x => Expr.search (g x) f c)) = Tri.or (xs.map (fun x => solveSearch E d (g x) f c)) := by
  unfold V; rw [List.map_map]; congr 1

theorem filterMap_eq_map {α β} (l : List α) (g : α → Option β) (h : α → β)
    (hh : ∀ x ∈ l, g x = some (h x)) : l.filterMap g = l.map h := by
  induction l with
  | nil => rfl
  | cons x xs ih =>
    rw [List.filterMap_cons, hh x (by simp), List.map_cons, ih (fun y hy => hh y (by simp [hy]))]

theorem searchOfPattern_lit_false (p : Pattern) (mt : MatchType) (h : matchTypeOf p = some mt) :
    searchOfPattern false p = some (searchOfMatchType mt) := by
  cases p <;> simp [matchTypeOf] at h <;> subst h <;> simp [searchOfPattern, searchOfMatchType]

theorem searchOfPattern_lit_true (p : Pattern) (mt : MatchType) (h : matchTypeOf p = some mt)
    (hne : ∀ s, p = .exact s → s ≠ []) :
    searchOfPattern true p = some (.ac [mt] true) := by
  cases p <;> simp [matchTypeOf] at h <;> subst h <;> simp [searchOfPattern]
  rename_i s
  exact hne s rfl

/-- Case-sensitive literal block. -/
theorem litBlock_V (L : List Ident) (f : Str) (c : Bool)
    (hci : ∀ i ∈ L, i.ci = false)
    (hk : ∀ i ∈ L, ∃ mt, matchTypeOf i.pat = some mt) :
    V E K d (litBlock (L.filterMap (fun i => matchTypeOf i.pat)) f c).1 = V E K d (L.filterMap (unbatchOne f c)) := by
  -- both sides as maps over the list of match types
  have hmt : ∀ i ∈ L, ∃ mt, matchTypeOf i.pat = some mt ∧
      unbatchOne f c i = some (Expr.search (searchOfMatchType mt) f c) := by
    intro i hi
    obtain ⟨mt, h⟩ := hk i hi
    refine ⟨mt, h, ?_⟩
    simp [unbatchOne, hci i hi, searchOfPattern_lit_false _ _ h]
  have hR : L.filterMap (unbatchOne f c) =
      (L.filterMap (fun i => matchTypeOf i.pat)).map (fun mt => Expr.search (searchOfMatchType mt) f c) := by
    clear hci hk
    induction L with
    | nil => rfl
    | cons x xs ih =>
      obtain ⟨mt, h1, h2⟩ := hmt x (by simp)
      rw [List.filterMap_cons, h2, List.filterMap_cons, h1, List.map_cons,
        ih (fun i hi => hmt i (by simp [hi]))]
  rw [hR]
  generalize L.filterMap (fun i => matchTypeOf i.pat) = ctx
  match ctx with
  | [] => rfl
  | [m] => rfl
  | m :: m' :: rest =>
    simp only [litBlock]
    rw [V_single_search, ac_or E d _ (by simp) f c, V_map_search]

/-- Case-insensitive literal block. -/
theorem ilitBlock_V (L : List Ident) (f : Str) (c : Bool)
    (hci : ∀ i ∈ L, i.ci = true)
    (hk : ∀ i ∈ L, ∃ mt, matchTypeOf i.pat = some mt ∧ ∀ s, i.pat = .exact s → s ≠ []) :
    V E K d (ilitBlock (L.filterMap (fun i => matchTypeOf i.pat)) f c).1 = V E K d (L.filterMap (unbatchOne f c)) := by
  have hmt : ∀ i ∈ L, ∃ mt, matchTypeOf i.pat = some mt ∧
      unbatchOne f c i = some (Expr.search (.ac [mt] true) f c) := by
    intro i hi
    obtain ⟨mt, h, hne⟩ := hk i hi
    refine ⟨mt, h, ?_⟩
    simp [unbatchOne, hci i hi, searchOfPattern_lit_true _ _ h hne]
  have hR : L.filterMap (unbatchOne f c) =
      (L.filterMap (fun i => matchTypeOf i.pat)).map (fun mt => Expr.search (.ac [mt] true) f c) := by
    clear hci hk
    induction L with
    | nil => rfl
    | cons x xs ih =>
      obtain ⟨mt, h1, h2⟩ := hmt x (by simp)
      rw [List.filterMap_cons, h2, List.filterMap_cons, h1, List.map_cons,
        ih (fun i hi => hmt i (by simp [hi]))]
  rw [hR]
  generalize L.filterMap (fun i => matchTypeOf i.pat) = ctx
  match ctx with
  | [] => rfl
  | m :: rest =>
    simp only [ilitBlock, List.isEmpty_cons, Bool.false_eq_true, if_false]
    rw [V_single_search, iac_or E d _ (by simp) f c, V_map_search]

/-- Regex block of one case flag. -/
theorem rxBlock_V (L : List Ident) (ci : Bool) (f : Str) (c : Bool)
    (hci : ∀ i ∈ L, i.ci = ci) (hk : ∀ i ∈ L, ∃ p, i.pat = .regex p) :
    V E K d (rxBlock (L.filterMap regexText) ci f c).1 = V E K d (L.filterMap (unbatchOne f c)) := by
  have hmt : ∀ i ∈ L, ∃ p, regexText i = some p ∧
      unbatchOne f c i = some (Expr.search (.regex p ci) f c) := by
    intro i hi
    obtain ⟨p, h⟩ := hk i hi
    refine ⟨p, ?_, ?_⟩
    · obtain ⟨ci', pat⟩ := i; simp only at h; subst h; rfl
    · simp [unbatchOne, hci i hi, h, searchOfPattern]
  have hR : L.filterMap (unbatchOne f c) =
      (L.filterMap regexText).map (fun p => Expr.search (.regex p ci) f c) := by
    clear hci hk
    induction L with
    | nil => rfl
    | cons x xs ih =>
      obtain ⟨p, h1, h2⟩ := hmt x (by simp)
      rw [List.filterMap_cons, h2, List.filterMap_cons, h1, List.map_cons,
        ih (fun i hi => hmt i (by simp [hi]))]
  rw [hR]
  generalize L.filterMap regexText = rs
  match rs with
  | [] => rfl
  | [r] => rfl
  | r :: r' :: rest =>
    simp only [rxBlock]
    rw [V_single_search, set_or E d _ ci (by simp) f c, V_map_search]

/-- Empty exact needles stay un-batched. -/
theorem emptyExact_V (L : List Ident) (f : Str) (c : Bool)
    (hk : ∀ i ∈ L, i.pat = .exact []) :
    L.map (fun _ => Expr.search (.exact []) f c) = L.filterMap (unbatchOne f c) := by
  symm
  apply filterMap_eq_map
  intro i hi
  simp [unbatchOne, hk i hi, searchOfPattern]

theorem V_perm {a b : List Expr} (h : a.Perm b) : V E K d a = V E K d b := by
  unfold V; exact Tri.or_perm (h.map _)

theorem V_congr_append {a a' b b' : List Expr} (ha : V E K d a = V E K d a') (hb : V E K d b = V E K d b') :
    V E K d (a ++ b) = V E K d (a' ++ b') := by
  rw [V_append, V_append, ha, hb]

theorem mt_of_kind (i : Ident) (h : (∃ s, i.pat = .startsWith s) ∨ (∃ s, i.pat = .contains s) ∨
    (∃ s, i.pat = .endsWith s) ∨ (∃ s, i.pat = .exact s)) : ∃ mt, matchTypeOf i.pat = some mt := by
  rcases h with ⟨s, h⟩ | ⟨s, h⟩ | ⟨s, h⟩ | ⟨s, h⟩ <;> rw [h] <;> exact ⟨_, rfl⟩

/-- **Batching is invisible.** The group the sequence branch builds for a list — empty needles,
    one automaton per case flag, one regex set per case flag, the rest — has, as a disjunction, the
    three-valued value of the members evaluated one by one in written bucket order; for every
    document and field value (missing, scalar, array, wrong kind). -/
theorem batch_or (st : SeqSt) (hwf : st.WF) (f : Str) :
    V E K d (batchMembers st f).1 = V E K d (unbatched st f) := by
  -- names for the pieces
  let ex0 := st.exact.filter isEmptyExact
  let ex1 := st.exact.filter isNonEmptyExact
  let all := st.startsWith ++ st.contains ++ st.endsWith ++ ex1
  let L1 := all.filter (fun i => !i.ci)
  let L2 := all.filter (fun i => i.ci)
  let R1 := st.regex.filter (fun i => !i.ci)
  let R2 := st.regex.filter (fun i => i.ci)
  have hb : (batchMembers st f).1 =
      ex0.map (fun _ => Expr.search (.exact []) f st.cast)
        ++ (litBlock (L1.filterMap (fun i => matchTypeOf i.pat)) f st.cast).1
        ++ (ilitBlock (L2.filterMap (fun i => matchTypeOf i.pat)) f st.cast).1
        ++ (rxBlock (R1.filterMap regexText) false f st.cast).1
        ++ (rxBlock (R2.filterMap regexText) true f st.cast).1 ++ st.rest := rfl
  -- kinds of the members of `all`
  have hall : ∀ i ∈ all, ∃ mt, matchTypeOf i.pat = some mt ∧ ∀ s, i.pat = .exact s → s ≠ [] := by
    intro i hi
    simp only [all, ex1, List.mem_append, List.mem_filter] at hi
    rcases hi with ((hi | hi) | hi) | ⟨hi, hne⟩
    · obtain ⟨s, h⟩ := hwf.startsWith i hi; exact ⟨_, by rw [h]; rfl, fun s' h' => by rw [h] at h'; cases h'⟩
    · obtain ⟨s, h⟩ := hwf.contains i hi; exact ⟨_, by rw [h]; rfl, fun s' h' => by rw [h] at h'; cases h'⟩
    · obtain ⟨s, h⟩ := hwf.endsWith i hi; exact ⟨_, by rw [h]; rfl, fun s' h' => by rw [h] at h'; cases h'⟩
    · obtain ⟨s, h⟩ := hwf.exact i hi
      refine ⟨_, by rw [h]; rfl, fun s' h' => ?_⟩
      rw [h] at h'; cases h'
      simp only [isNonEmptyExact, h] at hne
      intro hs; subst hs; simp at hne
  have h0 : ex0.map (fun _ => Expr.search (.exact []) f st.cast) = ex0.filterMap (unbatchOne f st.cast) := by
    apply emptyExact_V
    intro i hi
    simp only [ex0, List.mem_filter] at hi
    obtain ⟨s, h⟩ := hwf.exact i hi.1
    have := hi.2
    simp only [isEmptyExact, h] at this
    rw [h]; congr; exact List.isEmpty_iff.mp this
  have h1 := litBlock_V E K d L1 f st.cast
    (fun i hi => by simpa using (List.mem_filter.mp hi).2)
    (fun i hi => (hall i (List.mem_filter.mp hi).1).imp fun _ h => h.1)
  have h2 := ilitBlock_V E K d L2 f st.cast
    (fun i hi => by simpa using (List.mem_filter.mp hi).2)
    (fun i hi => hall i (List.mem_filter.mp hi).1)
  have h3 := rxBlock_V E K d R1 false f st.cast
    (fun i hi => by simpa using (List.mem_filter.mp hi).2)
    (fun i hi => hwf.regex i (List.mem_filter.mp hi).1)
  have h4 := rxBlock_V E K d R2 true f st.cast
    (fun i hi => by simpa using (List.mem_filter.mp hi).2)
    (fun i hi => hwf.regex i (List.mem_filter.mp hi).1)
  rw [hb, h0]
  have step : V E K d (ex0.filterMap (unbatchOne f st.cast)
        ++ (litBlock (L1.filterMap (fun i => matchTypeOf i.pat)) f st.cast).1
        ++ (ilitBlock (L2.filterMap (fun i => matchTypeOf i.pat)) f st.cast).1
        ++ (rxBlock (R1.filterMap regexText) false f st.cast).1
        ++ (rxBlock (R2.filterMap regexText) true f st.cast).1 ++ st.rest) =
      V E K d ((ex0 ++ L1 ++ L2 ++ R1 ++ R2).filterMap (unbatchOne f st.cast) ++ st.rest) := by
    simp only [List.filterMap_append]
    exact V_congr_append E K d (V_congr_append E K d (V_congr_append E K d (V_congr_append E K d
      (V_congr_append E K d rfl h1) h2) h3) h4) rfl
  rw [step]
  apply V_perm
  apply List.Perm.append_right
  apply List.Perm.filterMap
  -- the permutation of the buckets
  have pL : (L1 ++ L2).Perm all :=
    (List.perm_append_comm).trans (List.filter_append_perm (fun i => i.ci) all)
  have pR : (R1 ++ R2).Perm st.regex :=
    (List.perm_append_comm).trans (List.filter_append_perm (fun i => i.ci) st.regex)
  have hex1 : ex1 = st.exact.filter (fun i => !isEmptyExact i) := by
    apply List.filter_congr
    intro i hi
    obtain ⟨s, h⟩ := hwf.exact i hi
    simp [isNonEmptyExact, isEmptyExact, h]
  have pE : (ex0 ++ ex1).Perm st.exact := by
    rw [hex1]; exact List.filter_append_perm isEmptyExact st.exact
  have e1 : ex0 ++ L1 ++ L2 ++ R1 ++ R2 = ex0 ++ ((L1 ++ L2) ++ (R1 ++ R2)) := by
    simp only [List.append_assoc]
  rw [e1]
  refine ((pL.append pR).append_left ex0).trans ?_
  have e2 : ex0 ++ (all ++ st.regex) = (ex0 ++ all) ++ st.regex := by simp only [List.append_assoc]
  rw [e2]
  apply List.Perm.append_right
  -- ex0 ++ (P ++ ex1) ~ P ++ exact
  have e3 : all ++ ex0 = (st.startsWith ++ st.contains ++ st.endsWith) ++ (ex1 ++ ex0) := by
    simp only [all, List.append_assoc]
  exact (List.perm_append_comm.trans (e3 ▸ List.Perm.refl _)).trans
    (((List.perm_append_comm).trans pE).append_left _)

end

theorem wf_empty (c : Bool) : ({ cast := c } : SeqSt).WF :=
  { exact := fun _ hi => absurd hi (by simp)
    startsWith := fun _ hi => absurd hi (by simp)
    endsWith := fun _ hi => absurd hi (by simp)
    contains := fun _ hi => absurd hi (by simp)
    regex := fun _ hi => absurd hi (by simp) }

theorem mem_snoc {α} {x y : α} {l : List α} (h : x ∈ l ++ [y]) : x ∈ l ∨ x = y := by
  simpa using h

/-- The member loop keeps every bucket to its own pattern kind. -/
theorem parseMembers_wf (E : RegexEngine) (ic : Bool) (f : Str) (misc : Option ModSym) (lhs : Expr) :
    ∀ (vs : List Yaml) (st st' : SeqSt), parseMembers E ic f misc lhs vs st = .ok st' → st.WF → st'.WF
  | [], st, st', h, hs => by simp [parseMembers] at h; subst h; exact hs
  | v :: vs, st, st', h, hs => by
    have keep : ∀ st2 : SeqSt, st2.exact = st.exact → st2.startsWith = st.startsWith →
        st2.endsWith = st.endsWith → st2.contains = st.contains → st2.regex = st.regex → st2.WF :=
      fun st2 h1 h2 h3 h4 h5 => ⟨h1 ▸ hs.exact, h2 ▸ hs.startsWith, h3 ▸ hs.endsWith, h4 ▸ hs.contains, h5 ▸ hs.regex⟩
    cases v with
    | null =>
      simp only [parseMembers] at h
      exact parseMembers_wf E ic f misc lhs vs _ st' h (keep _ rfl rfl rfl rfl rfl)
    | bool b =>
      simp only [parseMembers] at h
      split at h
      · exact parseMembers_wf E ic f misc lhs vs _ st' h (keep _ rfl rfl rfl rfl rfl)
      · split at h
        · refine parseMembers_wf E ic f misc lhs vs _ st' h ⟨?_, hs.startsWith, hs.endsWith, hs.contains, hs.regex⟩
          intro i hi; rcases mem_snoc hi with hi | rfl
          · exact hs.exact i hi
          · exact ⟨_, rfl⟩
        · exact parseMembers_wf E ic f misc lhs vs _ st' h (keep _ rfl rfl rfl rfl rfl)
    | num n =>
      cases n with
      | int i =>
        simp only [parseMembers] at h
        split at h
        · refine parseMembers_wf E ic f misc lhs vs _ st' h ⟨?_, hs.startsWith, hs.endsWith, hs.contains, hs.regex⟩
          intro i hi; rcases mem_snoc hi with hi | rfl
          · exact hs.exact i hi
          · exact ⟨_, rfl⟩
        · exact parseMembers_wf E ic f misc lhs vs _ st' h (keep _ rfl rfl rfl rfl rfl)
      | big a b c =>
        simp only [parseMembers] at h
        split at h
        · cases h
        · split at h
          · refine parseMembers_wf E ic f misc lhs vs _ st' h ⟨?_, hs.startsWith, hs.endsWith, hs.contains, hs.regex⟩
            intro i hi; rcases mem_snoc hi with hi | rfl
            · exact hs.exact i hi
            · exact ⟨_, rfl⟩
          · exact parseMembers_wf E ic f misc lhs vs _ st' h (keep _ rfl rfl rfl rfl rfl)
      | flt b c =>
        simp only [parseMembers] at h
        split at h
        · cases h
        · split at h
          · refine parseMembers_wf E ic f misc lhs vs _ st' h ⟨?_, hs.startsWith, hs.endsWith, hs.contains, hs.regex⟩
            intro i hi; rcases mem_snoc hi with hi | rfl
            · exact hs.exact i hi
            · exact ⟨_, rfl⟩
          · exact parseMembers_wf E ic f misc lhs vs _ st' h (keep _ rfl rfl rfl rfl rfl)
    | tagged => simp [parseMembers] at h
    | seq xs => simp [parseMembers] at h
    | str s =>
      simp only [parseMembers] at h
      split at h
      · cases h
      · rename_i ident hid
        split at h
        · cases h
        · have hs' : (if misc == some ModSym.str then { st with cast := true } else st).WF := by
            split
            · exact keep _ rfl rfl rfl rfl rfl
            · exact hs
          revert h
          generalize (if misc == some ModSym.str then { st with cast := true } else st) = st1 at hs'
          cases hp : ident.pat with
          | exact _ =>
            simp only []; intro h
            refine parseMembers_wf E ic f misc lhs vs _ st' h ⟨?_, hs'.startsWith, hs'.endsWith, hs'.contains, hs'.regex⟩
            intro i hi; rcases mem_snoc hi with hi | rfl
            · exact hs'.exact i hi
            · exact ⟨_, hp⟩
          | startsWith _ =>
            simp only []; intro h
            refine parseMembers_wf E ic f misc lhs vs _ st' h ⟨hs'.exact, ?_, hs'.endsWith, hs'.contains, hs'.regex⟩
            intro i hi; rcases mem_snoc hi with hi | rfl
            · exact hs'.startsWith i hi
            · exact ⟨_, hp⟩
          | endsWith _ =>
            simp only []; intro h
            refine parseMembers_wf E ic f misc lhs vs _ st' h ⟨hs'.exact, hs'.startsWith, ?_, hs'.contains, hs'.regex⟩
            intro i hi; rcases mem_snoc hi with hi | rfl
            · exact hs'.endsWith i hi
            · exact ⟨_, hp⟩
          | contains _ =>
            simp only []; intro h
            refine parseMembers_wf E ic f misc lhs vs _ st' h ⟨hs'.exact, hs'.startsWith, hs'.endsWith, ?_, hs'.regex⟩
            intro i hi; rcases mem_snoc hi with hi | rfl
            · exact hs'.contains i hi
            · exact ⟨_, hp⟩
          | regex _ =>
            simp only []; intro h
            refine parseMembers_wf E ic f misc lhs vs _ st' h ⟨hs'.exact, hs'.startsWith, hs'.endsWith, hs'.contains, ?_⟩
            intro i hi; rcases mem_snoc hi with hi | rfl
            · exact hs'.regex i hi
            · exact ⟨_, hp⟩
          | any =>
            simp only []; intro h
            exact parseMembers_wf E ic f misc lhs vs _ st' h
              ⟨hs'.exact, hs'.startsWith, hs'.endsWith, hs'.contains, hs'.regex⟩
          | cmpI op i =>
            simp only []; intro h
            exact parseMembers_wf E ic f misc lhs vs _ st' h
              ⟨hs'.exact, hs'.startsWith, hs'.endsWith, hs'.contains, hs'.regex⟩
          | cmpF op b =>
            simp only []; intro h
            exact parseMembers_wf E ic f misc lhs vs _ st' h
              ⟨hs'.exact, hs'.startsWith, hs'.endsWith, hs'.contains, hs'.regex⟩
    | map m =>
      simp only [parseMembers] at h
      split at h
      · cases h
      · split at h
        · cases h
        · exact parseMembers_wf E ic f misc lhs vs _ st' h (keep _ rfl rfl rfl rfl rfl)


/-! ### A list is the `or` of its members taken one at a time -/

/-- Bucket-wise concatenation of two member-loop states. -/
def SeqSt.add (a b : SeqSt) : SeqSt :=
  { exact := a.exact ++ b.exact, startsWith := a.startsWith ++ b.startsWith,
    endsWith := a.endsWith ++ b.endsWith, contains := a.contains ++ b.contains,
    regex := a.regex ++ b.regex, rest := a.rest ++ b.rest,
    boolean := a.boolean || b.boolean, cast := a.cast, mapping := a.mapping || b.mapping,
    number := a.number || b.number, string := a.string || b.string }

/-- What one list member contributes to the state (`c` = the `str()` cast flag of the key). -/
def memberDelta (E : RegexEngine) (ic : Bool) (f : Str) (misc : Option ModSym) (lhs : Expr) (c : Bool) :
    Yaml → Except Err SeqSt
  | .bool b =>
    if misc == some .int then .ok { cast := c, number := true, rest := [.bin lhs .eq (.int (if b then 1 else 0))] }
    else if misc == some .str then .ok { cast := c, string := true, exact := [⟨false, .exact (boolToStr b)⟩] }
    else .ok { cast := c, boolean := true, rest := [.bin lhs .eq (.bool b)] }
  | .null => .ok { cast := c, rest := [.bin lhs .eq .null] }
  | .num (.int i) =>
    if misc == some .str then .ok { cast := c, string := true, exact := [⟨false, .exact (intToStr i)⟩] }
    else .ok { cast := c, number := true, rest := [.bin lhs .eq (.int i)] }
  | .num (.big _ bits shown) | .num (.flt bits shown) =>
    if misc == some .int then .error .parseInvalidIdent
    else if misc == some .str then .ok { cast := c, string := true, exact := [⟨false, .exact shown⟩] }
    else .ok { cast := c, number := true, rest := [.bin lhs .eq (.float bits)] }
  | .str s =>
    match intoIdentifier E ic s with
    | .error err => .error err
    | .ok ident =>
      match castCheck misc ident.pat with
      | .error err => .error err
      | .ok () =>
        match ident.pat with
        | .exact _ => .ok { cast := c, string := true, exact := [ident] }
        | .startsWith _ => .ok { cast := c, string := true, startsWith := [ident] }
        | .endsWith _ => .ok { cast := c, string := true, endsWith := [ident] }
        | .contains _ => .ok { cast := c, string := true, contains := [ident] }
        | .regex _ => .ok { cast := c, string := true, regex := [ident] }
        | .any => .ok { cast := c, string := true, rest := [.search .any f c] }
        | .cmpI op i => .ok { cast := c, number := true, rest := [.bin lhs op (.int i)] }
        | .cmpF op b => .ok { cast := c, number := true, rest := [.bin lhs op (.float b)] }
  | .map m =>
    if misc.isSome then .error .parseInvalidIdent else
    match finishMapping (parseEntries E ic m) with
    | .error err => .error err
    | .ok x => .ok { cast := c, mapping := true, rest := [.nested f x] }
  | _ => .error .parseInvalidIdent

theorem cast_noop (misc : Option ModSym) (st : SeqSt) (hc : st.cast = (misc == some .str)) :
    (if misc == some ModSym.str then { st with cast := true } else st) = st := by
  split
  · rename_i h
    obtain ⟨ex, sw, ew, co, rx, rest, bo, ca, ma, nu, sg⟩ := st
    simp only at hc
    simp only [SeqSt.mk.injEq, true_and, and_true]
    rw [hc, h]
  · rfl

/-- One iteration of the member loop adds the member's contribution. -/
theorem parseMembers_step (E : RegexEngine) (ic : Bool) (f : Str) (misc : Option ModSym) (lhs : Expr)
    (v : Yaml) (vs : List Yaml) (st : SeqSt) (hc : st.cast = (misc == some .str)) :
    parseMembers E ic f misc lhs (v :: vs) st =
      match memberDelta E ic f misc lhs st.cast v with
      | .error e => .error e
      | .ok δ => parseMembers E ic f misc lhs vs (st.add δ) := by
  cases v with
  | null => simp [parseMembers, memberDelta, SeqSt.add]
  | bool b =>
    simp only [parseMembers, memberDelta]
    split
    · simp [SeqSt.add]
    · split <;> simp [SeqSt.add]
  | num n =>
    cases n with
    | int i =>
      simp only [parseMembers, memberDelta]
      split <;> simp [SeqSt.add]
    | big a b c =>
      simp only [parseMembers, memberDelta]
      split
      · rfl
      · split <;> simp [SeqSt.add]
    | flt b c =>
      simp only [parseMembers, memberDelta]
      split
      · rfl
      · split <;> simp [SeqSt.add]
  | tagged => simp [parseMembers, memberDelta]
  | seq xs => simp [parseMembers, memberDelta]
  | str s =>
    simp only [parseMembers, memberDelta]
    cases intoIdentifier E ic s with
    | error e => rfl
    | ok ident =>
      simp only []
      cases castCheck misc ident.pat with
      | error e => rfl
      | ok u =>
        simp only [cast_noop misc st hc]
        cases ident.pat <;> simp [SeqSt.add]
  | map m =>
    simp only [parseMembers, memberDelta]
    split
    · rfl
    · cases finishMapping (parseEntries E ic m) with
      | error e => rfl
      | ok x => simp [SeqSt.add]


theorem add_empty (st : SeqSt) : st.add { cast := st.cast } = st := by
  obtain ⟨ex, sw, ew, co, rx, rest, bo, ca, ma, nu, sg⟩ := st
  simp [SeqSt.add]

theorem add_assoc' (st δ Δ : SeqSt) (c : Bool) :
    st.add ((({ cast := c } : SeqSt).add δ).add Δ) = (st.add δ).add Δ := by
  simp [SeqSt.add, List.append_assoc, Bool.or_assoc]

def exMap {α β} (g : α → β) : Except Err α → Except Err β
  | .error e => .error e
  | .ok a => .ok (g a)

/-- The member loop is a homomorphism: running it from a state adds what it computes from the
    empty state. -/
theorem parseMembers_hom (E : RegexEngine) (ic : Bool) (f : Str) (misc : Option ModSym) (lhs : Expr) :
    ∀ (vs : List Yaml) (st : SeqSt), st.cast = (misc == some .str) →
      parseMembers E ic f misc lhs vs st =
        exMap (st.add ·) (parseMembers E ic f misc lhs vs { cast := st.cast })
  | [], st, _ => by
    simp only [parseMembers, exMap, add_empty]
  | v :: vs, st, hc => by
    rw [parseMembers_step E ic f misc lhs v vs st hc,
      parseMembers_step E ic f misc lhs v vs { cast := st.cast } hc]
    simp only
    cases hδ : memberDelta E ic f misc lhs st.cast v with
    | error e => rfl
    | ok δ =>
      simp only
      rw [parseMembers_hom E ic f misc lhs vs (st.add δ) hc,
        parseMembers_hom E ic f misc lhs vs (({ cast := st.cast } : SeqSt).add δ) hc]
      have e1 : (st.add δ).cast = st.cast := rfl
      have e2 : ((({ cast := st.cast } : SeqSt).add δ)).cast = st.cast := rfl
      rw [e1, e2]
      cases parseMembers E ic f misc lhs vs { cast := st.cast } with
      | error e => rfl
      | ok Δ => simp only [exMap, add_assoc']


theorem or_cons'' (x : Tri) (xs : List Tri) : Tri.or (x :: xs) = binOr x (Tri.or xs) := by
  rw [Tri.or_cons]; cases x <;> cases Tri.or xs <;> rfl

theorem perm_interchange {α} (a1 b1 a2 b2 : List α) :
    ((a1 ++ b1) ++ (a2 ++ b2)).Perm ((a1 ++ a2) ++ (b1 ++ b2)) := by
  have e1 : (a1 ++ b1) ++ (a2 ++ b2) = a1 ++ ((b1 ++ a2) ++ b2) := by simp only [List.append_assoc]
  have e2 : (a1 ++ a2) ++ (b1 ++ b2) = a1 ++ ((a2 ++ b1) ++ b2) := by simp only [List.append_assoc]
  rw [e1, e2]
  exact (List.perm_append_comm.append_right b2).append_left a1

theorem unbatched_add (a b : SeqSt) (f : Str) (hc : b.cast = a.cast) :
    (unbatched (a.add b) f).Perm (unbatched a f ++ unbatched b f) := by
  unfold unbatched
  have hcast : (a.add b).cast = a.cast := rfl
  rw [hcast, hc]
  simp only [SeqSt.add]
  refine List.Perm.trans ?_ (perm_interchange _ _ _ _).symm
  apply List.Perm.append_right
  rw [← List.filterMap_append]
  apply List.Perm.filterMap
  refine ((((perm_interchange _ _ _ _).append_right _).trans (perm_interchange _ _ _ _)).append_right _
    |>.trans (perm_interchange _ _ _ _)).append_right _ |>.trans (perm_interchange _ _ _ _)

/-- What a member contributes when it is the only member of the list. -/
def memberAlone (E : RegexEngine) (ic : Bool) (f : Str) (misc : Option ModSym) (lhs : Expr) (v : Yaml) :
    List Expr :=
  match memberDelta E ic f misc lhs (misc == some .str) v with
  | .ok δ => unbatched δ f
  | .error _ => []

theorem memberDelta_cast (E : RegexEngine) (ic : Bool) (f : Str) (misc : Option ModSym) (lhs : Expr)
    (c : Bool) (v : Yaml) (δ : SeqSt) (h : memberDelta E ic f misc lhs c v = .ok δ) : δ.cast = c := by
  cases v with
  | null => simp [memberDelta] at h; subst h; rfl
  | bool b => simp only [memberDelta] at h; (repeat' split at h) <;> cases h <;> rfl
  | num n =>
    cases n <;> simp only [memberDelta] at h <;> (repeat' split at h) <;> cases h <;> rfl
  | tagged => simp [memberDelta] at h
  | seq xs => simp [memberDelta] at h
  | str s =>
    simp only [memberDelta] at h
    split at h
    · cases h
    · split at h
      · cases h
      · split at h <;> cases h <;> rfl
  | map m =>
    simp only [memberDelta] at h
    split at h
    · cases h
    · split at h <;> cases h; rfl

theorem parseMembers_cast (E : RegexEngine) (ic : Bool) (f : Str) (misc : Option ModSym) (lhs : Expr)
    (vs : List Yaml) (st st' : SeqSt) (hc : st.cast = (misc == some .str))
    (h : parseMembers E ic f misc lhs vs st = .ok st') : st'.cast = st.cast := by
  rw [parseMembers_hom E ic f misc lhs vs st hc] at h
  cases hp : parseMembers E ic f misc lhs vs { cast := st.cast } with
  | error e => rw [hp] at h; cases h
  | ok Δ => rw [hp] at h; simp only [exMap] at h; cases h; rfl

section
variable (E : RegexEngine) (K : IdentK) (d : Doc)

/-- **A list is the `or` of its members.** Whatever the member loop collected from the members
    `vs`, the un-batched state has the value of the members taken one at a time. -/
theorem members_or (ic : Bool) (f : Str) (misc : Option ModSym) (lhs : Expr) :
    ∀ (vs : List Yaml) (Δ : SeqSt),
      parseMembers E ic f misc lhs vs { cast := (misc == some .str) } = .ok Δ →
      V E K d (unbatched Δ f) = Tri.or (vs.map (fun v => V E K d (memberAlone E ic f misc lhs v)))
  | [], Δ, h => by
    simp only [parseMembers] at h; cases h
    rfl
  | v :: vs, Δ, h => by
    rw [parseMembers_step E ic f misc lhs v vs _ rfl] at h
    simp only at h
    cases hδ : memberDelta E ic f misc lhs (misc == some .str) v with
    | error e => rw [hδ] at h; cases h
    | ok δ =>
      rw [hδ] at h
      simp only at h
      have hδc := memberDelta_cast E ic f misc lhs _ v δ hδ
      rw [parseMembers_hom E ic f misc lhs vs _ rfl] at h
      have e2 : ((({ cast := (misc == some ModSym.str) } : SeqSt).add δ)).cast = (misc == some .str) := rfl
      rw [e2] at h
      cases hΔ' : parseMembers E ic f misc lhs vs { cast := (misc == some ModSym.str) } with
      | error e => rw [hΔ'] at h; cases h
      | ok Δ' =>
        rw [hΔ'] at h
        simp only [exMap] at h
        cases h
        have ih := members_or ic f misc lhs vs Δ' hΔ'
        have hΔ'c : Δ'.cast = (misc == some .str) :=
          parseMembers_cast E ic f misc lhs vs _ Δ' rfl hΔ'
        have hmem : memberAlone E ic f misc lhs v = unbatched δ f := by
          simp only [memberAlone, hδ]
        rw [List.map_cons, or_cons'', hmem, ← ih]
        have p1 := unbatched_add (({ cast := (misc == some ModSym.str) } : SeqSt).add δ) Δ' f hΔ'c
        have p2 := unbatched_add ({ cast := (misc == some ModSym.str) } : SeqSt) δ f hδc
        have e0 : unbatched ({ cast := (misc == some ModSym.str) } : SeqSt) f = [] := rfl
        rw [e0, List.nil_append] at p2
        rw [V_perm E K d (p1.trans (p2.append_right _)), V_append]
end

end Tau
