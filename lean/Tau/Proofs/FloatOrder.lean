import Tau.Num
/-
  The order key of `Tau.Num` against the real value of a binary64 pattern.

  The real value of a non-NaN pattern `b` is  (-1)^sign · m · 2^(e - 1075)  with
  m = mant (subnormal, e = 1) or 2^52 + mant (normal, e = expo); infinity is given the value of the
  next binade (larger than every finite value). `scaled b` is that value times 2^1074 — an integer,
  so "the mathematical relation" can be stated without rationals. `key_lt_iff` / `key_eq_iff`: the
  comparison the engine's model makes on bit patterns IS the comparison of the real values.
-/
namespace Tau.F64

/-- magnitude · 2^1074 of a pattern (sign ignored). -/
def magScaled (b : Nat) : Nat :=
  if expo b = 0 then mant b else (2 ^ 52 + mant b) * 2 ^ (expo b - 1)

/-- real value · 2^1074. -/
def scaled (b : Nat) : Int := if sign b then -(magScaled b : Int) else (magScaled b : Int)

theorem mant_lt (b : Nat) : mant b < 2 ^ 52 := Nat.mod_lt _ (by decide)

theorem mag_eq (b : Nat) : mag b = expo b * 2 ^ 52 + mant b := by
  unfold mag expo mant
  have e : (2 : Nat) ^ 63 = 2 ^ 52 * 2048 := by decide
  rw [e, Nat.mod_mul, Nat.mul_comm (b / 2 ^ 52 % 2048), Nat.add_comm]

/-- Strict monotonicity of `magScaled` in (expo, mant), the lexicographic order that `mag` is. -/
theorem magScaled_lt_of_expo_lt (a b : Nat) (h : expo a < expo b) : magScaled a < magScaled b := by
  unfold magScaled
  have ha := mant_lt a
  have hb0 : expo b ≠ 0 := by omega
  simp only [hb0, if_false]
  have hpow : 0 < 2 ^ (expo b - 1) := Nat.pow_pos (by decide)
  by_cases h0 : expo a = 0
  · simp only [h0, if_true]
    calc mant a < 2 ^ 52 := ha
      _ ≤ 2 ^ 52 + mant b := Nat.le_add_right _ _
      _ = (2 ^ 52 + mant b) * 1 := (Nat.mul_one _).symm
      _ ≤ (2 ^ 52 + mant b) * 2 ^ (expo b - 1) := Nat.mul_le_mul_left _ hpow
  · simp only [h0, if_false]
    have hle : expo a ≤ expo b - 1 := by omega
    have hp : 2 ^ (expo a - 1) * 2 = 2 ^ (expo a) := by
      have : expo a = (expo a - 1) + 1 := by omega
      conv => rhs; rw [this, Nat.pow_succ]
    have hmono : 2 ^ expo a ≤ 2 ^ (expo b - 1) := Nat.pow_le_pow_right (by decide) hle
    have hpa : 0 < 2 ^ (expo a - 1) := Nat.pow_pos (by decide)
    calc (2 ^ 52 + mant a) * 2 ^ (expo a - 1)
        < (2 ^ 52 + 2 ^ 52) * 2 ^ (expo a - 1) := Nat.mul_lt_mul_of_pos_right (by omega) hpa
      _ = 2 ^ 52 * (2 ^ (expo a - 1) * 2) := by
          rw [← Nat.two_mul, Nat.mul_comm 2 (2 ^ 52), Nat.mul_assoc, Nat.mul_comm 2]
      _ = 2 ^ 52 * 2 ^ expo a := by rw [hp]
      _ ≤ 2 ^ 52 * 2 ^ (expo b - 1) := Nat.mul_le_mul_left _ hmono
      _ ≤ (2 ^ 52 + mant b) * 2 ^ (expo b - 1) := Nat.mul_le_mul_right _ (Nat.le_add_right _ _)

theorem magScaled_lt_of_mant_lt (a b : Nat) (he : expo a = expo b) (h : mant a < mant b) :
    magScaled a < magScaled b := by
  unfold magScaled
  rw [he]
  by_cases h0 : expo b = 0
  · simp only [h0, if_true]; exact h
  · simp only [h0, if_false]
    exact Nat.mul_lt_mul_of_pos_right (by omega) (Nat.pow_pos (by decide))

theorem magScaled_eq_of (a b : Nat) (he : expo a = expo b) (hm : mant a = mant b) :
    magScaled a = magScaled b := by
  unfold magScaled; rw [he, hm]

/-- `mag a < mag b` exactly when the magnitude of the real value is smaller. -/
theorem mag_lt_iff (a b : Nat) : mag a < mag b ↔ magScaled a < magScaled b := by
  have hma := mant_lt a
  have hmb := mant_lt b
  rw [mag_eq a, mag_eq b]
  rcases Nat.lt_trichotomy (expo a) (expo b) with h | h | h
  · constructor
    · intro _; exact magScaled_lt_of_expo_lt a b h
    · intro _
      have : (expo a + 1) * 2 ^ 52 ≤ expo b * 2 ^ 52 := Nat.mul_le_mul_right _ h
      rw [Nat.add_mul] at this
      omega
  · rcases Nat.lt_trichotomy (mant a) (mant b) with hm | hm | hm
    · constructor
      · intro _; exact magScaled_lt_of_mant_lt a b h hm
      · intro _; rw [h]; omega
    · constructor
      · intro hlt; rw [h, hm] at hlt; omega
      · intro hlt; rw [magScaled_eq_of a b h hm] at hlt; omega
    · constructor
      · intro hlt; rw [h] at hlt; omega
      · intro hlt
        have := magScaled_lt_of_mant_lt b a h.symm hm
        omega
  · constructor
    · intro hlt
      have : (expo b + 1) * 2 ^ 52 ≤ expo a * 2 ^ 52 := Nat.mul_le_mul_right _ h
      rw [Nat.add_mul] at this
      omega
    · intro hlt
      have := magScaled_lt_of_expo_lt b a h
      omega

theorem mag_zero : mag 0 = 0 := by decide
theorem magScaled_zero : magScaled 0 = 0 := by decide

theorem mag_eq_iff (a b : Nat) : mag a = mag b ↔ magScaled a = magScaled b := by
  have h1 := mag_lt_iff a b
  have h2 := mag_lt_iff b a
  constructor <;> intro h <;> omega

/-- **The order key compares like the real value** (any two patterns; NaN is excluded by the
    callers `lt`/`le`/`eq`). The two zeros have the same key and the same value 0. -/
theorem key_lt_iff (a b : Nat) : key a < key b ↔ scaled a < scaled b := by
  have h1 := mag_lt_iff a b
  have h2 := mag_lt_iff b a
  have h3 := mag_eq_iff a b
  have z1 := mag_eq_iff a 0
  have z2 := mag_eq_iff b 0
  rw [mag_zero, magScaled_zero] at z1 z2
  unfold key scaled
  cases sign a <;> cases sign b <;> simp <;> omega

theorem key_eq_iff (a b : Nat) : key a = key b ↔ scaled a = scaled b := by
  have h1 := mag_lt_iff a b
  have h2 := mag_lt_iff b a
  have h3 := mag_eq_iff a b
  have z1 := mag_eq_iff a 0
  have z2 := mag_eq_iff b 0
  rw [mag_zero, magScaled_zero] at z1 z2
  unfold key scaled
  cases sign a <;> cases sign b <;> simp <;> omega

theorem key_le_iff (a b : Nat) : key a ≤ key b ↔ scaled a ≤ scaled b := by
  have h1 := key_lt_iff b a
  constructor <;> intro h <;> omega

end Tau.F64
