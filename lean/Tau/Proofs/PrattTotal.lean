import Tau.Pratt
/-
  Totality of the Pratt parser: with the fuel `parse` hands out, NO token list makes the model run
  out of fuel — the recursion of parse_expr / parse_led / parse_nud terminates on every input, and
  the only errors are the parser's own error values.
-/
namespace Tau

/-- "is not a panic" -/
def NP {α : Type} (r : Except Err α) : Prop := ∀ s, r ≠ .error (.panic s)

theorem NP.ok {α : Type} (a : α) : NP (Except.ok a : Except Err α) := by
  intro s h; cases h

theorem ledCheck_np (op : BoolSym) (l r : Expr) : NP (ledCheck op l r) := by
  intro s h
  unfold ledCheck at h
  cases op <;> simp only [ledCheckEq, ledCheckCmp, ledCheckBool] at h <;>
    (repeat' split at h) <;> cases h

theorem parseParenIdent_np (ts : List Token) : NP (parseParenIdent ts) := by
  intro s h
  unfold parseParenIdent at h
  (repeat' split at h) <;> cases h

theorem parseParenIdent_len (ts : List Token) (x : Str) (rest : List Token)
    (h : parseParenIdent ts = .ok (x, rest)) : rest.length < ts.length := by
  unfold parseParenIdent at h
  (repeat' split at h) <;> cases h
  simp only [List.length_cons]; omega

theorem parseOfArgs_np (ts : List Token) : NP (parseOfArgs ts) := by
  intro s h
  unfold parseOfArgs at h
  (repeat' split at h) <;> cases h

theorem parseOfArgs_len (ts : List Token) (x : Str) (n : Nat) (rest : List Token)
    (h : parseOfArgs ts = .ok (x, n, rest)) : rest.length < ts.length := by
  unfold parseOfArgs at h
  (repeat' split at h) <;> cases h
  simp only [List.length_cons]; omega

theorem collectParen_len : ∀ (ts : List Token) (d : Nat) (acc : List Token),
    (collectParen d ts acc).1.length + (collectParen d ts acc).2.length ≤ ts.length + acc.length
  | [], d, acc => by simp [collectParen]
  | t :: ts, d, acc => by
    unfold collectParen
    split
    · have := collectParen_len ts (d + 1) (t :: acc); simp only [List.length_cons] at this ⊢; omega
    · split
      · split
        · simp only [List.length_reverse, List.length_cons]; omega
        · have := collectParen_len ts (d - 1) (t :: acc); simp only [List.length_cons] at this ⊢; omega
      · have := collectParen_len ts d (t :: acc); simp only [List.length_cons] at this ⊢; omega


/-- A successful sub-parse consumes input: `parse_expr` and `parse_nud` at least one token. -/
theorem parse_consumes_aux : ∀ (f : Nat),
    (∀ rbp ts e rest, parseExpr f rbp ts = .ok (e, rest) → rest.length < ts.length) ∧
    (∀ rbp left ts e rest, parseLoop f rbp left ts = .ok (e, rest) → rest.length ≤ ts.length) ∧
    (∀ ts e rest, parseNud f ts = .ok (e, rest) → rest.length < ts.length) := by
  intro f
  induction f with
  | zero => refine ⟨?_, ?_, ?_⟩ <;> intros <;> simp_all [parseExpr, parseLoop, parseNud]
  | succ n ih =>
    obtain ⟨ihExpr, ihLoop, ihNud⟩ := ih
    refine ⟨?_, ?_, ?_⟩
    · intro rbp ts e rest h
      simp only [parseExpr] at h
      split at h
      · cases h
      · rename_i left rest' heq
        have h1 := ihNud ts left rest' heq
        have h2 := ihLoop rbp left rest' e rest h
        omega
    · intro rbp left ts e rest h
      cases ts with
      | nil => simp only [parseLoop] at h; cases h; simp
      | cons next ts' =>
        simp only [parseLoop] at h
        split at h
        · cases h; simp
        · split at h
          · split at h
            · cases h
            · rename_i right rest' heq
              split at h
              · cases h
              · have h1 := ihExpr _ ts' right rest' heq
                have h2 := ihLoop rbp _ rest' e rest h
                simp only [List.length_cons]; omega
          · cases h
    · intro ts e rest h
      cases ts with
      | nil => simp [parseNud] at h
      | cons t ts' =>
        simp only [parseNud] at h
        split at h
        · split at h
          · cases h
          · rename_i e' heq
            cases h
            have := collectParen_len ts' 1 []
            simp only [List.length_cons, List.length_nil] at this ⊢; omega
        · cases h
        · cases h
        · cases h; simp
        · cases h; simp
        · cases h; simp
        · split at h
          · cases h
          · rename_i right rest' heq
            split at h
            · have := ihExpr 95 ts' right rest' heq
              cases h
              simp only [List.length_cons]; omega
            · cases h
        · split at h
          · cases h
          · rename_i s rest' heq
            have := parseParenIdent_len ts' s rest' heq
            cases h
            simp only [List.length_cons]; omega
        · split at h
          · cases h
          · rename_i s rest' heq
            have := parseParenIdent_len ts' s rest' heq
            cases h
            simp only [List.length_cons]; omega
        · split at h
          · cases h
          · rename_i s k rest' heq
            have := parseOfArgs_len ts' s k rest' heq
            cases h
            simp only [List.length_cons]; omega
        · cases h

theorem parseExpr_consumes {f rbp ts e rest} (h : parseExpr f rbp ts = .ok (e, rest)) :
    rest.length < ts.length := (parse_consumes_aux f).1 rbp ts e rest h
theorem parseNud_consumes {f ts e rest} (h : parseNud f ts = .ok (e, rest)) :
    rest.length < ts.length := (parse_consumes_aux f).2.2 ts e rest h

/-- Fuel `3·|tokens| + 3` is enough: the parser never reaches the out-of-fuel value. -/
theorem parse_total_aux : ∀ (f : Nat),
    (∀ ts, 3 * ts.length + 3 ≤ f → NP (parseAll f ts)) ∧
    (∀ rbp ts, 3 * ts.length + 2 ≤ f → NP (parseExpr f rbp ts)) ∧
    (∀ rbp left ts, 3 * ts.length + 2 ≤ f → NP (parseLoop f rbp left ts)) ∧
    (∀ ts, 3 * ts.length + 1 ≤ f → NP (parseNud f ts)) := by
  intro f
  induction f with
  | zero => refine ⟨?_, ?_, ?_, ?_⟩ <;> intros <;> omega
  | succ n ih =>
    obtain ⟨ihAll, ihExpr, ihLoop, ihNud⟩ := ih
    refine ⟨?_, ?_, ?_, ?_⟩
    · intro ts hf s h
      simp only [parseAll] at h
      split at h
      · rename_i e heq
        cases h
        exact ihExpr 0 ts (by omega) s heq
      · split at h <;> cases h
    · intro rbp ts hf s h
      simp only [parseExpr] at h
      split at h
      · rename_i e heq
        cases h
        exact ihNud ts (by omega) s heq
      · rename_i left rest heq
        have := parseNud_consumes heq
        exact ihLoop rbp left rest (by omega) s h
    · intro rbp left ts hf s h
      cases ts with
      | nil => simp only [parseLoop] at h; cases h
      | cons next ts' =>
        simp only [List.length_cons] at hf
        simp only [parseLoop] at h
        split at h
        · cases h
        · split at h
          · split at h
            · rename_i e heq
              cases h
              exact ihExpr _ ts' (by omega) s heq
            · rename_i right rest heq
              have := parseExpr_consumes heq
              split at h
              · rename_i e hchk
                cases h
                exact ledCheck_np _ _ _ s hchk
              · exact ihLoop rbp _ rest (by omega) s h
          · cases h
    · intro ts hf s h
      cases ts with
      | nil => simp only [parseNud] at h; cases h
      | cons t ts' =>
        simp only [List.length_cons] at hf
        simp only [parseNud] at h
        split at h
        · split at h
          · rename_i e heq
            cases h
            have := collectParen_len ts' 1 []
            simp only [List.length_nil] at this
            exact ihAll _ (by omega) s heq
          · cases h
        · cases h
        · cases h
        · cases h
        · cases h
        · cases h
        · split at h
          · rename_i e heq
            cases h
            exact ihExpr 95 ts' (by omega) s heq
          · split at h <;> cases h
        · split at h
          · rename_i e heq
            cases h
            exact parseParenIdent_np ts' s heq
          · cases h
        · split at h
          · rename_i e heq
            cases h
            exact parseParenIdent_np ts' s heq
          · cases h
        · split at h
          · rename_i e heq
            cases h
            exact parseOfArgs_np ts' s heq
          · cases h
        · cases h

/-- `parse` never runs out of fuel, for EVERY token list. -/
theorem parse_no_panic (ts : List Token) : NP (parse ts) :=
  (parse_total_aux (parseFuel ts)).1 ts (by unfold parseFuel; omega)


end Tau
