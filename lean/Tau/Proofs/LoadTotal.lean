import Tau.Proofs.PrattTotal
import Tau.Proofs.Tokeniser
import Tau.Mapping
import Tau.Rule
/-
  No layer of the loader can produce the `panic` value: mapping keys, identifier patterns, every
  YAML shape under `parse_identifier`, and the detection block as a whole.
-/
namespace Tau

theorem tokenise_np (s : Str) : NP (tokenise s) :=
  tokLoop_no_panic (s.length + 1) s [] (by omega)

theorem parseNumPat_np (op : BoolSym) (s : Str) : NP (parseNumPat op s) := by
  intro site h
  unfold parseNumPat at h
  split at h <;> split at h <;> cases h

theorem patternOf_np (E : RegexEngine) (ci : Bool) (s : Str) : NP (patternOf E ci s) := by
  intro site h
  unfold patternOf at h
  split at h
  · split at h <;> cases h
  all_goals first
    | exact parseNumPat_np _ _ site h
    | cases h

theorem intoIdentifier_np (E : RegexEngine) (ic : Bool) (s : Str) : NP (intoIdentifier E ic s) := by
  intro site h
  unfold intoIdentifier at h
  split at h
  · cases h
  · rename_i e' hp
    cases h
    exact patternOf_np _ _ _ site hp

/-- Mapping keys: any YAML key, sequence-valued or not. -/
theorem parseKey_np (k : Yaml) (b : Bool) : NP (parseKey k b) := by
  intro site h
  unfold parseKey at h
  split at h
  · split at h
    · rename_i e he
      cases h
      exact tokenise_np _ site he
    · split at h
      · rename_i e he
        cases h
        exact parse_no_panic _ site he
      · (repeat' split at h) <;> cases h
  · cases h

theorem castCheck_np (misc : Option ModSym) (p : Pattern) : NP (castCheck misc p) := by
  intro site h
  unfold castCheck at h
  (repeat' split at h) <;> cases h

theorem finishMapping_np (r : Except Err (List Expr)) (h : NP r) : NP (finishMapping r) := by
  intro site hf
  unfold finishMapping at hf
  split at hf
  · cases hf; exact h site rfl
  · cases hf
  · cases hf
  · cases hf

theorem shapeSeq_np (e : Expr) (misc : Option ModSym) (st : SeqSt) (g : List Expr) (m : Bool) :
    NP (shapeSeq e misc st g m) := by
  intro site h
  unfold shapeSeq at h
  (repeat' split at h) <;> cases h

/-- The one `panic` value of the mapping model is unreachable: a pattern that is no search is a
    numeric comparison. -/
theorem search_or_num (lhs : Expr) (ci : Bool) (p : Pattern) (h : numExpr lhs p = none) :
    searchOfPattern ci p ≠ none := by
  cases p <;> simp_all [numExpr, searchOfPattern]

mutual
theorem entries_np (E : RegexEngine) (ic : Bool) : ∀ (kvs : List (Yaml × Yaml)), NP (parseEntries E ic kvs)
  | [] => by intro site h; simp [parseEntries] at h
  | p :: rest => by
    intro site h
    simp only [parseEntries] at h
    split at h
    · rename_i e he; cases h; exact pair_np E ic p site he
    · split at h
      · rename_i e he; cases h; exact entries_np E ic rest site he
      · cases h

theorem pair_np (E : RegexEngine) (ic : Bool) : ∀ (p : Yaml × Yaml), NP (parsePair E ic p)
  | (k, v) => by
    intro site h
    simp only [parsePair] at h
    split at h
    · rename_i e he; cases h; exact parseKey_np _ _ site he
    · rename_i e f misc _
      exact val_np E ic e f misc v site h

theorem val_np (E : RegexEngine) (ic : Bool) (e : Expr) (f : Str) (misc : Option ModSym) :
    ∀ (v : Yaml), NP (parseVal E ic e f misc v)
  | .null => by intro site h; simp [parseVal] at h
  | .bool b => by intro site h; simp [parseVal] at h
  | .num n => by
    intro site h
    cases n <;> simp only [parseVal] at h <;> (repeat' split at h) <;> cases h
  | .tagged _ => by intro site h; simp [parseVal] at h
  | .str s => by
    intro site h
    simp only [parseVal] at h
    split at h
    · rename_i err he; cases h; exact intoIdentifier_np E ic s site he
    · rename_i ident hid
      split at h
      · rename_i err he; cases h; exact castCheck_np _ _ site he
      · split at h
        · cases h
        · rename_i hnum
          split at h
          · cases h
          · rename_i hs
            exact search_or_num e ident.ci ident.pat hnum hs
  | .map m => by
    intro site h
    simp only [parseVal] at h
    split at h
    · cases h
    · split at h
      · rename_i err he; cases h
        exact finishMapping_np _ (entries_np E ic m) site he
      · cases h
  | .seq s => by
    intro site h
    simp only [parseVal] at h
    split at h
    · rename_i err he; cases h
      exact members_np E ic f misc _ s _ site he
    · exact shapeSeq_np _ _ _ _ _ site h

theorem members_np (E : RegexEngine) (ic : Bool) (f : Str) (misc : Option ModSym) (lhs : Expr) :
    ∀ (vs : List Yaml) (st : SeqSt), NP (parseMembers E ic f misc lhs vs st)
  | [], st => by intro site h; simp [parseMembers] at h
  | v :: vs, st => by
    intro site h
    cases v with
    | null =>
      simp only [parseMembers] at h
      exact members_np E ic f misc lhs vs _ site h
    | bool b =>
      simp only [parseMembers] at h
      split at h
      · exact members_np E ic f misc lhs vs _ site h
      · split at h
        · exact members_np E ic f misc lhs vs _ site h
        · exact members_np E ic f misc lhs vs _ site h
    | num n =>
      cases n with
      | int i =>
        simp only [parseMembers] at h
        split at h
        · exact members_np E ic f misc lhs vs _ site h
        · exact members_np E ic f misc lhs vs _ site h
      | big a b c =>
        simp only [parseMembers] at h
        split at h
        · cases h
        · split at h
          · exact members_np E ic f misc lhs vs _ site h
          · exact members_np E ic f misc lhs vs _ site h
      | flt b c =>
        simp only [parseMembers] at h
        split at h
        · cases h
        · split at h
          · exact members_np E ic f misc lhs vs _ site h
          · exact members_np E ic f misc lhs vs _ site h
    | tagged => simp [parseMembers] at h
    | seq xs => simp [parseMembers] at h
    | str s =>
      simp only [parseMembers] at h
      split at h
      · rename_i err he; cases h; exact intoIdentifier_np E ic s site he
      · rename_i ident hid
        split at h
        · rename_i err he; cases h; exact castCheck_np _ _ site he
        · revert h
          cases hp : ident.pat <;> simp only [] <;> intro h <;>
            exact members_np E ic f misc lhs vs _ site h
    | map m =>
      simp only [parseMembers] at h
      split at h
      · cases h
      · split at h
        · rename_i err he; cases h
          exact finishMapping_np _ (entries_np E ic m) site he
        · exact members_np E ic f misc lhs vs _ site h
end

theorem parseMapping_np (E : RegexEngine) (ic : Bool) (kvs : List (Yaml × Yaml)) :
    NP (parseMapping E ic kvs) :=
  finishMapping_np _ (entries_np E ic kvs)

theorem parseIdentifier_go_np (E : RegexEngine) (ic : Bool) :
    ∀ (ys : List Yaml), NP (parseIdentifier.go E ic ys)
  | [] => by intro site h; simp [parseIdentifier.go] at h
  | y :: rest => by
    intro site h
    cases y with
    | map m =>
      simp only [parseIdentifier.go] at h
      split at h
      · rename_i err he; cases h
        exact finishMapping_np _ (entries_np E ic m) site he
      · split at h
        · rename_i err he; cases h
          exact parseIdentifier_go_np E ic rest site he
        · cases h
    | _ => simp [parseIdentifier.go] at h

/-- `parse_identifier` of EVERY YAML shape: a tree or an error value, never the panic value. -/
theorem parseIdentifier_np (E : RegexEngine) (ic : Bool) (y : Yaml) : NP (parseIdentifier E ic y) := by
  intro site h
  cases y with
  | map m => exact parseMapping_np E ic m site h
  | seq ys =>
    cases ys with
    | nil => simp [parseIdentifier] at h
    | cons x xs =>
      simp only [parseIdentifier] at h
      split at h
      · rename_i err he; cases h
        exact parseIdentifier_go_np E ic _ site he
      · cases h
  | _ => simp [parseIdentifier] at h

theorem loadEntries_np (E : RegexEngine) (ic : Bool) :
    ∀ (es : List (Str × Yaml)) (st : LoadSt), NP (loadEntries E ic es st)
  | [], st => by intro site h; simp [loadEntries] at h
  | (key, v) :: rest, st => by
    intro site h
    simp only [loadEntries] at h
    split at h
    · split at h
      · cases h
      · split at h
        · exact loadEntries_np E ic rest _ site h
        · cases h
    · split at h
      · cases h
      · split at h
        · cases h
        · exact loadEntries_np E ic rest _ site h

theorem loadDetection_np (E : RegexEngine) (ic : Bool) (entries : List (Str × Yaml)) :
    NP (loadDetection E ic entries) := by
  intro site h
  unfold loadDetection at h
  split at h
  · rename_i e he; cases h; exact loadEntries_np E ic entries _ site he
  · (repeat' split at h) <;> cases h

end Tau
