import Tau.Syntax
/-
  Tau.Pratt — model of the Pratt parser (parser.rs:180-742): `parse`, `parse_expr`, `parse_led`,
  `parse_nud`.  Iterators become "returns the rest of the token list"; recursion is on fuel.
-/
namespace Tau

/-- The `for t in it.by_ref()` loop of the parenthesis NUD (parser.rs:354-366): collects up to the
    matching `)` (discarded). An unterminated group is *not* an error in the source. -/
def collectParen : Nat → List Token → List Token → List Token × List Token
  | _, [], acc => (acc.reverse, [])
  | depth, t :: ts, acc =>
    if t = .lparen then collectParen (depth + 1) ts (t :: acc)
    else if t = .rparen then
      if depth = 1 then (acc.reverse, ts) else collectParen (depth - 1) ts (t :: acc)
    else collectParen depth ts (t :: acc)

def isCmp : BoolSym → Bool
  | .gt | .ge | .lt | .le => true
  | _ => false

/-- The operand checks of `parse_led` for `==` (parser.rs:221-271). -/
def ledCheckEq (l r : Expr) : Except Err Unit :=
  let okL := match l with | .bool _ | .cast _ _ | .float _ | .int _ => true | _ => false
  let okR := match r with | .bool _ | .cast _ _ | .float _ | .int _ => true | _ => false
  if !okL then .error .parseLedPreceding else
  if !okR then .error .parseLedFollowing else
  match l, r with
  | .cast _ .flt, .cast _ .flt => .ok ()
  | .cast _ .int, .cast _ .int => .ok ()
  | .cast _ .str, .cast _ .str => .ok ()
  | .cast _ .flt, .float _ => .ok ()
  | .float _, .cast _ .flt => .ok ()
  | .cast _ .int, .int _ => .ok ()
  | .int _, .cast _ .int => .ok ()
  | _, _ => .error .parseInvalidExpr

/-- The operand checks of `parse_led` for `< <= > >=` (parser.rs:272-319). -/
def ledCheckCmp (l r : Expr) : Except Err Unit :=
  let okL := match l with | .cast _ _ | .float _ | .int _ => true | _ => false
  let okR := match r with | .cast _ _ | .float _ | .int _ => true | _ => false
  if !okL then .error .parseLedPreceding else
  if !okR then .error .parseLedFollowing else
  match l, r with
  | .cast _ .flt, .cast _ .flt => .ok ()
  | .cast _ .int, .cast _ .int => .ok ()
  | .cast _ .flt, .float _ => .ok ()
  | .float _, .cast _ .flt => .ok ()
  | .cast _ .int, .int _ => .ok ()
  | .int _, .cast _ .int => .ok ()
  | _, _ => .error .parseInvalidExpr

/-- `and`/`or` operands must themselves be predicates (added by the D3 repair in parse_led). -/
def ledCheckBool (l r : Expr) : Except Err Unit :=
  if !l.isSolvable then .error .parseLedPreceding else
  if !r.isSolvable then .error .parseLedFollowing else .ok ()

def ledCheck (op : BoolSym) (l r : Expr) : Except Err Unit :=
  match op with
  | .eq => ledCheckEq l r
  | .gt | .ge | .lt | .le => ledCheckCmp l r
  | .and | .or => ledCheckBool l r

/-- What `not` accepts as its operand (parser.rs:379-393). -/
def negatable : Expr → Bool
  | .group _ _ | .bin _ _ _ | .bool _ | .ident _ | .match _ _ | .negate _ | .nested _ _
  | .search _ _ _ => true
  | _ => false

/-- `mod ( identifier )` (parser.rs:397-594 and 595-645): returns the identifier text. -/
def parseParenIdent (ts : List Token) : Except Err (Str × List Token) :=
  match ts with
  | [] => .error .parseInvalidToken
  | t0 :: ts1 =>
    if t0 ≠ .lparen then .error .parseInvalidToken else
    match ts1 with
    | [] => .error .parseInvalidToken
    | tok :: ts2 =>
      match ts2 with
      | [] => .error .parseInvalidToken
      | t2 :: ts3 =>
        if t2 ≠ .rparen then .error .parseInvalidToken else
        match tok with
        | .ident s => .ok (s, ts3)
        | _ => .error .parseInvalidToken

/-- `of ( identifier , n )` (parser.rs:646-732). -/
def parseOfArgs (ts : List Token) : Except Err (Str × Nat × List Token) :=
  match ts with
  | [] => .error .parseInvalidToken
  | t0 :: ts1 =>
    if t0 ≠ .lparen then .error .parseInvalidToken else
    match ts1 with
    | [] => .error .parseInvalidToken
    | tok :: ts2 =>
      match ts2 with
      | [] => .error .parseInvalidToken
      | t2 :: ts3 =>
        if t2 ≠ .comma then .error .parseInvalidToken else
        match ts3 with
        | [] => .error .parseInvalidToken
        | t3 :: ts4 =>
          match t3 with
          | .int c =>
            if c < 0 then .error .parseInvalidToken else
            match ts4 with
            | [] => .error .parseInvalidToken
            | t4 :: ts5 =>
              if t4 ≠ .rparen then .error .parseInvalidToken else
              match tok with
              | .ident s => .ok (s, c.toNat, ts5)
              | _ => .error .parseInvalidToken
          | _ => .error .parseInvalidToken

mutual
/-- `parse` (parser.rs:180): the whole token list must be one expression. -/
def parseAll : Nat → List Token → Except Err Expr
  | 0, _ => .error (.panic "parse: out of fuel")
  | fuel + 1, ts =>
    match parseExpr fuel 0 ts with
    | .error e => .error e
    | .ok (e, rest) => if rest.isEmpty then .ok e else .error .parseInvalidExpr

/-- `parse_expr` (parser.rs:196). -/
def parseExpr : Nat → Nat → List Token → Except Err (Expr × List Token)
  | 0, _, _ => .error (.panic "parse: out of fuel")
  | fuel + 1, rbp, ts =>
    match parseNud fuel ts with
    | .error e => .error e
    | .ok (left, rest) => parseLoop fuel rbp left rest

/-- The `while let Some(&next) = it.peek()` loop of `parse_expr`. -/
def parseLoop : Nat → Nat → Expr → List Token → Except Err (Expr × List Token)
  | 0, _, _, _ => .error (.panic "parse: out of fuel")
  | _ + 1, _, left, [] => .ok (left, [])
  | fuel + 1, rbp, left, next :: ts =>
    if rbp ≥ next.bp then .ok (left, next :: ts) else
    -- parse_led (parser.rs:210)
    match next with
    | .op sym =>
      match parseExpr fuel next.bp ts with
      | .error e => .error e
      | .ok (right, rest) =>
        match ledCheck sym left right with
        | .error e => .error e
        | .ok () => parseLoop fuel rbp (.bin left sym right) rest
    | _ => .error .parseInvalidToken

/-- `parse_nud` (parser.rs:343). -/
def parseNud : Nat → List Token → Except Err (Expr × List Token)
  | 0, _ => .error (.panic "parse: out of fuel")
  | _ + 1, [] => .error .parseInvalidToken
  | fuel + 1, t :: ts =>
    match t with
    | .lparen =>
      let (inner, rest) := collectParen 1 ts []
      match parseAll fuel inner with
      | .error e => .error e
      | .ok e => .ok (e, rest)
    | .comma | .rparen => .error .parseInvalidToken
    | .float b => .ok (.float b, ts)
    | .ident n => .ok (.ident n, ts)
    | .int i => .ok (.int i, ts)
    | .miscNot =>
      match parseExpr fuel 95 ts with
      | .error e => .error e
      | .ok (right, rest) =>
        if negatable right then .ok (.negate right, rest) else .error .parseInvalidToken
    | .modifier m =>
      match parseParenIdent ts with
      | .error e => .error e
      | .ok (s, rest) => .ok (.cast s m, rest)
    | .matchAll =>
      match parseParenIdent ts with
      | .error e => .error e
      | .ok (s, rest) => .ok (.match .all (.ident s), rest)
    | .matchOf =>
      match parseOfArgs ts with
      | .error e => .error e
      | .ok (s, n, rest) => .ok (.match (.of n) (.ident s), rest)
    | .op _ => .error .parseInvalidToken
end

/-- Fuel (recursion-depth budget) for `parse`; `Tau.Proofs.PrattPP` proves it suffices for every
    printed condition, the correspondence run exercises it on everything else. -/
def parseFuel (ts : List Token) : Nat := 10 * ts.length + 10

def parse (ts : List Token) : Except Err Expr := parseAll (parseFuel ts) ts

end Tau
