import Tau.Base
/-
  Tau.Num — exact models of the numeric primitives the engine relies on:
  Rust `i64/u64/usize::from_str`, `f64::from_str`, `as f64`, `f64::round() as i64`, IEEE comparison.
  A binary64 value is its 64-bit pattern (a `Nat` below 2^64).
-/
namespace Tau

def i64Min : Int := -9223372036854775808
def i64Max : Int := 9223372036854775807
def u64Max : Nat := 18446744073709551615

/-! ### Decimal digit strings -/

def digitVal (c : Char) : Nat := c.toNat - '0'.toNat

/-- Value of a string of ASCII digits (most significant first). -/
def digitsVal (s : Str) : Nat := s.foldl (fun acc c => acc * 10 + digitVal c) 0

/-- `i64::from_str`: optional single sign, at least one ASCII digit, no overflow. -/
def parseI64 (s : Str) : Option Int :=
  let (neg, ds) : Bool × Str := match s with
    | '-' :: r => (true, r)
    | '+' :: r => (false, r)
    | r => (false, r)
  if ds.isEmpty || !ds.all isAsciiDigit then none else
  let n : Int := digitsVal ds
  let v := if neg then -n else n
  if i64Min ≤ v && v ≤ i64Max then some v else none

/-- `usize::from_str` (64-bit): optional `+`, at least one ASCII digit, no overflow. -/
def parseUsize (s : Str) : Option Nat :=
  let ds : Str := match s with
    | '+' :: r => r
    | r => r
  if ds.isEmpty || !ds.all isAsciiDigit then none else
  let n := digitsVal ds
  if n ≤ u64Max then some n else none

/-- Rust `Display` for integers. -/
def natToStr (n : Nat) : Str := (toString n).toList
def intToStr (i : Int) : Str := (toString i).toList

/-! ### binary64 -/
namespace F64

def sign (b : Nat) : Bool := b / 2^63 % 2 == 1
def expo (b : Nat) : Nat := b / 2^52 % 2048
def mant (b : Nat) : Nat := b % 2^52
def mag (b : Nat) : Nat := b % 2^63
def isNaN (b : Nat) : Bool := expo b == 2047 && mant b != 0
def posInf : Nat := 2047 * 2^52
def negBit : Nat := 2^63

/-- Order key: for non-NaN patterns, `key` is strictly monotone in the real value, and the two
    zeros share key 0. -/
def key (b : Nat) : Int := if sign b then -(mag b : Int) else (mag b : Int)

def lt (a b : Nat) : Bool := !isNaN a && !isNaN b && key a < key b
def le (a b : Nat) : Bool := !isNaN a && !isNaN b && key a ≤ key b
def eq (a b : Nat) : Bool := !isNaN a && !isNaN b && key a == key b

/-- Round `num/den` (den > 0) to the nearest binary64, ties to even; overflow gives infinity. -/
def ofRat (neg : Bool) (num den : Nat) : Nat :=
  let s := if neg then negBit else 0
  if num == 0 || den == 0 then s else
  -- first guess for e with 2^52 ≤ num / den / 2^e < 2^53
  let e0 : Int := (num.log2 : Int) - (den.log2 : Int) - 52
  let scaled (e : Int) : Nat × Nat :=
    (num * 2 ^ (-e).toNat, den * 2 ^ e.toNat)
  let q0 := (scaled e0).1 / (scaled e0).2
  let e1 : Int := if q0 < 2^52 then e0 - 1 else if q0 ≥ 2^53 then e0 + 1 else e0
  let e : Int := if e1 < -1074 then -1074 else e1
  let (a, b) := scaled e
  let q := a / b
  let r := a % b
  let q' := if 2 * r > b || (2 * r == b && q % 2 == 1) then q + 1 else q
  let biased : Int := e + 1075
  let bits : Int := (biased - 1) * (2^52 : Nat) + q'
  if bits ≥ (posInf : Int) then s + posInf else s + bits.toNat

/-- `i as f64` for a 64-bit integer. -/
def ofInt (i : Int) : Nat := ofRat (i < 0) i.natAbs 1

/-- `x.round()` as an exact integer, for a finite `x` (round half away from zero). -/
def roundToI64Exact (b : Nat) : Int :=
  let m := if expo b == 0 then mant b else mant b + 2^52
  let e : Int := (if expo b == 0 then 1 else (expo b : Int)) - 1075
  let magnitude : Nat :=
    if e ≥ 0 then m * 2 ^ e.toNat else
      let d := 2 ^ (-e).toNat
      let q := m / d
      let r := m % d
      if 2 * r ≥ d then q + 1 else q
  if sign b then -(magnitude : Int) else magnitude

def lowerAscii (s : Str) : Str := s.map asciiLowerChar

/-- Split a leading run of ASCII digits. -/
def spanDigits (s : Str) : Str × Str := (s.takeWhile isAsciiDigit, s.dropWhile isAsciiDigit)

/-- `f64::from_str` (core::num::dec2flt grammar), correctly rounded. -/
def parse (s : Str) : Option Nat :=
  let (neg, r) : Bool × Str := match s with
    | '-' :: r => (true, r)
    | '+' :: r => (false, r)
    | r => (false, r)
  let sbit := if neg then negBit else 0
  let lr := lowerAscii r
  if lr == "inf".toList || lr == "infinity".toList then some (sbit + posInf) else
  if lr == "nan".toList then some (sbit + posInf + 2^51) else
  let (ip, r1) := spanDigits r
  let (fp, r2) : Str × Str := match r1 with
    | '.' :: r' => spanDigits r'
    | _ => ([], r1)
  if ip.isEmpty && fp.isEmpty then none else
  let ex : Option Int := match r2 with
    | [] => some 0
    | c :: r' =>
      if c == 'e' || c == 'E' then
        let (eneg, ds) : Bool × Str := match r' with
          | '-' :: d => (true, d)
          | '+' :: d => (false, d)
          | d => (false, d)
        if ds.isEmpty || !ds.all isAsciiDigit then none
        else
          -- clamp huge exponents: anything beyond ±100000 behaves like ±100000 below
          let dz := ds.dropWhile (· == '0')
          let v : Nat := if dz.length > 7 then 100000 else min (digitsVal dz) 100000
          some (if eneg then -(v : Int) else v)
      else none
  match ex with
  | none => none
  | some e10 =>
    let m := digitsVal (ip ++ fp)
    let e : Int := e10 - fp.length
    if m == 0 then some sbit else
    let nd : Int := (ip ++ fp).length
    if e > 400 then some (sbit + posInf) else
    if e + nd < -400 then some sbit else
    if e ≥ 0 then some (ofRat neg (m * 10 ^ e.toNat) 1)
    else some (ofRat neg m (10 ^ (-e).toNat))

end F64
end Tau
