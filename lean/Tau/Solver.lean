import Tau.Syntax
import Tau.Num
import Tau.Pattern
import Tau.Find
/-
  Tau.Solver — model of solver.rs: `solve_expression`, `match_all`, `match_of`, `search`, `slow_aho`.

  One structurally recursive skeleton `solveG`, parametrised by what happens at an identifier
  (`IdentK`): `solveClosed` treats identifiers as unreachable (identifier bodies never contain
  identifiers), `solveTop ids` looks the identifier up and evaluates its body with `solveClosed` —
  the look-up-then-recurse control flow of the source.

  `solveG` is total and returns a junk `.m` at the source's `unreachable!()` / panic sites; the
  companion `Tau.Safe` predicate (Tau/Safe.lean) characterises the trees on which none is reached.
-/
namespace Tau

/-! ### String relations (`search`, solver.rs:1340) -/

def isInfixOf (n h : Str) : Bool :=
  match h with
  | [] => n.isEmpty
  | _ :: t => n.isPrefixOf h || isInfixOf n t

def foldCase (ci : Bool) (s : Str) : Str := if ci then toAsciiLowercase s else s

/-- Does some occurrence of the needle reported by the (ASCII-case-insensitive if `ci`) automaton
    satisfy its match type? (`search`/`slow_aho` arms: start = 0 ⇔ prefix, end = len ⇔ suffix). -/
def relMT (ci : Bool) (mt : MatchType) (h : Str) : Bool :=
  let h' := foldCase ci h
  match mt with
  | .contains n => isInfixOf (foldCase ci n) h'
  | .endsWith n => (foldCase ci n).isSuffixOf h'
  | .exact n => foldCase ci n == h'
  | .startsWith n => (foldCase ci n).isPrefixOf h'

/-- `slow_aho`: the number of distinct pattern indices with a satisfying occurrence. -/
def slowAho (ci : Bool) (ctx : List MatchType) (h : Str) : Nat := ctx.countP (relMT ci · h)

/-- `search` (solver.rs:1340). -/
def searchStr (E : RegexEngine) (s : Search) (h : Str) : Bool :=
  match s with
  | .any => true
  | .exact i => i == h
  | .contains i => isInfixOf i h
  | .endsWith i => i.isSuffixOf h
  | .startsWith i => i.isPrefixOf h
  | .regex p ci => E.isMatch p ci h
  | .regexSet ps ci => ps.any (fun p => E.isMatch p ci h)
  | .ac ctx ci => ctx.any (relMT ci · h)

/-- Number of members of a regex set that match (`s.matches(x).iter()` count). -/
def setHits (E : RegexEngine) (ps : List Str) (ci : Bool) (h : Str) : Nat :=
  ps.countP (fun p => E.isMatch p ci h)

/-- `Value::to_string` restricted to what the cast paths of `search` accept
    (Bool / Float / Int / UInt; solver.rs:821-827). -/
def scalarText : Value → Option Str
  | .bool b => some (if b then "true".toList else "false".toList)
  | .flt _ shown => some shown
  | .int i => some (intToStr i)
  | .uint n => some (natToStr n)
  | _ => none

/-- `Value::to_string` (value.rs:169). -/
def valueToString : Value → Option Str
  | .str s => some s
  | v => scalarText v

/-- The text a search predicate sees for one array element (solver.rs:815-832). -/
def elemText (cast : Bool) : Value → Option Str
  | .str s => some s
  | v => if cast then scalarText v else none

/-- Shared shape of the `Search` arm and of the automaton / regex-set arms of `match_all` /
    `match_of`: `p` is the test applied to one string. Returns `none` where the source returns
    Missing for a value of the wrong kind. -/
def onFieldValue (cast : Bool) (p : Str → Bool) : Value → Option Bool
  | .str x => some (p x)
  | .arr a => some (a.any (fun v => match elemText cast v with | some x => p x | none => false))
  | v => if cast then (match scalarText v with | some x => some (p x) | none => none) else none

def triOfOpt : Option Bool → Tri
  | some true => .t
  | some false => .f
  | none => .m

/-- `Expression::Search` arm (solver.rs:802). -/
def solveSearch (E : RegexEngine) (d : Doc) (s : Search) (f : Str) (cast : Bool) : Tri :=
  match d.find f with
  | none => .m
  | some v => triOfOpt (onFieldValue cast (searchStr E s) v)

/-! ### Comparisons (solver.rs:81-536) -/

/-- An extracted operand. -/
inductive Operand where
  | b (x : Bool) | f (bits : Nat) | i (x : Int) | u (x : Nat)
  deriving Repr, DecidableEq

/-- Left/right operand extraction (solver.rs:176-318 / 319-461). `Except.error r` = early return. -/
def operand (d : Doc) : Expr → Except Tri Operand
  | .field f =>
    match d.find f with
    | none => .error .m
    | some (.flt b _) => .ok (.f b)
    | some (.int i) => .ok (.i i)
    | some (.uint u) => .ok (.u u)
    | some _ => .error .f
  | .cast f .flt =>
    match d.find f with
    | none => .error .m
    | some (.bool x) => .ok (.f (if x then F64.ofInt 1 else 0))
    | some (.flt b _) => .ok (.f b)
    | some (.int i) => .ok (.f (F64.ofInt i))
    | some (.str s) => (match F64.parse s with | some b => .ok (.f b) | none => .error .f)
    | some (.uint u) => .ok (.f (F64.ofInt u))
    | some _ => .error .f
  | .cast f .int =>
    match d.find f with
    | none => .error .m
    | some (.bool x) => .ok (.i (if x then 1 else 0))
    | some (.flt b _) =>
      -- `r >= i64::MIN as f64 && r < i64::MAX as f64` on the rounded value (NaN fails both)
      if F64.isNaN b || F64.expo b == 2047 then .error .f else
      let r := F64.roundToI64Exact b
      if i64Min ≤ r && r ≤ i64Max then .ok (.i r) else .error .f
    | some (.int i) => .ok (.i i)
    | some (.str s) => (match parseI64 s with | some i => .ok (.i i) | none => .error .f)
    | some (.uint u) => if (u : Int) ≤ i64Max then .ok (.i u) else .error .f
    | some _ => .error .f
  | .bool b => .ok (.b b)
  | .float b => .ok (.f b)
  | .int i => .ok (.i i)
  | _ => .error .f

def Operand.toInt? : Operand → Option Int
  | .i x => some x
  | .u x => some (x : Int)
  | _ => none

/-- The comparison table (solver.rs:462-531, mixed signed/unsigned compared by value). -/
def compareOp (x : Operand) (op : BoolSym) (y : Operand) : Bool :=
  match x, y with
  | .b a, .b c => op == .eq && a == c
  | .f a, .f c =>
    (match op with
     | .eq => F64.eq a c | .gt => F64.lt c a | .ge => F64.le c a
     | .lt => F64.lt a c | .le => F64.le a c | _ => false)
  | _, _ =>
    match x.toInt?, y.toInt? with
    | some a, some c =>
      (match op with
       | .eq => a == c | .gt => decide (a > c) | .ge => decide (a ≥ c)
       | .lt => decide (a < c) | .le => decide (a ≤ c) | _ => false)
    | _, _ => false

/-- Comparison arms of `BooleanExpression` incl. the three edge cases (solver.rs:83-168). -/
def solveCmp (d : Doc) (l : Expr) (op : BoolSym) (r : Expr) : Tri :=
  match l, op, r with
  | .cast lf .str, .eq, .cast rf .str =>
    match d.find lf with
    | none => .m
    | some x =>
      match valueToString x with
      | none => .f
      | some xs =>
        match d.find rf with
        | none => .m
        | some y =>
          match valueToString y with
          | none => .f
          | some ys => Tri.ofBool (xs == ys)
  | .field lf, .eq, .bool b =>
    match d.find lf with
    | none => .m
    | some (.bool x) => Tri.ofBool (x == b)
    | some _ => .f
  | .field lf, .eq, .null =>
    match d.find lf with
    | none => .m
    | some .null => .t
    | some _ => .f
  | _, _, _ =>
    match operand d l with
    | .error res => res
    | .ok x =>
      match operand d r with
      | .error res => res
      | .ok y => Tri.ofBool (compareOp x op y)

/-! ### The recursive skeleton -/

/-- What to do at an identifier node. -/
structure IdentK where
  /-- `Expression::Identifier(i)` (solver.rs:589). -/
  ident : Str → Doc → Tri
  /-- `Match(kind, Identifier(i))` (solver.rs:595 / 614). -/
  «match» : MatchK → Str → Doc → Tri

/-- Update of the per-evaluation matrix cache (solver.rs:666-679). -/
def cacheSet (cells : List (Option Value)) (i : Nat) (v : Value) : List (Option Value) :=
  cells.set i (some v)

/-- The sub-document handed to a nested block for one array element (solver.rs:726, 785). -/
def elemObjs (a : List Value) : List (List (Str × Value)) :=
  a.filterMap (fun v => match v with | .obj kvs => some kvs | _ => none)

/-- `or`-style accumulation over per-element results (solver.rs:724-739): true as soon as one is
    true, else false if one was false, else missing. -/
def accOr (rs : List Tri) : Tri := Tri.or rs

/-- Binary `and` (solver.rs:537-561). -/
def binAnd (x y : Tri) : Tri :=
  match x with
  | .t => y
  | r => r

/-- Binary `or` (solver.rs:562-586). -/
def binOr (x y : Tri) : Tri :=
  match x, y with
  | .t, _ => .t
  | _, .t => .t
  | .m, .m => .m
  | _, _ => .f

/-- `match_of` with count 0 (solver.rs:1108-1113). -/
def ofZero : Tri → Tri
  | .t => .f
  | .f => .t
  | .m => .m

/-- `match_all` on an automaton / regex set (solver.rs:879-1050). -/
def allAc (d : Doc) (ctx : List MatchType) (ci : Bool) (f : Str) (cast : Bool) : Tri :=
  match d.find f with
  | none => .m
  | some v => triOfOpt (onFieldValue cast (fun x => slowAho ci ctx x == ctx.length) v)

def allSet (E : RegexEngine) (d : Doc) (ps : List Str) (ci : Bool) (f : Str) (cast : Bool) : Tri :=
  match d.find f with
  | none => .m
  | some v => triOfOpt (onFieldValue cast (fun x => setHits E ps ci x == ps.length) v)

/-- `match_of` on an automaton / regex set (solver.rs:1114-1280). -/
def ofAc (E : RegexEngine) (d : Doc) (count : Nat) (ctx : List MatchType) (ci : Bool) (f : Str) (cast : Bool) : Tri :=
  if count = 0 then ofZero (solveSearch E d (.ac ctx ci) f cast) else
  match d.find f with
  | none => .m
  | some v => triOfOpt (onFieldValue cast (fun x => decide (count ≤ slowAho ci ctx x)) v)

def ofSet (E : RegexEngine) (d : Doc) (count : Nat) (ps : List Str) (ci : Bool) (f : Str) (cast : Bool) : Tri :=
  if count = 0 then ofZero (solveSearch E d (.regexSet ps ci) f cast) else
  match d.find f with
  | none => .m
  | some v => triOfOpt (onFieldValue cast (fun x => decide (count ≤ setHits E ps ci x)) v)

/-- `match_of` fall-through (solver.rs:1333, after the count repair). -/
def ofSingle (count : Nat) (r : Tri) : Tri :=
  if count = 0 then ofZero r else
  match r with
  | .t => if count > 1 then .m else .t
  | r => r

def emptyCache (cols : List Str) : List (Option Value) := cols.map (fun _ => none)

mutual
/-- `solve_expression` (solver.rs:54), with `match_all` / `match_of` inlined as arms. -/
def solveG (E : RegexEngine) (K : IdentK) (d : Doc) : Expr → Tri
  | .group .and es => andG E K d es
  | .group .or es => orG E K d es
  | .group _ _ => .m                                   -- unreachable!()
  | .bin l .and r => binAnd (solveG E K d l) (solveG E K d r)
  | .bin l .or r => binOr (solveG E K d l) (solveG E K d r)
  | .bin l op r => solveCmp d l op r
  | .ident i => K.ident i d
  | .match .all (.ident i) => K.match .all i d
  | .match .all (.group _ es) => andG E K d es
  | .match .all (.search (.ac ctx ci) f cast) => allAc d ctx ci f cast
  | .match .all (.search (.regexSet ps ci) f cast) => allSet E d ps ci f cast
  | .match .all (.matrix cols rows) => Tri.and (rowsG E K d cols rows (emptyCache cols)).1
  | .match .all e => solveG E K d e
  | .match (.of c) (.ident i) => K.match (.of c) i d
  | .match (.of c) (.group _ es) => Tri.ofN c (listG E K d es)
  | .match (.of c) (.search (.ac ctx ci) f cast) => ofAc E d c ctx ci f cast
  | .match (.of c) (.search (.regexSet ps ci) f cast) => ofSet E d c ps ci f cast
  | .match (.of c) (.matrix cols rows) =>
    if c = 0 then ofZero (Tri.or (rowsG E K d cols rows (emptyCache cols)).1)
    else Tri.ofN c (rowsG E K d cols rows (emptyCache cols)).1
  | .match (.of c) e => ofSingle c (solveG E K d e)
  | .matrix cols rows => Tri.or (rowsG E K d cols rows (emptyCache cols)).1
  | .negate e => (solveG E K d e).not
  | .nested f (.match .all (.group .or es)) =>
    match d.find f with
    | none => .m
    | some (.obj kvs) => andG E K (.obj kvs) es
    | some (.arr a) => nestedAllOrG E K (elemObjs a) es
    | some _ => .f
  | .nested f (.match .all (.matrix cols rows)) =>
    match d.find f with
    | none => .m
    | some (.obj kvs) => Tri.and (rowsG E K (.obj kvs) cols rows (emptyCache cols)).1
    | some (.arr a) => nestedAllMatrixG E K a cols rows
    | some _ => .f
  | .nested f e =>
    match d.find f with
    | none => .m
    | some (.obj kvs) => solveG E K (.obj kvs) e
    | some (.arr a) => Tri.ofBool ((elemObjs a).any (fun kvs => solveG E K (.obj kvs) e == .t))
    | some _ => .f
  | .search s f c => solveSearch E d s f c
  | .bool _ | .cast _ _ | .field _ | .float _ | .int _ | .null => .m   -- unreachable!()

/-- The results of the members of a group, in order (results only, no short-circuit). -/
def listG (E : RegexEngine) (K : IdentK) (d : Doc) : List Expr → List Tri
  | [] => []
  | e :: es => solveG E K d e :: listG E K d es

/-- And-group loop (solver.rs:60-69; also `Match::All` over a group, :603-610). -/
def andG (E : RegexEngine) (K : IdentK) (d : Doc) : List Expr → Tri
  | [] => .t
  | e :: es =>
    match solveG E K d e with
    | .t => andG E K d es
    | r => r

/-- Or-group loop (solver.rs:70-80). -/
def orG (E : RegexEngine) (K : IdentK) (d : Doc) : List Expr → Tri
  | [] => .m
  | e :: es =>
    match solveG E K d e with
    | .t => .t
    | .f => (match orG E K d es with | .t => .t | _ => .f)
    | .m => orG E K d es

/-- Results of the rows of a matrix, threading the cache (solver.rs:655-699). -/
def rowsG (E : RegexEngine) (K : IdentK) (d : Doc) (cols : List Str) :
    List (List (Option Expr)) → List (Option Value) → List Tri × List (Option Value)
  | [], cache => ([], cache)
  | row :: rows, cache =>
    let r := rowG E K d cols row 0 cache
    let rs := rowsG E K d cols rows r.2
    (r.1 :: rs.1, rs.2)

/-- One row: the first non-true cell decides (solver.rs:662-692). -/
def rowG (E : RegexEngine) (K : IdentK) (d : Doc) (cols : List Str) :
    List (Option Expr) → Nat → List (Option Value) → Tri × List (Option Value)
  | [], _, cache => (.t, cache)
  | none :: cells, i, cache => rowG E K d cols cells (i + 1) cache
  | some e :: cells, i, cache =>
    let filled : Option (List (Option Value)) :=
      match (cache[i]?).join with
      | some _ => some cache
      | none =>
        match cols[i]? with
        | none => none                      -- source: `columns[i]` panics (row wider than columns)
        | some col =>
          match d.find col with
          | some v => some (cacheSet cache i v)
          | none => none
    match filled with
    | none => (.m, cache)
    | some cache' =>
      match solveG E K (.cache cache') e with
      | .t => rowG E K d cols cells (i + 1) cache'
      | r => (r, cache')

/-- solver.rs:723-741: every member must be true for *some* element; otherwise false (a nested
    block over an array is never missing). -/
def nestedAllOrG (E : RegexEngine) (K : IdentK) (objs : List (List (Str × Value))) : List Expr → Tri
  | [] => .t
  | e :: es =>
    match Tri.or (objs.map (fun kvs => solveG E K (.obj kvs) e)) with
    | .t => nestedAllOrG E K objs es
    | _ => .f

/-- solver.rs:742-782: every row must be a hit for *some* element (`Passthrough` documents). -/
def nestedAllMatrixG (E : RegexEngine) (K : IdentK) (a : List Value) (cols : List Str) :
    List (List (Option Expr)) → Tri
  | [] => .t
  | row :: rows =>
    if a.any (fun v => passRowG E K v cols row 0 == .t) then nestedAllMatrixG E K a cols rows
    else .m

/-- One row against one array element through `Passthrough` (solver.rs:750-771); a non-object
    element evaluates nothing and therefore counts as a hit, as in the source. -/
def passRowG (E : RegexEngine) (K : IdentK) (v : Value) (cols : List Str) :
    List (Option Expr) → Nat → Tri
  | [], _ => .t
  | none :: cells, i => passRowG E K v cols cells (i + 1)
  | some e :: cells, i =>
    match v with
    | .obj kvs =>
      (match solveG E K (.pass ((cols[i]?).bind (objFind kvs))) e with
       | .t => passRowG E K v cols cells (i + 1)
       | r => r)
    | _ => passRowG E K v cols cells (i + 1)
end

/-- Identifier environment (`Detection.identifiers`; keys are unique after load). -/
abbrev Ids := List (Str × Expr)

def lookupId : Ids → Str → Option Expr
  | [], _ => none
  | (k, e) :: rest, key => if k == key then some e else lookupId rest key

/-- Inside an identifier body there are no identifiers: both continuations are unreachable. -/
def closedK : IdentK := { ident := fun _ _ => .m, «match» := fun _ _ _ => .m }

/-- Evaluate an identifier body / a coalesced tree. -/
def solveClosed (E : RegexEngine) (d : Doc) (e : Expr) : Tri := solveG E closedK d e

/-- solver.rs:589-592 and :595-599 / :614-620: look the identifier up, then evaluate its body. -/
def topK (E : RegexEngine) (ids : Ids) : IdentK :=
  { ident := fun i d => match lookupId ids i with | some b => solveClosed E d b | none => .m
    «match» := fun k i d => match lookupId ids i with | some b => solveClosed E d (.match k b) | none => .m }

/-- `solve_expression(expression, identifiers, document)`. -/
def solveTop (E : RegexEngine) (ids : Ids) (d : Doc) (e : Expr) : Tri := solveG E (topK E ids) d e

/-- `solver::solve`: only true is a match. -/
def matchesTop (E : RegexEngine) (ids : Ids) (d : Doc) (e : Expr) : Bool := (solveTop E ids d e).isT

end Tau
