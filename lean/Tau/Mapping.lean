import Tau.Tokeniser
import Tau.Pratt
import Tau.Pattern
/-
  Tau.Mapping — model of `parse_identifier` / `parse_mapping` (parser.rs:744-1608):
  YAML value of one identifier → `Expr`.
-/
namespace Tau

/-- Re-join the identifier tokens of a key (parser.rs:794-811): the tokeniser splits a key on
    whitespace, consecutive identifier tokens are merged with a single space. -/
def joinSp (xs : List Str) : Str := [' '].intercalate xs

def rejoinKeyTokens : List Token → List Str → List Token → List Token
  | [], idents, acc =>
    if idents.isEmpty then acc.reverse
    else (Token.ident (joinSp idents.reverse) :: acc).reverse
  | .ident s :: ts, idents, acc => rejoinKeyTokens ts (s :: idents) acc
  | t :: ts, idents, acc =>
    if idents.isEmpty then rejoinKeyTokens ts [] (t :: acc)
    else rejoinKeyTokens ts [] (t :: Token.ident (joinSp idents.reverse) :: acc)

/-- What a mapping key turns into: the left-hand expression `e`, the field name `f` and the
    modifier `misc` (parser.rs:790-860). `vIsSeq` = the value under the key is a sequence. -/
def parseKey (k : Yaml) (vIsSeq : Bool) : Except Err (Expr × Str × Option ModSym) :=
  match k with
  | .str s =>
    match tokenise s with
    | .error e => .error e
    | .ok toks =>
      match parse (rejoinKeyTokens toks [] []) with
      | .error e => .error e
      | .ok expr =>
        match expr with
        | .cast f m =>
          match m with
          | .not => .ok (.field f, f, some m)
          | _ => .ok (.cast f m, f, some m)
        | .ident f => .ok (.field f, f, none)
        | .match m (.ident f) =>
          if vIsSeq then .ok (.match m (.field f), f, none) else .error .parseInvalidIdent
        | _ => .error .parseInvalidIdent
  | _ => .error .parseInvalidIdent

def Yaml.isSeq : Yaml → Bool
  | .seq _ => true
  | _ => false

def boolToStr (b : Bool) : Str := if b then "true".toList else "false".toList

/-- Case-insensitive single needles become one-needle automatons (parser.rs:1014-1089). -/
def searchOfPattern (ci : Bool) : Pattern → Option Search
  | .any => some .any
  | .regex p => some (.regex p ci)
  | .contains c => some (if ci then .ac [.contains c] true else .contains c)
  | .endsWith c => some (if ci then .ac [.endsWith c] true else .endsWith c)
  | .exact c => some (if !c.isEmpty && ci then .ac [.exact c] true else .exact c)
  | .startsWith c => some (if ci then .ac [.startsWith c] true else .startsWith c)
  | _ => none

/-- The cast checks shared by the scalar and the list path (parser.rs:920-956, 1238-1274). -/
def castCheck (misc : Option ModSym) (p : Pattern) : Except Err Unit :=
  match misc with
  | some .int => if p.isNumeric then .ok () else .error .parseInvalidIdent
  | some .str => if p.isNumeric then .error .parseInvalidIdent else .ok ()
  | _ => .ok ()

/-- State of the member loop of the sequence branch (parser.rs:1116-1127). -/
structure SeqSt where
  exact : List Ident := []
  startsWith : List Ident := []
  endsWith : List Ident := []
  contains : List Ident := []
  regex : List Ident := []
  rest : List Expr := []
  boolean : Bool := false
  cast : Bool := false
  mapping : Bool := false
  number : Bool := false
  string : Bool := false

def numExpr (lhs : Expr) : Pattern → Option Expr
  | .cmpI op i => some (.bin lhs op (.int i))
  | .cmpF op b => some (.bin lhs op (.float b))
  | _ => none

def matchTypeOf : Pattern → Option MatchType
  | .contains s => some (.contains s)
  | .endsWith s => some (.endsWith s)
  | .exact s => some (.exact s)
  | .startsWith s => some (.startsWith s)
  | _ => none

def searchOfMatchType : MatchType → Search
  | .contains c => .contains c
  | .endsWith c => .endsWith c
  | .exact c => .exact c
  | .startsWith c => .startsWith c

def regexText : Ident → Option Str
  | ⟨_, .regex p⟩ => some p
  | _ => none

def wrapNot (misc : Option ModSym) (x : Expr) : Expr := if misc == some .not then .negate x else x

/-- Case-sensitive literal needles: none, one plain search, or one automaton (parser.rs:1418-1456). -/
def litBlock (ctx : List MatchType) (f : Str) (cast : Bool) : List Expr × Bool :=
  match ctx with
  | [] => ([], false)
  | [c] => ([Expr.search (searchOfMatchType c) f cast], false)
  | _ => ([Expr.search (.ac ctx false) f cast], true)

/-- Case-insensitive literal needles: always an automaton (parser.rs:1457-1475). -/
def ilitBlock (ictx : List MatchType) (f : Str) (cast : Bool) : List Expr × Bool :=
  if ictx.isEmpty then ([], false) else ([Expr.search (.ac ictx true) f cast], true)

/-- Regexes of one case flag: none, one regex, or one regex set (parser.rs:1476-1550). -/
def rxBlock (rs : List Str) (ci : Bool) (f : Str) (cast : Bool) : List Expr × Bool :=
  match rs with
  | [] => ([], false)
  | [r] => ([Expr.search (.regex r ci) f cast], false)
  | _ => ([Expr.search (.regexSet rs ci) f cast], true)

def isNonEmptyExact (i : Ident) : Bool := match i.pat with | .exact s => !s.isEmpty | _ => false
def isEmptyExact (i : Ident) : Bool := match i.pat with | .exact s => s.isEmpty | _ => false

/-- The batching tail of the sequence branch (parser.rs:1382-1551): returns `(group, multiple)`. -/
def batchMembers (st : SeqSt) (f : Str) : List Expr × Bool :=
  let cast := st.cast
  let order := st.startsWith ++ st.contains ++ st.endsWith
  let nonEmptyExact := st.exact.filter isNonEmptyExact
  let emptyExact := st.exact.filter isEmptyExact
  let all := order ++ nonEmptyExact
  let ctx := (all.filter (fun i => !i.ci)).filterMap (fun i => matchTypeOf i.pat)
  let ictx := (all.filter (fun i => i.ci)).filterMap (fun i => matchTypeOf i.pat)
  let rs := (st.regex.filter (fun i => !i.ci)).filterMap regexText
  let irs := (st.regex.filter (fun i => i.ci)).filterMap regexText
  let g0 : List Expr := emptyExact.map (fun _ => Expr.search (.exact []) f cast)
  let b1 := litBlock ctx f cast
  let b2 := ilitBlock ictx f cast
  let b3 := rxBlock rs false f cast
  let b4 := rxBlock irs true f cast
  (g0 ++ b1.1 ++ b2.1 ++ b3.1 ++ b4.1 ++ st.rest, b1.2 || b2.2 || b3.2 || b4.2)

/-- The tail of `parse_mapping` (parser.rs:1602-1607). -/
def finishMapping : Except Err (List Expr) → Except Err Expr
  | .error e => .error e
  | .ok [] => .error .parseInvalidIdent
  | .ok [e] => .ok e
  | .ok es => .ok (.group .and es)

/-- The kind checks after the member loop (parser.rs:1552-1574). -/
def seqErr (e : Expr) (misc : Option ModSym) (st : SeqSt) : Bool :=
  let isMatch := match e with | .match _ _ => true | _ => false
  let kinds := st.boolean.toNat + st.mapping.toNat + st.number.toNat + st.string.toNat
  (isMatch && kinds > 1) ||
    (misc == some .int && (st.boolean || st.mapping || st.string)) ||
    (misc == some .str && (st.boolean || st.mapping || st.number))

/-- The final shaping of a list (parser.rs:1575-1588, after the of(k, n) repair): a lone
    un-batched member stands for itself except under `of`; under all()/of() the group is wrapped. -/
def shapeGroup (e : Expr) (g : Expr) (gs : List Expr) (multiple : Bool) : Expr :=
  match e with
  | .match (.of n) _ => if gs.isEmpty then .match (.of n) g else .match (.of n) (.group .or (g :: gs))
  | .match .all _ =>
    if !multiple && gs.isEmpty then g
    else if gs.isEmpty then .match .all g else .match .all (.group .or (g :: gs))
  | _ => if !multiple && gs.isEmpty then g else .group .or (g :: gs)

def shapeSeq (e : Expr) (misc : Option ModSym) (st : SeqSt) (group : List Expr) (multiple : Bool) :
    Except Err Expr :=
  if seqErr e misc st then .error .parseInvalidIdent else
  match group with
  | [] => .error .parseInvalidIdent
  | g :: gs => .ok (wrapNot misc (shapeGroup e g gs multiple))

mutual
/-- The `for (k, v) in mapping` loop of `parse_mapping` (parser.rs:786). -/
def parseEntries (E : RegexEngine) (ic : Bool) : List (Yaml × Yaml) → Except Err (List Expr)
  | [] => .ok []
  | p :: rest =>
    match parsePair E ic p with
    | .error e => .error e
    | .ok x =>
      match parseEntries E ic rest with
      | .error e => .error e
      | .ok xs => .ok (x :: xs)

def parsePair (E : RegexEngine) (ic : Bool) : Yaml × Yaml → Except Err Expr
  | (k, v) =>
    match parseKey k v.isSeq with
    | .error err => .error err
    | .ok (e, f, misc) => parseVal E ic e f misc v

/-- The `match v` of one `(k, v)` iteration of the loop in `parse_mapping` (parser.rs:861-1595). -/
def parseVal (E : RegexEngine) (ic : Bool) (e : Expr) (f : Str) (misc : Option ModSym) :
    Yaml → Except Err Expr
  | .bool b =>
    .ok (wrapNot misc (
      if misc == some .int then .bin e .eq (.int (if b then 1 else 0))
      else if misc == some .str then .search (.exact (boolToStr b)) f true
      else .bin e .eq (.bool b)))
  | .num (.int i) =>
    .ok (wrapNot misc (if misc == some .str then .search (.exact (intToStr i)) f true else .bin e .eq (.int i)))
  | .num (.big _ bits shown) | .num (.flt bits shown) =>
    if misc == some .int then .error .parseInvalidIdent
    else if misc == some .str then .ok (wrapNot misc (.search (.exact shown) f true))
    else .ok (wrapNot misc (.bin e .eq (.float bits)))
  | .null => .ok (wrapNot misc (.bin e .eq .null))
  | .str s =>
    match intoIdentifier E ic s with
    | .error err => .error err
    | .ok ident =>
      let cast := misc == some .str
      match castCheck misc ident.pat with
      | .error err => .error err
      | .ok () =>
        match numExpr e ident.pat with
        | some x => .ok (wrapNot misc x)
        | none =>
          match searchOfPattern ident.ci ident.pat with
          | some srch => .ok (wrapNot misc (.search srch f cast))
          | none => .error (.panic "parse_mapping: pattern")
  | .map m =>
    if misc.isSome then .error .parseInvalidIdent else
    match finishMapping (parseEntries E ic m) with
    | .error err => .error err
    | .ok x => .ok (wrapNot misc (.nested f x))
  | .seq s =>
    let unmatched : Expr := match e with | .match _ x => x | x => x
    match parseMembers E ic f misc unmatched s { cast := misc == some .str } with
    | .error err => .error err
    | .ok st => shapeSeq e misc st (batchMembers st f).1 (batchMembers st f).2
  | .tagged _ => .error .parseInvalidIdent

/-- The `for value in s` loop of the sequence branch (parser.rs:1135-1381). -/
def parseMembers (E : RegexEngine) (ic : Bool) (f : Str) (misc : Option ModSym) (lhs : Expr) :
    List Yaml → SeqSt → Except Err SeqSt
  | [], st => .ok st
  | v :: vs, st =>
    match v with
    | .bool b =>
      if misc == some .int then
        parseMembers E ic f misc lhs vs
          { st with number := true, rest := st.rest ++ [.bin lhs .eq (.int (if b then 1 else 0))] }
      else if misc == some .str then
        parseMembers E ic f misc lhs vs
          { st with string := true, exact := st.exact ++ [⟨false, .exact (boolToStr b)⟩] }
      else
        parseMembers E ic f misc lhs vs
          { st with boolean := true, rest := st.rest ++ [.bin lhs .eq (.bool b)] }
    | .null =>
      parseMembers E ic f misc lhs vs { st with rest := st.rest ++ [.bin lhs .eq .null] }
    | .num (.int i) =>
      if misc == some .str then
        parseMembers E ic f misc lhs vs
          { st with string := true, exact := st.exact ++ [⟨false, .exact (intToStr i)⟩] }
      else
        parseMembers E ic f misc lhs vs
          { st with number := true, rest := st.rest ++ [.bin lhs .eq (.int i)] }
    | .num (.big _ bits shown) | .num (.flt bits shown) =>
      if misc == some .int then .error .parseInvalidIdent
      else if misc == some .str then
        parseMembers E ic f misc lhs vs
          { st with string := true, exact := st.exact ++ [⟨false, .exact shown⟩] }
      else
        parseMembers E ic f misc lhs vs
          { st with number := true, rest := st.rest ++ [.bin lhs .eq (.float bits)] }
    | .str s =>
      match intoIdentifier E ic s with
      | .error err => .error err
      | .ok ident =>
        let st := if misc == some .str then { st with cast := true } else st
        match castCheck misc ident.pat with
        | .error err => .error err
        | .ok () =>
          match ident.pat with
          | .exact _ => parseMembers E ic f misc lhs vs { st with string := true, exact := st.exact ++ [ident] }
          | .startsWith _ => parseMembers E ic f misc lhs vs { st with string := true, startsWith := st.startsWith ++ [ident] }
          | .endsWith _ => parseMembers E ic f misc lhs vs { st with string := true, endsWith := st.endsWith ++ [ident] }
          | .contains _ => parseMembers E ic f misc lhs vs { st with string := true, contains := st.contains ++ [ident] }
          | .regex _ => parseMembers E ic f misc lhs vs { st with string := true, regex := st.regex ++ [ident] }
          | .any => parseMembers E ic f misc lhs vs { st with string := true, rest := st.rest ++ [.search .any f st.cast] }
          | .cmpI op i => parseMembers E ic f misc lhs vs { st with number := true, rest := st.rest ++ [.bin lhs op (.int i)] }
          | .cmpF op b => parseMembers E ic f misc lhs vs { st with number := true, rest := st.rest ++ [.bin lhs op (.float b)] }
    | .map m =>
      if misc.isSome then .error .parseInvalidIdent else
      match finishMapping (parseEntries E ic m) with
      | .error err => .error err
      | .ok x => parseMembers E ic f misc lhs vs { st with mapping := true, rest := st.rest ++ [.nested f x] }
    | _ => .error .parseInvalidIdent
end

/-- `parse_mapping` (parser.rs:786). -/
def parseMapping (E : RegexEngine) (ic : Bool) (kvs : List (Yaml × Yaml)) : Except Err Expr :=
  finishMapping (parseEntries E ic kvs)

/-- `parse_identifier` (parser.rs:744). -/
def parseIdentifier (E : RegexEngine) (ic : Bool) : Yaml → Except Err Expr
  | .map m => parseMapping E ic m
  | .seq [] => .error .parseInvalidIdent
  | .seq (x :: xs) =>
    let rec go : List Yaml → Except Err (List Expr)
      | [] => .ok []
      | .map m :: rest =>
        match finishMapping (parseEntries E ic m) with
        | .error e => .error e
        | .ok x =>
          match go rest with
          | .error e => .error e
          | .ok xs => .ok (x :: xs)
      | _ => .error .parseInvalidIdent
    match go (x :: xs) with
    | .error e => .error e
    | .ok es => .ok (.group .or es)
  | _ => .error .parseInvalidIdent

end Tau
