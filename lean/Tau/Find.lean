import Tau.Syntax
import Tau.Num
/-
  Tau.Find — model of `Object::find` (value.rs:552-585, after the fabrication repair) and of the
  four kinds of document the solver evaluates against.
-/
namespace Tau

/-- `str::split(c)`: always at least one piece. -/
def splitOn (c : Char) : Str → List Str
  | [] => [[]]
  | x :: xs =>
    if x == c then [] :: splitOn c xs
    else
      match splitOn c xs with
      | [] => [[x]]          -- unreachable: `splitOn` never returns `[]`
      | p :: ps => (x :: p) :: ps

/-- `Object::get` on a mapping: the value under the first equal key. -/
def getKey : List (Str × Value) → Str → Option Value
  | [], _ => none
  | (k, v) :: rest, key => if k == key then some v else getKey rest key

/-- Decomposition of one path segment (value.rs:555-561): `none` = plain key;
    `some (name, idx?)` = indexed segment, `idx? = none` when the index does not parse. -/
def segIndex (k : Str) : Option (Str × Option Nat) :=
  if k.getLast? == some ']' && k.contains '[' then
    match splitOn '[' k with
    | name :: second :: _ =>
      if second.getLast? == some ']' then some (name, parseUsize (second.take (second.length - 1)))
      else some (name, none)
    | _ => some ([], none)   -- unreachable: `k` contains '['
  else none

/-- One step of the loop: from the current object, resolve one segment. -/
def findStep (cur : List (Str × Value)) (seg : Str) : Option Value :=
  match segIndex seg with
  | some (name, idx?) =>
    match idx? with
    | none => none
    | some i =>
      match getKey cur name with
      | some (.arr a) => a[i]?
      | _ => none
  | none => getKey cur seg

/-- The loop of `Object::find` over the remaining segments, `cur` being the value reached so far. -/
def findSegs : Value → List Str → Option Value
  | v, [] => some v
  | .obj kvs, seg :: rest =>
    match findStep kvs seg with
    | some v => findSegs v rest
    | none => none
  | _, _ :: _ => none

/-- `Object::find` (default implementation). -/
def objFind (kvs : List (Str × Value)) (key : Str) : Option Value :=
  findSegs (.obj kvs) (splitOn '.' key)

/-- What the solver evaluates against (`&dyn Document`). -/
inductive Doc where
  | obj (kvs : List (Str × Value))          -- an `Object` using the default `find`
  | user (f : Str → Option Value)           -- a user `Document` (any pure function)
  | cache (cells : List (Option Value))     -- solver.rs:13  `Cache`
  | pass (v : Option Value)                 -- solver.rs:22  `Passthrough`

/-- `Document::find`. For `Cache` the key's first character is the column index. -/
def Doc.find : Doc → Str → Option Value
  | .obj kvs, key => objFind kvs key
  | .user f, key => f key
  | .cache cells, key =>
    match key with
    | [] => none                                 -- source: `.expect("could not get key")` panics
    | c :: _ => (cells[c.toNat]?).join         -- source: out-of-range index panics
  | .pass v, _ => v

/-- Does `Cache::find` hit one of its two panic sites? -/
def Doc.findPanics : Doc → Str → Bool
  | .cache cells, key =>
    match key with
    | [] => true
    | c :: _ => decide (cells.length ≤ c.toNat)
  | _, _ => false

end Tau
