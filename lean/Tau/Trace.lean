import Tau.Solver
/-
  Tau.Trace — the sequence of keys the solver asks the *top-level* document for, in order.
  This mirrors the control flow (short-circuits, lazy matrix cache) of solver.rs, using `solveG`
  for the decisions.  Lookups made on nested objects, the matrix cache and pass-through documents
  are not presented to the user's document and therefore do not appear.
-/
namespace Tau

/-- Trace continuation at identifiers. -/
structure TraceK where
  ident : Str → Doc → List Str
  «match» : MatchK → Str → Doc → List Str

/-- Keys asked by operand extraction (solver.rs:176-461). -/
def operandKeys : Expr → List Str
  | .field f => [f]
  | .cast f .flt => [f]
  | .cast f .int => [f]
  | _ => []

/-- Keys asked by a comparison (incl. the three edge cases). -/
def cmpKeys (d : Doc) (l : Expr) (op : BoolSym) (r : Expr) : List Str :=
  match l, op, r with
  | .cast lf .str, .eq, .cast rf .str =>
    match d.find lf with
    | none => [lf]
    | some x => if (valueToString x).isSome then [lf, rf] else [lf]
  | .field lf, .eq, .bool _ => [lf]
  | .field lf, .eq, .null => [lf]
  | _, _, _ =>
    match operand d l with
    | .error _ => operandKeys l
    | .ok _ => operandKeys l ++ operandKeys r

/-- Keys asked by one row (cache fills only). Not recursive in the expression: the cell is
    evaluated through the `ev` callback. -/
def rowT (d : Doc) (cols : List Str) :
    List (Option Expr) → Nat → List (Option Value) → (List (Option Value) → Expr → Tri) → List Str
  | [], _, _, _ => []
  | none :: cells, i, cache, ev => rowT d cols cells (i + 1) cache ev
  | some e :: cells, i, cache, ev =>
    match (cache[i]?).join with
    | some _ =>
      (match ev cache e with
       | .t => rowT d cols cells (i + 1) cache ev
       | _ => [])
    | none =>
      match cols[i]? with
      | none => []
      | some k =>
        match d.find k with
        | none => [k]
        | some v =>
          let cache' := cacheSet cache i v
          (match ev cache' e with
           | .t => k :: rowT d cols cells (i + 1) cache' ev
           | _ => [k])

mutual
def traceG (E : RegexEngine) (K : IdentK) (T : TraceK) (d : Doc) : Expr → List Str
  | .group .and es => andT E K T d es
  | .group .or es => orT E K T d es
  | .group _ _ => []
  | .bin l .and r =>
    traceG E K T d l ++ (if solveG E K d l == .t then traceG E K T d r else [])
  | .bin l .or r =>
    traceG E K T d l ++ (if solveG E K d l == .t then [] else traceG E K T d r)
  | .bin l op r => cmpKeys d l op r
  | .ident i => T.ident i d
  | .match .all (.ident i) => T.match .all i d
  | .match .all (.group _ es) => andT E K T d es
  | .match .all (.search (.ac _ _) f _) => [f]
  | .match .all (.search (.regexSet _ _) f _) => [f]
  | .match .all (.matrix cols rows) => (rowsT E K d cols rows (emptyCache cols) (fun r => r != .t)).1
  | .match .all e => traceG E K T d e
  | .match (.of c) (.ident i) => T.match (.of c) i d
  | .match (.of c) (.group _ es) => ofT E K T d c 0 es
  | .match (.of _) (.search (.ac _ _) f _) => [f]
  | .match (.of _) (.search (.regexSet _ _) f _) => [f]
  | .match (.of c) (.matrix cols rows) =>
    if c = 0 then (rowsT E K d cols rows (emptyCache cols) (fun r => r == .t)).1
    else (rowsOfT E K d cols rows (emptyCache cols) c 0)
  | .match (.of _) e => traceG E K T d e
  | .matrix cols rows => (rowsT E K d cols rows (emptyCache cols) (fun r => r == .t)).1
  | .negate e => traceG E K T d e
  | .nested f _ => [f]
  | .search _ f _ => [f]
  | .bool _ | .cast _ _ | .field _ | .float _ | .int _ | .null => []

/-- And-loop: stops after the first non-true member. -/
def andT (E : RegexEngine) (K : IdentK) (T : TraceK) (d : Doc) : List Expr → List Str
  | [] => []
  | e :: es => traceG E K T d e ++ (if solveG E K d e == .t then andT E K T d es else [])

/-- Or-loop: stops after the first true member. -/
def orT (E : RegexEngine) (K : IdentK) (T : TraceK) (d : Doc) : List Expr → List Str
  | [] => []
  | e :: es => traceG E K T d e ++ (if solveG E K d e == .t then [] else orT E K T d es)

/-- `Match::Of` group loop (solver.rs:626-647): c = 0 stops at the first true member; c > 0 stops
    when the count is reached. -/
def ofT (E : RegexEngine) (K : IdentK) (T : TraceK) (d : Doc) (c : Nat) (count : Nat) : List Expr → List Str
  | [] => []
  | e :: es =>
    traceG E K T d e ++
      (if solveG E K d e == .t then
        (if c = 0 then [] else if count + 1 ≥ c then [] else ofT E K T d c (count + 1) es)
       else ofT E K T d c count es)

/-- Keys asked while filling the cache for the rows of a matrix; `stop r` = the loop over rows
    returns after a row with result `r`. -/
def rowsT (E : RegexEngine) (K : IdentK) (d : Doc) (cols : List Str) :
    List (List (Option Expr)) → List (Option Value) → (Tri → Bool) → List Str × List (Option Value)
  | [], cache, _ => ([], cache)
  | row :: rows, cache, stop =>
    let t := rowT d cols row 0 cache (fun c e => solveG E K (.cache c) e)
    let r := rowG E K d cols row 0 cache
    if stop r.1 then (t, r.2)
    else
      let rest := rowsT E K d cols rows r.2 stop
      (t ++ rest.1, rest.2)

/-- `match_of` over a matrix with count ≥ 1 (solver.rs:1293-1331). -/
def rowsOfT (E : RegexEngine) (K : IdentK) (d : Doc) (cols : List Str) :
    List (List (Option Expr)) → List (Option Value) → Nat → Nat → List Str
  | [], _, _, _ => []
  | row :: rows, cache, c, hits =>
    let t := rowT d cols row 0 cache (fun c e => solveG E K (.cache c) e)
    let r := rowG E K d cols row 0 cache
    if r.1 == .t then
      (if hits + 1 ≥ c then t else t ++ rowsOfT E K d cols rows r.2 c (hits + 1))
    else t ++ rowsOfT E K d cols rows r.2 c hits
end

def closedT : TraceK := { ident := fun _ _ => [], «match» := fun _ _ _ => [] }

def traceClosed (E : RegexEngine) (d : Doc) (e : Expr) : List Str := traceG E closedK closedT d e

def topT (E : RegexEngine) (ids : Ids) : TraceK :=
  { ident := fun i d => match lookupId ids i with | some b => traceClosed E d b | none => []
    «match» := fun k i d => match lookupId ids i with | some b => traceClosed E d (.match k b) | none => [] }

/-- Keys the solver asks the top-level document for, in order. -/
def traceTop (E : RegexEngine) (ids : Ids) (d : Doc) (e : Expr) : List Str :=
  traceG E (topK E ids) (topT E ids) d e

end Tau
