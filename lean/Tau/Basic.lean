def hello := "world"
