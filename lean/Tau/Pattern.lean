import Tau.Syntax
import Tau.Num
/-
  Tau.Pattern — model of `IdentifierParser::into_identifier` (identifier.rs:53-173) and of the
  external regex engine as a parameter.
-/
namespace Tau

/-- The `regex` crate, as far as the engine uses it: whether a pattern text compiles with a
    case flag, and unanchored search. An external call, hence a parameter (DESIGN §4.3). -/
structure RegexEngine where
  compiles : Str → Bool → Bool
  isMatch : Str → Bool → Str → Bool

/-- `identifier::Pattern`; the ten numeric variants are folded into `cmpI`/`cmpF`. -/
inductive Pattern where
  | any
  | contains (s : Str)
  | endsWith (s : Str)
  | exact (s : Str)
  | startsWith (s : Str)
  | regex (p : Str)
  | cmpI (op : BoolSym) (i : Int)
  | cmpF (op : BoolSym) (bits : Nat)
  deriving DecidableEq, Repr, Inhabited

/-- `identifier::Identifier`. -/
structure Ident where
  ci : Bool
  pat : Pattern
  deriving DecidableEq, Repr, Inhabited

def Pattern.isNumeric : Pattern → Bool
  | .cmpI _ _ | .cmpF _ _ => true
  | _ => false

/-- `s.parse::<f64>()` if `s` contains '.', else `s.parse::<i64>()` (identifier.rs:69-128). -/
def parseNumPat (op : BoolSym) (s : Str) : Except Err Pattern :=
  if s.contains '.' then
    match F64.parse s with
    | some b => .ok (.cmpF op b)
    | none => .error .parseInvalidIdent
  else
    match parseI64 s with
    | some i => .ok (.cmpI op i)
    | none => .error .parseInvalidIdent

def dropLast (s : Str) : Str := s.take (s.length - 1)

def lastIs (s : Str) (c : Char) : Bool := s.getLast? == some c

/-- `into_identifier`. `icFeature` = the crate is built with feature `ignore_case`. -/
def intoIdentifier (E : RegexEngine) (icFeature : Bool) (self : Str) : Except Err Ident :=
  let (ci, s) : Bool × Str :=
    if icFeature then (true, self) else
    match self with
    | 'i' :: r => (true, r)
    | _ => (false, self)
  let fold (x : Str) : Str := if ci then toAsciiLowercase x else x
  let pat : Except Err Pattern :=
    match s with
    | '?' :: r => if E.compiles r ci then .ok (.regex r) else .error .parseInvalidIdent
    | '>' :: '=' :: r => parseNumPat .ge r
    | '>' :: r => parseNumPat .gt r
    | '<' :: '=' :: r => parseNumPat .le r
    | '<' :: r => parseNumPat .lt r
    | '=' :: r => parseNumPat .eq r
    | _ =>
      if s == ['*'] then .ok .any
      else if s.head? == some '*' && lastIs s '*' then .ok (.contains (fold (dropLast (s.drop 1))))
      else if s.head? == some '*' then .ok (.endsWith (fold (s.drop 1)))
      else if lastIs s '*' then .ok (.startsWith (fold (dropLast s)))
      else if s.length > 1 && ((s.head? == some '"' && lastIs s '"') || (s.head? == some '\'' && lastIs s '\''))
        then .ok (.exact (fold (dropLast (s.drop 1))))
      else .ok (.exact (fold s))
  match pat with
  | .ok p => .ok { ci := ci, pat := p }
  | .error e => .error e

end Tau
