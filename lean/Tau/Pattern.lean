import Tau.Syntax
import Tau.Num
/-
  Tau.Pattern — model of `IdentifierParser::into_identifier` (identifier.rs:53-173) and of the
  external regex engine as a parameter.
-/
namespace Tau

/-- The `regex` crate, as far as the engine uses it: whether a pattern text compiles with a
    case flag, and unanchored search. An external call, hence a parameter (DESIGN §4.3). -/
structure RegexEngine where
  compiles : Str → Bool → Bool
  isMatch : Str → Bool → Str → Bool

/-- `identifier::Pattern`; the ten numeric variants are folded into `cmpI`/`cmpF`. -/
inductive Pattern where
  | any
  | contains (s : Str)
  | endsWith (s : Str)
  | exact (s : Str)
  | startsWith (s : Str)
  | regex (p : Str)
  | cmpI (op : BoolSym) (i : Int)
  | cmpF (op : BoolSym) (bits : Nat)
  deriving DecidableEq, Repr, Inhabited

/-- `identifier::Identifier`. -/
structure Ident where
  ci : Bool
  pat : Pattern
  deriving DecidableEq, Repr, Inhabited

def Pattern.isNumeric : Pattern → Bool
  | .cmpI _ _ | .cmpF _ _ => true
  | _ => false

/-- `s.parse::<f64>()` if `s` contains '.', else `s.parse::<i64>()` (identifier.rs:69-128). -/
def parseNumPat (op : BoolSym) (s : Str) : Except Err Pattern :=
  if s.contains '.' then
    match F64.parse s with
    | some b => .ok (.cmpF op b)
    | none => .error .parseInvalidIdent
  else
    match parseI64 s with
    | some i => .ok (.cmpI op i)
    | none => .error .parseInvalidIdent

def dropLast (s : Str) : Str := s.take (s.length - 1)

def lastIs (s : Str) (c : Char) : Bool := s.getLast? == some c

/-- The case decision of `into_identifier` (identifier.rs:55-61). `icFeature` = the crate is
    built with feature `ignore_case` (then no `i` prefix is interpreted). -/
def stripCase (icFeature : Bool) (self : Str) : Bool × Str :=
  if icFeature then (true, self) else
  match self with
  | 'i' :: r => (true, r)
  | _ => (false, self)

def foldIf (ci : Bool) (x : Str) : Str := if ci then toAsciiLowercase x else x

/-- The literal-pattern branches (identifier.rs:129-168). -/
def literalPattern (ci : Bool) (s : Str) : Pattern :=
  if s == ['*'] then .any
  else if s.head? == some '*' && lastIs s '*' then .contains (foldIf ci (dropLast (s.drop 1)))
  else if s.head? == some '*' then .endsWith (foldIf ci (s.drop 1))
  else if lastIs s '*' then .startsWith (foldIf ci (dropLast s))
  else if s.length > 1 && ((s.head? == some '"' && lastIs s '"') || (s.head? == some '\'' && lastIs s '\''))
    then .exact (foldIf ci (dropLast (s.drop 1)))
  else .exact (foldIf ci s)

/-- The pattern of the (prefix-stripped) string (identifier.rs:62-168). -/
def patternOf (E : RegexEngine) (ci : Bool) (s : Str) : Except Err Pattern :=
  match s with
  | '?' :: r => if E.compiles r ci then .ok (.regex r) else .error .parseInvalidIdent
  | '>' :: '=' :: r => parseNumPat .ge r
  | '>' :: r => parseNumPat .gt r
  | '<' :: '=' :: r => parseNumPat .le r
  | '<' :: r => parseNumPat .lt r
  | '=' :: r => parseNumPat .eq r
  | _ => .ok (literalPattern ci s)

/-- `into_identifier`. -/
def intoIdentifier (E : RegexEngine) (icFeature : Bool) (self : Str) : Except Err Ident :=
  match patternOf E (stripCase icFeature self).1 (stripCase icFeature self).2 with
  | .ok p => .ok { ci := (stripCase icFeature self).1, pat := p }
  | .error e => .error e

end Tau
