import Tau.Solver
import Tau.Optimiser
/-
  Tau.Safe — the panic sites of solver.rs as a Boolean companion of `solveG`, and the static
  predicate that rules them out.

  `hitsG E K H d e = true` iff evaluating `e` against `d` reaches one of:
    * the catch-all `unreachable!()` arm (a group with a non-boolean symbol, a literal, cast or field
      in predicate position)                                                  (solver.rs:863-869)
    * an identifier that is not defined                                        (:589-592, :595-620)
    * `Cache::find` with an empty key or an index past the cache               (:16-19)
    * `columns[i]` / `cache[i]` past the end of a matrix row                   (:666-667)
  It mirrors the control flow (short-circuits) of `solveG`, which it uses for the decisions.
-/
namespace Tau

/-- Panic continuation at identifiers. -/
structure HitK where
  ident : Str → Doc → Bool
  «match» : MatchK → Str → Doc → Bool

/-- Panic sites while extracting a comparison operand: only `find` on a cache document. -/
def operandHits (d : Doc) : Expr → Bool
  | .field f => d.findPanics f
  | .cast f .flt => d.findPanics f
  | .cast f .int => d.findPanics f
  | _ => false

def cmpHits (d : Doc) (l : Expr) (op : BoolSym) (r : Expr) : Bool :=
  match l, op, r with
  | .cast lf .str, .eq, .cast rf .str =>
    d.findPanics lf ||
      (match d.find lf with
       | none => false
       | some x => (valueToString x).isSome && d.findPanics rf)
  | .field lf, .eq, .bool _ => d.findPanics lf
  | .field lf, .eq, .null => d.findPanics lf
  | _, _, _ =>
    operandHits d l ||
      (match operand d l with
       | .error _ => false
       | .ok _ => operandHits d r)

/-- Visit the elements until one is true: does some visited element hit? -/
def anyUntil {α} (hit : α → Bool) (isT : α → Bool) : List α → Bool
  | [] => false
  | x :: xs => hit x || (!isT x && anyUntil hit isT xs)

mutual
def hitsG (E : RegexEngine) (K : IdentK) (H : HitK) (d : Doc) : Expr → Bool
  | .group .and es => andH E K H d es
  | .group .or es => orH E K H d es
  | .group _ _ => true
  | .bin l .and r => hitsG E K H d l || (solveG E K d l == .t && hitsG E K H d r)
  | .bin l .or r => hitsG E K H d l || (solveG E K d l != .t && hitsG E K H d r)
  | .bin l op r => cmpHits d l op r
  | .ident i => H.ident i d
  | .match .all (.ident i) => H.match .all i d
  | .match .all (.group _ es) => andH E K H d es
  | .match .all (.search (.ac _ _) f _) => d.findPanics f
  | .match .all (.search (.regexSet _ _) f _) => d.findPanics f
  | .match .all (.matrix cols rows) => (rowsH E K H d cols rows (emptyCache cols) (fun r => r != .t)).1
  | .match .all e => hitsG E K H d e
  | .match (.of c) (.ident i) => H.match (.of c) i d
  | .match (.of c) (.group _ es) => ofH E K H d c 0 es
  | .match (.of _) (.search (.ac _ _) f _) => d.findPanics f
  | .match (.of _) (.search (.regexSet _ _) f _) => d.findPanics f
  | .match (.of c) (.matrix cols rows) =>
    if c = 0 then (rowsH E K H d cols rows (emptyCache cols) (fun r => r == .t)).1
    else rowsOfH E K H d cols rows (emptyCache cols) c 0
  | .match (.of _) e => hitsG E K H d e
  | .matrix cols rows => (rowsH E K H d cols rows (emptyCache cols) (fun r => r == .t)).1
  | .negate e => hitsG E K H d e
  | .nested f (.match .all (.group .or es)) =>
    d.findPanics f ||
      (match d.find f with
       | some (.obj kvs) => andH E K H (.obj kvs) es
       | some (.arr a) => nestedAllOrH E K H (elemObjs a) es
       | _ => false)
  | .nested f (.match .all (.matrix cols rows)) =>
    d.findPanics f ||
      (match d.find f with
       | some (.obj kvs) => (rowsH E K H (.obj kvs) cols rows (emptyCache cols) (fun r => r != .t)).1
       | some (.arr a) => nestedAllMatrixH E K H a cols rows
       | _ => false)
  | .nested f e =>
    d.findPanics f ||
      (match d.find f with
       | some (.obj kvs) => hitsG E K H (.obj kvs) e
       | some (.arr a) =>
         anyUntil (fun kvs => hitsG E K H (.obj kvs) e) (fun kvs => solveG E K (.obj kvs) e == .t) (elemObjs a)
       | _ => false)
  | .search _ f _ => d.findPanics f
  | .bool _ | .cast _ _ | .field _ | .float _ | .int _ | .null => true

def andH (E : RegexEngine) (K : IdentK) (H : HitK) (d : Doc) : List Expr → Bool
  | [] => false
  | e :: es => hitsG E K H d e || (solveG E K d e == .t && andH E K H d es)

def orH (E : RegexEngine) (K : IdentK) (H : HitK) (d : Doc) : List Expr → Bool
  | [] => false
  | e :: es => hitsG E K H d e || (solveG E K d e != .t && orH E K H d es)

def ofH (E : RegexEngine) (K : IdentK) (H : HitK) (d : Doc) (c : Nat) (count : Nat) : List Expr → Bool
  | [] => false
  | e :: es =>
    hitsG E K H d e ||
      (if solveG E K d e == .t then
        (if c = 0 then false else if count + 1 ≥ c then false else ofH E K H d c (count + 1) es)
       else ofH E K H d c count es)

def nestedAllOrH (E : RegexEngine) (K : IdentK) (H : HitK) (objs : List (List (Str × Value))) : List Expr → Bool
  | [] => false
  | e :: es =>
    anyUntil (fun kvs => hitsG E K H (.obj kvs) e) (fun kvs => solveG E K (.obj kvs) e == .t) objs ||
      (Tri.or (objs.map (fun kvs => solveG E K (.obj kvs) e)) == .t && nestedAllOrH E K H objs es)

def nestedAllMatrixH (E : RegexEngine) (K : IdentK) (H : HitK) (a : List Value) (cols : List Str) :
    List (List (Option Expr)) → Bool
  | [] => false
  | row :: rows =>
    a.any (fun v => passRowH E K H v cols row 0) ||
      (a.any (fun v => passRowG E K v cols row 0 == .t) && nestedAllMatrixH E K H a cols rows)

def passRowH (E : RegexEngine) (K : IdentK) (H : HitK) (v : Value) (cols : List Str) :
    List (Option Expr) → Nat → Bool
  | [], _ => false
  | none :: cells, i => passRowH E K H v cols cells (i + 1)
  | some e :: cells, i =>
    match v with
    | .obj kvs =>
      (cols[i]?).isNone ||
        hitsG E K H (.pass ((cols[i]?).bind (objFind kvs))) e ||
        (solveG E K (.pass ((cols[i]?).bind (objFind kvs))) e == .t && passRowH E K H v cols cells (i + 1))
    | _ => passRowH E K H v cols cells (i + 1)

/-- Rows of a matrix; `stop r` = the loop over rows returns after a row with result `r`. -/
def rowsH (E : RegexEngine) (K : IdentK) (H : HitK) (d : Doc) (cols : List Str) :
    List (List (Option Expr)) → List (Option Value) → (Tri → Bool) → Bool × List (Option Value)
  | [], cache, _ => (false, cache)
  | row :: rows, cache, stop =>
    let h := rowH E K H d cols row 0 cache
    let r := rowG E K d cols row 0 cache
    if h then (true, r.2)
    else if stop r.1 then (false, r.2)
    else rowsH E K H d cols rows r.2 stop

def rowsOfH (E : RegexEngine) (K : IdentK) (H : HitK) (d : Doc) (cols : List Str) :
    List (List (Option Expr)) → List (Option Value) → Nat → Nat → Bool
  | [], _, _, _ => false
  | row :: rows, cache, c, hits =>
    let h := rowH E K H d cols row 0 cache
    let r := rowG E K d cols row 0 cache
    h ||
      (if r.1 == .t then (if hits + 1 ≥ c then false else rowsOfH E K H d cols rows r.2 c (hits + 1))
       else rowsOfH E K H d cols rows r.2 c hits)

/-- One row: `cache[i]` / `columns[i]` out of range, a find on the outer document, the cell. -/
def rowH (E : RegexEngine) (K : IdentK) (H : HitK) (d : Doc) (cols : List Str) :
    List (Option Expr) → Nat → List (Option Value) → Bool
  | [], _, _ => false
  | none :: cells, i, cache => rowH E K H d cols cells (i + 1) cache
  | some e :: cells, i, cache =>
    if cache.length ≤ i then true else
    match (cache[i]?).join with
    | some _ =>
      hitsG E K H (.cache cache) e ||
        (solveG E K (.cache cache) e == .t && rowH E K H d cols cells (i + 1) cache)
    | none =>
      match cols[i]? with
      | none => true
      | some col =>
        d.findPanics col ||
          (match d.find col with
           | none => false
           | some v =>
             hitsG E K H (.cache (cacheSet cache i v)) e ||
               (solveG E K (.cache (cacheSet cache i v)) e == .t &&
                 rowH E K H d cols cells (i + 1) (cacheSet cache i v)))
end

def closedH : HitK := { ident := fun _ _ => true, «match» := fun _ _ _ => true }

def hitsClosed (E : RegexEngine) (d : Doc) (e : Expr) : Bool := hitsG E closedK closedH d e

def topH (E : RegexEngine) (ids : Ids) : HitK :=
  { ident := fun i d => match lookupId ids i with | some b => hitsClosed E d b | none => true
    «match» := fun k i d => match lookupId ids i with | some b => hitsClosed E d (.match k b) | none => true }

/-- Does `solve_expression(expression, identifiers, document)` panic? -/
def hitsTop (E : RegexEngine) (ids : Ids) (d : Doc) (e : Expr) : Bool :=
  hitsG E (topK E ids) (topH E ids) d e

/-! ### The static predicate -/

/-- A matrix cell at column `i` asks only for the synthetic key of its column. -/
def cellKeyOk (i : Nat) : Expr → Bool
  | .search _ k _ => k == colKey i
  | .nested k _ => k == colKey i
  | .bin (.field k) op r => k == colKey i && isLiteral r && op != .and && op != .or
  | .bin (.cast k _) op r => k == colKey i && isLiteral r && op != .and && op != .or
  | _ => false

mutual
/-- Evaluation of the tree can never reach a panic site (`defd` = the defined identifiers). -/
def safe (defd : Str → Bool) : Expr → Bool
  | .group op es => (op == .and || op == .or) && safeL defd es
  | .bin l .and r => safe defd l && safe defd r
  | .bin l .or r => safe defd l && safe defd r
  | .bin _ _ _ => true
  | .ident i => defd i
  | .match _ (.ident i) => defd i
  | .match _ (.group _ es) => safeL defd es
  | .match _ (.search _ _ _) => true
  | .match _ (.matrix cols rows) => decide (cols.length < 55296) && safeRows defd cols.length rows
  | .match _ e => safe defd e
  | .matrix cols rows => decide (cols.length < 55296) && safeRows defd cols.length rows
  | .negate e => safe defd e
  | .nested _ e => safe defd e
  | .search _ _ _ => true
  | .bool _ | .cast _ _ | .field _ | .float _ | .int _ | .null => false
def safeL (defd : Str → Bool) : List Expr → Bool
  | [] => true
  | e :: es => safe defd e && safeL defd es
def safeRows (defd : Str → Bool) (width : Nat) : List (List (Option Expr)) → Bool
  | [] => true
  | row :: rows => decide (row.length ≤ width) && safeRow defd row 0 && safeRows defd width rows
def safeRow (defd : Str → Bool) : List (Option Expr) → Nat → Bool
  | [], _ => true
  | none :: cells, i => safeRow defd cells (i + 1)
  | some e :: cells, i => cellKeyOk i e && safe defd e && safeRow defd cells (i + 1)
end

end Tau
