import Tau.Syntax
import Tau.Pattern
import Tau.Solver
/-
  Tau.Optimiser — model of optimiser.rs (`coalesce`, `shake` = `shake_0` ∘ `shake_1`, `rewrite`,
  `matrix`) and of `Rule::optimise` (rule.rs:487-525), after the repairs that made grouping use
  ordered maps (`BTreeMap`): grouping = insertion into an association list kept sorted by key.
-/
namespace Tau

/-! ### coalesce (optimiser.rs:32) -/

mutual
def coalesce (ids : Ids) : Expr → Expr
  | .group op es => .group op (coalesceL ids es)
  | .bin l op r => .bin (coalesce ids l) op (coalesce ids r)
  | .ident i => match lookupId ids i with | some b => b | none => .ident i   -- source: expect()
  | .match k e => .match k (coalesce ids e)
  | .negate e => .negate (coalesce ids e)
  | .nested f e => .nested f (coalesce ids e)
  | e => e
def coalesceL (ids : Ids) : List Expr → List Expr
  | [] => []
  | e :: es => coalesce ids e :: coalesceL ids es
end

/-! ### rewrite (optimiser.rs:411-485) -/

def stripPrefix2 (s : Str) : Str :=
  match s with
  | '.' :: '*' :: r => r
  | _ => s

def stripSuffix2 (s : Str) : Str :=
  if s.length ≥ 2 && s.drop (s.length - 2) == ['.', '*'] then s.take (s.length - 2) else s

/-- Remove one leading and then one trailing `.*`. -/
def stripDotStar (p : Str) : Str := stripSuffix2 (stripPrefix2 p)

def rewriteSearch (E : RegexEngine) : Search → Search
  | .regex p ci =>
    let p' := stripDotStar p
    if E.compiles p' ci then .regex p' ci else .regex p ci
  | .regexSet ps ci =>
    let ps' := ps.map stripDotStar
    if ps'.all (fun p => E.compiles p ci) then .regexSet ps' ci else .regexSet ps ci
  | s => s

mutual
def rewrite (E : RegexEngine) : Expr → Expr
  | .group op es => .group op (rewriteL E es)
  | .bin l op r => .bin (rewrite E l) op (rewrite E r)
  | .match k e => .match k (rewrite E e)
  | .negate e => .negate (rewrite E e)
  | .nested f e => .nested f (rewrite E e)
  | .search s f c => .search (rewriteSearch E s) f c
  | e => e
def rewriteL (E : RegexEngine) : List Expr → List Expr
  | [] => []
  | e :: es => rewrite E e :: rewriteL E es
end

/-! ### shake_0 (optimiser.rs:495-618) -/

def Expr.size : Expr → Nat
  | .group _ es => 1 + sizeL es
  | .bin l _ r => 1 + l.size + r.size
  | .match _ e => 1 + e.size
  | .matrix _ rows => 1 + sizeRows rows
  | .negate e => 1 + e.size
  | .nested _ e => 1 + e.size
  | _ => 1
where
  sizeL : List Expr → Nat
    | [] => 0
    | e :: es => e.size + sizeL es
  sizeRows : List (List (Option Expr)) → Nat
    | [] => 0
    | r :: rs => sizeRow r + sizeRows rs
  sizeRow : List (Option Expr) → Nat
    | [] => 0
    | none :: cs => 1 + sizeRow cs
    | some e :: cs => 1 + e.size + sizeRow cs

/-- The group tail shared by all passes: a one-member group is its member. -/
def unwrapGroup (op : BoolSym) (es : List Expr) : Expr :=
  match es with
  | [e] => e
  | _ => .group op es

/-- The flattening arms of `shake_0`'s `BooleanExpression` case (optimiser.rs:520-600): the symbol
    and members of the group that the (already shaken) operands are regrouped into, if any. -/
def binRegroup (l : Expr) (op : BoolSym) (r : Expr) : Option (BoolSym × List Expr) :=
  match l, op, r with
  | .group .and ls, .and, .group .and rs => some (.and, ls ++ rs)
  | .group .and ls, .and, r'' => some (.and, ls ++ [r''])
  | l'', .and, .group .and rs => some (.and, l'' :: rs)
  | .group .or ls, .or, .group .or rs => some (.or, ls ++ rs)
  | .group .or ls, .or, r'' => some (.or, ls ++ [r''])
  | l'', .or, .group .or rs => some (.or, l'' :: rs)
  | .bin x .and y, .and, z => some (.and, [x, y, z])
  | x, .and, .bin y .and z => some (.and, [x, y, z])
  | .bin x .or y, .or, z => some (.or, [x, y, z])
  | x, .or, .bin y .or z => some (.or, [x, y, z])
  | _, _, _ => none

/-- The operand of a negation, if the expression is one. -/
def unNeg : Expr → Option Expr
  | .negate inner => some inner
  | _ => none

/-- `shake_0` (optimiser.rs:495), returning besides the tree a flag: **a double negation was
    eliminated** somewhere (the one step of this pass that is not exact: not(not(missing)) = true).
    Recursion on fuel (depth budget). -/
def shake0F : Nat → Expr → Expr × Bool
  | 0, e => (e, false)
  | fuel + 1, e =>
    match e with
    | .group op es =>
      -- `_ => unreachable!()` for a symbol other than And/Or is never hit on loaded rules
      let rs := es.map (shake0F fuel)
      (unwrapGroup op (rs.map (·.1)), rs.any (·.2))
    | .bin l op r =>
      let lf := shake0F fuel l
      let rf := shake0F fuel r
      let fired := lf.2 || rf.2
      match binRegroup lf.1 op rf.1 with
      | some (sym, xs) =>
        let g := shake0F fuel (.group sym xs)
        (g.1, fired || g.2)
      | none => (.bin lf.1 op rf.1, fired)
    | .match k x => let xf := shake0F fuel x; (.match k xf.1, xf.2)
    | .negate x =>
      let xf := shake0F fuel x
      match unNeg xf.1 with
      | some inner => let i := shake0F fuel inner; (i.1, true)
      | none => (.negate xf.1, xf.2)
    | .nested f x => let xf := shake0F fuel x; (.nested f xf.1, xf.2)
    | e => (e, false)

/-- `shake_0`. -/
def shake0 (fuel : Nat) (e : Expr) : Expr := (shake0F fuel e).1

/-! ### Ordered grouping (BTreeMap) -/

/-- Insert into an association list kept sorted by key (`cmp`), appending to an existing key. -/
def groupInsert {κ α} (cmp : κ → κ → Ordering) (k : κ) (v : List α) :
    List (κ × List α) → List (κ × List α)
  | [] => [(k, v)]
  | (k', vs) :: rest =>
    match cmp k k' with
    | .lt => (k, v) :: (k', vs) :: rest
    | .eq => (k', vs ++ v) :: rest
    | .gt => (k', vs) :: groupInsert cmp k v rest

def boolCmp (a b : Bool) : Ordering :=
  match a, b with
  | false, true => .lt
  | true, false => .gt
  | _, _ => .eq

/-- `Ord` of `(String, bool, bool)`. -/
def keyCmp (a b : Str × Bool × Bool) : Ordering :=
  match strCmp a.1 b.1 with
  | .eq => (match boolCmp a.2.1 b.2.1 with | .eq => boolCmp a.2.2 b.2.2 | o => o)
  | o => o

def listCmp {α} (cmp : α → α → Ordering) : List α → List α → Ordering
  | [], [] => .eq
  | [], _ :: _ => .lt
  | _ :: _, [] => .gt
  | a :: as, b :: bs => match cmp a b with | .eq => listCmp cmp as bs | o => o

/-! ### shake_1 (optimiser.rs:620-942) -/

/-- The buckets of the Or-group arm. -/
structure OrSt where
  needles : List ((Str × Bool × Bool) × List MatchType) := []
  nested : List (Str × List Expr) := []
  patterns : List ((Str × Bool × Bool) × List Str) := []
  any : List Expr := []
  rest : List Expr := []

def orClassify (st : OrSt) (shaken : Expr) : OrSt :=
  match shaken with
  -- an all()-list over the elements cannot be folded into the disjunction block of its field
  | .nested _ (.match .all (.group .or _)) => { st with rest := st.rest ++ [shaken] }
  | .nested f x => { st with nested := groupInsert strCmp f [x] st.nested }
  | .search (.ac ctx ci) f c => { st with needles := groupInsert keyCmp (f, c, ci) ctx st.needles }
  | .search (.contains v) f c => { st with needles := groupInsert keyCmp (f, c, false) [.contains v] st.needles }
  | .search (.endsWith v) f c => { st with needles := groupInsert keyCmp (f, c, false) [.endsWith v] st.needles }
  | .search (.exact v) f c => { st with needles := groupInsert keyCmp (f, c, false) [.exact v] st.needles }
  | .search (.startsWith v) f c => { st with needles := groupInsert keyCmp (f, c, false) [.startsWith v] st.needles }
  | .search .any _ _ => { st with any := st.any ++ [shaken] }
  | .search (.regex r ci) f c => { st with patterns := groupInsert keyCmp (f, c, ci) [r] st.patterns }
  | .search (.regexSet rs ci) f c => { st with patterns := groupInsert keyCmp (f, c, ci) rs st.patterns }
  | _ => { st with rest := st.rest ++ [shaken] }

def searchLen : Expr → Nat
  | .search (.exact a) _ _ | .search (.startsWith a) _ _ | .search (.endsWith a) _ _
  | .search (.contains a) _ _ => a.length   -- NB: Rust `len()` is in bytes; equal on ASCII
  | _ => 0

def utf8Len (s : Str) : Nat := s.foldl (fun n c => n + c.utf8Size) 0

def searchByteLen : Expr → Nat
  | .search (.exact a) _ _ | .search (.startsWith a) _ _ | .search (.endsWith a) _ _
  | .search (.contains a) _ _ => utf8Len a
  | _ => 0

/-- `(b.len(), case1).cmp(&(a.len(), case0))` — descending. -/
def ahoLe (x y : Expr) : Bool :=
  match x, y with
  | .search (.ac a c0) _ _, .search (.ac b c1) _ _ =>
    (match compare b.length a.length with
     | .lt => true
     | .gt => false
     | .eq => boolCmp c1 c0 != .gt)
  | _, _ => true

def regexLe (x y : Expr) : Bool :=
  match x, y with
  | .search (.regex r0 c0) _ _, .search (.regex r1 c1) _ _ =>
    (match strCmp r0 r1 with | .lt => true | .gt => false | .eq => boolCmp c0 c1 != .gt)
  | _, _ => true

def regexSetLe (x y : Expr) : Bool :=
  match x, y with
  | .search (.regexSet s0 c0) _ _, .search (.regexSet s1 c1) _ _ =>
    (match listCmp strCmp s0 s1 with | .lt => true | .gt => false | .eq => boolCmp c0 c1 != .gt)
  | _, _ => true

/-- One step of the and-arm's collection of nested members per field: a block that already is an
    all()-list (of at least two members) over the elements contributes its members, any other
    block is one member. -/
def andNestedStep (acc : List (Str × List Expr)) (x : Expr) : List (Str × List Expr) :=
  match x with
  | .nested f (.match .all (.group .or (m1 :: m2 :: ms))) => groupInsert strCmp f (m1 :: m2 :: ms) acc
  | .nested f b => groupInsert strCmp f [b] acc
  | _ => acc

/-- `shake_1`. Recursion on fuel (depth budget). -/
def shake1 : Nat → Expr → Expr
  | 0, e => e
  | fuel + 1, e =>
    match e with
    | .group .and es =>
      let length := es.length
      let shaken := es.map (shake1 fuel)
      let nested : List (Str × List Expr) := shaken.foldl andNestedStep []
      let scratch0 := shaken.filter (fun x => match x with | .nested _ _ => false | _ => true)
      let merged := nested.map (fun (f, xs) =>
        match xs with
        | [x] => Expr.nested f (shake1 fuel x)
        | _ => Expr.nested f (shake1 fuel (.match .all (.group .or xs))))
      let scratch := scratch0 ++ merged
      if scratch.length != length then shake1 fuel (.group .and scratch)
      else unwrapGroup .and scratch
    | .group .or es =>
      let length := es.length
      let st := (es.map (shake1 fuel)).foldl orClassify {}
      let fromNeedles := st.needles.map (fun ((f, c, ci), ctx) =>
        match ci, ctx with
        | false, [mt] => Expr.search (searchOfMatchType' mt) f c
        | _, _ => Expr.search (.ac ctx ci) f c)
      let isKind (k : Nat) (x : Expr) : Bool :=
        match x, k with
        | .search (.exact _) _ _, 0 => true
        | .search (.startsWith _) _ _, 1 => true
        | .search (.endsWith _) _ _, 2 => true
        | .search (.contains _) _ _, 3 => true
        | .search (.ac _ _) _ _, 4 => true
        | _, _ => false
      let byLen (xs : List Expr) := stableSort (fun a b => searchByteLen a ≤ searchByteLen b) xs
      let exact := byLen (fromNeedles.filter (isKind 0))
      let startsWith := byLen (fromNeedles.filter (isKind 1))
      let endsWith := byLen (fromNeedles.filter (isKind 2))
      let contains := byLen (fromNeedles.filter (isKind 3))
      let aho := stableSort ahoLe (fromNeedles.filter (isKind 4))
      let restNested := st.nested.map (fun (f, xs) =>
        match xs with
        | [x] => Expr.nested f (shake1 fuel x)
        | _ => Expr.nested f (shake1 fuel (.group .or xs)))
      let fromPatterns := st.patterns.map (fun ((f, c, ci), ps) =>
        match ps with
        | [p] => Expr.search (.regex p ci) f c
        | _ => Expr.search (.regexSet ps ci) f c)
      let regex := stableSort regexLe (fromPatterns.filter (fun x => match x with | .search (.regex _ _) _ _ => true | _ => false))
      let regexSet := stableSort regexSetLe (fromPatterns.filter (fun x => match x with | .search (.regexSet _ _) _ _ => true | _ => false))
      let out := st.any ++ exact ++ startsWith ++ endsWith ++ contains ++ aho ++ regex ++ regexSet
                  ++ st.rest ++ restNested
      if out.length != length then shake1 fuel (.group .or out)
      else unwrapGroup .or out
    | .group op es => .group op (es.map (shake1 fuel))
    | .bin l op r => .bin (shake1 fuel l) op (shake1 fuel r)
    | .match k (.group op es) => .match k (.group op (es.map (shake1 fuel)))
    | .match k x => .match k (shake1 fuel x)
    | .negate x => .negate (shake1 fuel x)
    | .nested f x => .nested f (shake1 fuel x)
    | e => e
where
  searchOfMatchType' : MatchType → Search
    | .contains c => .contains c
    | .endsWith c => .endsWith c
    | .exact c => .exact c
    | .startsWith c => .startsWith c

def shakeFuel (e : Expr) : Nat := 2 * e.size + 8

/-- `shake` (optimiser.rs:487). -/
def shake (e : Expr) : Expr :=
  let e0 := shake0 (shakeFuel e) e
  shake1 (shakeFuel e0) e0

/-! ### matrix (optimiser.rs:70-409) -/

def isLiteral : Expr → Bool
  | .bool _ | .float _ | .int _ | .null => true
  | _ => false

/-- The field a comparison can be keyed by: left side a field or cast, right side a literal. -/
def cmpField : Expr → Option Str
  | .bin (.cast f _) _ r => if isLiteral r then some f else none
  | .bin (.field f) _ r => if isLiteral r then some f else none
  | _ => none

/-- The column of a conjunct, if it has one (optimiser.rs:93-114 / 186-210). -/
def memberField : Expr → Option Str
  | .nested f _ => some f
  | .search _ f _ => some f
  | e => cmpField e

def countInsert (f : Str) : List (Str × Nat) → List (Str × Nat)
  | [] => [(f, 1)]
  | (k, n) :: rest =>
    match strCmp f k with
    | .lt => (f, 1) :: (k, n) :: rest
    | .eq => (k, n + 1) :: rest
    | .gt => (k, n) :: countInsert f rest

/-- First pass over the members of an or-group: count the fields (optimiser.rs:86-165). -/
def countFields (fields : List (Str × Nat)) (e : Expr) : List (Str × Nat) :=
  match e with
  | .group .and es =>
    if es.all (fun x => (memberField x).isSome) then
      es.foldl (fun acc x => match memberField x with | some f => countInsert f acc | none => acc) fields
    else fields
  | .bin (.cast f _) _ _ => countInsert f fields
  | .bin (.field f) _ _ => countInsert f fields
  | .nested f _ => countInsert f fields
  | .search _ f _ => countInsert f fields
  | _ => fields

/-- Re-key one member to its column (optimiser.rs:216-261). -/
def rekey (key : Str) : Expr → Option Expr
  | .bin (.cast _ kind) op r => some (.bin (.cast key kind) op r)
  | .bin (.field _) op r => some (.bin (.field key) op r)
  | .nested _ x => some (.nested key x)
  | .search s _ c => some (.search s key c)
  | _ => none

def colKey (i : Nat) : Str := [Char.ofNat i]

/-- A row from the members of a conjunction, or `none` if it is not a valid row
    (a member without a column, or two members on one column). -/
def rowOfMembers (cols : List Str) (es : List Expr) : Option (List (Option Expr)) :=
  let fields := es.map memberField
  if fields.any Option.isNone then none else
  let fs := fields.filterMap id
  if fs.length != fs.eraseDups.length then none else
  some ((List.range cols.length).map (fun i =>
    match (es.find? (fun x => memberField x == some (cols.getD i []))) with
    | some x => rekey (colKey i) x
    | none => none))

def singleRow (cols : List Str) (f : Str) (e : Expr) : List (Option Expr) :=
  (List.range cols.length).map (fun i => if cols.getD i [] == f then rekey (colKey i) e else none)

/-- A member of the or-group becomes a row of the matrix (`inl`) or stays beside it (`inr`)
    (optimiser.rs:179-376). -/
def matrixClassify (cols : List Str) (x : Expr) : Sum (List (Option Expr)) Expr :=
  match x with
  | .group .and ms =>
    (match rowOfMembers cols ms with
     | some row => .inl row
     | none => .inr x)
  | .bin (.cast f _) _ r => if isLiteral r then .inl (singleRow cols f x) else .inr x
  | .bin (.field f) _ r => if isLiteral r then .inl (singleRow cols f x) else .inr x
  | .nested f _ => .inl (singleRow cols f x)
  | .search _ f _ => .inl (singleRow cols f x)
  | _ => .inr x

def matrix : Nat → Expr → Expr
  | 0, e => e
  | fuel + 1, e =>
    match e with
    | .group .and es => .group .and (es.map (matrix fuel))
    | .group .or es =>
      let scratch := es.map (matrix fuel)
      let fields := scratch.foldl countFields []
      -- columns are keyed by `char::from_u32(index)`: no matrix from 0xD800 columns on (repair)
      if fields.any (fun (_, n) => n > 1 && n < 256) && decide (fields.length < 55296) then
        let cols := (stableSort (fun (a b : Str × Nat) => a.2 ≤ b.2) fields).map (·.1)
        let cl := scratch.map (matrixClassify cols)
        let rows := cl.filterMap (fun c => match c with | .inl r => some r | _ => none)
        let rest := cl.filterMap (fun c => match c with | .inr r => some r | _ => none)
        let out := (if rows.isEmpty then [] else [Expr.matrix cols rows]) ++ rest
        unwrapGroup .or out
      else .group .or scratch
    | .bin l op r => .bin (matrix fuel l) op (matrix fuel r)
    | .match k (.group op es) => .match k (.group op (es.map (shake1 (shakeFuel (.group op es)))))
    | .match k x => .match k (shake1 (shakeFuel x) x)
    | .negate x => .negate (matrix fuel x)
    | .nested f x => .nested f (matrix fuel x)
    | e => e

def matrixPass (e : Expr) : Expr := matrix (e.size + 4) e

/-! ### Rule::optimise (rule.rs:487) -/

structure Switches where
  coalesce : Bool
  shake : Bool
  rewrite : Bool
  matrix : Bool
  deriving Repr, DecidableEq

/-- mask bits: 1 coalesce, 2 shake, 4 rewrite, 8 matrix. -/
def Switches.ofMask (m : Nat) : Switches :=
  { coalesce := m % 2 == 1, shake := m / 2 % 2 == 1, rewrite := m / 4 % 2 == 1, matrix := m / 8 % 2 == 1 }

def optimiseTree (E : RegexEngine) (sw : Switches) (ids : Ids) (e : Expr) : Expr × Ids :=
  let (e, ids) := if sw.coalesce then (coalesce ids e, ([] : Ids)) else (e, ids)
  let (e, ids) := if sw.shake then (shake e, ids.map (fun (k, v) => (k, shake v))) else (e, ids)
  let (e, ids) := if sw.rewrite then (rewrite E e, ids.map (fun (k, v) => (k, rewrite E v))) else (e, ids)
  let (e, ids) := if sw.matrix then (matrixPass e, ids.map (fun (k, v) => (k, matrixPass v))) else (e, ids)
  (e, ids)

end Tau
