//! C02: an independent reference interpreter of the documented rule language. It works from the
//! YAML of the rule (never from the engine's expression tree) and from the document value.

use serde_json::json;
use serde_yaml::{Mapping, Value as Yaml};

use crate::check::*;
use crate::gen::{self, ys, Cond, Rng};
use crate::implside::CaseReq;
use crate::known::Known;
use crate::props::{budget, run_rule_case};
use crate::suites::{pattern_rel, t_and, t_not, t_of, t_or, Tri};

pub struct Unsupported(pub String);

thread_local! {
    /// When set, `all()` combines its members in the engine's batching order instead of the
    /// written order (used only to attribute a mismatch to the recorded member-order finding).
    static ENGINE_ORDER: std::cell::Cell<bool> = std::cell::Cell::new(false);
}

/// Rank of a list member in the order the engine's parser emits them (parser.rs:1382-1551):
/// empty exact strings, case-sensitive literals, case-insensitive literals, regexes, i-regexes,
/// then everything else in written order.
fn batch_rank(v: &Yaml) -> u8 {
    match v {
        Yaml::String(p) => {
            let (ci, body) = match p.strip_prefix('i') { Some(r) => (true, r), None => (false, p.as_str()) };
            if numeric_pattern(body).is_some() || body == "*" {
                5
            } else if body.starts_with('?') {
                if ci { 4 } else { 3 }
            } else if body.is_empty() || body == "''" || body == "\"\"" {
                0
            } else if ci {
                2
            } else {
                1
            }
        }
        _ => 5,
    }
}

fn order_members<'a>(ms: &'a [Yaml]) -> Vec<&'a Yaml> {
    let mut v: Vec<&Yaml> = ms.iter().collect();
    if ENGINE_ORDER.with(|f| f.get()) {
        v.sort_by_key(|m| batch_rank(m));
    }
    v
}
type R<T> = Result<T, Unsupported>;

fn unsup<T>(s: &str) -> R<T> {
    Err(Unsupported(s.to_string()))
}

// ------------------------------------------------------------------------------------ paths

fn spec_find(doc: &Yaml, key: &str) -> R<Option<Yaml>> {
    let mut cur = doc.clone();
    for seg in key.split('.') {
        let (name, idx) = if seg.ends_with(']') && seg.contains('[') {
            let i = seg.find('[').unwrap();
            let inner = &seg[i + 1..seg.len() - 1];
            if inner.is_empty() || !inner.chars().all(|c| c.is_ascii_digit()) || seg[..i].contains(']') {
                return unsup("odd index syntax");
            }
            (&seg[..i], Some(inner.parse::<usize>().map_err(|_| Unsupported("index".into()))?))
        } else {
            if seg.contains('[') || seg.contains(']') {
                return unsup("odd bracket in key");
            }
            (seg, None)
        };
        let m = match cur.as_mapping() {
            Some(m) => m,
            None => return Ok(None),
        };
        let v = match m.get(Yaml::String(name.to_string())) {
            Some(v) => v.clone(),
            None => return Ok(None),
        };
        cur = match idx {
            None => v,
            Some(i) => match v.as_sequence().and_then(|s| s.get(i)) {
                Some(x) => x.clone(),
                None => return Ok(None),
            },
        };
    }
    Ok(Some(cur))
}

// ------------------------------------------------------------------------------------ keys

#[derive(Clone, Copy, PartialEq, Debug)]
enum Mod {
    None,
    All,
    Of(usize),
    Not,
    Int,
    Flt,
    Str,
}

fn parse_key(k: &str) -> R<(Mod, String)> {
    let k = k.trim();
    let inner = |kw: &str| -> Option<String> {
        k.strip_prefix(kw).and_then(|r| r.strip_suffix(')')).map(|s| s.trim().to_string())
    };
    let plain_ok = |f: &str| !f.is_empty() && f.chars().all(|c| c.is_ascii_alphanumeric() || "_.[]".contains(c)) && f.chars().next().map(|c| c.is_ascii_alphabetic()).unwrap_or(false);
    for (kw, m) in [("all(", Mod::All), ("not(", Mod::Not), ("int(", Mod::Int), ("flt(", Mod::Flt), ("str(", Mod::Str), ("string(", Mod::Str)] {
        if let Some(f) = inner(kw) {
            if !plain_ok(&f) {
                return unsup("odd key");
            }
            return Ok((m, f));
        }
    }
    if let Some(body) = inner("of(") {
        let mut parts = body.split(',');
        let f = parts.next().unwrap_or("").trim().to_string();
        let n = parts.next().unwrap_or("").trim().parse::<usize>().map_err(|_| Unsupported("of count".into()))?;
        if parts.next().is_some() || !plain_ok(&f) {
            return unsup("odd key");
        }
        return Ok((Mod::Of(n), f));
    }
    if !plain_ok(k) {
        return unsup("odd key");
    }
    Ok((Mod::None, k.to_string()))
}

// ------------------------------------------------------------------------------------ leaves

fn scalar_text(v: &Yaml) -> Option<String> {
    match v {
        Yaml::Bool(b) => Some(b.to_string()),
        Yaml::Number(n) => Some(if n.is_u64() {
            n.as_u64().unwrap().to_string()
        } else if n.is_i64() {
            n.as_i64().unwrap().to_string()
        } else {
            n.as_f64().unwrap().to_string()
        }),
        _ => None,
    }
}

/// A string predicate on a field value: string -> relation; array -> some element; other scalars
/// only through str() (their decimal text); anything else is not a string: missing.
fn string_pred(v: &Yaml, cast: bool, rel: &dyn Fn(&str) -> bool) -> Tri {
    let b = |x: bool| if x { Tri::T } else { Tri::F };
    match v {
        Yaml::String(s) => b(rel(s)),
        Yaml::Sequence(xs) => b(xs.iter().any(|x| match x {
            Yaml::String(s) => rel(s),
            other => cast && scalar_text(other).map(|t| rel(&t)).unwrap_or(false),
        })),
        other => match (cast, scalar_text(other)) {
            (true, Some(t)) => b(rel(&t)),
            _ => Tri::M,
        },
    }
}

#[derive(Clone, Debug)]
enum Num {
    I(i128),
    F(f64),
}

fn cast_num(v: &Yaml, m: Mod) -> Option<Num> {
    match m {
        Mod::Int => match v {
            Yaml::Bool(b) => Some(Num::I(*b as i128)),
            Yaml::Number(n) if n.is_u64() => {
                let u = n.as_u64().unwrap();
                if u <= i64::MAX as u64 { Some(Num::I(u as i128)) } else { None }
            }
            Yaml::Number(n) if n.is_i64() => Some(Num::I(n.as_i64().unwrap() as i128)),
            Yaml::Number(n) => {
                let r = n.as_f64().unwrap().round();
                if r.is_finite() && r >= -9223372036854775808.0 && r < 9223372036854775808.0 { Some(Num::I(r as i128)) } else { None }
            }
            Yaml::String(s) => s.parse::<i64>().ok().map(|x| Num::I(x as i128)),
            _ => None,
        },
        Mod::Flt => match v {
            Yaml::Bool(b) => Some(Num::F(if *b { 1.0 } else { 0.0 })),
            Yaml::Number(n) if n.is_u64() => Some(Num::F(n.as_u64().unwrap() as f64)),
            Yaml::Number(n) if n.is_i64() => Some(Num::F(n.as_i64().unwrap() as f64)),
            Yaml::Number(n) => Some(Num::F(n.as_f64().unwrap())),
            Yaml::String(s) => s.parse::<f64>().ok().map(Num::F),
            _ => None,
        },
        _ => match v {
            Yaml::Number(n) if n.is_u64() => Some(Num::I(n.as_u64().unwrap() as i128)),
            Yaml::Number(n) if n.is_i64() => Some(Num::I(n.as_i64().unwrap() as i128)),
            Yaml::Number(n) => Some(Num::F(n.as_f64().unwrap())),
            _ => None,
        },
    }
}

fn num_rel(op: &str, a: &Num, b: &Num) -> bool {
    use std::cmp::Ordering::*;
    let ord = match (a, b) {
        (Num::I(x), Num::I(y)) => Some(x.cmp(y)),
        (Num::F(x), Num::F(y)) => x.partial_cmp(y),
        _ => return false, // different numeric kinds never compare true
    };
    match (op, ord) {
        (_, None) => false,
        ("=" | "==", Some(o)) => o == Equal,
        (">", Some(o)) => o == Greater,
        (">=", Some(o)) => o != Less,
        ("<", Some(o)) => o == Less,
        ("<=", Some(o)) => o != Greater,
        _ => false,
    }
}

fn num_pred(found: Option<Yaml>, m: Mod, op: &str, c: &Num) -> Tri {
    match found {
        None => Tri::M,
        Some(v) => match cast_num(&v, m) {
            Some(x) => {
                if num_rel(op, &x, c) { Tri::T } else { Tri::F }
            }
            None => Tri::F,
        },
    }
}

fn numeric_pattern(p: &str) -> Option<(&'static str, &str)> {
    for (pre, op) in [(">=", ">="), (">", ">"), ("<=", "<="), ("<", "<"), ("=", "=")] {
        if let Some(r) = p.strip_prefix(pre) {
            return Some((op, r));
        }
    }
    None
}

/// One member (a scalar value or a nested mapping) under a key with field `f` and cast `m`.
fn eval_member(doc: &Yaml, f: &str, m: Mod, v: &Yaml) -> R<Tri> {
    let found = spec_find(doc, f)?;
    match v {
        Yaml::String(p) => {
            let body = p.strip_prefix('i').unwrap_or(p);
            if let Some((op, num)) = numeric_pattern(body) {
                if p.starts_with('i') {
                    return unsup("i-prefixed numeric pattern");
                }
                if m == Mod::Str {
                    return unsup("load error expected");
                }
                let c = if num.contains('.') { Num::F(num.parse::<f64>().map_err(|_| Unsupported("num".into()))?) } else { Num::I(num.parse::<i64>().map_err(|_| Unsupported("num".into()))? as i128) };
                return Ok(num_pred(found, m, op, &c));
            }
            if m == Mod::Int || m == Mod::Flt {
                return unsup("string pattern under a numeric cast");
            }
            // validity of the regex etc. is decided by the loader; here the relation
            let rel = |h: &str| pattern_rel(p, h);
            if pattern_rel(p, "").is_none() {
                return unsup("pattern without a string relation");
            }
            Ok(match found {
                None => Tri::M,
                Some(val) => string_pred(&val, m == Mod::Str, &|h| rel(h).unwrap_or(false)),
            })
        }
        Yaml::Number(n) => {
            if m == Mod::Str {
                let text = scalar_text(v).unwrap();
                return Ok(match found {
                    None => Tri::M,
                    Some(val) => string_pred(&val, true, &|h| h == text),
                });
            }
            let c = if let Some(i) = n.as_i64() {
                Num::I(i as i128)
            } else {
                if m == Mod::Int {
                    return unsup("load error expected");
                }
                Num::F(n.as_f64().unwrap())
            };
            Ok(num_pred(found, m, "=", &c))
        }
        Yaml::Bool(b) => match m {
            Mod::Int => Ok(num_pred(found, m, "=", &Num::I(*b as i128))),
            Mod::Str => {
                let text = b.to_string();
                Ok(match found {
                    None => Tri::M,
                    Some(val) => string_pred(&val, true, &|h| h == text),
                })
            }
            Mod::Flt => unsup("flt() against a boolean"),
            _ => Ok(match found {
                None => Tri::M,
                Some(Yaml::Bool(x)) => {
                    if x == *b { Tri::T } else { Tri::F }
                }
                Some(_) => Tri::F,
            }),
        },
        Yaml::Null => {
            if m == Mod::Int || m == Mod::Flt || m == Mod::Str {
                return unsup("cast against null");
            }
            Ok(match found {
                None => Tri::M,
                Some(Yaml::Null) => Tri::T,
                Some(_) => Tri::F,
            })
        }
        Yaml::Mapping(inner) => {
            if m == Mod::Int || m == Mod::Flt || m == Mod::Str {
                return unsup("load error expected");
            }
            Ok(match found {
                None => Tri::M,
                Some(Yaml::Mapping(o)) => eval_mapping(inner, &Yaml::Mapping(o))?,
                Some(Yaml::Sequence(xs)) => {
                    let mut any = false;
                    for x in xs.iter().filter(|x| x.is_mapping()) {
                        if eval_mapping(inner, x)? == Tri::T {
                            any = true;
                        }
                    }
                    if any { Tri::T } else { Tri::F }
                }
                Some(_) => Tri::F,
            })
        }
        _ => unsup("member kind"),
    }
}

fn eval_entry(doc: &Yaml, k: &Yaml, v: &Yaml) -> R<Tri> {
    let ks = k.as_str().ok_or(Unsupported("non-string key".into()))?;
    let (m, f) = parse_key(ks)?;
    let res = match v {
        Yaml::Sequence(ms) => {
            if ms.is_empty() {
                return unsup("empty list");
            }
            let inner_mod = match m {
                Mod::All | Mod::Of(_) | Mod::Not => Mod::None,
                other => other,
            };
            let mut rs = vec![];
            for x in order_members(ms) {
                rs.push(eval_member(doc, &f, inner_mod, x)?);
            }
            match m {
                Mod::All => t_and(&rs),
                Mod::Of(n) => t_of(n, &rs),
                _ => t_or(&rs),
            }
        }
        other => match m {
            Mod::All | Mod::Of(_) => return unsup("all/of on a non-list"),
            Mod::Not => eval_member(doc, &f, Mod::None, other)?,
            _ => eval_member(doc, &f, m, other)?,
        },
    };
    Ok(if m == Mod::Not { t_not(res) } else { res })
}

fn eval_mapping(m: &Mapping, doc: &Yaml) -> R<Tri> {
    let mut rs = vec![];
    for (k, v) in m {
        rs.push(eval_entry(doc, k, v)?);
    }
    if rs.is_empty() {
        return unsup("empty mapping");
    }
    Ok(t_and(&rs))
}

fn eval_identifier(y: &Yaml, doc: &Yaml) -> R<Tri> {
    match y {
        Yaml::Mapping(m) => eval_mapping(m, doc),
        Yaml::Sequence(xs) => {
            let mut rs = vec![];
            for x in xs {
                rs.push(eval_mapping(x.as_mapping().ok_or(Unsupported("seq member".into()))?, doc)?);
            }
            if rs.is_empty() {
                return unsup("empty sequence");
            }
            Ok(t_or(&rs))
        }
        _ => unsup("identifier shape"),
    }
}

/// The entries all(X)/of(X, n) count (DESIGN section 8, C08 spec decision).
fn identifier_entries(y: &Yaml, doc: &Yaml) -> R<Vec<Tri>> {
    match y {
        Yaml::Sequence(xs) => xs.iter().map(|x| eval_mapping(x.as_mapping().ok_or(Unsupported("seq member".into()))?, doc)).collect(),
        Yaml::Mapping(m) if m.len() >= 2 => m.iter().map(|(k, v)| eval_entry(doc, k, v)).collect(),
        Yaml::Mapping(m) if m.len() == 1 => {
            let (k, v) = m.iter().next().unwrap();
            let (md, f) = parse_key(k.as_str().ok_or(Unsupported("key".into()))?)?;
            match (md, v) {
                // a one-key mapping *is* its value: a list under a plain or cast key contributes
                // its members (read through that cast); not()/all()/of() keys are one entry
                (Mod::None | Mod::Int | Mod::Flt | Mod::Str, Yaml::Sequence(ms)) => order_members(ms).into_iter().map(|x| eval_member(doc, &f, md, x)).collect(),
                _ => Ok(vec![eval_entry(doc, k, v)?]),
            }
        }
        _ => unsup("identifier shape"),
    }
}

fn eval_cond(c: &Cond, ids: &[(String, Yaml)], doc: &Yaml) -> R<Tri> {
    let get = |i: &str| ids.iter().find(|(k, _)| k == i).map(|(_, v)| v).ok_or(Unsupported("identifier".into()));
    Ok(match c {
        Cond::Id(i) => eval_identifier(get(i)?, doc)?,
        Cond::Not(x) => t_not(eval_cond(x, ids, doc)?),
        Cond::And(a, b) => t_and(&[eval_cond(a, ids, doc)?, eval_cond(b, ids, doc)?]),
        Cond::Or(a, b) => t_or(&[eval_cond(a, ids, doc)?, eval_cond(b, ids, doc)?]),
        Cond::All(i) => t_and(&identifier_entries(get(i)?, doc)?),
        Cond::Of(i, n) => t_of(*n as usize, &identifier_entries(get(i)?, doc)?),
        Cond::Cmp(f, kind, op, lit) | Cond::CmpRev(f, kind, op, lit) => {
            let m = if *kind == "int" { Mod::Int } else { Mod::Flt };
            let cst = if *kind == "int" { Num::I(lit.parse::<i128>().unwrap()) } else { Num::F(lit.parse::<f64>().unwrap()) };
            let found = spec_find(doc, f)?;
            let rev = matches!(c, Cond::CmpRev(..));
            match found {
                None => Tri::M,
                Some(v) => match cast_num(&v, m) {
                    Some(x) => {
                        let ok = if rev { num_rel(op, &cst, &x) } else { num_rel(op, &x, &cst) };
                        if ok { Tri::T } else { Tri::F }
                    }
                    None => Tri::F,
                },
            }
        }
        Cond::CmpFF(a, kind, op, b) => {
            let m = if *kind == "int" { Mod::Int } else { Mod::Flt };
            match spec_find(doc, a)? {
                None => Tri::M,
                Some(x) => match cast_num(&x, m) {
                    None => Tri::F,
                    Some(xv) => match spec_find(doc, b)? {
                        None => Tri::M,
                        Some(y) => match cast_num(&y, m) {
                            None => Tri::F,
                            Some(yv) => {
                                if num_rel(op, &xv, &yv) { Tri::T } else { Tri::F }
                            }
                        },
                    },
                },
            }
        }
        Cond::StrEq(a, b) => {
            let text = |v: &Yaml| -> Option<String> { if let Yaml::String(s) = v { Some(s.clone()) } else { scalar_text(v) } };
            match spec_find(doc, a)? {
                None => Tri::M,
                Some(x) => match text(&x) {
                    None => Tri::F,
                    Some(xs) => match spec_find(doc, b)? {
                        None => Tri::M,
                        Some(y) => match text(&y) {
                            None => Tri::F,
                            Some(ysx) => {
                                if xs == ysx { Tri::T } else { Tri::F }
                            }
                        },
                    },
                },
            }
        }
    })
}

/// Conditions of the simple forms used by corpus witnesses.
fn simple_cond(text: &str) -> Option<Cond> {
    let t = text.trim();
    if let Some(r) = t.strip_prefix("not ") {
        return simple_cond(r).map(|c| Cond::Not(Box::new(c)));
    }
    if let Some(r) = t.strip_prefix("all(").and_then(|r| r.strip_suffix(')')) {
        return Some(Cond::All(r.trim().to_string()));
    }
    if let Some(r) = t.strip_prefix("of(").and_then(|r| r.strip_suffix(')')) {
        let mut it = r.split(',');
        let i = it.next()?.trim().to_string();
        let n = it.next()?.trim().parse::<u64>().ok()?;
        return Some(Cond::Of(i, n));
    }
    if !t.is_empty() && t.chars().all(|c| c.is_ascii_alphanumeric()) {
        return Some(Cond::Id(t.to_string()));
    }
    None
}

// ------------------------------------------------------------------------------------ runner

/// Shapes under which a recorded finding explains a disagreement with the reference semantics.
fn known_shape(shape: &str) -> Option<&'static str> {
    let quant = shape.contains("(all ") || shape.contains("(of ");
    if quant && (shape.contains("(search (ac ") || shape.contains("(search (rset ")) {
        return Some("C02-batched-member");
    }
    if shape.contains("(nested ") && shape.contains("(all (g or ") {
        return Some("C02-nested-all");
    }
    None
}

fn map1(k: &str, v: Yaml) -> Yaml {
    let mut m = serde_yaml::Mapping::new();
    m.insert(ys(k), v);
    Yaml::Mapping(m)
}

pub fn run_c02(ctx: &mut Ctx, known: &Known) {
    let n = budget(ctx, 2500, 60000);
    let mut unsupported = 0usize;
    let mut compared = 0usize;
    // hand-written cases first: quotes inside a quoted pattern (exactly one surrounding pair is
    // removed), and quantifiers over a field that holds an array (a member matches when SOME element
    // matches it; members are counted, not occurrences and not elements)
    let mut fixed: Vec<(Vec<(String, Yaml)>, gen::Cond, Vec<Yaml>)> = vec![];
    {
        let sdocs = |vals: &[&str]| -> Vec<Yaml> { vals.iter().map(|v| map1("s", ys(v))).collect() };
        let qvals = ["'a'", "a", "\"'a'\"", "\"a\"", "''a''", "A", "'A'", "\"\"a\"\"", "x", "'a", "a'"];
        for pat in ["\"'a'\"", "'\"a\"'", "\"\"a\"\"", "''a''", "i\"'A'\"", "\"a\"", "'a'", "\"'a\"", "\"a'\"", "'''a'''"] {
            for cond in [gen::Cond::Id("A".into()), gen::Cond::Not(Box::new(gen::Cond::Id("A".into())))] {
                fixed.push((vec![("A".into(), map1("s", ys(pat)))], cond.clone(), sdocs(&qvals)));
                fixed.push((vec![("A".into(), map1("s", Yaml::Sequence(vec![ys(pat), ys("zq*")])))], cond.clone(), sdocs(&qvals)));
            }
        }
        let arr = |xs: &[&str]| -> Yaml { map1("s", Yaml::Sequence(xs.iter().map(|x| ys(x)).collect())) };
        let adocs: Vec<Yaml> = vec![arr(&["admin-a", "admin-b"]), arr(&["admin-root"]), arr(&["x", "admin-root-sudo"]), map1("s", ys("admin-root")), map1("s", ys("admin")),
            arr(&["x", "y"]), arr(&[]), arr(&["admin"]), arr(&["adminadmin", "admin"]), map1("s", ys("adminadmin"))];
        for key in ["of(s, 2)", "of(s, 1)", "of(s, 3)", "all(s)", "s", "of(s, 0)"] {
            for members in [vec!["*admin*", "*root*", "*sudo*"], vec!["admin*", "*root", "*min-r*"], vec!["?admin", "?root", "?sudo"], vec!["i*ADMIN*", "i*ROOT*", "i*sudo*"]] {
                let body = map1(key, Yaml::Sequence(members.iter().map(|m| ys(m)).collect()));
                fixed.push((vec![("A".into(), body.clone())], gen::Cond::Id("A".into()), adocs.clone()));
                fixed.push((vec![("A".into(), body)], gen::Cond::Not(Box::new(gen::Cond::Id("A".into()))), adocs.clone()));
            }
        }
    }
    // quantified lists with ANCHORED members against strings in which a needle occurs again (and
    // again) at positions where its anchor does not hold, before the occurrence where it does:
    // members are counted, not occurrences — neither the successful nor the failed ones
    {
        let rdocs: Vec<Yaml> = ["foo/bar/bar", "foo/bar/bar/bar", "foofoo/bar", "bar/bar/bar", "barbar", "bar", "foo/bar/baz", "bar/foo/bar", "foo foo foo bar", "xfoo/bar",
            "aba", "abab", "aaa", "baab", "aab", "abaa", "a", "bab", "aaab", "baaa"].iter().map(|v| map1("s", ys(v))).collect();
        for key in ["all(s)", "of(s, 1)", "of(s, 2)", "of(s, 3)"] {
            for members in [vec!["foo*", "*bar"], vec!["foo*", "*bar", "*nothere*"], vec!["*bar", "bar*", "bar"], vec!["a*", "*a", "*b*"], vec!["*a", "*b*"], vec!["a*", "*b"], vec!["aa*", "*ab", "*ba*"],
                vec!["ifoo*", "i*BAR"], vec!["*bar", "foo*", "*/*", "*r/b*"]] {
                let body = map1(key, Yaml::Sequence(members.iter().map(|m| ys(m)).collect()));
                fixed.push((vec![("A".into(), body)], gen::Cond::Id("A".into()), rdocs.clone()));
            }
        }
    }
    // lists of two plain patterns whose occurrences overlap in the value (every pair of shapes over
    // the needles a, b, ab, ba; every string over {a, b} up to length 3)
    {
        let mut pats: Vec<String> = vec![];
        for x in ["a", "b", "ab", "ba"] {
            pats.push(x.to_string());
            pats.push(format!("{}*", x));
            pats.push(format!("*{}", x));
            pats.push(format!("*{}*", x));
        }
        let mut strs: Vec<String> = vec![String::new()];
        let mut frontier = vec![String::new()];
        for _ in 0..3 {
            let mut next = vec![];
            for t in &frontier {
                for ch in ["a", "b"] {
                    next.push(format!("{}{}", t, ch));
                }
            }
            strs.extend(next.iter().cloned());
            frontier = next;
        }
        let odocs: Vec<Yaml> = strs.iter().map(|v| map1("s", ys(v))).collect();
        for i in 0..pats.len() {
            for j in (i + 1)..pats.len() {
                let body = map1("s", Yaml::Sequence(vec![ys(&pats[i]), ys(&pats[j])]));
                fixed.push((vec![("A".into(), body)], gen::Cond::Id("A".into()), odocs.clone()));
            }
        }
    }
    // keys that are paths against documents that hold a field NAMED like the path; float equality
    // between neighbouring doubles
    {
        let y = |t: &str| -> Yaml { serde_yaml::from_str(t).expect("yaml") };
        let pdocs: Vec<Yaml> = vec![
            y("{'proc.name': very evil}"), y("{proc: {name: evil}}"), y("{proc: {name: good}, 'proc.name': evil}"), y("{proc: {name: evil}, 'proc.name': good}"),
            y("{args: [w, x]}"), y("{'args[1]': x}"), y("{args: [w, y], 'args[1]': x}"), y("{event: {'user.id': 0}}"), y("{event: {user: {id: 0}}}"),
            y("{event: {user: {id: 1}, 'user.id': 0}}"), y("{}"),
        ];
        for body in ["{proc.name: '*evil*'}", "{'args[1]': x}", "{event: {user.id: 0}}", "{proc.name: '*evil*', 'args[1]': x}", "[{proc.name: evil}, {event: {user.id: 0}}]"] {
            for cond in [gen::Cond::Id("A".into()), gen::Cond::Not(Box::new(gen::Cond::Id("A".into())))] {
                fixed.push((vec![("A".into(), y(body))], cond, pdocs.clone()));
            }
        }
        let fl = |x: f64| -> Yaml { map1("r", Yaml::Number(x.into())) };
        let fdocs: Vec<Yaml> = vec![fl(0.1 + 0.2), fl(0.3), fl(1e-300), fl(-2.5e-17), fl(0.0), fl(-0.0), fl(0.1), fl(f64::from_bits(0.1f64.to_bits() + 1)), fl(1.0), fl(1.0 + f64::EPSILON),
            fl(f64::INFINITY), fl(f64::NEG_INFINITY), fl(1e300), map1("r", ys("0.3")), map1("r", Yaml::Number(0u64.into()))];
        for body in ["{r: 0.3}", "{r: '=0.3'}", "{r: 0.0}", "{r: 0.1}", "{r: 1.0}", "{r: [0.3, 7.5]}", "{not(r): 0.1}", "{r: .inf}", "{r: '>=0.3'}", "{r: '<=0.3'}", "{flt(r): '=0.3'}"] {
            for cond in [gen::Cond::Id("A".into()), gen::Cond::Not(Box::new(gen::Cond::Id("A".into())))] {
                fixed.push((vec![("A".into(), y(body))], cond, fdocs.clone()));
            }
        }
    }
    // numeric predicates on a bare field against unsigned values beyond i64::MAX
    {
        let y = |t: &str| -> Yaml { serde_yaml::from_str(t).expect("yaml") };
        let udocs: Vec<Yaml> = vec![y("{n: 18446744073709551615}"), y("{n: 9223372036854775808}"), y("{n: 9223372036854775807}"), y("{n: 100}"), y("{n: 5}"), y("{n: -1}"), y("{n: '18446744073709551615'}"), y("{}")];
        for body in ["{n: '>100'}", "{n: '>=5'}", "{n: '<100'}", "{n: '<=9223372036854775807'}", "{n: '>9223372036854775807'}", "{n: 18446744073709551615}", "{n: '=18446744073709551615'}", "{n: [5, 18446744073709551615]}", "{not(n): '>100'}"] {
            for cond in [gen::Cond::Id("A".into()), gen::Cond::Not(Box::new(gen::Cond::Id("A".into())))] {
                fixed.push((vec![("A".into(), y(body))], cond, udocs.clone()));
            }
        }
    }
    let n_fixed = fixed.len();
    for i in 0..n + n_fixed {
        let mut r = Rng::new(ctx.seed.wrapping_mul(6151).wrapping_add(i as u64));
        // build the case keeping the condition AST
        let n_ids = 1 + r.below(3);
        let names = ["A", "B", "C"];
        let mut det: Vec<(String, Yaml)> = vec![];
        for name in names.iter().take(n_ids) {
            det.push((name.to_string(), gen::gen_identifier(&mut r)));
        }
        let idn: Vec<String> = det.iter().map(|(k, _)| k.clone()).collect();
        let mut cond = gen::gen_cond(&mut r, &idn, 0);
        let mut docs: Vec<Yaml> = (0..5).map(|_| gen::gen_doc(&mut r)).collect();
        if i >= n {
            let (d, c2, ds) = fixed[i - n].clone();
            det = d;
            cond = c2;
            docs = ds;
        }
        let text = gen::print_cond(&cond, &mut r, 10);
        let ids = det.clone();
        det.push(("condition".into(), ys(&text)));
        let c = CaseReq { optimised: false, det, tps: vec![], tns: vec![], docs: docs.clone(), masks: vec![0] };
        let (ex, parsed) = run_rule_case(ctx, &c, false);
        let p = match parsed {
            Some(p) if p.load == "ok" => p,
            _ => continue,
        };
        let got: Vec<String> = p.masks[0].res.iter().map(|(t, _)| t.clone()).collect();
        for (j, d) in docs.iter().enumerate() {
            match eval_cond(&cond, &ids, d) {
                Err(_) => unsupported += 1,
                Ok(want) => {
                    compared += 1;
                    ctx.nontrivial.insert(hash_str(&format!("{}{}", ex.line, j)));
                    // the verdict must agree; where the reference is three-valued so must the result
                    if got[j] != want.name() {
                        let shape = format!("{} {}", p.expr, p.ids);
                        let ry = rule_yaml(&c);
                        let verdict_differs = (got[j] == "T") != (want == Tri::T);
                        // would the reference agree if all() combined its members in the engine's
                        // batching order instead of the written order?
                        ENGINE_ORDER.with(|f| f.set(true));
                        let reordered = eval_cond(&cond, &ids, d).ok();
                        ENGINE_ORDER.with(|f| f.set(false));
                        let member_order = reordered.map(|w| w.name() == got[j]).unwrap_or(false);
                        match known_shape(&shape) {
                            Some(fam) if ex.agree && ex.supported && known.has_family("C02", fam) => {
                                *ctx.known_hits.entry(format!("random:{}", fam)).or_insert(0) += 1;
                            }
                            _ if member_order && ex.agree && ex.supported && known.has_family("C02", "C02-member-order") => {
                                *ctx.known_hits.entry("random:C02-member-order".to_string()).or_insert(0) += 1;
                            }
                            _ => {
                                ctx.violation(
                                    "oracle",
                                    &format!("document {}: engine gives {} but the rule language defines {} (verdict differs: {})", serde_yaml::to_string(d).unwrap_or_default().replace('\n', " "), got[j], want.name(), verdict_differs),
                                    &ex, &ry, true);
                            }
                        }
                        break;
                    }
                }
            }
        }
        if ctx.samples.len() < 6 {
            ctx.sample(json!({"rule": rule_yaml(&c), "engine": got}));
        }
    }
    ctx.stats.insert("reference-unsupported-shapes".into(), unsupported);
    ctx.stats.insert("documents-compared".into(), compared);
    // recorded witnesses of the listed findings
    for f in known.for_prop("C02") {
        for (name, c) in corpus_cases() {
            if f.witnesses.iter().any(|w| *w == name) {
                let (ex, p) = run_rule_case(ctx, &c, false);
                if let Some(p) = p {
                    if p.load != "ok" || !ex.agree {
                        continue;
                    }
                    let shape = format!("{} {}", p.expr, p.ids);
                    if known_shape(&shape) == Some(f.family.as_str()) {
                        *ctx.known_hits.entry(f.id.clone()).or_insert(0) += 1;
                    } else if f.family == "C02-member-order" {
                        // the witness must still disagree with the written-order reference and
                        // agree with the batching-order one
                        let ids: Vec<(String, Yaml)> = c.det.iter().filter(|(k, _)| k != "condition").cloned().collect();
                        let text = c.det.iter().find(|(k, _)| k == "condition").and_then(|(_, v)| v.as_str()).unwrap_or("").to_string();
                        if let Some(cond) = simple_cond(&text) {
                            for (j, d) in c.docs.iter().enumerate() {
                                let got = p.masks[0].res[j].0.clone();
                                let want = eval_cond(&cond, &ids, d).ok().map(|t| t.name().to_string());
                                ENGINE_ORDER.with(|fl| fl.set(true));
                                let re = eval_cond(&cond, &ids, d).ok().map(|t| t.name().to_string());
                                ENGINE_ORDER.with(|fl| fl.set(false));
                                if want.as_deref() != Some(got.as_str()) && re.as_deref() == Some(got.as_str()) {
                                    *ctx.known_hits.entry(f.id.clone()).or_insert(0) += 1;
                                }
                            }
                        }
                    }
                }
            }
        }
    }
}
