mod case;
mod check;
mod driver;
mod known;
mod props;
mod spec;
mod suites;
mod suites2;
mod suites3;
mod gen;
mod implside;
mod sx;

use std::io::{BufRead, Write};

use gen::Rng;
use implside::CaseReq;
use serde_yaml::Value as Yaml;

fn serve() {
    let stdin = std::io::stdin();
    let stdout = std::io::stdout();
    let mut out = stdout.lock();
    for line in stdin.lock().lines() {
        let line = match line {
            Ok(l) => l,
            Err(_) => break,
        };
        let reply = implside::handle(line.trim());
        let _ = writeln!(out, "{}", reply);
        let _ = out.flush();
    }
}

pub fn gen_case(r: &mut Rng) -> CaseReq {
    check::gen_case(r, (0..16).collect(), 4)
}

fn first_diff(a: &str, b: &str) -> String {
    let sa: Vec<&str> = a.split(" ; ").collect();
    let sb: Vec<&str> = b.split(" ; ").collect();
    for i in 0..sa.len().max(sb.len()) {
        let x = sa.get(i).unwrap_or(&"<none>");
        let y = sb.get(i).unwrap_or(&"<none>");
        if x != y {
            return format!("segment {}:\n  impl : {}\n  model: {}", i, x, y);
        }
    }
    "equal".into()
}

fn diff(seed: u64, n: usize) {
    let mut drv = driver::Driver::spawn().expect("driver");
    let mut stats = std::collections::BTreeMap::<String, usize>::new();
    let mut bad = 0;
    for i in 0..n {
        let mut r = Rng::new(seed.wrapping_mul(1_000_003).wrapping_add(i as u64));
        let c = gen_case(&mut r);
        let line = case::case_line(false, &c);
        let imp = implside::handle(&line);
        let model = drv.ask(&line);
        let key = if imp.starts_with("load=ok") { "load=ok".to_string() } else { imp.chars().take(40).collect() };
        *stats.entry(key).or_insert(0) += 1;
        if model.starts_with("unsupported") {
            *stats.entry("model-unsupported".into()).or_insert(0) += 1;
            continue;
        }
        if std::env::var("TAU_SHOW").is_ok() && i < 3 {
            println!("{}", serde_yaml::to_string(&implside::rule_value(&c)).unwrap());
            println!("IMPL  {}", imp);
            println!("MODEL {}", model);
        }
        // C01 oracle on the implementation reply
        if imp.starts_with("load=ok") {
            let segs: Vec<&str> = imp.split(" ; ").collect();
            let res: Vec<(&str, Vec<bool>)> = segs.iter().filter(|s| s.starts_with("res")).map(|s| {
                let (name, body) = s.split_once('=').unwrap();
                (name, body.split(' ').map(|d| d.starts_with('T')).collect())
            }).collect();
            let base = res[0].1.clone();
            let mut failing = vec![];
            for (name, v) in &res { if *v != base { failing.push(*name); } }
            if !failing.is_empty() {
                *stats.entry(format!("C01-fail {:?}", failing)).or_insert(0) += 1;
                if std::env::var("TAU_SHOW01").is_ok() { println!("C01 FAIL {:?}\n{}\n{}", failing, serde_yaml::to_string(&implside::rule_value(&c)).unwrap(), segs.iter().filter(|s| s.starts_with("res") || s.starts_with("opt")).map(|s| s.to_string()).collect::<Vec<_>>().join("\n")); }
            }
            let trivial = res.iter().all(|(_, v)| v.iter().all(|b| !*b));
            if trivial { *stats.entry("all-docs-nomatch".into()).or_insert(0) += 1; }
            if imp.contains("PANIC") { *stats.entry("PANIC".into()).or_insert(0) += 1; }
        }
        if imp != model {
            bad += 1;
            if bad <= 5 {
                println!("DISAGREE case {} seed {}", i, seed);
                println!("{}", serde_yaml::to_string(&implside::rule_value(&c)).unwrap());
                println!("{}", first_diff(&imp, &model));
            }
        }
    }
    println!("cases {} disagreements {}", n, bad);
    for (k, v) in stats {
        println!("  {:6} {}", v, k);
    }
}

fn run_check(prop: &str, tier: &str, seed: u64, out: &str) -> i32 {
    let start = std::time::Instant::now();
    let known = known::Known::load();
    let mut ctx = check::Ctx::new(prop, tier, seed);
    let rule: &str = match prop {
        "C01" => { props::run_c01(&mut ctx, &known); "corpus witnesses + random rules (type-directed generator: mappings, sequences, nested mappings, key modifiers, every pattern kind; conditions with and/or/not/all/of/casts) x 16 switch masks x 4 generated documents; non-trivial = the unoptimised rule matches some but not all of its documents; distinct = distinct request lines" }
        "C03" => { props::run_c03(&mut ctx, &known); "corpus + random rules x 16 masks x generated and adversarial documents (wrong kinds, empty containers, depth-40 nesting, 64-bit extremes, NaN) and malformed example lists; non-trivial = the rule loaded (so optimise/match/validate actually ran)" }
        "C04" => { props::run_c04(&mut ctx, &known); "every string up to length 3 over a special-character alphabet (exhaustive) and random keyword-adjacent / multi-byte strings, each as condition, pattern, list member, mapping key; plus rules with YAML shapes mutated in every position; non-trivial = the input was accepted by its layer" }
        "C13" => { props::run_c13(&mut ctx, &known); "random rules x example lists (matching, non-matching, empty mapping, scalars, sequences, null) x masks {0,15,2,9}; oracle: failing examples named by validate() == those implied by matches(); non-trivial = at least one example present" }
        "C16" => { props::run_c16(&mut ctx, &known); "random rules x 16 masks x pairs of documents differing only in unaddressed fields; recording Document; non-trivial = the engine asked at least one key" }
        "C02" => { spec::run_c02(&mut ctx, &known); "random rules (type-directed generator, all key modifiers and pattern kinds) x 5 generated documents; oracle: an independent reference interpreter of the rule language working from the YAML and the document value (three-valued); shapes the reference does not define (odd keys, cast/kind combinations the loader rejects) are skipped and counted; non-trivial = distinct (rule, document) compared" }
        "C05" => { suites::run_c05(&mut ctx, &known); "every condition AST up to 5 nodes (6 in thorough) over identifiers / all() / of() / cast comparisons, printed minimally, fully parenthesised, with random redundant parentheses and spacing, plus keyword-prefixed identifier names and random larger conditions; oracle: parsed tree == tree dictated by the grammar, verdicts equal across variants for all 27 true/false/missing assignments; non-trivial = distinct condition text that loads" }
        "C06" => { suites::run_c06(&mut ctx, &known); "every connective form (binary chain, mapping, sequence, not, all/of over identifier, all/of/list over key) x arity 1..4 x every operand vector in {T,F,M}^k x thresholds 0..k+1, operands realised as one-field predicates, results observed three-valued; complete enumeration; non-trivial = distinct (form, operand vector)" }
        "C07" => { suites::run_c07(&mut ctx, &known); "every needle up to length 2 (3 thorough) and haystack up to length 3 (4) over {a,b,A} x {exact, prefix, suffix, contains, quoted} x i-prefix, singly and in lists of 2, regexes, plus random lists of 2-4 mixed members on longer/multi-byte strings; oracle = std string relation / regex crate; non-trivial = distinct (pattern list, string)" }
        "C09" => { suites::run_c09(&mut ctx, &known); "operator x constant x field value over boundary sets (i64::MIN..u64::MAX, +-0.0, fractions, huge doubles, NaN, inf, numeric and non-numeric strings, booleans, null, containers) completely, plus random 64-bit patterns; oracle = exact integer/rational comparison; casts int()/flt()/str(); non-trivial = distinct (operator, constant, value)" }
        "C10" => { suites::run_c10(&mut ctx, &known); "all paths up to depth 3 (4 thorough) over names {a,b} with optional index 0/1 x documents {a: V, b: 7} for every small shape V (scalars, empty containers, objects, arrays, nested) against a structural resolver; random key strings for totality; nested mapping vs dotted key; nested mapping over arrays of objects; non-trivial = distinct find request" }
        "C17" => { suites::run_c17(&mut ctx, &known); "random operand sets (mapping entries, sequences of mappings, list members, and/or chains in the condition) of size 2..4 x all permutations x 5 documents x masks {0,15}; oracle: truth invariant (and) / three-valued result invariant (or); non-trivial = distinct loaded rule" }
        "C08" => { suites2::run_c08(&mut ctx, &known); "member lists of length 1..4 (5 thorough) over strings of every shape / regexes / numbers and numeric patterns / booleans / nested mappings x plain list, all(k), of(k,n), all(X), of(X,n) for n = 0..len+1 x 6 documents with scalar or object fields; oracle: the same rule written out with one-member rules and explicit counting; non-trivial = distinct (form, members, document)" }
        "C11" => { suites2::run_c11(&mut ctx, &known); "Rust scalar/container types -> value kind table (signedness, Option, Vec, HashSet), and random rules x {unoptimised, optimised} x documents (generated + 64-bit extremes) rendered as YAML mapping, serde_json value, HashMap<String, serde_json::Value>, HashMap<String, custom AsValue>, hand-written Object, hand-written Document; oracle: identical verdicts; non-trivial = distinct (rule, document, variant)" }
        "C12" => { suites2::run_c12(&mut ctx, &known); "random rules: reply of a fresh process == in-process reply; 12 repeated optimise() calls print identically; 16 threads sharing one optimised rule, each matching the documents 3 times in a different order, all agree with the single-threaded verdicts; rule prints the same after matching; non-trivial = distinct loaded rule" }
        "C14" => { suites2::run_c14(&mut ctx, &known); "random rules + quoting-sensitive pattern strings: serde_yaml::to_string(rule) -> Rule::from_str for the plain rule, the fully optimised rule and the rule optimised without coalesce: same condition/identifier trees, same examples, same verdicts on 4 documents; from_str(text) == from_value(value); non-trivial = distinct loaded rule" }
        "C15" => { suites2::run_c15(&mut ctx, &known); "random rules over ASCII patterns: harness built with feature ignore_case on rule R vs default build on R with i prepended to every string pattern (and vs the model with icFeature = true): same trees and three-valued results on 4 documents x masks {0,15}; non-trivial = distinct rule that loads" }
        _ => { eprintln!("unknown property {}", prop); return 2; }
    };
    let wall = start.elapsed().as_secs_f64();
    // replays + lines
    let mut exit = 0;
    let _ = std::fs::create_dir_all("/verif/replays");
    for i in 0..50 {
        // the early copies are only for runs that die before this point
        let _ = std::fs::remove_file(format!("/verif/replays/{}_{}_early{}.json", prop, seed, i));
    }
    // correspondence disagreements without an oracle failure: no failing input found
    let oracle_fail = ctx.violations.iter().any(|v| v.kind != "correspondence");
    let mut printed = 0;
    if std::env::var("TAU_DEBUG").is_ok() {
        for v in &ctx.violations {
            eprintln!("[{}] {}\n{}", v.kind, check::trunc(&v.what, 1200), check::trunc(&v.rule_yaml, 1500));
        }
    }
    for (i, v) in ctx.violations.iter().enumerate() {
        if v.kind == "correspondence" && oracle_fail {
            continue; // the oracle failure is the replay
        }
        if printed >= 3 {
            break;
        }
        printed += 1;
        exit = 1;
        let path = format!("/verif/replays/{}_{}_{}.json", prop, seed, i);
        let body = serde_json::json!({
            "property": prop, "kind": v.kind, "what": v.what, "request": v.line,
            "implementation_reply": v.imp, "model_reply": v.model, "rule_or_input": v.rule_yaml,
            "no_longer_checks": if v.kind == "correspondence" { "correspondence model(Lean) == implementation on this request (theorems about the model no longer speak about this code)" } else { "" },
        });
        let _ = std::fs::write(&path, serde_json::to_string_pretty(&body).unwrap());
        if v.kind == "correspondence" {
            println!("VIOLATION property={} replay={} no-failing-input-found", prop, path);
        } else {
            println!("VIOLATION property={} replay={}", prop, path);
        }
        eprintln!("  {}", check::trunc(&v.what, 600));
    }
    for f in known.for_prop(prop) {
        if ctx.known_hits.get(&f.id).copied().unwrap_or(0) > 0 {
            let more = ctx.known_hits.get(&format!("random:{}", f.family)).copied().unwrap_or(0);
            println!(
                "KNOWN-FINDING: property={} {} [{}; site: {}; witness corpus case '{}' reproduced; {} generated cases fell in family {}]",
                prop, f.what, f.id, f.site, f.witness, more, f.family
            );
        }
    }
    let ev = check::evidence_json(&ctx, wall, rule, serde_json::json!({}));
    let _ = std::fs::write(out, serde_json::to_string_pretty(&ev).unwrap());
    exit
}

fn main() {
    let args: Vec<String> = std::env::args().collect();
    match args.get(1).map(|s| s.as_str()) {
        Some("serve") => serve(),
        Some("diff") => {
            let seed: u64 = args.get(2).and_then(|s| s.parse().ok()).unwrap_or(1);
            let n: usize = args.get(3).and_then(|s| s.parse().ok()).unwrap_or(200);
            diff(seed, n)
        }
        Some("replay") => {
            // one request line on stdin: answer it with the implementation and with the model
            let mut line = String::new();
            let _ = std::io::stdin().read_line(&mut line);
            let line = line.trim_end_matches(|c| c == '\n' || c == '\r').to_string();
            if line.is_empty() || line.starts_with("text-vs-value") || line.starts_with("optimised-vs-reloaded") {
                println!("this replay has no protocol request; its input is the `rule_or_input` field of the replay file");
                std::process::exit(0);
            }
            let imp = implside::handle(&line);
            println!("implementation: {}", imp);
            match driver::Driver::spawn() {
                Ok(mut d) => {
                    let model = d.ask(&line);
                    println!("model         : {}", model);
                    if model.is_empty() || model.starts_with("unsupported") || line.starts_with("loadtext") {
                        println!("(implementation-only request)");
                        std::process::exit(if imp.starts_with("PANIC") { 1 } else { 0 });
                    }
                    if imp == model {
                        println!("replies agree");
                        std::process::exit(0);
                    } else {
                        println!("replies DIFFER: {}", check::first_diff(&imp, &model));
                        std::process::exit(1);
                    }
                }
                Err(e) => {
                    println!("cannot start the Lean driver: {}", e);
                    std::process::exit(2);
                }
            }
        }
        Some("check") => {
            let prop = args.get(2).cloned().unwrap_or_default();
            let tier = args.get(3).cloned().unwrap_or_else(|| "quick".into());
            let seed: u64 = args.get(4).and_then(|s| s.parse().ok()).unwrap_or(1);
            let out = args.get(5).cloned().unwrap_or_else(|| "/dev/stdout".into());
            std::process::exit(run_check(&prop, &tier, seed, &out));
        }
        _ => eprintln!("usage: tauh serve | diff <seed> <n> | check <Cnn> <tier> <seed> <out.json> | replay (request line on stdin)"),
    }
}
