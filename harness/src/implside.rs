//! The implementation side of the line protocol: answers the same requests as the Lean driver by
//! calling the real engine in-process. Every request runs under `catch_unwind`.

use std::sync::Mutex;
use std::collections::HashMap;
use std::panic::{catch_unwind, AssertUnwindSafe};

use serde_yaml::{Mapping, Value as Yaml};
use tau_engine::core::optimiser::Optimisations;
use tau_engine::core::parser::{Expression, IdentifierParser, Pattern, Tokeniser};
use tau_engine::{Document, Object, Rule, Value};

use crate::sx::{self, Sx};

pub struct Rec<'a> {
    pub inner: &'a Mapping,
    pub log: Mutex<Vec<String>>,
}

impl Document for Rec<'_> {
    fn find(&self, key: &str) -> Option<Value<'_>> {
        self.log.lock().unwrap().push(key.to_string());
        Object::find(self.inner, key)
    }
}

pub fn err_kind(e: &tau_engine::Error) -> String {
    let d = format!("{:?}", e.kind());
    // e.g. Token(InvalidCharacter), Parse(InvalidIdentifier), Rule, Validation
    match d.as_str() {
        "Token(InvalidCharacter)" => "TokInvalidChar".into(),
        "Token(InvalidNumber)" => "TokInvalidNum".into(),
        "Parse(InvalidIdentifier)" => "ParseInvalidIdent".into(),
        "Parse(InvalidExpression)" => "ParseInvalidExpr".into(),
        "Parse(InvalidToken)" => "ParseInvalidToken".into(),
        "Parse(LedFollowing)" => "ParseLedFollowing".into(),
        "Parse(LedPreceding)" => "ParseLedPreceding".into(),
        other => other.to_string(),
    }
}

/// Coarse class of a rule-load error, from its message (rule.rs:60-141).
pub fn load_err_class(e: &tau_engine::Error) -> String {
    let m = e.to_string();
    let class = if m.contains("duplicate field") || m.contains("duplicate entry") {
        "duplicate"
    } else if m.contains("failed to parse identifier") {
        "identifier"
    } else if m.contains("missing field `condition`") {
        "missing-condition"
    } else if m.contains("failed to tokenise") {
        "tokenise"
    } else if m.contains("identifier not found") {
        "identifier-not-found"
    } else if m.contains("condition, failed to parse") {
        "parse"
    } else if m.contains("not solveable") {
        "not-solvable"
    } else if m.contains("invalid type") {
        "condition-type"
    } else {
        "other"
    };
    format!("Rule:{}", class)
}

pub fn tri(expr: &Expression, ids: &HashMap<String, Expression>, doc: &dyn Document) -> &'static str {
    if tau_engine::core::solve_expression(expr, ids, doc) {
        return "T";
    }
    let neg = Expression::Negate(Box::new(expr.clone()));
    if tau_engine::core::solve_expression(&neg, ids, doc) {
        "F"
    } else {
        "M"
    }
}

pub fn ids_sx(ids: &HashMap<String, Expression>) -> String {
    let mut keys: Vec<&String> = ids.keys().collect();
    keys.sort();
    let parts: Vec<String> = keys
        .iter()
        .map(|k| format!("({} {})", sx::enc(k), sx::expr_sx(&ids[*k])))
        .collect();
    format!("({})", parts.join(" "))
}

pub fn opts(mask: u64) -> Optimisations {
    Optimisations {
        coalesce: mask & 1 != 0,
        shake: mask & 2 != 0,
        rewrite: mask & 4 != 0,
        matrix: mask & 8 != 0,
    }
}

pub struct CaseReq {
    pub optimised: bool,
    pub det: Vec<(String, Yaml)>,
    pub tps: Vec<Yaml>,
    pub tns: Vec<Yaml>,
    pub docs: Vec<Yaml>,
    pub masks: Vec<u64>,
}

pub fn rule_value(c: &CaseReq) -> Yaml {
    let mut det = Mapping::new();
    for (k, v) in &c.det {
        det.insert(Yaml::String(k.clone()), v.clone());
    }
    let mut r = Mapping::new();
    if c.optimised {
        r.insert(Yaml::String("optimised".into()), Yaml::Bool(true));
    }
    r.insert(Yaml::String("detection".into()), Yaml::Mapping(det));
    r.insert(
        Yaml::String("true_positives".into()),
        Yaml::Sequence(c.tps.clone()),
    );
    r.insert(
        Yaml::String("true_negatives".into()),
        Yaml::Sequence(c.tns.clone()),
    );
    Yaml::Mapping(r)
}

/// Indices of the failing examples, computed from `validate()`'s own error text: the text lists
/// one message per failing example, true positives first.
pub fn validate_summary(rule: &Rule) -> String {
    match rule.validate() {
        Ok(_) => "tp[]tn[]".to_string(),
        Err(e) => {
            let msg = e.to_string();
            let body = msg
                .strip_prefix("failed to validate rule: ")
                .unwrap_or(&msg)
                .to_string();
            let is_map = |t: &Yaml| t.as_mapping().is_some();
            let mut tp = vec![];
            let mut parts = vec![];
            for (i, t) in rule.true_positives.iter().enumerate() {
                let a = format!("failed to validate true positive check '{:?}'", t);
                if body.contains(&a) {
                    tp.push(i);
                    parts.push(if is_map(t) { a } else { format!("{}, expected a mapping", a) });
                }
            }
            let mut tn = vec![];
            for (i, t) in rule.true_negatives.iter().enumerate() {
                let a = format!("failed to validate true negative check '{:?}'", t);
                if body.contains(&a) {
                    tn.push(i);
                    parts.push(if is_map(t) { a } else { format!("{}, expected a mapping", a) });
                }
            }
            // the text must be exactly the messages of the failing examples, in order
            if parts.join(";") != body {
                return format!("tp{:?}tn{:?}-text-mismatch", tp, tn);
            }
            format!("tp{:?}tn{:?}", tp, tn)
        }
    }
}

pub fn handle_case(c: &CaseReq) -> String {
    let rule = match Rule::from_value(rule_value(c)) {
        Ok(r) => r,
        Err(e) => return format!("load=err {}", load_err_class(&e)),
    };
    let mut out = format!(
        "load=ok ; expr={} ; ids={}",
        sx::expr_sx(&rule.detection.expression),
        ids_sx(&rule.detection.identifiers)
    );
    for m in &c.masks {
        let o = if *m == 0 {
            rule.clone()
        } else {
            rule.clone().optimise(opts(*m))
        };
        out.push_str(&format!(
            " ; opt{}={} {}",
            m,
            sx::expr_sx(&o.detection.expression),
            ids_sx(&o.detection.identifiers)
        ));
        let mut per_doc = vec![];
        for d in &c.docs {
            match d.as_mapping() {
                Some(map) => {
                    let rec = Rec {
                        inner: map,
                        log: Mutex::new(vec![]),
                    };
                    let verdict = o.matches(&rec);
                    let trace: Vec<String> = rec.log.lock().unwrap().iter().map(|k| sx::enc(k)).collect();
                    let t = tri(&o.detection.expression, &o.detection.identifiers, map);
                    // `matches` and the three-valued observation must agree
                    let t = if (t == "T") != verdict { "INCONSISTENT" } else { t };
                    per_doc.push(format!("{}[{}]", t, trace.join(",")));
                }
                None => per_doc.push("baddoc".into()),
            }
        }
        out.push_str(&format!(" ; res{}={}", m, per_doc.join(" ")));
        out.push_str(&format!(" ; val{}={}", m, validate_summary(&o)));
    }
    out
}

pub fn pat_sx(i: &tau_engine::core::parser::Identifier) -> String {
    let p = match &i.pattern {
        Pattern::Any => "any".to_string(),
        Pattern::Contains(s) => format!("(contains {})", sx::enc(s)),
        Pattern::EndsWith(s) => format!("(ends {})", sx::enc(s)),
        Pattern::Exact(s) => format!("(exact {})", sx::enc(s)),
        Pattern::StartsWith(s) => format!("(starts {})", sx::enc(s)),
        Pattern::Regex(r) => format!("(regex {})", sx::enc(r.as_str())),
        Pattern::Equal(n) => format!("(cmpi eq {})", n),
        Pattern::GreaterThan(n) => format!("(cmpi gt {})", n),
        Pattern::GreaterThanOrEqual(n) => format!("(cmpi ge {})", n),
        Pattern::LessThan(n) => format!("(cmpi lt {})", n),
        Pattern::LessThanOrEqual(n) => format!("(cmpi le {})", n),
        Pattern::FEqual(x) => format!("(cmpf eq {})", x.to_bits()),
        Pattern::FGreaterThan(x) => format!("(cmpf gt {})", x.to_bits()),
        Pattern::FGreaterThanOrEqual(x) => format!("(cmpf ge {})", x.to_bits()),
        Pattern::FLessThan(x) => format!("(cmpf lt {})", x.to_bits()),
        Pattern::FLessThanOrEqual(x) => format!("(cmpf le {})", x.to_bits()),
    };
    format!("{} {}", i.ignore_case, p)
}

pub fn value_sx(v: &Value) -> String {
    match v {
        Value::Null => "null".into(),
        Value::Bool(b) => format!("{}", b),
        Value::Float(f) => format!("(f {})", f.to_bits()),
        Value::Int(i) => format!("(i {})", i),
        Value::UInt(u) => format!("(u {})", u),
        Value::String(s) => sx::enc(s),
        Value::Array(a) => {
            let parts: Vec<String> = a.iter().map(|x| value_sx(&x)).collect();
            format!("(arr {})", parts.join(" "))
        }
        Value::Object(o) => {
            // key order of a serde_yaml mapping is insertion order
            let parts: Vec<String> = o
                .keys()
                .iter()
                .filter_map(|k| o.get(k).map(|v| format!("(kv {} {})", sx::enc(k), value_sx(&v))))
                .collect();
            format!("(obj {})", parts.join(" "))
        }
    }
}

pub fn parse_case(xs: &[Sx]) -> Option<CaseReq> {
    // case ic (rule opt (det (kv k v)..) (tp ..) (tn ..)) (docs ..) (masks ..) (regex ..)
    let rule = match xs.get(2)? {
        Sx::List(r) => r,
        _ => return None,
    };
    let optimised = sx::atom(rule.get(1)?)? == "true";
    let mut det = vec![];
    if let Sx::List(d) = rule.get(2)? {
        for kv in &d[1..] {
            if let Sx::List(p) = kv {
                det.push((sx::dec(sx::atom(&p[1])?)?, sx::sx_yaml(&p[2])?));
            }
        }
    }
    let list_of = |x: &Sx, f: &dyn Fn(&Sx) -> Option<Yaml>| -> Option<Vec<Yaml>> {
        if let Sx::List(l) = x {
            l[1..].iter().map(|y| f(y)).collect()
        } else {
            None
        }
    };
    let tps = list_of(rule.get(3)?, &sx::sx_yaml)?;
    let tns = list_of(rule.get(4)?, &sx::sx_yaml)?;
    let docs = list_of(xs.get(3)?, &sx::sx_doc)?;
    let masks = if let Sx::List(l) = xs.get(4)? {
        l[1..]
            .iter()
            .map(|m| sx::atom(m).and_then(|a| a.parse::<u64>().ok()))
            .collect::<Option<Vec<u64>>>()?
    } else {
        return None;
    };
    Some(CaseReq {
        optimised,
        det,
        tps,
        tns,
        docs,
        masks,
    })
}

fn handle_inner(line: &str) -> String {
    let xs = match sx::parse(line) {
        Some(x) => x,
        None => return "bad-request".into(),
    };
    let head = match xs.first().and_then(sx::atom) {
        Some(h) => h.to_string(),
        None => return "bad-request".into(),
    };
    match head.as_str() {
        "tok" => {
            let s = match xs.get(1).and_then(sx::atom).and_then(sx::dec) {
                Some(s) => s,
                None => return "bad-request".into(),
            };
            match s.tokenise() {
                Ok(ts) => format!(
                    "ok {}",
                    ts.iter().map(sx::tok_sx).collect::<Vec<_>>().join(" ")
                ),
                Err(e) => format!("err {}", err_kind(&e)),
            }
        }
        "loadtext" => {
            // Rule::from_str on arbitrary text (also text that is not well-formed YAML)
            let s = match xs.get(1).and_then(sx::atom).and_then(sx::dec) {
                Some(s) => s,
                None => return "bad-request".into(),
            };
            match Rule::from_str(&s) {
                Ok(_) => "load=ok".into(),
                Err(e) => format!("load=err {}", load_err_class(&e)),
            }
        }
        "cond" => {
            // tokenise + Pratt parse: reach the (crate-private) parser through a one-identifier rule
            // is not possible for arbitrary identifiers, so use parse_identifier on a key instead
            // when the condition is a key; for full conditions the `case` request is used.
            "unsupported-on-impl".into()
        }
        "pat" => {
            let s = match xs.get(2).and_then(sx::atom).and_then(sx::dec) {
                Some(s) => s,
                None => return "bad-request".into(),
            };
            match s.into_identifier() {
                Ok(i) => format!("ok {}", pat_sx(&i)),
                Err(e) => format!("err {}", err_kind(&e)),
            }
        }
        "ident" => {
            let y = match xs.get(2).and_then(sx::sx_yaml) {
                Some(y) => y,
                None => return "bad-request".into(),
            };
            match tau_engine::core::parser::parse_identifier(&y) {
                Ok(e) => format!("ok {}", sx::expr_sx(&e)),
                Err(e) => format!("err {}", err_kind(&e)),
            }
        }
        "find" => {
            let d = match xs.get(1).and_then(sx::sx_doc) {
                Some(d) => d,
                None => return "bad-request".into(),
            };
            let k = match xs.get(2).and_then(sx::atom).and_then(sx::dec) {
                Some(k) => k,
                None => return "bad-request".into(),
            };
            match d.as_mapping() {
                Some(m) => match Object::find(m, &k) {
                    Some(v) => value_sx(&v),
                    None => "none".into(),
                },
                None => "none".into(),
            }
        }
        "case" => match parse_case(&xs) {
            Some(c) => handle_case(&c),
            None => "bad-request".into(),
        },
        _ => "bad-request".into(),
    }
}

/// Every request is answered twice: quietly, and with a `tracing` subscriber installed that enables
/// every level (the engine's `debug!` / `trace!` lines then evaluate and format their arguments).
/// What the engine does must not depend on whether anybody listens; a difference is reported as
/// the reply `LOGDIFF …`, which no model reply equals.
pub fn handle(line: &str) -> String {
    let quiet = handle_caught(line);
    if std::env::var("TAUH_NO_LOGPASS").is_ok() {
        return quiet;
    }
    let logged = tracing::subscriber::with_default(crate::suites2::AllOn, || handle_caught(line));
    if logged != quiet {
        let cut = |t: &str| -> String { t.chars().take(300).collect() };
        return format!("LOGDIFF quiet=[{}] logging=[{}]", cut(&quiet), cut(&logged));
    }
    quiet
}

fn handle_caught(line: &str) -> String {
    match catch_unwind(AssertUnwindSafe(|| handle_inner(line))) {
        Ok(s) => s,
        Err(p) => {
            let msg = if let Some(s) = p.downcast_ref::<&str>() {
                s.to_string()
            } else if let Some(s) = p.downcast_ref::<String>() {
                s.clone()
            } else {
                "?".to_string()
            };
            format!("PANIC {}", msg.replace('\n', " "))
        }
    }
}
